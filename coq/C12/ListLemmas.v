(* C12 — lemmas about the string primitives of Model.v (strip, squeeze, replace, split). *)
From Coq Require Import List NArith ZArith Bool Lia.
From MW Require Import Common.Str C12.Model.
Import ListNotations.
Open Scope N_scope.

(* ---------- lstrip / rstrip / strip ---------- *)
Lemma lstrip_app_all p e x : Forall (fun c => p c = true) e -> lstrip p (e ++ x) = lstrip p x.
Proof. induction 1 as [|c e Hc _ IH]; cbn; [reflexivity|]. rewrite Hc. exact IH. Qed.

Lemma lstrip_stop p c r : p c = false -> lstrip p (c :: r) = c :: r.
Proof. intros H. cbn. rewrite H. reflexivity. Qed.

Lemma lstrip_app_stop p u c v : p c = false -> lstrip p (u ++ c :: v) = lstrip p u ++ c :: v.
Proof.
  intros H. induction u as [|x u IH]; cbn.
  - rewrite H. reflexivity.
  - destruct (p x); [exact IH | reflexivity].
Qed.

Lemma lstrip_suffix p s : exists e, s = e ++ lstrip p s /\ Forall (fun c => p c = true) e.
Proof.
  induction s as [|c r IH]; cbn.
  - exists []. split; [reflexivity | constructor].
  - destruct (p c) eqn:E.
    + destruct IH as [e [H1 H2]]. exists (c :: e). split; [cbn; congruence | constructor; assumption].
    + exists []. split; [reflexivity | constructor].
Qed.

Lemma lstrip_all p e : Forall (fun c => p c = true) e -> lstrip p e = [].
Proof. intros H. rewrite <- (app_nil_r e). rewrite lstrip_app_all by exact H. reflexivity. Qed.

Lemma lstrip_head_false p s : match lstrip p s with [] => True | h :: _ => p h = false end.
Proof. induction s as [|c r IH]; cbn; [exact I|]. destruct (p c) eqn:E; [exact IH | exact E]. Qed.

Lemma Forall_rev_iff {A} (P : A -> Prop) l : Forall P l -> Forall P (rev l).
Proof. intros H. apply Forall_forall. intros x Hx. apply in_rev in Hx. rewrite Forall_forall in H. auto. Qed.

Lemma rstrip_app_all p x e : Forall (fun c => p c = true) e -> rstrip p (x ++ e) = rstrip p x.
Proof. intros H. unfold rstrip. rewrite rev_app_distr. rewrite lstrip_app_all by (apply Forall_rev_iff; exact H). reflexivity. Qed.

Lemma rstrip_mid p a c b : p c = false -> rstrip p (a ++ c :: b) = a ++ c :: rstrip p b.
Proof.
  intros H. unfold rstrip. rewrite rev_app_distr. cbn [rev]. rewrite <- app_assoc. cbn [app].
  rewrite lstrip_app_stop by exact H. rewrite rev_app_distr. cbn [rev]. rewrite rev_involutive.
  rewrite <- app_assoc. reflexivity.
Qed.

Lemma rstrip_snoc p a c : p c = false -> rstrip p (a ++ [c]) = a ++ [c].
Proof. intros H. rewrite rstrip_mid by exact H. reflexivity. Qed.

Lemma rstrip_all p e : Forall (fun c => p c = true) e -> rstrip p e = [].
Proof. intros H. unfold rstrip. rewrite lstrip_all by (apply Forall_rev_iff; exact H). reflexivity. Qed.

Lemma rstrip_nil p : rstrip p [] = [].
Proof. reflexivity. Qed.

Lemma rstrip_prefix p s : exists e, s = rstrip p s ++ e /\ Forall (fun c => p c = true) e.
Proof.
  destruct (lstrip_suffix p (rev s)) as [e [H1 H2]]. exists (rev e). split.
  - unfold rstrip. rewrite <- rev_app_distr, <- H1, rev_involutive. reflexivity.
  - apply Forall_rev_iff. exact H2.
Qed.

Lemma rstrip_last_false p s : match rev (rstrip p s) with [] => True | l :: _ => p l = false end.
Proof. unfold rstrip. rewrite rev_involutive. apply lstrip_head_false. Qed.

(* a string whose first and last characters are kept by p-stripping *)
Definition ends_ok (p : N -> bool) (s : str) : Prop :=
  match s with [] => True | h :: _ => p h = false end /\ match rev s with [] => True | l :: _ => p l = false end.

Lemma snoc_cases {A} (s : list A) : s = [] \/ exists a l, s = a ++ [l].
Proof. destruct (rev s) as [|l a] eqn:E.
  - left. apply (f_equal (@rev A)) in E. rewrite rev_involutive in E. exact E.
  - right. exists (rev a), l. apply (f_equal (@rev A)) in E. rewrite rev_involutive in E. exact E.
Qed.

Lemma strip_id p s : ends_ok p s -> strip p s = s.
Proof.
  intros [H1 H2]. unfold strip. destruct s as [|h r]; [reflexivity|].
  rewrite lstrip_stop by exact H1.
  destruct (snoc_cases (h :: r)) as [E|[a [l E]]]; [discriminate|]. rewrite E in *.
  rewrite rev_app_distr in H2. cbn in H2. apply rstrip_snoc. exact H2.
Qed.

Lemma strip_ends_ok p s : ends_ok p (strip p s).
Proof.
  unfold strip. split; [|apply rstrip_last_false].
  pose proof (lstrip_head_false p s) as H. destruct (rstrip_prefix p (lstrip p s)) as [e [E He]].
  destruct (rstrip p (lstrip p s)) as [|h r] eqn:R; [exact I|].
  rewrite E in H. cbn in H. exact H.
Qed.

Lemma ends_ok_app p a b : a <> [] -> b <> [] -> ends_ok p a -> ends_ok p b -> ends_ok p (a ++ b).
Proof.
  intros Ha Hb [A1 _] [_ B2]. split.
  - destruct a; [congruence|]. exact A1.
  - rewrite rev_app_distr. destruct (rev b) eqn:E; [|exact B2].
    apply (f_equal (@rev N)) in E. rewrite rev_involutive in E. cbn in E. congruence.
Qed.

Lemma ends_ok_cons_last p c a : p c = false -> match rev a with [] => True | l :: _ => p l = false end -> ends_ok p (c :: a).
Proof.
  intros Hc Ha. split; [exact Hc|]. cbn [rev]. destruct (rev a) as [|l r]; cbn; assumption.
Qed.

Lemma ends_ok_first p s : ends_ok p s -> match s with [] => True | h :: _ => p h = false end.
Proof. intros [H _]. exact H. Qed.
Lemma ends_ok_last p s : ends_ok p s -> match rev s with [] => True | l :: _ => p l = false end.
Proof. intros [_ H]. exact H. Qed.

Lemma last_app_ne {A} (a b : list A) : b <> [] -> forall d, last (a ++ b) d = last b d.
Proof. intros Hb d. induction a as [|x a IH]; [reflexivity|]. cbn [app]. rewrite <- IH.
  destruct (a ++ b) eqn:E; [|reflexivity]. destruct a; cbn in E; [congruence|discriminate]. Qed.

(* ---------- squeeze ---------- *)
Definition hd32 (s : str) : bool := match s with d :: _ => N.eqb d c_space | [] => false end.

Fixpoint sq (s : str) : bool :=
  match s with
  | [] => true
  | c :: r => negb (N.eqb c c_space && hd32 r) && sq r
  end.

Lemma squeeze_hd32 s : hd32 (squeeze s) = hd32 s.
Proof.
  induction s as [|c r IH]; [reflexivity|]. cbn [squeeze]. fold (hd32 r).
  destruct (N.eqb c c_space && hd32 r) eqn:E; [|reflexivity].
  apply andb_true_iff in E as [E1 E2]. rewrite IH, E2. cbn. rewrite E1. reflexivity.
Qed.

Lemma squeeze_sq s : sq (squeeze s) = true.
Proof.
  induction s as [|c r IH]; [reflexivity|]. cbn [squeeze]. fold (hd32 r).
  destruct (N.eqb c c_space && hd32 r) eqn:E; [exact IH|].
  cbn [sq]. rewrite squeeze_hd32, E, IH. reflexivity.
Qed.

Lemma sq_squeeze s : sq s = true -> squeeze s = s.
Proof.
  induction s as [|c r IH]; [reflexivity|]. cbn [sq squeeze]. fold (hd32 r). intros H.
  apply andb_true_iff in H as [H1 H2]. apply negb_true_iff in H1. rewrite H1, IH by exact H2. reflexivity.
Qed.

Lemma sq_app_inv a b : sq (a ++ b) = true -> sq a = true /\ sq b = true.
Proof.
  induction a as [|c r IH]; cbn [app sq]; [intros H; split; [reflexivity|exact H]|].
  intros H. apply andb_true_iff in H as [H1 H2]. destruct (IH H2) as [Ha Hb]. split; [|exact Hb].
  rewrite Ha, andb_true_r. apply negb_true_iff. apply negb_true_iff in H1.
  destruct (N.eqb c c_space); [|reflexivity]. cbn in *. destruct r; [reflexivity|exact H1].
Qed.

(* the boundary condition under which squeeze distributes over ++ *)
Definition last32 (s : str) : bool := match rev s with l :: _ => N.eqb l c_space | [] => false end.

Lemma last32_cons c r : r <> [] -> last32 (c :: r) = last32 r.
Proof.
  intros H. unfold last32. cbn [rev]. destruct (rev r) eqn:E; [|reflexivity].
  apply (f_equal (@rev N)) in E. rewrite rev_involutive in E. contradiction.
Qed.

Lemma squeeze_app a b : last32 a && hd32 b = false -> squeeze (a ++ b) = squeeze a ++ squeeze b.
Proof.
  induction a as [|c r IH]; [reflexivity|]. intros H.
  destruct r as [|d r'].
  - cbn [app squeeze]. unfold last32 in H. cbn in H. fold (hd32 b). rewrite H. cbn. rewrite andb_false_r. reflexivity.
  - rewrite last32_cons in H by discriminate. specialize (IH H).
    change ((c :: d :: r') ++ b) with (c :: (d :: r') ++ b). cbn [squeeze]. cbn [app]. fold (hd32 (d :: r')). cbn [hd32].
    change (d :: r' ++ b) with ((d :: r') ++ b). rewrite IH.
    destruct (N.eqb c c_space && N.eqb d c_space); reflexivity.
Qed.

Lemma sq_app a b : sq a = true -> sq b = true -> last32 a && hd32 b = false -> sq (a ++ b) = true.
Proof.
  intros Ha Hb H. rewrite <- (sq_squeeze a Ha), <- (sq_squeeze b Hb), <- squeeze_app by exact H. apply squeeze_sq.
Qed.

Lemma squeeze_subseq_Forall (P : N -> Prop) s : Forall P s -> Forall P (squeeze s).
Proof.
  induction 1 as [|c r Hc Hr IH]; [constructor|]. cbn [squeeze].
  destruct (N.eqb c c_space && _); [exact IH | constructor; assumption].
Qed.

Lemma squeeze_nil_inv s : squeeze s = [] -> s = [].
Proof.
  induction s as [|c r IH]; [reflexivity|]. cbn [squeeze]. fold (hd32 r).
  destruct (N.eqb c c_space && hd32 r) eqn:E; [|discriminate].
  intros H. apply IH in H. subst r. cbn in E. rewrite andb_false_r in E. discriminate.
Qed.

Lemma squeeze_first s : match s, squeeze s with h :: _, h' :: _ => h = h' | [], [] => True | _, _ => False end.
Proof.
  induction s as [|c r IH]; [exact I|]. cbn [squeeze]. fold (hd32 r).
  destruct (N.eqb c c_space && hd32 r) eqn:E; [|reflexivity].
  apply andb_true_iff in E as [E1 E2]. apply N.eqb_eq in E1. destruct r as [|d r']; [discriminate|].
  cbn in E2. apply N.eqb_eq in E2. destruct (squeeze (d :: r')); [contradiction|]. congruence.
Qed.

Lemma squeeze_rev s : squeeze (rev s) = rev (squeeze s).
Proof.
  induction s as [|c r IH]; [reflexivity|]. cbn [rev].
  destruct (N.eqb c c_space && hd32 r) eqn:E.
  - (* c = 32 and r starts with 32 *)
    cbn [squeeze]. fold (hd32 r). rewrite E. rewrite <- IH.
    apply andb_true_iff in E as [E1 E2]. apply N.eqb_eq in E1. subst c.
    destruct r as [|d r']; [discriminate|]. cbn in E2. apply N.eqb_eq in E2. subst d.
    cbn [rev]. rewrite <- app_assoc. cbn [app].
    (* squeeze (x ++ [32;32]) = squeeze (x ++ [32]) *)
    generalize (rev r') as x. intros x. induction x as [|y x IHx]; [reflexivity|].
    cbn [app squeeze]. rewrite IHx.
    destruct x as [|z x']; [reflexivity|]. reflexivity.
  - rewrite squeeze_app.
    + cbn [squeeze]. fold (hd32 r). rewrite E. cbn [rev]. rewrite IH. cbn. rewrite andb_false_r. reflexivity.
    + unfold last32. rewrite rev_involutive. cbn [hd32]. fold (hd32 r). rewrite andb_comm. exact E.
Qed.

Lemma squeeze_first_P (P : N -> Prop) s :
  match s with [] => True | h :: _ => P h end -> match squeeze s with [] => True | h :: _ => P h end.
Proof.
  intros H. pose proof (squeeze_first s) as F. destruct s as [|h r].
  - cbn. exact I.
  - destruct (squeeze (h :: r)) as [|h' r']; [exact I|]. subst h'. exact H.
Qed.

Lemma squeeze_ends_ok p s : ends_ok p s -> ends_ok p (squeeze s).
Proof.
  intros [H1 H2]. split.
  - apply (squeeze_first_P (fun h => p h = false)). exact H1.
  - rewrite <- squeeze_rev. apply (squeeze_first_P (fun h => p h = false)). exact H2.
Qed.

(* ---------- replace '_' ---------- *)
Lemma repl_us_id s : ~ In c_underscore s -> repl_us s = s.
Proof.
  induction s as [|c r IH]; [reflexivity|]. intros H. unfold repl_us in *. cbn [map].
  rewrite IH by (intros X; apply H; right; exact X).
  destruct (N.eqb_spec c c_underscore) as [->|]; [exfalso; apply H; left; reflexivity | reflexivity].
Qed.

Lemma repl_us_no_us s : ~ In c_underscore (repl_us s).
Proof.
  induction s as [|c r IH]; [intros []|]. unfold repl_us in *. cbn [map]. intros [H|H]; [|exact (IH H)].
  destruct (N.eqb_spec c c_underscore); [discriminate | congruence].
Qed.

Lemma repl_us_app a b : repl_us (a ++ b) = repl_us a ++ repl_us b.
Proof. apply map_app. Qed.

(* ---------- split1 ---------- *)
Lemma split1_app c a b : ~ In c a -> split1 c (a ++ c :: b) = Some (a, b).
Proof.
  induction a as [|x a IH]; intros H; cbn.
  - rewrite N.eqb_refl. reflexivity.
  - destruct (N.eqb_spec x c) as [->|]; [exfalso; apply H; left; reflexivity|].
    rewrite IH by (intros X; apply H; right; exact X). reflexivity.
Qed.

Lemma split1_none c s : ~ In c s -> split1 c s = None.
Proof.
  induction s as [|x s IH]; intros H; cbn; [reflexivity|].
  destruct (N.eqb_spec x c) as [->|]; [exfalso; apply H; left; reflexivity|].
  rewrite IH by (intros X; apply H; right; exact X). reflexivity.
Qed.

Lemma split1_some c s a b : split1 c s = Some (a, b) -> s = a ++ c :: b /\ ~ In c a.
Proof.
  revert a. induction s as [|x s IH]; intros a; cbn; [discriminate|].
  destruct (N.eqb_spec x c) as [->|Hne].
  - intros H. inversion H; subst. split; [reflexivity | intros []].
  - destruct (split1 c s) as [[a' b']|] eqn:E; [|discriminate]. intros H. inversion H; subst.
    destruct (IH a' eq_refl) as [H1 H2]. split; [cbn; congruence|]. intros [X|X]; [congruence|exact (H2 X)].
Qed.

Lemma split1_none_inv c s : split1 c s = None -> ~ In c s.
Proof.
  induction s as [|x s IH]; cbn; [intros _ []|].
  destruct (N.eqb_spec x c) as [->|Hne]; [discriminate|].
  destruct (split1 c s) as [[a b]|]; [discriminate|]. intros _ [X|X]; [congruence | exact (IH eq_refl X)].
Qed.

(* ---------- last character ---------- *)
Definition last_ok (p : N -> bool) (s : str) : Prop := match rev s with [] => True | l :: _ => p l = false end.

Lemma last_ok_app p a b : b <> [] -> last_ok p b -> last_ok p (a ++ b).
Proof.
  unfold last_ok. intros Hb H. rewrite rev_app_distr. destruct (rev b) eqn:E.
  - apply (f_equal (@rev N)) in E. rewrite rev_involutive in E. cbn in E. congruence.
  - cbn. exact H.
Qed.

Lemma last_ok_tail p c b : b <> [] -> last_ok p (c :: b) -> last_ok p b.
Proof.
  unfold last_ok. intros Hb. cbn [rev]. destruct (rev b) eqn:E.
  - apply (f_equal (@rev N)) in E. rewrite rev_involutive in E. cbn in E. congruence.
  - cbn. tauto.
Qed.

Lemma last_ok_Forall p s : Forall (fun c => p c = false) s -> last_ok p s.
Proof.
  unfold last_ok. intros H. apply Forall_rev_iff in H. destruct (rev s); [exact I|]. inversion H; assumption.
Qed.

Lemma Forall2_rev {A B} (R : A -> B -> Prop) a b : Forall2 R a b -> Forall2 R (rev a) (rev b).
Proof.
  induction 1 as [|x y a b Hxy _ IH]; [constructor|]. cbn [rev]. apply Forall2_app; [exact IH|].
  constructor; [exact Hxy | constructor].
Qed.

Lemma hd32_app_ne z x : z <> [] -> hd32 (z ++ x) = hd32 z.
Proof. destruct z; [congruence | reflexivity]. Qed.

Lemma squeeze_head_eq s : match s with [] => squeeze s = [] | h :: _ => exists r, squeeze s = h :: r end.
Proof.
  pose proof (squeeze_first s) as F. destruct s as [|h t]; [reflexivity|].
  destruct (squeeze (h :: t)) as [|h' t']; [contradiction|]. subst h'. exists t'. reflexivity.
Qed.
