(* C12/ProofsFq.v — get_fqname, the form of a title that NuWiki, the fetcher and the template expander use as a KEY
   (nuwiki.get_page / normalize_and_get_page, fetch.py, expander).  Corollaries of ProofsInst.py_idempotent /
   py_shape for the instantiated model: the key of any title is a fixed point of get_fqname, so looking a page up
   under the key that was stored for it finds it again. *)
From Coq Require Import List NArith ZArith Bool.
From MW Require Import Common.Str C12.Model C12.ListLemmas C12.Proofs C12.Inst C12.ProofsInst.
Import ListNotations.
Open Scope N_scope.

Lemma py_get_fqname_split : forall st t dns F,
  py_get_fqname st t dns = Ok F -> exists k P, py_splitname st t dns = Ok (k, P, F).
Proof.
  intros st t dns F H. unfold py_get_fqname, get_fqname in H. fold (py_splitname st t dns) in H.
  destruct (py_splitname st t dns) as [[[k P] F']|] eqn:E; [|discriminate].
  inversion H; subst. exists k, P. reflexivity.
Qed.

Lemma py_splitname_fq : forall st t dns k P F,
  py_splitname st t dns = Ok (k, P, F) -> py_get_fqname st t dns = Ok F.
Proof.
  intros st t dns k P F H. unfold py_get_fqname, get_fqname. fold (py_splitname st t dns). rewrite H. reflexivity.
Qed.

(* the key F of ANY title is a fixed point: asked again in its own namespace (default namespace 0 for main-namespace
   names) it is returned unchanged, and under EVERY default namespace when its namespace has a non-empty name *)
Lemma py_fqname_fixed_point : forall nm st t dns F,
  In (nm, st) all_sites -> py_get_fqname st t dns = Ok F ->
  exists k P, py_splitname st t dns = Ok (k, P, F)
    /\ py_get_fqname st F k = Ok F
    /\ (star_of st k <> Some [] -> forall dns', py_get_fqname st F dns' = Ok F).
Proof.
  intros nm st t dns F Hin H. destruct (py_get_fqname_split st t dns F H) as (k & P & Hs).
  destruct (py_idempotent nm st t dns k P F Hin Hs) as (H1 & H2).
  exists k, P. split; [exact Hs|]. split.
  - exact (py_splitname_fq _ _ _ _ _ _ H1).
  - intros Hne dns'. exact (py_splitname_fq _ _ _ _ _ _ (H2 Hne dns')).
Qed.

(* two titles are stored under the same key exactly when splitname gives them the same namespace and remainder *)
Lemma py_fqname_determines_triple : forall nm st t1 d1 t2 d2 k1 P1 F1 k2 P2 F2,
  In (nm, st) all_sites ->
  py_splitname st t1 d1 = Ok (k1, P1, F1) -> py_splitname st t2 d2 = Ok (k2, P2, F2) ->
  F1 = F2 -> star_of st k1 <> Some [] -> (k1, P1) = (k2, P2).
Proof.
  intros nm st t1 d1 t2 d2 k1 P1 F1 k2 P2 F2 Hin H1 H2 HF Hne. subst F2.
  destruct (py_idempotent nm st t1 d1 k1 P1 F1 Hin H1) as (_ & Hall).
  destruct (py_idempotent nm st t2 d2 k2 P2 F1 Hin H2) as (Hk2 & _).
  specialize (Hall Hne k2). rewrite Hall in Hk2. inversion Hk2. reflexivity.
Qed.
