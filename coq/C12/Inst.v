(* C12 — the model instantiated with the generated tables (CPython's Unicode behaviour, the bundled sites). *)
From Coq Require Import List NArith ZArith PArith FMapPositive Bool.
From MW Require Import Common.Str C12.Model C12.Gen_unicode C12.Gen_sites.
Import ListNotations.
Open Scope N_scope.

Definition pmap_of (l : list (positive * str)) : PositiveMap.t str :=
  fold_right (fun kv m => PositiveMap.add (fst kv) (snd kv) m) (PositiveMap.empty str) l.

Definition table_char (m : PositiveMap.t str) (c : N) : str :=
  match c with
  | N0 => [c]
  | Npos p => match PositiveMap.find p m with Some u => u | None => [c] end
  end.

Definition upper_map : PositiveMap.t str := pmap_of gen_upper.
Definition lower_map : PositiveMap.t str := pmap_of gen_lower.
Definition py_upper_char : N -> str := table_char upper_map.
Definition py_lower_char : N -> str := table_char lower_map.
Definition py_is_ws (c : N) : bool := existsb (N.eqb c) gen_ws.

Definition in_range (c : N) (r : N * N * N) : bool := let '(lo, hi, _) := r in N.leb lo c && N.leb c hi.
Definition sigma_class (c : N) : N :=
  match find (in_range c) gen_sigma_ranges with
  | Some (_, _, k) => k
  | None => 0
  end.
Definition py_cased (c : N) : bool := N.eqb (sigma_class c) 2.
Definition py_ignorable (c : N) : bool := N.eqb (sigma_class c) 1.

Definition mk_entry (r : Z * str * option str) : ns_entry :=
  let '(i, s, c) := r in {| ns_id := i; ns_star := s; ns_canon := c |}.
Definition mk_site (raw : str * list (Z * str * option str) * list (Z * str) * bool) : site :=
  let '(_, nss, als, cap) := raw in
  {| s_namespaces := map mk_entry nss; s_aliases := als; s_capitalize := cap |}.
Definition site_name (raw : str * list (Z * str * option str) * list (Z * str) * bool) : str :=
  let '(nm, _, _, _) := raw in nm.

Definition all_sites : list (str * site) := map (fun raw => (site_name raw, mk_site raw)) gen_sites.

Definition site_by_name (nm : str) : option site :=
  match find (fun p => str_eqb (fst p) nm) all_sites with
  | Some p => Some (snd p)
  | None => None
  end.

Definition py_lower : str -> str := lower py_lower_char py_cased py_ignorable.
Definition py_strip_edges : str -> str := strip_edges py_is_ws.
Definition py_splitname : site -> str -> Z -> result (Z * str * str) :=
  splitname py_is_ws py_upper_char py_lower_char py_cased py_ignorable.
Definition py_get_fqname : site -> str -> Z -> result str :=
  get_fqname py_is_ws py_upper_char py_lower_char py_cased py_ignorable.
