(* C16 — property theorems only (each closed by `exact <lemma>`, followed by Print Assumptions). *)
From Coq Require Import List NArith Bool.
From MW Require Import C16.Model C16.Proofs C16.ProofsHandout.
Import ListNotations.
Open Scope N_scope.

(* All theorems quantify over EVERY history of the model's full alphabet: Drop (rpc_qdrop), Watchdog (dropdead) and
   Advance included.  Since b6f8314 waitjobs forgets the id of a dropped job only while id2job[jobid] still IS the
   waited-for (finished) object, so no op forgets the id of an unfinished job: the former `nodrop h` premise is gone.
   (Before the fix the id clause was false with Drop: A 0 0 0 -; W 1 n0; Y n0; K 3 n0; A 0 0 0 -; L.)
   What Drop + wait still does: it removes FINISHED jobs from id2job (that is its purpose); theorems that speak about
   a job "registered under id i" (C17_wait_*, C18_restart_preserves) keep the lookup as a hypothesis. *)

(* For EVERY history h (any length, any number of jobs / connections / channels, any resolution of
   random.choice, any placement of RunLoop = any interleaving of atomic stretches) and every job
   object x accepted by the queue and not finished in the state reached by h:
   x occupies exactly ONE place — one slot of one channel queue, or the mailbox of one blocked
   puller (hand-off done, wake-up pending), or the running_jobs of one connection — never two,
   never none; it is the job registered under its id in id2job; if queued, it is queued in its own
   channel with its own priority.  (A job held by a worker is therefore in no queue and with no other
   worker; it returns to a queue only through the shutdown() of that worker's connection.) *)
Theorem C16_conservation : forall h x j,
  let s := run h init in
  getjob (s_jobs s) x = Some j -> j_done j = false ->
  (in_queues s x + with_workers s x = 1)%nat /\
  id_lookup (s_ids s) (j_id j) = Some x /\
  (forall k q p, In (k, q) (s_queues s) -> In (p, x) q -> k = j_chan j /\ p = j_prio j).
Proof. exact conservation. Qed.
Print Assumptions C16_conservation.

(* Nothing that was not accepted is ever queued or handed out. *)
Theorem C16_no_phantoms : forall h x,
  let s := run h init in
  getjob (s_jobs s) x = None -> (in_queues s x + with_workers s x = 0)%nat.
Proof. exact no_phantoms. Qed.
Print Assumptions C16_no_phantoms.

(* The defect of the original code, excluded: a puller that is still registered as waiter has an
   empty mailbox, so a hand-off (AsyncResult.set) never overwrites a job handed over before. *)
Theorem C16_registered_waiter_has_empty_mailbox : forall h c chs,
  let s := run h init in
  In (c, chs) (s_waiters s) -> c_st (get_conn (s_conns s) c) = BPull chs None.
Proof. exact waiters_empty_mailbox. Qed.
Print Assumptions C16_registered_waiter_has_empty_mailbox.

(* The invariant is inductive: it holds initially and EVERY single op preserves it (this is what lifts to all
   histories by fold_left).  Good = Aux (only finished jobs carry a dropdead deadline) + HubOK (every finish
   notification queued in the hub belongs to a finished job) + Inv. *)
Theorem C16_invariant_inductive : Good init /\ forall s o, Good s -> Good (fst (step s o)).
Proof. exact (conj good_init step_good). Qed.
Print Assumptions C16_invariant_inductive.

(* "It is handed out once per enqueueing (again only if its worker's connection drops before finishing it)".
   Ghost counters of the model: s_handed gets the serial at every hand-out (deliver = rpc_qpull returns the job to a
   worker, whether straight from a queue, through a hand-off mailbox or after pop's retry), s_requeued gets it when
   QPlugin.shutdown of a dying connection re-queues a job that connection held unfinished in its running_jobs (and
   nowhere else).  For EVERY history and every job object x:
     re-queues <= hand-outs <= re-queues + 1;
     while x is unfinished, hand-outs = re-queues + (number of running_jobs entries holding x), and that number is
     0 (x queued or in a hand-off mailbox) or 1 (C16_conservation): x has been handed out exactly once more than it
     was given back by a dropped connection iff a worker holds it now. *)
Theorem C16_handout_count : forall h x j,
  let s := run h init in
  getjob (s_jobs s) x = Some j ->
  (occ x (s_requeued s) <= occ x (s_handed s) <= occ x (s_requeued s) + 1)%nat /\
  (j_done j = false -> occ x (s_handed s) = (occ x (s_requeued s) + run_occ x (s_conns s))%nat).
Proof. exact handout_count. Qed.
Print Assumptions C16_handout_count.

Theorem C16_held_by_at_most_one : forall h x j,
  let s := run h init in
  getjob (s_jobs s) x = Some j -> j_done j = false -> (held s x <= 1)%nat.
Proof. exact handout_held_le_1. Qed.
Print Assumptions C16_held_by_at_most_one.

(* "... again only if its worker's connection drops": with no hypothesis on x, the n-th hand-out of x needs n-1
   re-queues by the shutdown of a dropped connection; a second hand-out needs at least one. *)
Theorem C16_handout_again_needs_requeue : forall h x,
  let s := run h init in
  (occ x (s_handed s) <= occ x (s_requeued s) + 1)%nat /\
  (2 <= occ x (s_handed s) -> 1 <= occ x (s_requeued s))%nat.
Proof. exact handout_again_needs_requeue. Qed.
Print Assumptions C16_handout_again_needs_requeue.

(* what was never accepted is never handed out or re-queued *)
Theorem C16_handout_none : forall h x,
  let s := run h init in
  getjob (s_jobs s) x = None -> occ x (s_handed s) = 0%nat /\ occ x (s_requeued s) = 0%nat.
Proof. exact handout_none. Qed.
Print Assumptions C16_handout_none.

(* Non-vacuity: job 1 is pulled by worker 1, whose connection drops; shutdown re-queues it; worker 2 pulls it:
   two hand-outs, one re-queue, held by one worker. *)
Example C16_handout_example :
  let s := run handout_history init in
  s_handed s = [1; 1] /\ s_requeued s = [1] /\
  map (fun j => (j_serial j, j_done j)) (s_jobs s) = [(1, false)] /\
  run_occ 1 (s_conns s) = 1%nat /\
  (occ 1 (s_handed s) = occ 1 (s_requeued s) + run_occ 1 (s_conns s))%nat.
Proof. exact handout_example. Qed.
Print Assumptions C16_handout_example.

(* Non-vacuity: a 10-op history with 2 channels, 3 workers, a hand-off to a blocked puller chosen by
   Choice, a disconnect that re-queues job 1, and a pull that prefers priority 0 of channel 1. *)
Example C16_example :
  let s := run example_history init in
  length example_history = 10%nat /\
  map (fun j => (j_serial j, j_done j)) (s_jobs s) = [(3, false); (2, false); (1, false)] /\
  map (fun x => (in_queues s x, with_workers s x)) [1; 2; 3] = [(1, 0); (0, 1); (0, 1)]%nat /\
  map (fun c => c_st c) (s_conns s) = [Dead; Idle; Idle].
Proof. exact example_ok. Qed.
Print Assumptions C16_example.
