(* C16 — property theorems only (each closed by `exact <lemma>`, followed by Print Assumptions). *)
From Coq Require Import List NArith Bool.
From MW Require Import C16.Model C16.Proofs.
Import ListNotations.
Open Scope N_scope.

(* `nodrop h`: h contains no Drop op (rpc_qdrop is outside the alphabet of C16/C17/C18; Advance and
   Watchdog are allowed).  With Drop the "registered under its id" conjunct is FALSE for the real code and the
   model alike: waitjobs deletes id2job[j.jobid] of a dropped job by id, which after kill + re-add under the
   same id is the NEW job (history: A 0 0 0 -; W 1 n0; Drop n0; K 3 n0; A 0 0 0 -; L). *)

(* For EVERY history h (any length, any number of jobs / connections / channels, any resolution of
   random.choice, any placement of RunLoop = any interleaving of atomic stretches) and every job
   object x accepted by the queue and not finished in the state reached by h:
   x occupies exactly ONE place — one slot of one channel queue, or the mailbox of one blocked
   puller (hand-off done, wake-up pending), or the running_jobs of one connection — never two,
   never none; it is the job registered under its id in id2job; if queued, it is queued in its own
   channel with its own priority.  (A job held by a worker is therefore in no queue and with no other
   worker; it returns to a queue only through the shutdown() of that worker's connection.) *)
Theorem C16_conservation : forall h x j, nodrop h = true ->
  let s := run h init in
  getjob (s_jobs s) x = Some j -> j_done j = false ->
  (in_queues s x + with_workers s x = 1)%nat /\
  id_lookup (s_ids s) (j_id j) = Some x /\
  (forall k q p, In (k, q) (s_queues s) -> In (p, x) q -> k = j_chan j /\ p = j_prio j).
Proof. exact conservation. Qed.
Print Assumptions C16_conservation.

(* Nothing that was not accepted is ever queued or handed out. *)
Theorem C16_no_phantoms : forall h x, nodrop h = true ->
  let s := run h init in
  getjob (s_jobs s) x = None -> (in_queues s x + with_workers s x = 0)%nat.
Proof. exact no_phantoms. Qed.
Print Assumptions C16_no_phantoms.

(* The defect of the original code, excluded: a puller that is still registered as waiter has an
   empty mailbox, so a hand-off (AsyncResult.set) never overwrites a job handed over before. *)
Theorem C16_registered_waiter_has_empty_mailbox : forall h c chs, nodrop h = true ->
  let s := run h init in
  In (c, chs) (s_waiters s) -> c_st (get_conn (s_conns s) c) = BPull chs None.
Proof. exact waiters_empty_mailbox. Qed.
Print Assumptions C16_registered_waiter_has_empty_mailbox.

(* The invariant is inductive: it holds initially and every single op other than Drop preserves it (this
   is what lifts to all histories by fold_left).  Aux = no job carries the drop flag, and only finished
   jobs carry a dropdead deadline. *)
Theorem C16_invariant_inductive :
  (Aux init /\ Inv init [] []) /\
  forall s o, nodrop_op o = true -> Aux s /\ Inv s [] [] -> Aux (fst (step s o)) /\ Inv (fst (step s o)) [] [].
Proof. exact (conj (conj aux_init inv_init) step_good). Qed.
Print Assumptions C16_invariant_inductive.

(* Non-vacuity: a 10-op history with 2 channels, 3 workers, a hand-off to a blocked puller chosen by
   Choice, a disconnect that re-queues job 1, and a pull that prefers priority 0 of channel 1. *)
Example C16_example :
  let s := run example_history init in
  length example_history = 10%nat /\
  map (fun j => (j_serial j, j_done j)) (s_jobs s) = [(3, false); (2, false); (1, false)] /\
  map (fun x => (in_queues s x, with_workers s x)) [1; 2; 3] = [(1, 0); (0, 1); (0, 1)]%nat /\
  map (fun c => c_st c) (s_conns s) = [Dead; Idle; Idle].
Proof. exact example_ok. Qed.
Print Assumptions C16_example.
