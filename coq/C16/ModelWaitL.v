(* C17 — multi-id waits: rpc_qwait(jobids) / workq.waitjobs(jobids) with SEVERAL ids (jobs.py:223-240).  Executable model
   only (no proofs); extension of Model.v, which it leaves untouched (Model.v's `Wait c i` is the one-id case).

       jobs = [self.id2job[jid] for jid in jobids]          # every id is resolved to its job OBJECT first (KeyError else)
       for j in jobs:
           if not j.done: j.finish_event.wait()              # blocks on the first unfinished one
           if j.drop and self.id2job.get(j.jobid) is j: del self.id2job[j.jobid]
       return jobs

   The extended state pairs the queue state with the CONTINUATIONS of the blocked waits: for a connection blocked in
   BWait ser, `(ser, (rest, all))` = the object it is blocked on, the job objects (serials) the loop still has to look at
   after it, and all objects of the request in request order (what the client receives).  Ids are never looked up again: a job that is killed and re-added,
   or dropped and collected by somebody else, while the client is blocked on an earlier one stays the object named when
   the request arrived.

   xstep on the ops of Model.v is Model.step, except
     Wait c i    = WaitL c [i];
     RunLoop     : the finish notifier EvDone ser resumes every client blocked on ser; each one continues its loop
                   (drop handling of the following finished jobs, blocks again on the next unfinished one, or returns).
   A released client gets one OReleased c j per job of its request, in request order (for one id: exactly Model.v's output). *)
From Coq Require Import List NArith Bool.
From MW Require Import C16.Model.
Import ListNotations.
Open Scope N_scope.

Definition cont := (N * (list N * list N))%type.      (* (cur, (rest, all)) *)
Definition conts := list (N * cont).                  (* connection -> continuation; the first entry of a connection counts *)

Fixpoint k_get (k : conts) (c : N) : option cont :=
  match k with
  | [] => None
  | (d, v) :: r => if d =? c then Some v else k_get r c
  end.

Definition k_set (k : conts) (c : N) (v : cont) : conts :=
  (c, v) :: filter (fun e => negb (fst e =? c)) k.

Definition k_del (k : conts) (c : N) : conts := filter (fun e => negb (fst e =? c)) k.

(* jobs = [self.id2job[jid] for jid in jobids] *)
Fixpoint resolve (s : state) (l : list jid) : option (list N) :=
  match l with
  | [] => Some []
  | i :: r =>
    match id_lookup (s_ids s) i with
    | None => None
    | Some ser =>
      match getjob (s_jobs s) ser with
      | None => None
      | Some _ => match resolve s r with None => None | Some t => Some (ser :: t) end
      end
    end
  end.

(* `if j.drop and self.id2job.get(j.jobid) is j: del self.id2job[j.jobid]` for a finished job *)
Definition forget_dropped (j : job) (s : state) : state :=
  if j_drop j && id_is (s_ids s) (j_id j) (j_serial j) then set_ids (id_del (s_ids s) (j_id j)) s else s.

Definition records (s : state) (c : N) (all : list N) : list out :=
  flat_map (fun ser => match getjob (s_jobs s) ser with Some j => [OReleased c j] | None => [] end) all.

(* the loop of waitjobs from the jobs `rest` on, run by connection c (which is not blocked while it runs).
   Result: the state; Some (ser, rest') when it blocks on ser; the outputs (the records when it returns). *)
Fixpoint wait_from (c : N) (all rest : list N) (s : state) : state * option (N * list N) * list out :=
  match rest with
  | [] => (s, None, records s c all)
  | ser :: r =>
    match getjob (s_jobs s) ser with
    | None => wait_from c all r s
    | Some j =>
      if j_done j then wait_from c all r (forget_dropped j s)
      else
        let cn := get_conn (s_conns s) c in
        (set_conns (put_conn (s_conns s) (mkConn c (BWait ser) (c_run cn))) s, Some (ser, r), [])
    end
  end.

Definition xstate := (state * conts)%type.
Definition xinit : xstate := (init, []).

Inductive xop :=
| Base (o : op)
| WaitL (c : N) (is : list jid).

Definition wait_start (c : N) (is : list jid) (x : xstate) : xstate * list out :=
  let (s, k) := x in
  if is_idle c s then
    match resolve s is with
    | None => (x, [OKeyErr])
    | Some all =>
      match wait_from c all all s with
      | (s1, None, o) => ((s1, k_del k c), o)
      | (s1, Some (ser, r), _) => ((s1, k_set k c (ser, (r, all))), [OBlocked])
      end
    end
  else (x, [OBusy]).

(* connections blocked on ser, in s_conns order (the order of Model.release) *)
Fixpoint waiters_of (ser : N) (cs : list conn) : list N :=
  match cs with
  | [] => []
  | x :: r => match c_st x with
              | BWait w => if w =? ser then c_id x :: waiters_of ser r else waiters_of ser r
              | _ => waiters_of ser r
              end
  end.

Fixpoint resume (ser : N) (ws : list N) (x : xstate) : xstate * list out :=
  match ws with
  | [] => (x, [])
  | c :: r =>
    let (s, k) := x in
    if is_idle c s then                      (* always: the finish notifier has just resumed it (Model.release) *)
      let (rest, all) := match k_get k c with
                         | Some (cur, v) => if cur =? ser then v else ([], [ser])     (* always cur = ser *)
                         | None => ([], [ser])
                         end in
      match wait_from c all rest s with
      | (s1, None, o) =>
        let (x2, o2) := resume ser r (s1, k_del k c) in (x2, o ++ o2)
      | (s1, Some (ser', r'), o) =>
        let (x2, o2) := resume ser r (s1, k_set k c (ser', (r', all))) in (x2, o ++ o2)
      end
    else resume ser r x
  end.

Definition xrun_event (e : event) (x : xstate) : xstate * list out :=
  let (s, k) := x in
  match e with
  | EvDone ser =>
    let ws := waiters_of ser (s_conns s) in
    let (s1, _) := run_event e s in            (* drop handling of ser, every waiter of ser runs again (Idle) *)
    resume ser ws (s1, k)
  | _ => let (s1, o) := run_event e s in ((s1, k), o)
  end.

Fixpoint xrun_events (es : list event) (x : xstate) : xstate * list out :=
  match es with
  | [] => (x, [])
  | e :: r =>
    let (x1, o1) := xrun_event e x in
    let (x2, o2) := xrun_events r x1 in
    (x2, o1 ++ o2)
  end.

Definition xstep (x : xstate) (o : xop) : xstate * list out :=
  match o with
  | WaitL c is => wait_start c is x
  | Base (Wait c i) => wait_start c [i] x
  | Base RunLoop => let (s, k) := x in xrun_events (s_hub s) (set_hub [] s, k)
  | Base b => let (s, k) := x in let (s1, out) := step s b in ((s1, k), out)
  end.

Definition xrun (h : list xop) (x : xstate) : xstate := fold_left (fun x o => fst (xstep x o)) h x.

(* a restart (C18): every connection is gone, and with it every pending wait *)
Definition xrestart (x : xstate) : xstate := (restart (fst x), []).
