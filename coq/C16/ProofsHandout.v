(* C16 — "handed out once per enqueueing (again only if its worker's connection drops before finishing it)".

   Ghost fields of the model: `s_handed` (serial consed by `deliver` = rpc_qpull returned the job) and
   `s_requeued` (serial consed by `shutdown_loop` = QPlugin.shutdown of a dying connection re-queued an
   unfinished job found in its running_jobs).

   Invariant HC s L, for every job object x:
     x does not exist        : never handed out, never re-queued;
     x exists and is finished : re-queues <= hand-outs <= re-queues + 1   (frozen from the moment it finished:
                                deliver is only called on unfinished jobs, shutdown skips finished jobs);
     x exists, unfinished     : hand-outs = re-queues + (occurrences of x in the running_jobs of all connections)
                                            + occ x L
   where L = running_jobs entries of a dying connection already removed from its record but not yet
   re-queued by shutdown_loop.  Together with conservation (Proofs.v: an unfinished job is in exactly one place)
   the number of holders is 0 or 1. *)
From Coq Require Import List NArith Bool Lia Arith.
From MW Require Import C16.Model C16.Proofs.
Import ListNotations.
Open Scope N_scope.

(* ------------------------------------------------------------------ holders *)

Fixpoint run_occ (x : N) (cs : list conn) : nat :=
  match cs with
  | [] => 0%nat
  | c :: r => (occ x (map snd (c_run c)) + run_occ x r)%nat
  end.

Definition held (s : state) (x : N) : nat := run_occ x (s_conns s).

Lemma run_occ_put : forall x cs c,
  (run_occ x (put_conn cs c) + occ x (map snd (c_run (get_conn cs (c_id c)))) =
   run_occ x cs + occ x (map snd (c_run c)))%nat.
Proof.
  intros x cs c. induction cs as [|y r IH]; cbn [put_conn get_conn run_occ].
  - cbn [new_conn c_run map occ]. lia.
  - destruct (c_id y =? c_id c) eqn:E; cbn [run_occ]; lia.
Qed.

Lemma run_occ_put_same : forall x cs c st,
  run_occ x (put_conn cs (mkConn c st (c_run (get_conn cs c)))) = run_occ x cs.
Proof.
  intros x cs c st. pose proof (run_occ_put x cs (mkConn c st (c_run (get_conn cs c)))) as P.
  cbn [c_id c_run] in P. lia.
Qed.

Lemma run_occ_le0 : forall x cs, (run_occ x cs <= occ_conns x cs)%nat.
Proof.
  intros x cs. induction cs as [|y r IH]; cbn [run_occ occ_conns]; [lia|]. unfold occ_conn. lia.
Qed.

(* a job sitting in the mailbox of c is counted by occ_conns but not by run_occ *)
Lemma run_occ_le : forall x cs c, (mb_occ x (c_st (get_conn cs c)) + run_occ x cs <= occ_conns x cs)%nat.
Proof.
  intros x cs c. induction cs as [|y r IH]; cbn [get_conn run_occ occ_conns].
  - cbn [new_conn c_st mb_occ]. lia.
  - pose proof (run_occ_le0 x r) as H0. unfold occ_conn. destruct (c_id y =? c) eqn:E; lia.
Qed.

Lemma run_get_le : forall x cs c, (occ x (map snd (c_run (get_conn cs c))) <= run_occ x cs)%nat.
Proof.
  intros x cs c. induction cs as [|y r IH]; cbn [get_conn run_occ].
  - cbn [new_conn c_run map occ]. lia.
  - destruct (c_id y =? c) eqn:E; lia.
Qed.

Lemma occ_qs_In : forall x qs k q, In (k, q) qs -> (qocc x q <= occ_qs x qs)%nat.
Proof.
  intros x qs k q. induction qs as [|kq r IH]; intro H; [destruct H|]. cbn [occ_qs].
  destruct H as [H|H]; [subst kq; cbn [snd]; lia|]. apply IH in H. lia.
Qed.

Lemma release_run : forall ser js cs x, run_occ x (fst (release ser js cs)) = run_occ x cs.
Proof.
  intros ser js cs x. induction cs as [|y r IH]; cbn [release]; [reflexivity|].
  destruct (release ser js r) as [r' o] eqn:ER. cbn [fst] in IH.
  destruct (c_st y) as [| |w|] eqn:ES; try destruct (w =? ser) eqn:EW; cbn [fst run_occ c_run]; rewrite IH; reflexivity.
Qed.

(* ------------------------------------------------------------------ the invariant *)

Definition hc_at (s : state) (L : list N) (x : N) : Prop :=
  match getjob (s_jobs s) x with
  | None => occ x (s_handed s) = 0%nat /\ occ x (s_requeued s) = 0%nat
  | Some j =>
    if j_done j
    then (occ x (s_requeued s) <= occ x (s_handed s) <= occ x (s_requeued s) + 1)%nat
    else occ x (s_handed s) = (occ x (s_requeued s) + run_occ x (s_conns s) + occ x L)%nat
  end.

Definition HC (s : state) (L : list N) : Prop := forall x, hc_at s L x.

(* same objects, same `done` flags *)
Definition djobs (js js' : list job) : Prop :=
  forall x, option_map j_done (getjob js' x) = option_map j_done (getjob js x).

Lemma djobs_refl : forall js, djobs js js.
Proof. intros js x. reflexivity. Qed.

Lemma djobs_setjob : forall js ser f,
  (forall j, j_serial (f j) = j_serial j) -> (forall j, j_done (f j) = j_done j) -> djobs js (setjob ser f js).
Proof.
  intros js ser f Hs Hd x. rewrite getjob_setjob by (intros j Hj; rewrite Hs; exact Hj).
  destruct (x =? ser) eqn:E; [|reflexivity].
  apply N.eqb_eq in E. subst x. destruct (getjob js ser) as [j|]; cbn [option_map]; [rewrite Hd|]; reflexivity.
Qed.

Lemma hc_frame : forall s s' L,
  HC s L -> s_handed s' = s_handed s -> s_requeued s' = s_requeued s ->
  djobs (s_jobs s) (s_jobs s') ->
  (forall x j, getjob (s_jobs s) x = Some j -> j_done j = false -> run_occ x (s_conns s') = run_occ x (s_conns s)) ->
  HC s' L.
Proof.
  intros s s' L H Hh Hr Hd Hc x. specialize (H x). specialize (Hd x). unfold hc_at in *. rewrite Hh, Hr.
  destruct (getjob (s_jobs s) x) as [j|] eqn:E; destruct (getjob (s_jobs s') x) as [j'|] eqn:E';
    cbn [option_map] in Hd; try discriminate Hd.
  - injection Hd as Hd. rewrite Hd. destruct (j_done j) eqn:D; [exact H|]. rewrite (Hc x j E D). exact H.
  - exact H.
Qed.

Lemma hc_same : forall s s' L,
  HC s L -> s_jobs s' = s_jobs s -> s_conns s' = s_conns s ->
  s_handed s' = s_handed s -> s_requeued s' = s_requeued s -> HC s' L.
Proof.
  intros s s' L H Hj Hc Hh Hr. apply (hc_frame s s' L H Hh Hr).
  - rewrite Hj. apply djobs_refl.
  - intros x j _ _. rewrite Hc. reflexivity.
Qed.

(* at most one holder of an unfinished job *)
Lemma held_le_1 : forall s x j, Inv s [] [] -> getjob (s_jobs s) x = Some j -> j_done j = false ->
  (run_occ x (s_conns s) <= 1)%nat.
Proof.
  intros s x j I E D.
  pose proof (inv_cons _ _ _ I x 1%nat (want_undone _ _ _ E D)) as C. unfold locs in C. cbn [occ] in C.
  pose proof (run_occ_le0 x (s_conns s)) as H0. lia.
Qed.

Lemma held_absent : forall s x, Inv s [] [] -> getjob (s_jobs s) x = None -> run_occ x (s_conns s) = 0%nat.
Proof.
  intros s x I E. pose proof (inv_cons _ _ _ I x 0%nat) as C. unfold want in C. rewrite E in C. specialize (C eq_refl).
  unfold locs in C. cbn [occ] in C. pose proof (run_occ_le0 x (s_conns s)) as H0. lia.
Qed.

(* ------------------------------------------------------------------ _mark_finished freezes the counts *)

Lemma mark_ghost : forall x u s,
  s_handed (mark_finished x u s) = s_handed s /\ s_requeued (mark_finished x u s) = s_requeued s.
Proof.
  intros x u s. unfold mark_finished. destruct (getjob (s_jobs s) x) as [j|]; [|split; reflexivity].
  destruct (j_done j); split; reflexivity.
Qed.

Lemma mark_hc : forall x u s, Inv s [] [] -> HC s [] -> HC (mark_finished x u s) [].
Proof.
  intros x u s I H. unfold mark_finished. destruct (getjob (s_jobs s) x) as [j|] eqn:E; [|exact H].
  destruct (j_done j) eqn:D; [exact H|]. cbv zeta. intro y. pose proof (H y) as Hy. unfold hc_at in *. sf.
  rewrite getjob_setjob by (intros; cbn [j_serial]; eapply getjob_serial; eauto).
  destruct (y =? x) eqn:Eyx; [|exact Hy].
  apply N.eqb_eq in Eyx. subst y. rewrite E in *. cbn [option_map j_done]. cbv beta iota in Hy. rewrite D in Hy.
  pose proof (held_le_1 s x j I E D) as H1. cbn [occ] in Hy. lia.
Qed.

Lemma killjobs_hc : forall js s, Inv s [] [] -> HC s [] -> HC (killjobs js s) [].
Proof.
  induction js as [|i r IH]; intros s I H; cbn [killjobs]; [exact H|].
  destruct (id_lookup (s_ids s) i) as [ser|]; [|apply IH; assumption].
  apply IH; [apply mark_inv|apply mark_hc]; assumption.
Qed.

Lemma timeouts_loop_hc : forall q s, Inv s [] [] -> HC s [] -> HC (timeouts_loop q s) [].
Proof.
  induction q as [|x r IH]; intros s I H; cbn [timeouts_loop].
  - eapply hc_same; [exact H|reflexivity|reflexivity|reflexivity|reflexivity].
  - destruct (is_done (s_jobs s) (snd (snd x))); [apply IH; assumption|].
    destruct (s_now s <? fst x); [eapply hc_same; [exact H|reflexivity|reflexivity|reflexivity|reflexivity]|].
    apply IH; [apply mark_inv|apply mark_hc]; assumption.
Qed.

(* ------------------------------------------------------------------ pushjob: queue or mailbox, never running_jobs *)

Lemma pushjob_ghost : forall x s,
  s_handed (pushjob x s) = s_handed s /\ s_requeued (pushjob x s) = s_requeued s.
Proof.
  intros x s. unfold pushjob. destruct (getjob (s_jobs s) x) as [j|]; [|split; reflexivity]. cbv zeta. sf.
  destruct (filter (watches (j_chan j)) (s_waiters s)); sf; split; reflexivity.
Qed.

Lemma pushjob_run : forall x s y, run_occ y (s_conns (pushjob x s)) = run_occ y (s_conns s).
Proof.
  intros x s y. unfold pushjob. destruct (getjob (s_jobs s) x) as [j|]; [|reflexivity]. cbv zeta. sf.
  destruct (filter (watches (j_chan j)) (s_waiters s)) as [|a0 alts']; sf; [reflexivity|].
  apply run_occ_put_same.
Qed.

Lemma pushjob_hc : forall x s L, HC s L -> HC (pushjob x s) L.
Proof.
  intros x s L H. destruct (pushjob_ghost x s) as [Hh Hr]. destruct (pushjob_jobs x s) as [Hj _].
  apply (hc_frame s (pushjob x s) L H Hh Hr).
  - rewrite Hj. apply djobs_refl.
  - intros y jy _ _. apply pushjob_run.
Qed.

(* ------------------------------------------------------------------ deliver: the hand-out *)

(* s0 carries the facts about the job table and the connections (the queues may differ: pop has already
   removed the head) *)
Lemma deliver_hc : forall c chs x s s0 L0 R0 j,
  Inv s0 L0 R0 -> s_jobs s0 = s_jobs s -> s_conns s0 = s_conns s ->
  HC s [] -> getjob (s_jobs s) x = Some j -> j_done j = false ->
  run_occ x (s_conns s) = 0%nat ->
  HC (fst (deliver c chs x s)) [].
Proof.
  intros c chs x s s0 L0 R0 j I J0 C0 H E D Z. unfold deliver. rewrite E. cbv zeta. cbn [fst].
  set (cn := get_conn (s_conns s) c) in *.
  (* a running_jobs entry replaced by running_jobs[j.jobid] = j belongs to a finished object *)
  assert (OLD : forall y jy, getjob (s_jobs s) y = Some jy -> j_done jy = false ->
                old_occ (c_run cn) (j_id j) y = 0%nat).
  { intros y jy Ey Dy. unfold old_occ. destruct (id_lookup (c_run cn) (j_id j)) as [w|] eqn:El; [|reflexivity].
    destruct (ind_cases w y) as [[Ewy _]|[_ Ewy]]; [|exact Ewy]. subst w. exfalso.
    apply id_lookup_In in El.
    assert (El0 : In (j_id j, y) (c_run (get_conn (s_conns s0) c))) by (rewrite C0; exact El).
    destruct (conn_run_exists _ _ _ _ _ _ I El0) as (jy'&Ey'&Hid). rewrite J0, Ey in Ey'. inversion Ey'; subst jy'.
    assert (Eyx : y = x).
    { eapply (inv_uniq _ _ _ I); try (rewrite J0; eassumption); assumption. }
    subst y.
    assert (1 <= occ x (map snd (c_run cn)))%nat.
    { apply In_occ_pos. apply in_map_iff. exists (j_id j, x). split; [reflexivity|exact El]. }
    pose proof (run_get_le x (s_conns s) c) as G. fold cn in G. lia. }
  intro y. pose proof (H y) as Hy. unfold hc_at in *. sf. cbn [occ] in *.
  pose proof (run_occ_put y (s_conns s) (mkConn c Idle (run_set (c_run cn) (j_id j) x))) as P. sf. fold cn in P.
  pose proof (occ_run_set y (c_run cn) (j_id j) x) as Q.
  destruct (getjob (s_jobs s) y) as [jy|] eqn:Ey.
  - destruct (j_done jy) eqn:Dy.
    + rewrite ind_neq; [exact Hy|]. intro Exy. subst y. congruence.
    + rewrite (OLD y jy Ey Dy) in Q. lia.
  - rewrite ind_neq; [exact Hy|]. intro Exy. subst y. congruence.
Qed.

(* ------------------------------------------------------------------ pop *)

Lemma pop_or_block_hc : forall c chs s, Inv s [] [] -> HC s [] -> HC (fst (pop_or_block c chs s)) [].
Proof.
  intros c chs s I H. unfold pop_or_block. cbv zeta.
  pose proof (preenall_inv _ _ _ I) as I1. destruct (preenall_fields s) as (Hj&Hc&Hw&Hi&Hn).
  assert (H1 : HC (preenall s) []) by (eapply hc_same; [exact H|assumption|assumption|reflexivity|reflexivity]).
  set (s1 := preenall s) in *.
  destruct (heads (s_queues s1) _) as [[p x]|] eqn:EH.
  - destruct (heads_spec _ _ _ EH) as (k&rest&_&Hq). cbn [snd].
    pose proof (q_get_In _ _ _ Hq) as Hin.
    destruct (inv_q _ _ _ I1 _ _ _ _ Hin (or_introl eq_refl)) as (j&Ej&Hch&Hp).
    rewrite Ej. rewrite Hch, Hq. cbn [tl].
    assert (Dj : j_done j = false).
    { unfold s1, preenall in Hq. sf. rewrite q_get_map in Hq. destruct (q_get (s_queues s) k) as [q0|]; [|discriminate].
      cbn [option_map] in Hq. inversion Hq as [Hq']. apply preen_head in Hq'. cbn [snd] in Hq'. unfold is_done in Hq'.
      rewrite Hj in Ej. rewrite Ej in Hq'. exact Hq'. }
    set (s2 := set_queues (q_set (s_queues s1) k rest) s1).
    apply (deliver_hc c chs x s2 s1 [] [] j I1); try reflexivity.
    + eapply hc_same; [exact H1|reflexivity|reflexivity|reflexivity|reflexivity].
    + exact Ej.
    + exact Dj.
    + (* the popped job was in a queue, hence with no worker *)
      unfold s2. sf.
      pose proof (inv_cons _ _ _ I1 x 1%nat (want_undone _ _ _ Ej Dj)) as C. unfold locs in C. cbn [occ] in C.
      pose proof (occ_qs_In x _ _ _ Hin) as Q. unfold qocc in Q. cbn [map snd occ] in Q. rewrite ind_refl in Q.
      pose proof (run_occ_le0 x (s_conns s1)) as H0. lia.
  - cbn [fst]. eapply hc_frame; [exact H1|reflexivity|reflexivity|apply djobs_refl|].
    intros y jy _ _. sf. apply run_occ_put_same.
Qed.

(* ------------------------------------------------------------------ QPlugin.shutdown: the re-queue *)

Lemma shutdown_loop_hc : forall l s L, HC s (map snd l ++ L) -> HC (shutdown_loop l s) L.
Proof.
  induction l as [|[i w] r IH]; intros s L H; cbn [shutdown_loop map app snd] in *; [exact H|].
  destruct (is_done (s_jobs s) w) eqn:D.
  - apply IH. intro y. pose proof (H y) as Hy. unfold hc_at in *. unfold is_done in D.
    destruct (getjob (s_jobs s) y) as [jy|] eqn:Ey; [|exact Hy]. destruct (j_done jy) eqn:Dy; [exact Hy|].
    cbn [occ] in Hy. rewrite ind_neq in Hy; [exact Hy|]. intro Ewy. subst w. rewrite Ey in D. congruence.
  - apply IH. apply pushjob_hc.
    destruct (is_done_false _ _ D) as (j&Ej&Dj).
    intro y. pose proof (H y) as Hy. unfold hc_at in *. sf. cbn [occ] in *.
    destruct (getjob (s_jobs s) y) as [jy|] eqn:Ey.
    + destruct (j_done jy) eqn:Dy.
      * rewrite ind_neq; [exact Hy|]. intro Ewy. subst w. congruence.
      * lia.
    + rewrite ind_neq; [exact Hy|]. intro Ewy. subst w. congruence.
Qed.

Lemma die_hc : forall c s, HC s [] -> HC (fst (die c s)) [].
Proof.
  intros c s H. unfold die. cbv zeta. cbn [fst]. apply shutdown_loop_hc. rewrite app_nil_r.
  intro y. pose proof (H y) as Hy. unfold hc_at in *. sf.
  pose proof (run_occ_put y (s_conns s) (mkConn c Dead [])) as P. sf. cbn [map occ] in *.
  destruct (getjob (s_jobs s) y) as [jy|]; [|exact Hy]. destruct (j_done jy); [exact Hy|]. lia.
Qed.

(* ------------------------------------------------------------------ hub events *)

Lemma run_event_hc : forall e s, Inv s [] [] -> HC s [] -> HC (fst (run_event e s)) [].
Proof.
  intros e s I H. destruct e as [c|c|ser]; cbn [run_event].
  - destruct (c_st (get_conn (s_conns s) c)) as [|chs [ser|]|w|] eqn:ES; try exact H.
    destruct (is_done (s_jobs s) ser) eqn:D.
    + apply pop_or_block_hc; assumption.
    + destruct (is_done_false _ _ D) as (j&Ej&Dj).
      apply (deliver_hc c chs ser s s [] [] j I); try reflexivity; try assumption.
      (* the job sits in the mailbox of c, hence with no worker *)
      pose proof (inv_cons _ _ _ I ser 1%nat (want_undone _ _ _ Ej Dj)) as C. unfold locs in C. cbn [occ] in C.
      pose proof (run_occ_le ser (s_conns s) c) as G. rewrite ES in G. cbn [mb_occ] in G. rewrite ind_refl in G. lia.
  - destruct (c_st (get_conn (s_conns s) c)) as [|chs mb|w|] eqn:ES; try exact H; try (apply die_hc; exact H).
    apply die_hc.
    assert (H1 : HC (set_waiters (remove_waiter c (s_waiters s)) s) [])
      by (eapply hc_same; [exact H|reflexivity|reflexivity|reflexivity|reflexivity]).
    destruct mb as [ser|]; [|exact H1].
    destruct (is_done (s_jobs (set_waiters (remove_waiter c (s_waiters s)) s)) ser); [exact H1|].
    apply pushjob_hc. exact H1.
  - pose proof (release_run ser (s_jobs s) (s_conns s)) as RR.
    destruct (release ser (s_jobs s) (s_conns s)) as [cs o] eqn:ER. cbn [fst] in RR.
    assert (H1 : HC (set_conns cs s) []).
    { eapply hc_frame; [exact H|reflexivity|reflexivity|apply djobs_refl|]. intros y jy _ _. sf. apply RR. }
    destruct (getjob (s_jobs s) ser) as [j|] eqn:Ej; [|exact H1].
    destruct (j_drop j && has_waiter ser (s_conns s) && id_is (s_ids s) (j_id j) ser); [|exact H1].
    cbn [fst]. eapply hc_same; [exact H1|reflexivity|reflexivity|reflexivity|reflexivity].
Qed.

Lemma run_events_hc : forall es s, Inv s [] [] -> hub_ok (s_jobs s) es -> HC s [] ->
  HC (fst (run_events es s)) [].
Proof.
  induction es as [|e r IH]; intros s I HD H; cbn [run_events]; [exact H|].
  assert (I1 : Inv (fst (run_event e s)) [] []).
  { apply run_event_inv; [exact I|]. intros ser E. apply HD. left. exact E. }
  pose proof (run_event_hc e s I H) as H1.
  pose proof (run_event_jobs e s) as J1.
  destruct (run_event e s) as [s1 o1]. cbn [fst] in I1, J1, H1.
  assert (HD1 : hub_ok (s_jobs s1) r) by (rewrite J1; intros ser Hin; apply HD; right; exact Hin).
  specialize (IH s1 I1 HD1 H1). destruct (run_events r s1) as [s2 o2]. exact IH.
Qed.

(* ------------------------------------------------------------------ finish / kill drop running_jobs entries of finished jobs *)

Lemma drop_running_hc : forall s c js,
  Inv s [] [] -> HC s [] ->
  (forall i w, In i js -> id_lookup (s_ids s) i = Some w -> is_done (s_jobs s) w = true) ->
  HC (set_conns (put_conn (s_conns s) (mkConn c (c_st (get_conn (s_conns s) c))
                                              (fold_left run_del js (c_run (get_conn (s_conns s) c))))) s) [].
Proof.
  intros s c js I H HD. eapply hc_frame; [exact H|reflexivity|reflexivity|apply djobs_refl|].
  intros y jy Ey Dy. sf.
  pose proof (run_occ_put y (s_conns s) (mkConn c (c_st (get_conn (s_conns s) c))
                                                (fold_left run_del js (c_run (get_conn (s_conns s) c))))) as P. sf.
  destruct (run_del_fold js (c_run (get_conn (s_conns s) c)) y) as [F _]; [|lia].
  intros i w Hi Hin Ewy. subst w.
  destruct (conn_run_exists _ _ _ _ _ _ I Hin) as (j&Ej&Hid). rewrite Ey in Ej. inversion Ej; subst j.
  pose proof (inv_addr _ _ _ I y jy Ey Dy eq_refl) as A. rewrite Hid in A.
  pose proof (HD i y Hi A) as D. unfold is_done in D. rewrite Ey in D. congruence.
Qed.

(* ------------------------------------------------------------------ add *)

Lemma push_hc : forall ch prio name tmo s, Inv s [] [] -> HC s [] -> HC (fst (push ch prio name tmo s)) [].
Proof.
  intros ch prio name tmo s I H.
  assert (F : forall j0 (i0 : jid), j_serial j0 = s_count s + 1 -> j_done j0 = false ->
              HC (fst (pushjob (s_count s + 1) (set_jobs (j0 :: s_jobs s) (set_count (s_count s + 1) s)), i0)) []).
  { intros j0 i0 Hs Hd. cbn [fst]. apply pushjob_hc. intro y. pose proof (H y) as Hy. unfold hc_at in *. sf.
    cbn [getjob]. rewrite Hs. destruct (s_count s + 1 =? y) eqn:Ey; [|exact Hy].
    apply N.eqb_eq in Ey. rewrite Hd.
    assert (GN : getjob (s_jobs s) y = None).
    { destruct (getjob (s_jobs s) y) as [jy|] eqn:G; [|reflexivity]. pose proof (inv_tab _ _ _ I _ _ G). lia. }
    rewrite GN in Hy. destruct Hy as [Hy1 Hy2].
    pose proof (held_absent s y I GN) as Z. cbn [occ]. lia. }
  unfold push. destruct name as [n|]; [|apply F; reflexivity].
  destruct (id_lookup (s_ids s) (JName n)) as [ser|]; [|apply F; reflexivity].
  destruct (getjob (s_jobs s) ser) as [j0|]; [|apply F; reflexivity].
  destruct (err_is_killed (j_err j0)); [apply F; reflexivity|exact H].
Qed.

(* ------------------------------------------------------------------ drop / watchdog *)

Lemma dropjobs_hc : forall js s L, HC s L -> HC (dropjobs js s) L.
Proof.
  induction js as [|i r IH]; intros s L H; cbn [dropjobs]; [exact H|].
  destruct (id_lookup (s_ids s) i) as [ser|]; [|apply IH; exact H]. apply IH.
  eapply hc_frame; [exact H|reflexivity|reflexivity| |intros; reflexivity].
  sf. apply djobs_setjob; intro j; reflexivity.
Qed.

Lemma dropdead_loop_hc : forall l s L, HC s L -> HC (dropdead_loop l s) L.
Proof.
  induction l as [|i r IH]; intros s L H; cbn [dropdead_loop]; [exact H|].
  destruct (id_lookup (s_ids s) i) as [ser|]; [|apply IH; exact H].
  destruct (getjob (s_jobs s) ser) as [j|]; [|apply IH; exact H].
  cbv zeta. apply IH.
  destruct (match j_dl j with Some d => negb (d =? 0) && (d <? s_now s) | None => false end);
    destruct (j_done j && negb (dl_truthy (j_dl j)));
    (eapply hc_frame; [exact H|reflexivity|reflexivity| |intros; reflexivity]); sf;
    try apply djobs_refl; apply djobs_setjob; intro j1; reflexivity.
Qed.

(* ------------------------------------------------------------------ every op *)

Lemma step_hc : forall s o, Good s -> HC s [] -> HC (fst (step s o)) [].
Proof.
  intros s o (A&K&I) H.
  destruct o as [ch prio name tmo|c chs| |c i res e|c js|dt|c|k|c i|i|i v| |dt|js|]; cbn [step].
  - pose proof (push_hc ch prio name tmo s I H) as P. destruct (push ch prio name tmo s) as [s1 i]. exact P.
  - destruct (is_idle c s); [|exact H]. apply pop_or_block_hc; assumption.
  - apply run_events_hc.
    + eapply inv_same; eauto.
    + exact K.
    + eapply hc_same; [exact H|reflexivity|reflexivity|reflexivity|reflexivity].
  - destruct (is_idle c s) eqn:EI; [|exact H]. apply is_idle_st in EI.
    destruct (id_lookup (s_ids s) i) as [ser|] eqn:El; [|exact H]. cbn [fst].
    set (u := fun j => upd_finish res e (if err_truthy e then N_min 10 (j_ttl j) else j_ttl j) j).
    destruct (mark_fields ser u s) as (_&Hc&_&Hi&_).
    pose proof (mark_inv ser u s _ _ I) as I1.
    pose proof (mark_hc ser u s I H) as H1.
    apply (drop_running_hc (mark_finished ser u s) c [i] I1 H1).
    intros i' w [Hi'|[]] Hl. subst i'. rewrite Hi, El in Hl. inversion Hl; subst. apply mark_done.
  - destruct (is_idle c s) eqn:EI; [|exact H]. cbn [fst].
    destruct (killjobs_ids js s) as (Hi&_&Hc).
    apply (drop_running_hc (killjobs js s) c js (killjobs_inv js s _ _ I) (killjobs_hc js s I H)).
    intros i w Hin Hl. rewrite Hi in Hl. eapply killjobs_done; eauto.
  - cbn [fst]. unfold handletimeouts.
    eapply hc_same; [apply (timeouts_loop_hc (s_tq s) (set_now (s_now s + dt) s))|reflexivity|reflexivity|reflexivity|reflexivity].
    + eapply inv_same; eauto.
    + eapply hc_same; [exact H|reflexivity|reflexivity|reflexivity|reflexivity].
  - destruct (c_st (get_conn (s_conns s) c)); cbn [fst]; try exact H;
      (eapply hc_same; [exact H|reflexivity|reflexivity|reflexivity|reflexivity]).
  - cbn [fst]. eapply hc_same; [exact H|reflexivity|reflexivity|reflexivity|reflexivity].
  - destruct (is_idle c s); [|exact H]. destruct (id_lookup (s_ids s) i) as [ser|]; [|exact H].
    destruct (getjob (s_jobs s) ser) as [j|]; [|exact H].
    destruct (j_done j).
    + destruct (j_drop j && id_is (s_ids s) (j_id j) ser); [|exact H]. cbn [fst].
      eapply hc_same; [exact H|reflexivity|reflexivity|reflexivity|reflexivity].
    + cbn [fst]. eapply hc_frame; [exact H|reflexivity|reflexivity|apply djobs_refl|].
      intros y jy _ _. sf. apply run_occ_put_same.
  - exact H.
  - destruct (id_lookup (s_ids s) i) as [ser|]; [|exact H]. cbn [fst].
    eapply hc_frame; [exact H|reflexivity|reflexivity| |intros; reflexivity].
    sf. apply djobs_setjob; intro j; reflexivity.
  - exact H.
  - cbn [fst]. eapply hc_same; [exact H|reflexivity|reflexivity|reflexivity|reflexivity].
  - cbn [fst]. apply dropjobs_hc. exact H.
  - cbn [fst]. unfold dropdead. apply dropdead_loop_hc. exact H.
Qed.

Lemma hc_init : HC init [].
Proof. intro x. unfold hc_at. cbn. split; reflexivity. Qed.

Definition GoodHC (s : state) : Prop := Good s /\ HC s [].

Lemma step_goodhc : forall s o, GoodHC s -> GoodHC (fst (step s o)).
Proof. intros s o [G H]. split; [apply step_good; exact G|apply step_hc; assumption]. Qed.

Lemma reachable_goodhc : forall h, GoodHC (run h init).
Proof.
  intro h. apply (invariant_reachable GoodHC step_goodhc). split; [apply good_init|apply hc_init].
Qed.

(* ------------------------------------------------------------------ C16 statements *)

(* For EVERY history and every job object x that exists:
   re-queues <= hand-outs <= re-queues + 1; and while x is unfinished
   hand-outs = re-queues + (number of connections holding x in running_jobs), which is 0 or 1. *)
Lemma handout_count : forall h x j,
  let s := run h init in
  getjob (s_jobs s) x = Some j ->
  (occ x (s_requeued s) <= occ x (s_handed s) <= occ x (s_requeued s) + 1)%nat /\
  (j_done j = false -> occ x (s_handed s) = (occ x (s_requeued s) + run_occ x (s_conns s))%nat).
Proof.
  intros h x j s E. destruct (reachable_goodhc h) as [(_&_&I) H]. fold s in I, H.
  pose proof (H x) as Hx. unfold hc_at in Hx. rewrite E in Hx.
  destruct (j_done j) eqn:D.
  - split; [exact Hx|discriminate].
  - pose proof (held_le_1 s x j I E D) as H1. cbn [occ] in Hx. split; [lia|]. intros _. lia.
Qed.

Lemma handout_held_le_1 : forall h x j,
  let s := run h init in
  getjob (s_jobs s) x = Some j -> j_done j = false -> (held s x <= 1)%nat.
Proof.
  intros h x j s E D. destruct (reachable_goodhc h) as [(_&_&I) _]. fold s in I.
  exact (held_le_1 s x j I E D).
Qed.

Lemma handout_none : forall h x,
  let s := run h init in
  getjob (s_jobs s) x = None -> occ x (s_handed s) = 0%nat /\ occ x (s_requeued s) = 0%nat.
Proof.
  intros h x s E. destruct (reachable_goodhc h) as [_ H]. fold s in H.
  pose proof (H x) as Hx. unfold hc_at in Hx. rewrite E in Hx. exact Hx.
Qed.

(* Unconditional form (no hypothesis on x at all — accepted or not, finished or not): the n-th hand-out of x needs
   n-1 re-queues by QPlugin.shutdown of a dropped connection; in particular a second hand-out needs a drop. *)
Lemma handout_again_needs_requeue : forall h x,
  let s := run h init in
  (occ x (s_handed s) <= occ x (s_requeued s) + 1)%nat /\
  (2 <= occ x (s_handed s) -> 1 <= occ x (s_requeued s))%nat.
Proof.
  intros h x s. assert (A : Nat.le (occ x (s_handed s)) (occ x (s_requeued s) + 1)%nat).
  { destruct (getjob (s_jobs s) x) as [j|] eqn:E.
    - destruct (handout_count h x j E) as [[_ B] _]. exact B.
    - destruct (handout_none h x E) as [B _]. fold s in B. rewrite B. lia. }
  split; [exact A|lia].
Qed.

(* Non-vacuity: job 1 is handed to worker 1, whose connection drops; shutdown re-queues it; worker 2 gets it:
   handed out twice, re-queued once, held by one worker. *)
Definition handout_history : list op :=
  [Add 0 0 None None; StartPull 1 []; Disconnect 1; RunLoop; StartPull 2 []].

Example handout_example :
  let s := run handout_history init in
  s_handed s = [1; 1] /\ s_requeued s = [1] /\
  map (fun j => (j_serial j, j_done j)) (s_jobs s) = [(1, false)] /\
  run_occ 1 (s_conns s) = 1%nat /\
  (occ 1 (s_handed s) = occ 1 (s_requeued s) + run_occ 1 (s_conns s))%nat.
Proof. vm_compute. repeat split. Qed.
