(* C16/C17/C18 — executable model of the qserve job queue (src/qs/jobs.py `job`/`workq`,
   src/qs/qserve.py `QPlugin`, the connection life cycle of src/qs/rpcserver.py
   handle_client) under gevent's cooperative scheduling.  No proofs in this file.

   One `step` = one atomic stretch between two gevent yields.  The hub's FIFO callback
   queue is explicit (`s_hub`): AsyncResult.set / Event.set / greenlet.kill(block=False)
   append an event, `RunLoop` runs exactly the events that were queued when it started, in
   order (that is what `gevent.sleep(0)` does); events queued meanwhile stay for the next
   RunLoop.  `random.choice` is resolved by the explicit list `s_choices` (op `Choice k`).

   Job OBJECTS are identified by their serial (unique per object: jobs.py pushjob, "if
   job.serial is None: self.count += 1"); a job id can be re-used by a new object after the
   old one was killed (jobs.py push), so `s_ids` (id2job) maps ids to serials.

   Modelled with the two proposed patches applied (see /verif/fixes):
     C16-repush-done.diff : pop()'s kill handler re-queues a handed-over job only when it
                            is not done (otherwise pushjob overwrites id2job[jobid] of a
                            re-added job with the dead object);
     C17-counters.diff    : _mark_finished counts a falsy error ("" ) as success.
   (both are in /repo since 558c82c / f2b0ce6.)

   waitjobs is modelled as of b6f8314 ("waitjobs deletes a re-added job, or raises KeyError, when a
   dropped id was re-used or has several waiters"): a dropped job's id2job entry is deleted only while
   it still refers to the waited-for object; and of a8ac510 ("qwait on a just-finished job hangs forever
   when an earlier waiter disconnects first"): the finish event is waited for only while the job is not done.

   Outside the properties' alphabets but modelled (needed to reach "the newest job is gone at save
   time", C18): Drop = dropjobs (+ the deletion in waitjobs), Watchdog = dropdead, Advance = the
   clock moving without the handletimeouts sweep. *)
From Coq Require Import List NArith Bool.
Import ListNotations.
Open Scope N_scope.

(* ------------------------------------------------------------------ data *)

Inductive jid := JAuto (n : N) | JName (n : N).      (* jobid = serial (int) | client string *)

Definition jid_eqb (a b : jid) : bool :=
  match a, b with
  | JAuto x, JAuto y => x =? y
  | JName x, JName y => x =? y
  | _, _ => false
  end.

(* error value: None | string; strings are coded: 0 = "", 1 = "timeout", 2 = "killed",
   >= 3 any other non-empty string *)
Inductive err := ENone | EStr (n : N).
Definition e_timeout := EStr 1.
Definition e_killed := EStr 2.
Definition err_truthy (e : err) : bool := match e with ENone => false | EStr n => negb (n =? 0) end.
Definition err_is_killed (e : err) : bool := match e with EStr 2 => true | _ => false end.

Record job := mkJob {
  j_serial : N; j_id : jid; j_chan : N; j_prio : N;
  j_timeout : N;                      (* absolute deadline: time.time() + timeout, jobs.py:36 *)
  j_done : bool; j_err : err; j_res : option N; j_info : option N; j_ttl : N;
  j_dl : option N;                    (* job.deadline: None until dropdead() stamps a finished job, jobs.py:183-185 *)
  j_drop : bool }.                    (* job.drop, set by dropjobs(), jobs.py:163-169 *)

Inductive cstate :=
| Idle                                           (* handler waits for the next request *)
| BPull (chs : list N) (mailbox : option N)      (* blocked in pop(): ev.get(); mailbox = ev.value *)
| BWait (ser : N)                                (* blocked in waitjobs(): finish_event.wait() *)
| Dead.

Record conn := mkConn { c_id : N; c_st : cstate; c_run : list (jid * N) (* running_jobs *) }.

Inductive event := EvNotify (c : N) | EvKill (c : N) | EvDone (ser : N).

Record counts := mkCounts { n_error : N; n_timeout : N; n_killed : N; n_success : N }.

Record state := mkState {
  s_count : N;                                (* workq.count *)
  s_jobs : list job;                          (* every job object created so far *)
  s_ids : list (jid * N);                     (* workq.id2job : jobid -> object *)
  s_queues : list (N * list (N * N));         (* channel2q: channel -> heap as list sorted by (prio, serial) *)
  s_waiters : list (N * list N);              (* _waiters in registration order: (connection, channels) *)
  s_conns : list conn;
  s_tq : list (N * (N * N));                  (* timeoutq: (deadline, (prio, serial)), sorted *)
  s_hub : list event;                         (* gevent hub FIFO callback queue *)
  s_now : N;                                  (* virtual time.time() *)
  s_cnt : list (N * counts);                  (* _channel2count *)
  s_choices : list N;                         (* pending answers of random.choice *)
  s_handed : list N;                          (* ghost: serials in order of delivery to a worker *)
  s_requeued : list N                         (* ghost: serials re-queued by QPlugin.shutdown *)
}.

Definition init : state := mkState 0 [] [] [] [] [] [] [] 0 [] [] [] [].

Definition set_count v s := mkState v (s_jobs s) (s_ids s) (s_queues s) (s_waiters s) (s_conns s) (s_tq s) (s_hub s) (s_now s) (s_cnt s) (s_choices s) (s_handed s) (s_requeued s).
Definition set_jobs v s := mkState (s_count s) v (s_ids s) (s_queues s) (s_waiters s) (s_conns s) (s_tq s) (s_hub s) (s_now s) (s_cnt s) (s_choices s) (s_handed s) (s_requeued s).
Definition set_ids v s := mkState (s_count s) (s_jobs s) v (s_queues s) (s_waiters s) (s_conns s) (s_tq s) (s_hub s) (s_now s) (s_cnt s) (s_choices s) (s_handed s) (s_requeued s).
Definition set_queues v s := mkState (s_count s) (s_jobs s) (s_ids s) v (s_waiters s) (s_conns s) (s_tq s) (s_hub s) (s_now s) (s_cnt s) (s_choices s) (s_handed s) (s_requeued s).
Definition set_waiters v s := mkState (s_count s) (s_jobs s) (s_ids s) (s_queues s) v (s_conns s) (s_tq s) (s_hub s) (s_now s) (s_cnt s) (s_choices s) (s_handed s) (s_requeued s).
Definition set_conns v s := mkState (s_count s) (s_jobs s) (s_ids s) (s_queues s) (s_waiters s) v (s_tq s) (s_hub s) (s_now s) (s_cnt s) (s_choices s) (s_handed s) (s_requeued s).
Definition set_tq v s := mkState (s_count s) (s_jobs s) (s_ids s) (s_queues s) (s_waiters s) (s_conns s) v (s_hub s) (s_now s) (s_cnt s) (s_choices s) (s_handed s) (s_requeued s).
Definition set_hub v s := mkState (s_count s) (s_jobs s) (s_ids s) (s_queues s) (s_waiters s) (s_conns s) (s_tq s) v (s_now s) (s_cnt s) (s_choices s) (s_handed s) (s_requeued s).
Definition set_now v s := mkState (s_count s) (s_jobs s) (s_ids s) (s_queues s) (s_waiters s) (s_conns s) (s_tq s) (s_hub s) v (s_cnt s) (s_choices s) (s_handed s) (s_requeued s).
Definition set_cnt v s := mkState (s_count s) (s_jobs s) (s_ids s) (s_queues s) (s_waiters s) (s_conns s) (s_tq s) (s_hub s) (s_now s) v (s_choices s) (s_handed s) (s_requeued s).
Definition set_choices v s := mkState (s_count s) (s_jobs s) (s_ids s) (s_queues s) (s_waiters s) (s_conns s) (s_tq s) (s_hub s) (s_now s) (s_cnt s) v (s_handed s) (s_requeued s).
Definition set_handed v s := mkState (s_count s) (s_jobs s) (s_ids s) (s_queues s) (s_waiters s) (s_conns s) (s_tq s) (s_hub s) (s_now s) (s_cnt s) (s_choices s) v (s_requeued s).
Definition set_requeued v s := mkState (s_count s) (s_jobs s) (s_ids s) (s_queues s) (s_waiters s) (s_conns s) (s_tq s) (s_hub s) (s_now s) (s_cnt s) (s_choices s) (s_handed s) v.

(* ------------------------------------------------------------------ tables *)

Fixpoint getjob (js : list job) (ser : N) : option job :=
  match js with
  | [] => None
  | j :: r => if j_serial j =? ser then Some j else getjob r ser
  end.

Definition setjob (ser : N) (f : job -> job) (js : list job) : list job :=
  map (fun j => if j_serial j =? ser then f j else j) js.

Definition is_done (js : list job) (ser : N) : bool :=
  match getjob js ser with Some j => j_done j | None => true end.

Fixpoint id_lookup (ids : list (jid * N)) (i : jid) : option N :=
  match ids with
  | [] => None
  | (k, v) :: r => if jid_eqb k i then Some v else id_lookup r i
  end.

(* Python dict assignment: an existing key keeps its position *)
Fixpoint id_set (ids : list (jid * N)) (i : jid) (v : N) : list (jid * N) :=
  match ids with
  | [] => [(i, v)]
  | (k, w) :: r => if jid_eqb k i then (k, v) :: r else (k, w) :: id_set r i v
  end.

Fixpoint id_del (ids : list (jid * N)) (i : jid) : list (jid * N) :=
  match ids with
  | [] => []
  | (k, w) :: r => if jid_eqb k i then r else (k, w) :: id_del r i
  end.

Definition qkey := (N * N)%type.                     (* (priority, serial), jobs.py:45-52 *)
Definition key_lt (a b : qkey) : bool :=
  (fst a <? fst b) || ((fst a =? fst b) && (snd a <? snd b)).

Fixpoint ins (x : qkey) (l : list qkey) : list qkey :=       (* heapq.heappush on the sorted view *)
  match l with
  | [] => [x]
  | y :: r => if key_lt x y then x :: l else y :: ins x r
  end.

Fixpoint q_get (qs : list (N * list qkey)) (c : N) : option (list qkey) :=
  match qs with
  | [] => None
  | (k, l) :: r => if k =? c then Some l else q_get r c
  end.

Fixpoint q_set (qs : list (N * list qkey)) (c : N) (l : list qkey) : list (N * list qkey) :=
  match qs with
  | [] => [(c, l)]
  | (k, m) :: r => if k =? c then (k, l) :: r else (k, m) :: q_set r c l
  end.

Definition tkey := (N * qkey)%type.                  (* (deadline, job) tuples of timeoutq *)
Definition tkey_lt (a b : tkey) : bool :=
  (fst a <? fst b) || ((fst a =? fst b) && key_lt (snd a) (snd b)).
Fixpoint tins (x : tkey) (l : list tkey) : list tkey :=
  match l with
  | [] => [x]
  | y :: r => if tkey_lt x y then x :: l else y :: tins x r
  end.

Definition new_conn (c : N) : conn := mkConn c Idle [].

Fixpoint get_conn (cs : list conn) (c : N) : conn :=
  match cs with
  | [] => new_conn c
  | x :: r => if c_id x =? c then x else get_conn r c
  end.

Fixpoint put_conn (cs : list conn) (x : conn) : list conn :=
  match cs with
  | [] => [x]
  | y :: r => if c_id y =? c_id x then x :: r else y :: put_conn r x
  end.

Fixpoint mem (x : N) (l : list N) : bool :=
  match l with [] => false | y :: r => (y =? x) || mem x r end.

(* ------------------------------------------------------------------ jobs.py *)

(* _preenjobq, jobs.py:100-106 *)
Fixpoint preen (js : list job) (q : list qkey) : list qkey :=
  match q with
  | [] => []
  | x :: r => if is_done js (snd x) then preen js r else q
  end.

(* _preenall, jobs.py:108-112 *)
Definition preenall (s : state) : state :=
  set_queues (map (fun kq => (fst kq, preen (s_jobs s) (snd kq))) (s_queues s)) s.

Definition bump (e : err) (c : counts) : counts :=
  match e with
  | ENone => mkCounts (n_error c) (n_timeout c) (n_killed c) (n_success c + 1)
  | EStr 1 => mkCounts (n_error c) (n_timeout c + 1) (n_killed c) (n_success c)
  | EStr 2 => mkCounts (n_error c) (n_timeout c) (n_killed c + 1) (n_success c)
  | EStr 0 => mkCounts (n_error c) (n_timeout c) (n_killed c) (n_success c + 1)   (* C17-counters.diff *)
  | EStr _ => mkCounts (n_error c + 1) (n_timeout c) (n_killed c) (n_success c)
  end.

Definition zero_counts := mkCounts 0 0 0 0.

Fixpoint cnt_get (cs : list (N * counts)) (c : N) : counts :=
  match cs with
  | [] => zero_counts
  | (k, v) :: r => if k =? c then v else cnt_get r c
  end.

Fixpoint cnt_set (cs : list (N * counts)) (c : N) (v : counts) : list (N * counts) :=
  match cs with
  | [] => [(c, v)]
  | (k, w) :: r => if k =? c then (k, v) :: r else (k, w) :: cnt_set r c v
  end.

(* gevent Event: set() schedules the notifier callback only when somebody is linked (waiting).  While that
   callback is pending, a NEW wait() on the already-set event would also block (gevent's _wait: "already
   notifying: wait to be notified") - and lose its wake-up when the earlier waiters die first; waitjobs
   therefore never waits on the event of a finished job (a8ac510), and the model's Wait does not either.
   done_pending is kept for the statements about the hub (a blocked waiter of a finished job has its wake-up queued). *)
Fixpoint has_waiter (ser : N) (cs : list conn) : bool :=
  match cs with
  | [] => false
  | x :: r => match c_st x with BWait w => (w =? ser) || has_waiter ser r | _ => has_waiter ser r end
  end.

Fixpoint done_pending (ser : N) (es : list event) : bool :=
  match es with
  | [] => false
  | EvDone w :: r => (w =? ser) || done_pending ser r
  | _ :: r => done_pending ser r
  end.

(* _mark_finished, jobs.py:114-137.  `upd` are the keyword arguments. *)
Definition mark_finished (ser : N) (upd : job -> job) (s : state) : state :=
  match getjob (s_jobs s) ser with
  | None => s
  | Some j =>
    if j_done j then s
    else
      let j' := upd j in
      let fin := mkJob (j_serial j) (j_id j) (j_chan j) (j_prio j) (j_timeout j) true
                       (j_err j') (j_res j') (j_info j) (j_ttl j') (j_dl j) (j_drop j) in
      let s1 := set_jobs (setjob ser (fun _ => fin) (s_jobs s)) s in
      let s2 := set_hub (if has_waiter ser (s_conns s1) then s_hub s1 ++ [EvDone ser] else s_hub s1) s1 in   (* finish_event.set() *)
      set_cnt (cnt_set (s_cnt s2) (j_chan j) (bump (j_err fin) (cnt_get (s_cnt s2) (j_chan j)))) s2
  end.

Definition upd_err (e : err) (j : job) : job :=
  mkJob (j_serial j) (j_id j) (j_chan j) (j_prio j) (j_timeout j) (j_done j) e (j_res j) (j_info j) (j_ttl j) (j_dl j) (j_drop j).

Definition upd_finish (res : option N) (e : err) (ttl : N) (j : job) : job :=
  mkJob (j_serial j) (j_id j) (j_chan j) (j_prio j) (j_timeout j) (j_done j) e res (j_info j) ttl (j_dl j) (j_drop j).

(* handletimeouts loop, jobs.py:139-151, over the sorted view of the heap *)
Fixpoint timeouts_loop (q : list tkey) (s : state) : state :=
  match q with
  | [] => set_tq [] s
  | x :: r =>
    if is_done (s_jobs s) (snd (snd x)) then timeouts_loop r s
    else if s_now s <? fst x then set_tq q s
    else timeouts_loop r (mark_finished (snd (snd x)) (upd_err e_timeout) s)
  end.

Definition handletimeouts (s : state) : state := preenall (timeouts_loop (s_tq s) s).

(* killjobs, jobs.py:155-161 *)
Fixpoint killjobs (js : list jid) (s : state) : state :=
  match js with
  | [] => s
  | i :: r =>
    match id_lookup (s_ids s) i with
    | None => killjobs r s
    | Some ser => killjobs r (mark_finished ser (upd_err e_killed) s)
    end
  end.

Definition watches (ch : N) (w : N * list N) : bool :=
  match snd w with [] => true | _ => mem ch (snd w) end.

Fixpoint remove_waiter (c : N) (ws : list (N * list N)) : list (N * list N) :=
  match ws with
  | [] => []
  | w :: r => if fst w =? c then r else w :: remove_waiter c r
  end.

(* pushjob, jobs.py:244-279, for an object that already has its serial *)
Definition pushjob (ser : N) (s : state) : state :=
  match getjob (s_jobs s) ser with
  | None => s
  | Some j =>
    let s1 := set_ids (id_set (s_ids s) (j_id j) ser) s in
    let alts := filter (watches (j_chan j)) (s_waiters s1) in
    let s2 := set_tq (tins (j_timeout j, (j_prio j, ser)) (s_tq s1)) s1 in
    match alts with
    | [] =>
      let q := match q_get (s_queues s2) (j_chan j) with Some q => q | None => [] end in
      set_queues (q_set (s_queues s2) (j_chan j) (ins (j_prio j, ser) q)) s2
    | a0 :: _ =>
      let k := match s_choices s2 with [] => 0 | k :: _ => k end in
      let s3 := set_choices (tl (s_choices s2)) s2 in
      let w := nth (N.to_nat (k mod N.of_nat (length alts))) alts a0 in   (* random.choice *)
      let s4 := set_waiters (remove_waiter (fst w) (s_waiters s3)) s3 in
      let cn := get_conn (s_conns s4) (fst w) in
      let s5 := set_conns (put_conn (s_conns s4) (mkConn (fst w) (BPull (snd w) (Some ser)) (c_run cn))) s4 in
      set_hub (s_hub s5 ++ [EvNotify (fst w)]) s5                        (* waiter[1].set(job) *)
    end
  end.

Inductive out :=
| OJid (i : jid)
| OBlocked
| ODeliver (c : N) (chs : list N) (j : job)       (* rpc_qpull of connection c returned j._json() *)
| OReleased (c : N) (j : job)                     (* rpc_qwait of connection c returned *)
| ODied (c : N)
| OBusy
| OKeyErr
| OUnit
| OInfo (j : option job)
| OStats (count numjobs : N) (cnt : list (N * counts)) (busy : list (N * N)).

(* push, jobs.py:281-296 *)
Definition push (ch prio : N) (name : option N) (tmo : option N) (s : state) : state * jid :=
  let fresh :=
    let ser := s_count s + 1 in
    let i := match name with Some n => JName n | None => JAuto ser end in
    let t := match tmo with Some t => t | None => 120 end in
    let j := mkJob ser i ch prio (s_now s + t) false ENone None None 3600 None false in
    (pushjob ser (set_jobs (j :: s_jobs s) (set_count ser s)), i) in
  match name with
  | None => fresh
  | Some n =>
    match id_lookup (s_ids s) (JName n) with
    | None => fresh
    | Some ser =>
      match getjob (s_jobs s) ser with
      | None => fresh
      | Some j => if err_is_killed (j_err j) then fresh else (s, JName n)
      end
    end
  end.

Definition better (a : option qkey) (b : qkey) : option qkey :=
  match a with None => Some b | Some x => if key_lt b x then Some b else Some x end.

Fixpoint heads (qs : list (N * list qkey)) (chs : list N) : option qkey :=
  match chs with
  | [] => None
  | c :: r =>
    match q_get qs c with
    | Some (x :: _) => match heads qs r with None => Some x | Some y => if key_lt y x then Some y else Some x end
    | _ => heads qs r
    end
  end.

Fixpoint run_set (l : list (jid * N)) (i : jid) (v : N) : list (jid * N) :=
  match l with
  | [] => [(i, v)]
  | (k, w) :: r => if jid_eqb k i then (k, v) :: r else (k, w) :: run_set r i v
  end.

(* tail of rpc_qpull, qserve.py:56-58: running_jobs[j.jobid] = j; return j._json() *)
Definition deliver (c : N) (chs : list N) (ser : N) (s : state) : state * list out :=
  match getjob (s_jobs s) ser with
  | None => (s, [])
  | Some j =>
    let cn := get_conn (s_conns s) c in
    let s1 := set_conns (put_conn (s_conns s) (mkConn c Idle (run_set (c_run cn) (j_id j) ser))) s in
    (set_handed (ser :: s_handed s1) s1, [ODeliver c chs j])
  end.

(* pop, jobs.py:298-335, up to the point where it returns or blocks *)
Definition pop_or_block (c : N) (chs : list N) (s : state) : state * list out :=
  let s1 := preenall s in
  let try := match chs with [] => map fst (s_queues s1) | _ => chs end in
  match heads (s_queues s1) try with
  | Some x =>
    match getjob (s_jobs s1) (snd x) with
    | None => (s1, [])
    | Some j =>
      let q := match q_get (s_queues s1) (j_chan j) with Some q => q | None => [] end in
      deliver c chs (snd x) (set_queues (q_set (s_queues s1) (j_chan j) (tl q)) s1)    (* heappop *)
    end
  | None =>
    let cn := get_conn (s_conns s1) c in
    let s2 := set_waiters (s_waiters s1 ++ [(c, chs)]) s1 in
    (set_conns (put_conn (s_conns s2) (mkConn c (BPull chs None) (c_run cn))) s2, [OBlocked])
  end.

(* QPlugin.shutdown, qserve.py:102-108 *)
Fixpoint shutdown_loop (l : list (jid * N)) (s : state) : state :=
  match l with
  | [] => s
  | (_, ser) :: r =>
    if is_done (s_jobs s) ser then shutdown_loop r s
    else shutdown_loop r (pushjob ser (set_requeued (ser :: s_requeued s) s))
  end.

Definition die (c : N) (s : state) : state * list out :=
  let cn := get_conn (s_conns s) c in
  let s1 := set_conns (put_conn (s_conns s) (mkConn c Dead [])) s in
  (shutdown_loop (c_run cn) s1, [ODied c]).

Fixpoint release (ser : N) (js : list job) (cs : list conn) : list conn * list out :=
  match cs with
  | [] => ([], [])
  | x :: r =>
    let (r', o) := release ser js r in
    match c_st x with
    | BWait w =>
      if w =? ser then
        (mkConn (c_id x) Idle (c_run x) :: r',
         match getjob js ser with Some j => OReleased (c_id x) j :: o | None => o end)
      else (x :: r', o)
    | _ => (x :: r', o)
    end
  end.

(* `self.id2job.get(jobid) is j` *)
Definition id_is (ids : list (jid * N)) (i : jid) (ser : N) : bool :=
  match id_lookup ids i with Some w => w =? ser | None => false end.

Definition run_event (e : event) (s : state) : state * list out :=
  match e with
  | EvNotify c =>
    match c_st (get_conn (s_conns s) c) with
    | BPull chs (Some ser) =>
      if is_done (s_jobs s) ser then pop_or_block c chs s       (* jobs.py:331-333 retry *)
      else deliver c chs ser s
    | _ => (s, [])
    end
  | EvKill c =>
    match c_st (get_conn (s_conns s) c) with
    | Dead => (s, [])
    | Idle => die c s
    | BWait _ => die c s
    | BPull chs mb =>                                            (* jobs.py:322-330 *)
      let s1 := set_waiters (remove_waiter c (s_waiters s)) s in
      let s2 := match mb with
                | Some ser => if is_done (s_jobs s1) ser then s1 else pushjob ser s1   (* C16-repush-done.diff *)
                | None => s1
                end in
      die c s2
    end
  | EvDone ser =>
    (* waitjobs, jobs.py:227-233: every client released by the event runs
         if j.drop and self.id2job.get(j.jobid) is j: del self.id2job[j.jobid]
       (b6f8314).  The first one deletes the entry iff it still refers to THIS object; for the following
       ones (and for all of them when the id was re-added after a kill, or already forgotten by the
       watchdog) the test is false.  Every released client gets the job record. *)
    let (cs, o) := release ser (s_jobs s) (s_conns s) in
    match getjob (s_jobs s) ser with
    | Some j =>
      if j_drop j && has_waiter ser (s_conns s) && id_is (s_ids s) (j_id j) ser then
        (set_ids (id_del (s_ids s) (j_id j)) (set_conns cs s), o)
      else (set_conns cs s, o)
    | None => (set_conns cs s, o)
    end
  end.

Fixpoint run_events (es : list event) (s : state) : state * list out :=
  match es with
  | [] => (s, [])
  | e :: r =>
    let (s1, o1) := run_event e s in
    let (s2, o2) := run_events r s1 in
    (s2, o1 ++ o2)
  end.

Fixpoint run_del (l : list (jid * N)) (i : jid) : list (jid * N) :=
  match l with
  | [] => []
  | (k, w) :: r => if jid_eqb k i then r else (k, w) :: run_del r i
  end.

Definition is_idle (c : N) (s : state) : bool :=
  match c_st (get_conn (s_conns s) c) with Idle => true | _ => false end.

Definition count_undone (js : list job) (q : list qkey) : N :=
  N.of_nat (length (filter (fun x => negb (is_done js (snd x))) q)).

(* dropjobs, jobs.py:163-169 *)
Definition set_drop (j : job) : job :=
  mkJob (j_serial j) (j_id j) (j_chan j) (j_prio j) (j_timeout j) (j_done j) (j_err j) (j_res j) (j_info j) (j_ttl j) (j_dl j) true.

Fixpoint dropjobs (js : list jid) (s : state) : state :=
  match js with
  | [] => s
  | i :: r =>
    match id_lookup (s_ids s) i with
    | None => dropjobs r s
    | Some ser => dropjobs r (set_jobs (setjob ser set_drop (s_jobs s)) s)
    end
  end.

(* dropdead, jobs.py:171-189, over the snapshot list(self.id2job.items()); now = int(time.time()) and the
   virtual clock is integral.  `job.deadline` is truthy when it is a non-zero number. *)
Definition dl_truthy (d : option N) : bool := match d with Some n => negb (n =? 0) | None => false end.

Definition set_dl (d : option N) (j : job) : job :=
  mkJob (j_serial j) (j_id j) (j_chan j) (j_prio j) (j_timeout j) (j_done j) (j_err j) (j_res j) (j_info j) (j_ttl j) d (j_drop j).

(* the loop variable `job` of a snapshot entry (jid, job) is what id2job[jid] holds during the whole loop
   (the loop only deletes the entry it is looking at), so the model looks the id up in the current table *)
Fixpoint dropdead_loop (l : list jid) (s : state) : state :=
  match l with
  | [] => s
  | i :: r =>
    match id_lookup (s_ids s) i with
    | None => dropdead_loop r s
    | Some ser =>
      match getjob (s_jobs s) ser with
      | None => dropdead_loop r s
      | Some j =>
        let expired := match j_dl j with Some d => negb (d =? 0) && (d <? s_now s) | None => false end in
        let s1 := if expired then set_ids (id_del (s_ids s) i) s else s in
        let s2 := if j_done j && negb (dl_truthy (j_dl j))
                  then set_jobs (setjob ser (set_dl (Some (s_now s + j_ttl j))) (s_jobs s1)) s1 else s1 in
        dropdead_loop r s2
      end
    end
  end.

Definition dropdead (s : state) : state := dropdead_loop (map fst (s_ids s)) s.

Inductive op :=
| Add (ch prio : N) (name : option N) (tmo : option N)
| StartPull (c : N) (chs : list N)
| RunLoop
| Finish (c : N) (i : jid) (res : option N) (e : err)
| Kill (c : N) (js : list jid)
| Tick (dt : N)
| Disconnect (c : N)
| Choice (k : N)
| Wait (c : N) (i : jid)
| Info (i : jid)
| SetInfo (i : jid) (v : N)
| Stats
| Advance (dt : N)               (* the clock moves on, the 1-second handletimeouts sweep has not run yet *)
| Drop (js : list jid)           (* rpc_qdrop -> dropjobs *)
| Watchdog.                      (* Main.watchdog -> dropdead *)

Definition N_min (a b : N) : N := if a <? b then a else b.

Definition step (s : state) (o : op) : state * list out :=
  match o with
  | Add ch prio name tmo =>
    let (s1, i) := push ch prio name tmo s in (s1, [OJid i])
  | StartPull c chs =>
    if is_idle c s then pop_or_block c chs s else (s, [OBusy])
  | RunLoop => run_events (s_hub s) (set_hub [] s)
  | Finish c i res e =>
    if is_idle c s then
      match id_lookup (s_ids s) i with
      | None => (s, [OKeyErr])
      | Some ser =>
        let ttl j := if err_truthy e then N_min 10 (j_ttl j) else j_ttl j in    (* jobs.py:234 *)
        let s1 := mark_finished ser (fun j => upd_finish res e (ttl j) j) s in
        let cn := get_conn (s_conns s1) c in
        (set_conns (put_conn (s_conns s1) (mkConn c (c_st cn) (run_del (c_run cn) i))) s1, [OUnit])
      end
    else (s, [OBusy])
  | Kill c js =>
    if is_idle c s then
      let s1 := killjobs js s in
      let cn := get_conn (s_conns s1) c in
      (set_conns (put_conn (s_conns s1) (mkConn c (c_st cn) (fold_left run_del js (c_run cn)))) s1, [OUnit])
    else (s, [OBusy])
  | Tick dt => (handletimeouts (set_now (s_now s + dt) s), [OUnit])
  | Disconnect c =>
    match c_st (get_conn (s_conns s) c) with
    | Dead => (s, [OUnit])
    | _ => (set_hub (s_hub s ++ [EvKill c]) s, [OUnit])
    end
  | Choice k => (set_choices (s_choices s ++ [k]) s, [OUnit])
  | Wait c i =>
    if is_idle c s then
      match id_lookup (s_ids s) i with
      | None => (s, [OKeyErr])
      | Some ser =>
        match getjob (s_jobs s) ser with
        | None => (s, [OKeyErr])
        | Some j =>
          if j_done j then                                     (* jobs.py:228 `if not j.done:` (a8ac510): no wait on a finished job *)
            ((if j_drop j && id_is (s_ids s) (j_id j) ser then set_ids (id_del (s_ids s) (j_id j)) s else s),
             [OReleased c j])                                                                 (* jobs.py:229-232 *)
          else
            let cn := get_conn (s_conns s) c in
            (set_conns (put_conn (s_conns s) (mkConn c (BWait ser) (c_run cn))) s, [OBlocked])
        end
      end
    else (s, [OBusy])
  | Info i =>
    (s, [OInfo (match id_lookup (s_ids s) i with Some ser => getjob (s_jobs s) ser | None => None end)])
  | SetInfo i v =>
    match id_lookup (s_ids s) i with
    | None => (s, [OKeyErr])
    | Some ser =>
      (set_jobs (setjob ser (fun j => mkJob (j_serial j) (j_id j) (j_chan j) (j_prio j) (j_timeout j) (j_done j)
                                          (j_err j) (j_res j) (Some v) (j_ttl j) (j_dl j) (j_drop j)) (s_jobs s)) s, [OUnit])
    end
  | Stats =>
    (s, [OStats (s_count s) (N.of_nat (length (s_ids s))) (s_cnt s)
                (map (fun kq => (fst kq, count_undone (s_jobs s) (snd kq))) (s_queues s))])
  | Advance dt => (set_now (s_now s + dt) s, [OUnit])
  | Drop js => (dropjobs js s, [OUnit])
  | Watchdog => (dropdead s, [OUnit])
  end.

Definition run (h : list op) (s : state) : state := fold_left (fun s o => fst (step s o)) h s.

(* ------------------------------------------------------------------ C18: pickle round trip *)

(* workq.__getstate__ (jobs.py:79-80): count + list(id2job.values()); job.__getstate__ drops
   only the event object.  workq.__setstate__ (jobs.py:82-98). *)
Definition saved := (N * list job)%type.

Fixpoint collect (js : list job) (ids : list (jid * N)) : list job :=
  match ids with
  | [] => []
  | (_, ser) :: r => match getjob js ser with Some j => j :: collect js r | None => collect js r end
  end.

Definition save (s : state) : saved := (s_count s, collect (s_jobs s) (s_ids s)).

Fixpoint restore_loop (l : list job) (s : state) : state :=
  match l with
  | [] => s
  | j :: r =>
    let s1 := set_ids (id_set (s_ids s) (j_id j) (j_serial j)) (set_jobs (s_jobs s ++ [j]) s) in
    if j_done j then restore_loop r s1
    else
      let s2 := set_tq (tins (j_timeout j, (j_prio j, j_serial j)) (s_tq s1)) s1 in
      let q := match q_get (s_queues s2) (j_chan j) with Some q => q | None => [] end in
      restore_loop r (set_queues (q_set (s_queues s2) (j_chan j) (ins (j_prio j, j_serial j) q)) s2)
  end.

(* the clock is not part of the pickle: the restarted server reads the wall clock `now` *)
Definition restore (now : N) (sv : saved) : state :=
  restore_loop (snd sv) (set_now now (set_count (fst sv) init)).

(* the reference behaviour of a restart: every connection is gone and every job it held goes
   back to its queue; nobody is blocked; nothing is pending in the hub *)
Definition restart (s : state) : state := restore (s_now s) (save s).
