From Coq Require Import Extraction ExtrOcamlBasic.
From MW Require Import C16.Model.
Extraction "../ocaml/c16/c16_model.ml" init step restart.
