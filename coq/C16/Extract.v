From Coq Require Import Extraction ExtrOcamlBasic.
From MW Require Import C16.Model C16.ModelWaitL.
Extraction "../ocaml/c16/c16_model.ml" init step restart xinit xstep xrestart.
