(* C16 — lemmas: the conservation invariant and its preservation by every step. *)
From Coq Require Import List NArith Bool Lia Arith.
From MW Require Import C16.Model.
Import ListNotations.
Open Scope N_scope.

(* ------------------------------------------------------------------ generic *)

Lemma invariant_reachable : forall (P : state -> Prop),
  (forall s o, P s -> P (fst (step s o))) ->
  forall h s, P s -> P (run h s).
Proof.
  intros P HP h. induction h as [|o h IH]; intros s Hs.
  - exact Hs.
  - change (P (run h (fst (step s o)))). apply IH. apply HP. exact Hs.
Qed.

Lemma jid_eqb_eq : forall a b, jid_eqb a b = true <-> a = b.
Proof.
  intros [x|x] [y|y]; cbn; split; intro H; try discriminate; try (apply N.eqb_eq in H; subst; reflexivity);
    try (inversion H; subst; apply N.eqb_refl).
Qed.

Lemma jid_eqb_refl : forall a, jid_eqb a a = true.
Proof. intro a. apply jid_eqb_eq. reflexivity. Qed.

Lemma jid_eqb_neq : forall a b, jid_eqb a b = false <-> a <> b.
Proof.
  intros a b. split.
  - intros H E. apply jid_eqb_eq in E. congruence.
  - intro H. destruct (jid_eqb a b) eqn:E; auto. apply jid_eqb_eq in E. contradiction.
Qed.

(* ------------------------------------------------------------------ occurrences *)

Definition ind (a x : N) : nat := if a =? x then 1%nat else 0%nat.

Fixpoint occ (x : N) (l : list N) : nat :=
  match l with [] => 0%nat | y :: r => (ind y x + occ x r)%nat end.

Definition qocc (x : N) (q : list qkey) : nat := occ x (map snd q).

Fixpoint occ_qs (x : N) (qs : list (N * list qkey)) : nat :=
  match qs with [] => 0%nat | kq :: r => (qocc x (snd kq) + occ_qs x r)%nat end.

Definition mb_occ (x : N) (st : cstate) : nat :=
  match st with BPull _ (Some y) => ind y x | _ => 0%nat end.

Definition occ_conn (x : N) (c : conn) : nat := (mb_occ x (c_st c) + occ x (map snd (c_run c)))%nat.

Fixpoint occ_conns (x : N) (cs : list conn) : nat :=
  match cs with [] => 0%nat | c :: r => (occ_conn x c + occ_conns x r)%nat end.

Definition locs (s : state) (x : N) : nat := (occ_qs x (s_queues s) + occ_conns x (s_conns s))%nat.

Definition qget (qs : list (N * list qkey)) (c : N) : list qkey :=
  match q_get qs c with Some q => q | None => [] end.

Lemma occ_app : forall x a b, occ x (a ++ b) = (occ x a + occ x b)%nat.
Proof. intros x a b. induction a as [|y a IH]; cbn [occ app]; lia. Qed.

Lemma occ_qs_set : forall x qs c l,
  (occ_qs x (q_set qs c l) + qocc x (qget qs c) = occ_qs x qs + qocc x l)%nat.
Proof.
  intros x qs c l. unfold qget. induction qs as [|[k m] r IH]; cbn [q_set q_get occ_qs snd].
  - cbn. lia.
  - destruct (k =? c) eqn:E; cbn [occ_qs snd]; [lia|].
    destruct (q_get r c); cbn in *; lia.
Qed.

Lemma q_get_In : forall qs c q, q_get qs c = Some q -> In (c, q) qs.
Proof.
  induction qs as [|[k m] r IH]; cbn; intros c q H; [discriminate|].
  destruct (k =? c) eqn:E.
  - apply N.eqb_eq in E. inversion H; subst. left; reflexivity.
  - right. apply IH. exact H.
Qed.

Lemma q_set_In : forall qs c l k q, In (k, q) (q_set qs c l) -> (k = c /\ q = l) \/ In (k, q) qs.
Proof.
  induction qs as [|[k0 m] r IH]; cbn [q_set]; intros c l k q H.
  - destruct H as [H|[]]. inversion H; subst. left; auto.
  - destruct (k0 =? c) eqn:E.
    + destruct H as [H|H].
      * inversion H; subst. apply N.eqb_eq in E. left; auto.
      * right; right; exact H.
    + destruct H as [H|H].
      * right; left; exact H.
      * destruct (IH _ _ _ _ H) as [H1|H1]; [left; exact H1|right; right; exact H1].
Qed.


Lemma get_conn_id : forall cs c, c_id (get_conn cs c) = c.
Proof.
  induction cs as [|y r IH]; intro c; cbn [get_conn]; [reflexivity|].
  destruct (c_id y =? c) eqn:E; [apply N.eqb_eq; exact E|apply IH].
Qed.

Lemma get_put_same : forall cs x, get_conn (put_conn cs x) (c_id x) = x.
Proof.
  induction cs as [|y r IH]; intro x; cbn [put_conn get_conn].
  - rewrite N.eqb_refl. reflexivity.
  - destruct (c_id y =? c_id x) eqn:E; cbn [get_conn].
    + rewrite N.eqb_refl. reflexivity.
    + rewrite E. apply IH.
Qed.

Lemma get_put_other : forall cs x c, c_id x <> c -> get_conn (put_conn cs x) c = get_conn cs c.
Proof.
  induction cs as [|y r IH]; intros x c H; cbn [put_conn get_conn].
  - apply N.eqb_neq in H. rewrite H. reflexivity.
  - destruct (c_id y =? c_id x) eqn:E; cbn [get_conn].
    + apply N.eqb_eq in E. assert (c_id y <> c) by congruence.
      apply N.eqb_neq in H. apply N.eqb_neq in H0. rewrite H, H0. reflexivity.
    + destruct (c_id y =? c); [reflexivity|apply IH; exact H].
Qed.

Lemma occ_conn_new : forall x c, occ_conn x (new_conn c) = 0%nat.
Proof. reflexivity. Qed.

Lemma occ_conns_put : forall x cs c,
  (occ_conns x (put_conn cs c) + occ_conn x (get_conn cs (c_id c)) = occ_conns x cs + occ_conn x c)%nat.
Proof.
  intros x cs c. induction cs as [|y r IH]; cbn [put_conn get_conn occ_conns].
  - rewrite occ_conn_new. lia.
  - destruct (c_id y =? c_id c) eqn:E; cbn [occ_conns]; lia.
Qed.

Lemma put_conn_In : forall cs x y, In y (put_conn cs x) -> y = x \/ In y cs.
Proof.
  induction cs as [|z r IH]; cbn [put_conn]; intros x y H.
  - destruct H as [H|[]]; auto.
  - destruct (c_id z =? c_id x).
    + destruct H as [H|H]; [left; auto|right; right; exact H].
    + destruct H as [H|H]; [right; left; exact H|].
      destruct (IH _ _ H); [left; auto|right; right; auto].
Qed.

Lemma qocc_ins : forall x k q, qocc x (ins k q) = (ind (snd k) x + qocc x q)%nat.
Proof.
  intros x k q. unfold qocc. induction q as [|y r IH]; cbn [ins map occ]; [reflexivity|].
  destruct (key_lt k y); cbn [map occ]; [reflexivity|]. rewrite IH. lia.
Qed.

Lemma ins_In : forall k q y, In y (ins k q) <-> y = k \/ In y q.
Proof.
  intros k q y. induction q as [|z r IH]; cbn [ins].
  - cbn. intuition.
  - destruct (key_lt k z); cbn [In]; [intuition|]. rewrite IH. intuition.
Qed.

(* ------------------------------------------------------------------ job table *)

Lemma getjob_serial : forall js x j, getjob js x = Some j -> j_serial j = x.
Proof.
  induction js as [|y r IH]; cbn; intros x j H; [discriminate|].
  destruct (j_serial y =? x) eqn:E; [inversion H; subst; apply N.eqb_eq; exact E|apply IH; exact H].
Qed.

Lemma getjob_setjob : forall js x f y,
  (forall j, j_serial (f j) = j_serial j) ->
  getjob (setjob x f js) y = if y =? x then option_map f (getjob js x) else getjob js y.
Proof.
  intros js x f y Hf. unfold setjob. induction js as [|z r IH]; cbn [map getjob].
  - destruct (y =? x); reflexivity.
  - destruct (j_serial z =? x) eqn:E.
    + rewrite Hf. apply N.eqb_eq in E. rewrite E.
      destruct (y =? x) eqn:E2.
      * apply N.eqb_eq in E2. subst y. rewrite N.eqb_refl. reflexivity.
      * rewrite N.eqb_sym, E2. exact IH.
    + destruct (j_serial z =? y) eqn:E3.
      * destruct (y =? x) eqn:E2; [|reflexivity].
        apply N.eqb_eq in E2, E3. subst. rewrite N.eqb_refl in E. discriminate.
      * exact IH.
Qed.
