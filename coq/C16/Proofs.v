(* C16 — lemmas: the conservation invariant and its preservation by every step. *)
From Coq Require Import List NArith Bool Lia Arith.
From MW Require Import C16.Model.
Import ListNotations.
Open Scope N_scope.

(* ------------------------------------------------------------------ generic *)

Lemma invariant_reachable : forall (P : state -> Prop),
  (forall s o, P s -> P (fst (step s o))) ->
  forall h s, P s -> P (run h s).
Proof.
  intros P HP h. induction h as [|o h IH]; intros s Hs.
  - exact Hs.
  - change (P (run h (fst (step s o)))). apply IH. apply HP. exact Hs.
Qed.

Lemma jid_eqb_eq : forall a b, jid_eqb a b = true <-> a = b.
Proof.
  intros [x|x] [y|y]; cbn; split; intro H; try discriminate; try (apply N.eqb_eq in H; subst; reflexivity);
    try (inversion H; subst; apply N.eqb_refl).
Qed.

Lemma jid_eqb_refl : forall a, jid_eqb a a = true.
Proof. intro a. apply jid_eqb_eq. reflexivity. Qed.

Lemma jid_eqb_neq : forall a b, jid_eqb a b = false <-> a <> b.
Proof.
  intros a b. split.
  - intros H E. apply jid_eqb_eq in E. congruence.
  - intro H. destruct (jid_eqb a b) eqn:E; auto. apply jid_eqb_eq in E. contradiction.
Qed.

(* ------------------------------------------------------------------ occurrences *)

Definition ind (a x : N) : nat := if a =? x then 1%nat else 0%nat.

Fixpoint occ (x : N) (l : list N) : nat :=
  match l with [] => 0%nat | y :: r => (ind y x + occ x r)%nat end.

Definition qocc (x : N) (q : list qkey) : nat := occ x (map snd q).

Fixpoint occ_qs (x : N) (qs : list (N * list qkey)) : nat :=
  match qs with [] => 0%nat | kq :: r => (qocc x (snd kq) + occ_qs x r)%nat end.

Definition mb_occ (x : N) (st : cstate) : nat :=
  match st with BPull _ (Some y) => ind y x | _ => 0%nat end.

Definition occ_conn (x : N) (c : conn) : nat := (mb_occ x (c_st c) + occ x (map snd (c_run c)))%nat.

Fixpoint occ_conns (x : N) (cs : list conn) : nat :=
  match cs with [] => 0%nat | c :: r => (occ_conn x c + occ_conns x r)%nat end.

Definition locs (s : state) (x : N) : nat := (occ_qs x (s_queues s) + occ_conns x (s_conns s))%nat.

Definition qget (qs : list (N * list qkey)) (c : N) : list qkey :=
  match q_get qs c with Some q => q | None => [] end.

Lemma occ_app : forall x a b, occ x (a ++ b) = (occ x a + occ x b)%nat.
Proof. intros x a b. induction a as [|y a IH]; cbn [occ app]; lia. Qed.

Lemma occ_qs_set : forall x qs c l,
  (occ_qs x (q_set qs c l) + qocc x (qget qs c) = occ_qs x qs + qocc x l)%nat.
Proof.
  intros x qs c l. unfold qget. induction qs as [|[k m] r IH]; cbn [q_set q_get occ_qs snd].
  - cbn. lia.
  - destruct (k =? c) eqn:E; cbn [occ_qs snd]; [lia|].
    destruct (q_get r c); cbn in *; lia.
Qed.

Lemma q_get_In : forall qs c q, q_get qs c = Some q -> In (c, q) qs.
Proof.
  induction qs as [|[k m] r IH]; cbn; intros c q H; [discriminate|].
  destruct (k =? c) eqn:E.
  - apply N.eqb_eq in E. inversion H; subst. left; reflexivity.
  - right. apply IH. exact H.
Qed.

Lemma q_set_In : forall qs c l k q, In (k, q) (q_set qs c l) -> (k = c /\ q = l) \/ In (k, q) qs.
Proof.
  induction qs as [|[k0 m] r IH]; cbn [q_set]; intros c l k q H.
  - destruct H as [H|[]]. inversion H; subst. left; auto.
  - destruct (k0 =? c) eqn:E.
    + destruct H as [H|H].
      * inversion H; subst. apply N.eqb_eq in E. left; auto.
      * right; right; exact H.
    + destruct H as [H|H].
      * right; left; exact H.
      * destruct (IH _ _ _ _ H) as [H1|H1]; [left; exact H1|right; right; exact H1].
Qed.


Lemma get_conn_id : forall cs c, c_id (get_conn cs c) = c.
Proof.
  induction cs as [|y r IH]; intro c; cbn [get_conn]; [reflexivity|].
  destruct (c_id y =? c) eqn:E; [apply N.eqb_eq; exact E|apply IH].
Qed.

Lemma get_put_same : forall cs x, get_conn (put_conn cs x) (c_id x) = x.
Proof.
  induction cs as [|y r IH]; intro x; cbn [put_conn get_conn].
  - rewrite N.eqb_refl. reflexivity.
  - destruct (c_id y =? c_id x) eqn:E; cbn [get_conn].
    + rewrite N.eqb_refl. reflexivity.
    + rewrite E. apply IH.
Qed.

Lemma get_put_other : forall cs x c, c_id x <> c -> get_conn (put_conn cs x) c = get_conn cs c.
Proof.
  induction cs as [|y r IH]; intros x c H; cbn [put_conn get_conn].
  - apply N.eqb_neq in H. rewrite H. reflexivity.
  - destruct (c_id y =? c_id x) eqn:E; cbn [get_conn].
    + apply N.eqb_eq in E. assert (c_id y <> c) by congruence.
      apply N.eqb_neq in H. apply N.eqb_neq in H0. rewrite H, H0. reflexivity.
    + destruct (c_id y =? c); [reflexivity|apply IH; exact H].
Qed.

Lemma occ_conn_new : forall x c, occ_conn x (new_conn c) = 0%nat.
Proof. reflexivity. Qed.

Lemma occ_conns_put : forall x cs c,
  (occ_conns x (put_conn cs c) + occ_conn x (get_conn cs (c_id c)) = occ_conns x cs + occ_conn x c)%nat.
Proof.
  intros x cs c. induction cs as [|y r IH]; cbn [put_conn get_conn occ_conns].
  - rewrite occ_conn_new. lia.
  - destruct (c_id y =? c_id c) eqn:E; cbn [occ_conns]; lia.
Qed.

Lemma put_conn_In : forall cs x y, In y (put_conn cs x) -> y = x \/ In y cs.
Proof.
  induction cs as [|z r IH]; cbn [put_conn]; intros x y H.
  - destruct H as [H|[]]; auto.
  - destruct (c_id z =? c_id x).
    + destruct H as [H|H]; [left; auto|right; right; exact H].
    + destruct H as [H|H]; [right; left; exact H|].
      destruct (IH _ _ H); [left; auto|right; right; auto].
Qed.

Lemma qocc_ins : forall x k q, qocc x (ins k q) = (ind (snd k) x + qocc x q)%nat.
Proof.
  intros x k q. unfold qocc. induction q as [|y r IH]; cbn [ins map occ]; [reflexivity|].
  destruct (key_lt k y); cbn [map occ]; [reflexivity|]. rewrite IH. lia.
Qed.

Lemma ins_In : forall k q y, In y (ins k q) <-> y = k \/ In y q.
Proof.
  intros k q y. induction q as [|z r IH]; cbn [ins].
  - cbn. intuition.
  - destruct (key_lt k z); cbn [In]; [intuition|]. rewrite IH. intuition.
Qed.

(* ------------------------------------------------------------------ job table *)

Lemma getjob_serial : forall js x j, getjob js x = Some j -> j_serial j = x.
Proof.
  induction js as [|y r IH]; cbn; intros x j H; [discriminate|].
  destruct (j_serial y =? x) eqn:E; [inversion H; subst; apply N.eqb_eq; exact E|apply IH; exact H].
Qed.

Lemma getjob_setjob : forall js x f y,
  (forall j, j_serial j = x -> j_serial (f j) = x) ->
  getjob (setjob x f js) y = if y =? x then option_map f (getjob js x) else getjob js y.
Proof.
  intros js x f y Hf. unfold setjob. induction js as [|z r IH]; cbn [map getjob].
  - destruct (y =? x); reflexivity.
  - destruct (j_serial z =? x) eqn:E.
    + apply N.eqb_eq in E. rewrite (Hf _ E).
      destruct (y =? x) eqn:E2.
      * apply N.eqb_eq in E2. subst y. rewrite N.eqb_refl. reflexivity.
      * rewrite (N.eqb_sym x y), E2. rewrite E, (N.eqb_sym x y), E2. exact IH.
    + destruct (j_serial z =? y) eqn:E3.
      * destruct (y =? x) eqn:E2; [|reflexivity].
        apply N.eqb_eq in E2, E3. subst. rewrite N.eqb_refl in E. discriminate.
      * exact IH.
Qed.

(* ------------------------------------------------------------------ the invariant *)

(* how many places a job object must occupy: 1 while unfinished, 0 if it does not exist,
   unconstrained once finished (stale heap entries / running_jobs entries are harmless) *)
Definition want (js : list job) (x : N) : option nat :=
  match getjob js x with
  | None => Some 0%nat
  | Some j => if j_done j then None else Some 1%nat
  end.

Definition eligible (ch : N) (chs : list N) : Prop := chs = [] \/ mem ch chs = true.

(* L: job objects "in hand" of the code between two lines (popped, not yet delivered / re-queued);
   R: copies still visible that the code is about to drop *)
Record Inv (s : state) (L R : list N) : Prop := {
  inv_cons : forall x n, want (s_jobs s) x = Some n -> (locs s x + occ x L = n + occ x R)%nat;
  inv_addr : forall x j, getjob (s_jobs s) x = Some j -> j_done j = false -> occ x L = 0%nat ->
             id_lookup (s_ids s) (j_id j) = Some x;
  inv_uniq : forall x y jx jy, getjob (s_jobs s) x = Some jx -> getjob (s_jobs s) y = Some jy ->
             j_done jx = false -> j_done jy = false -> j_id jx = j_id jy -> x = y;
  inv_auto : forall x j n, getjob (s_jobs s) x = Some j -> j_id j = JAuto n -> n = x;
  inv_tab : forall x j, getjob (s_jobs s) x = Some j -> x <= s_count s;
  inv_err : forall x j, getjob (s_jobs s) x = Some j -> j_done j = false -> j_err j = ENone;
  inv_wait : forall c chs, In (c, chs) (s_waiters s) -> c_st (get_conn (s_conns s) c) = BPull chs None;
  inv_wnd : NoDup (map fst (s_waiters s));
  inv_q : forall k q p x, In (k, q) (s_queues s) -> In (p, x) q ->
          exists j, getjob (s_jobs s) x = Some j /\ j_chan j = k /\ j_prio j = p;
  inv_run : forall c i w, In c (s_conns s) -> In (i, w) (c_run c) ->
            exists j, getjob (s_jobs s) w = Some j /\ j_id j = i;
  inv_mb : forall c chs x, c_st (get_conn (s_conns s) c) = BPull chs (Some x) ->
           exists j, getjob (s_jobs s) x = Some j /\ eligible (j_chan j) chs
}.

(* evolution of the job table: same objects, immutable fields, done only grows *)
Definition tab_le (js js' : list job) : Prop :=
  forall x,
    match getjob js x, getjob js' x with
    | None, None => True
    | Some j, Some j' => j_id j' = j_id j /\ j_chan j' = j_chan j /\ j_prio j' = j_prio j /\
                         (j_done j' = false -> j_done j = false /\ j_err j' = j_err j)
    | _, _ => False
    end.

Lemma tab_le_refl : forall js, tab_le js js.
Proof. intros js x. destruct (getjob js x); auto. Qed.

Lemma tab_le_trans : forall a b c, tab_le a b -> tab_le b c -> tab_le a c.
Proof.
  intros a b c H1 H2 x. specialize (H1 x). specialize (H2 x).
  destruct (getjob a x), (getjob b x), (getjob c x); try contradiction; auto.
  destruct H1 as (?&?&?&H1), H2 as (?&?&?&H2). split; [congruence|]. split; [congruence|]. split; [congruence|].
  intro D. destruct (H2 D) as [D1 E1]. destruct (H1 D1) as [D2 E2]. split; congruence.
Qed.

Lemma tab_le_some : forall js js' x j', tab_le js js' -> getjob js' x = Some j' ->
  exists j, getjob js x = Some j /\ j_id j' = j_id j /\ j_chan j' = j_chan j /\ j_prio j' = j_prio j /\
            (j_done j' = false -> j_done j = false /\ j_err j' = j_err j).
Proof.
  intros js js' x j' H E. specialize (H x). rewrite E in H. destruct (getjob js x); [|contradiction].
  eexists; split; [reflexivity|]. tauto.
Qed.

Lemma tab_le_some' : forall js js' x j, tab_le js js' -> getjob js x = Some j ->
  exists j', getjob js' x = Some j' /\ j_id j' = j_id j /\ j_chan j' = j_chan j /\ j_prio j' = j_prio j.
Proof.
  intros js js' x j H E. specialize (H x). rewrite E in H. destruct (getjob js' x); [|contradiction].
  eexists; split; [reflexivity|]. tauto.
Qed.

Lemma tab_le_want : forall js js' x n, tab_le js js' -> want js' x = Some n -> want js x = Some n.
Proof.
  intros js js' x n H. unfold want. specialize (H x).
  destruct (getjob js x) as [j|], (getjob js' x) as [j'|]; try contradiction; auto.
  destruct H as (_&_&_&H). destruct (j_done j') eqn:E; [discriminate|]. destruct (H eq_refl) as [H0 _]. rewrite H0. auto.
Qed.

(* a state transformer that leaves queues, connections, waiters, ids, count alone and only
   finishes jobs preserves the invariant *)
Lemma inv_tab_le : forall s s' L R,
  Inv s L R -> tab_le (s_jobs s) (s_jobs s') ->
  s_queues s' = s_queues s -> s_conns s' = s_conns s -> s_waiters s' = s_waiters s ->
  s_ids s' = s_ids s -> s_count s' = s_count s ->
  Inv s' L R.
Proof.
  intros s s' L R I T Hq Hc Hw Hi Hn. destruct I.
  constructor; unfold locs in *; rewrite ?Hq, ?Hc, ?Hw, ?Hi, ?Hn in *.
  - intros x n W. apply inv_cons0. eapply tab_le_want; eauto.
  - intros x j' E D O. destruct (tab_le_some _ _ _ _ T E) as (j&E0&Hid&_&_&Hd).
    rewrite Hid. apply inv_addr0; auto. apply Hd; auto.
  - intros x y jx jy Ex Ey Dx Dy Hid.
    destruct (tab_le_some _ _ _ _ T Ex) as (jx0&Ex0&Hidx&_&_&Hdx).
    destruct (tab_le_some _ _ _ _ T Ey) as (jy0&Ey0&Hidy&_&_&Hdy).
    eapply inv_uniq0; eauto; try congruence; [apply Hdx|apply Hdy]; auto.
  - intros x j' n E Hid. destruct (tab_le_some _ _ _ _ T E) as (j&E0&Hid0&_). eapply inv_auto0; eauto. congruence.
  - intros x j' E. destruct (tab_le_some _ _ _ _ T E) as (j&E0&_). eapply inv_tab0; eauto.
  - intros x j' E D. destruct (tab_le_some _ _ _ _ T E) as (j&E0&_&_&_&Hd). destruct (Hd D) as [D0 He].
    rewrite He. eapply inv_err0; eauto.
  - exact inv_wait0.
  - exact inv_wnd0.
  - intros k q p x H1 H2. destruct (inv_q0 _ _ _ _ H1 H2) as (j&E&Hc1&Hp).
    destruct (tab_le_some' _ _ _ _ T E) as (j'&E'&_&Hc2&Hp2). exists j'. repeat split; congruence.
  - intros c i w H1 H2. destruct (inv_run0 _ _ _ H1 H2) as (j&E&Hid).
    destruct (tab_le_some' _ _ _ _ T E) as (j'&E'&Hid2&_). exists j'. split; congruence.
  - intros c chs x H. destruct (inv_mb0 _ _ _ H) as (j&E&He).
    destruct (tab_le_some' _ _ _ _ T E) as (j'&E'&_&Hc2&_). exists j'. split; [auto|]. rewrite Hc2. exact He.
Qed.

Lemma mark_fields : forall x u s,
  s_queues (mark_finished x u s) = s_queues s /\ s_conns (mark_finished x u s) = s_conns s /\
  s_waiters (mark_finished x u s) = s_waiters s /\ s_ids (mark_finished x u s) = s_ids s /\
  s_count (mark_finished x u s) = s_count s /\ s_now (mark_finished x u s) = s_now s /\
  s_tq (mark_finished x u s) = s_tq s.
Proof.
  intros x u s. unfold mark_finished. destruct (getjob (s_jobs s) x) as [j|]; [|repeat split].
  destruct (j_done j); repeat split.
Qed.

Lemma mark_tab_le : forall x u s, tab_le (s_jobs s) (s_jobs (mark_finished x u s)).
Proof.
  intros x u s. unfold mark_finished. destruct (getjob (s_jobs s) x) as [j|] eqn:E; [|apply tab_le_refl].
  destruct (j_done j) eqn:D; [apply tab_le_refl|].
  cbn [s_jobs set_cnt set_hub set_jobs]. intro y.
  rewrite getjob_setjob by (intros; cbn; eapply getjob_serial; eauto).
  destruct (y =? x) eqn:Eyx.
  - apply N.eqb_eq in Eyx. subst y. rewrite E. cbn. repeat split; try discriminate; auto.
  - destruct (getjob (s_jobs s) y); auto.
Qed.

Lemma mark_inv : forall x u s L R, Inv s L R -> Inv (mark_finished x u s) L R.
Proof.
  intros x u s L R I. destruct (mark_fields x u s) as (?&?&?&?&?&?&?).
  eapply inv_tab_le; eauto. apply mark_tab_le.
Qed.

Lemma mark_done : forall x u s, is_done (s_jobs (mark_finished x u s)) x = true.
Proof.
  intros x u s. unfold mark_finished, is_done. destruct (getjob (s_jobs s) x) as [j|] eqn:E.
  - destruct (j_done j) eqn:D.
    + rewrite E. exact D.
    + cbn [s_jobs set_cnt set_hub set_jobs].
      rewrite getjob_setjob by (intros; cbn; eapply getjob_serial; eauto).
      rewrite N.eqb_refl, E. reflexivity.
  - rewrite E. reflexivity.
Qed.

Lemma tab_le_done : forall js js' x, tab_le js js' -> is_done js x = true -> is_done js' x = true.
Proof.
  intros js js' x T. unfold is_done. specialize (T x).
  destruct (getjob js x), (getjob js' x); try contradiction; auto.
  destruct T as (_&_&_&T). intro D. destruct (j_done j0); auto. destruct (T eq_refl) as [T0 _]. rewrite T0 in D; auto.
Qed.

Ltac sf := cbn [s_count s_jobs s_ids s_queues s_waiters s_conns s_tq s_hub s_now s_cnt s_choices s_handed s_requeued
                set_count set_jobs set_ids set_queues set_waiters set_conns set_tq set_hub set_now set_cnt
                set_choices set_handed set_requeued fst snd c_id c_st c_run] in *.

(* ------------------------------------------------------------------ preen *)

Lemma ind_refl : forall x, ind x x = 1%nat.
Proof. intro x. unfold ind. rewrite N.eqb_refl. reflexivity. Qed.

Lemma ind_neq : forall a x, a <> x -> ind a x = 0%nat.
Proof. intros a x H. unfold ind. apply N.eqb_neq in H. rewrite H. reflexivity. Qed.

Lemma ind_cases : forall a x, (a = x /\ ind a x = 1%nat) \/ (a <> x /\ ind a x = 0%nat).
Proof.
  intros a x. unfold ind. destruct (a =? x) eqn:E.
  - left. apply N.eqb_eq in E. auto.
  - right. apply N.eqb_neq in E. auto.
Qed.

Lemma qocc_pos_In : forall x q, qocc x q <> 0%nat -> exists p, In (p, x) q.
Proof.
  intros x q. unfold qocc. induction q as [|[p y] r IH]; cbn [map occ snd]; intro H; [congruence|].
  destruct (ind_cases y x) as [[E _]|[_ E]].
  - subst. exists p. left; reflexivity.
  - rewrite E in H. destruct IH as [p' Hp]; [lia|]. exists p'. right; exact Hp.
Qed.

Lemma qocc_preen : forall js x q, (is_done js x = false \/ qocc x q = 0%nat) -> qocc x (preen js q) = qocc x q.
Proof.
  intros js x q. induction q as [|y r IH]; intro H; cbn [preen]; [reflexivity|].
  destruct (is_done js (snd y)) eqn:D; [|reflexivity].
  unfold qocc in *. cbn [map occ] in *.
  destruct (ind_cases (snd y) x) as [[E _]|[_ E]].
  - subst. destruct H as [H|H]; [congruence|]. rewrite ind_refl in H. lia.
  - rewrite E in *. cbn. apply IH. destruct H; [left; auto|right; lia].
Qed.

Lemma preen_In : forall js q y, In y (preen js q) -> In y q.
Proof.
  intros js q y. induction q as [|z r IH]; cbn [preen]; auto.
  destruct (is_done js (snd z)); intro H; [right; auto|exact H].
Qed.

Lemma preen_head : forall js q y r, preen js q = y :: r -> is_done js (snd y) = false.
Proof.
  intros js q y r. induction q as [|z q IH]; cbn [preen]; [discriminate|].
  destruct (is_done js (snd z)) eqn:D; [exact IH|]. intro H. inversion H; subst. exact D.
Qed.

Lemma want_cases : forall js x n, want js x = Some n ->
  (n = 1%nat /\ is_done js x = false /\ exists j, getjob js x = Some j /\ j_done j = false) \/
  (n = 0%nat /\ getjob js x = None).
Proof.
  intros js x n. unfold want, is_done. destruct (getjob js x) as [j|].
  - destruct (j_done j) eqn:D; [discriminate|]. intro H; inversion H. left. repeat split; auto. exists j; auto.
  - intro H; inversion H. right; auto.
Qed.

Lemma occ_qs_preen : forall js x qs,
  (forall k q, In (k, q) qs -> is_done js x = false \/ qocc x q = 0%nat) ->
  occ_qs x (map (fun kq => (fst kq, preen js (snd kq))) qs) = occ_qs x qs.
Proof.
  intros js x qs. induction qs as [|[k q] r IH]; intro H; cbn [map occ_qs fst snd]; [reflexivity|].
  rewrite qocc_preen by (eapply H; left; reflexivity). rewrite IH; [reflexivity|].
  intros k' q' Hin. eapply H. right; exact Hin.
Qed.

Lemma inv_q_absent : forall s L R x k q, Inv s L R -> getjob (s_jobs s) x = None -> In (k, q) (s_queues s) -> qocc x q = 0%nat.
Proof.
  intros s L R x k q I E Hin. destruct (Nat.eq_dec (qocc x q) 0) as [H|H]; [exact H|].
  destruct (qocc_pos_In _ _ H) as [p Hp]. destruct (inv_q _ _ _ I _ _ _ _ Hin Hp) as (j&Ej&_). congruence.
Qed.

Lemma preenall_inv : forall s L R, Inv s L R -> Inv (preenall s) L R.
Proof.
  intros s L R I. unfold preenall. constructor; unfold locs; sf; try (destruct I; assumption).
  - intros x n W. rewrite occ_qs_preen; [apply (inv_cons _ _ _ I); exact W|].
    intros k q Hin. destruct (want_cases _ _ _ W) as [(_&D&_)|(_&E)]; [left; exact D|right].
    eapply inv_q_absent; eauto.
  - intros k q p x Hin Hp. apply in_map_iff in Hin. destruct Hin as ([k0 q0]&Heq&Hin). cbn in Heq. inversion Heq; subst.
    apply preen_In in Hp. eapply (inv_q _ _ _ I); eauto.
Qed.

Lemma preenall_fields : forall s,
  s_jobs (preenall s) = s_jobs s /\ s_conns (preenall s) = s_conns s /\ s_waiters (preenall s) = s_waiters s /\
  s_ids (preenall s) = s_ids s /\ s_count (preenall s) = s_count s.
Proof. intro s. repeat split. Qed.

(* ------------------------------------------------------------------ ids, waiters *)

Lemma id_lookup_set : forall ids i v i',
  id_lookup (id_set ids i v) i' = if jid_eqb i i' then Some v else id_lookup ids i'.
Proof.
  induction ids as [|[k w] r IH]; intros i v i'; cbn [id_set id_lookup].
  - destruct (jid_eqb i i'); reflexivity.
  - destruct (jid_eqb k i) eqn:E; cbn [id_lookup].
    + apply jid_eqb_eq in E. subst k. destruct (jid_eqb i i'); reflexivity.
    + rewrite IH. destruct (jid_eqb k i') eqn:E2; [|reflexivity].
      apply jid_eqb_eq in E2. subst k. rewrite jid_eqb_neq in E.
      destruct (jid_eqb i i') eqn:E3; [|reflexivity]. apply jid_eqb_eq in E3. congruence.
Qed.

Lemma remove_waiter_In : forall c ws w, In w (remove_waiter c ws) -> In w ws.
Proof.
  induction ws as [|y r IH]; cbn [remove_waiter]; intros w H; [exact H|].
  destruct (fst y =? c); [right; exact H|]. destruct H as [H|H]; [left; exact H|right; apply IH; exact H].
Qed.

Lemma remove_waiter_notin : forall c ws, NoDup (map fst ws) -> ~ In c (map fst (remove_waiter c ws)).
Proof.
  induction ws as [|y r IH]; cbn [remove_waiter map]; intros ND; [auto|].
  inversion ND as [|? ? Hn ND']; subst.
  destruct (fst y =? c) eqn:E.
  - apply N.eqb_eq in E. subst. exact Hn.
  - cbn [map]. intros [H|H]; [apply N.eqb_neq in E; congruence|]. apply IH in H; auto.
Qed.

Lemma remove_waiter_nodup : forall c ws, NoDup (map fst ws) -> NoDup (map fst (remove_waiter c ws)).
Proof.
  induction ws as [|y r IH]; cbn [remove_waiter map]; intros ND; [constructor|].
  inversion ND as [|? ? Hn ND']; subst.
  destruct (fst y =? c); [exact ND'|]. cbn [map]. constructor; [|apply IH; exact ND'].
  intro H. apply Hn. apply in_map_iff in H. destruct H as (w&Hw&Hin). apply in_map_iff. exists w. split; [exact Hw|].
  eapply remove_waiter_In; eauto.
Qed.

Lemma get_conn_In_or_new : forall cs c, In (get_conn cs c) cs \/ get_conn cs c = new_conn c.
Proof.
  induction cs as [|y r IH]; intro c; cbn [get_conn]; [right; reflexivity|].
  destruct (c_id y =? c); [left; left; reflexivity|]. destruct (IH c); [left; right; auto|right; auto].
Qed.

Lemma nth_In_default : forall (A : Type) n (l : list A) d, In d l -> In (nth n l d) l.
Proof.
  intros A n l d Hd. destruct (Nat.lt_ge_cases n (length l)) as [H|H].
  - apply nth_In. exact H.
  - rewrite nth_overflow by exact H. exact Hd.
Qed.

(* ------------------------------------------------------------------ pushjob *)

Lemma watches_eligible : forall ch w, watches ch w = true -> eligible ch (snd w).
Proof. intros ch [c chs]. unfold watches, eligible. cbn [snd]. destruct chs; [left; reflexivity|right; assumption]. Qed.

Lemma pushjob_jobs : forall x s, s_jobs (pushjob x s) = s_jobs s /\ s_count (pushjob x s) = s_count s.
Proof.
  intros x s. unfold pushjob. destruct (getjob (s_jobs s) x) as [j|]; [|auto]. cbv zeta. sf.
  destruct (filter (watches (j_chan j)) (s_waiters s)); sf; auto.
Qed.

Lemma pushjob_inv : forall x s L R j,
  Inv s (x :: L) R -> getjob (s_jobs s) x = Some j -> j_done j = false ->
  Inv (pushjob x s) L R.
Proof.
  intros x s L R j I E D. unfold pushjob. rewrite E. cbv zeta. sf.
  assert (ADDR : forall y jy, getjob (s_jobs s) y = Some jy -> j_done jy = false -> occ y L = 0%nat ->
                 id_lookup (id_set (s_ids s) (j_id j) x) (j_id jy) = Some y).
  { intros y jy Ey Dy Oy. rewrite id_lookup_set. destruct (jid_eqb (j_id j) (j_id jy)) eqn:Eid.
    - apply jid_eqb_eq in Eid. f_equal. eapply (inv_uniq _ _ _ I); eauto.
    - apply (inv_addr _ _ _ I); auto. cbn [occ].
      destruct (ind_cases x y) as [[Exy _]|[_ Exy]]; [|lia].
      subst. rewrite E in Ey. inversion Ey; subst. rewrite jid_eqb_refl in Eid. discriminate. }
  destruct (filter (watches (j_chan j)) (s_waiters s)) as [|a0 alts'] eqn:EA.
  - (* queued *)
    constructor; unfold locs; sf; try (destruct I; assumption).
    + intros y n W. pose proof (inv_cons _ _ _ I y n W) as H. unfold locs in H. cbn [occ] in H.
      pose proof (occ_qs_set y (s_queues s) (j_chan j) (ins (j_prio j, x) (qget (s_queues s) (j_chan j)))) as H2.
      rewrite qocc_ins in H2. cbn [snd] in H2. unfold qget in *. lia.
    + intros k q p y Hin Hp. apply q_set_In in Hin. destruct Hin as [[Hk Hq]|Hin].
      * subst. apply ins_In in Hp. destruct Hp as [Hp|Hp].
        -- inversion Hp; subst. exists j. auto.
        -- destruct (q_get (s_queues s) (j_chan j)) as [q0|] eqn:Eq; [|destruct Hp].
           apply q_get_In in Eq. eapply (inv_q _ _ _ I); eauto.
      * eapply (inv_q _ _ _ I); eauto.
  - (* handed to a blocked puller *)
    remember (nth (N.to_nat ((match s_choices s with [] => 0 | k :: _ => k end) mod N.of_nat (length (a0 :: alts')))) (a0 :: alts') a0) as w.
    assert (Hw : In w (a0 :: alts')) by (subst w; apply nth_In_default; left; reflexivity).
    rewrite <- EA in Hw. apply filter_In in Hw. destruct Hw as [Hw1 Hw2].
    destruct w as [c chs]. sf.
    pose proof (inv_wait _ _ _ I _ _ Hw1) as Hst.
    constructor; unfold locs; sf; try (destruct I; assumption).
    + intros y n W. pose proof (inv_cons _ _ _ I y n W) as H. unfold locs in H. cbn [occ] in H.
      pose proof (occ_conns_put y (s_conns s) (mkConn c (BPull chs (Some x)) (c_run (get_conn (s_conns s) c)))) as H2.
      sf. unfold occ_conn in H2. sf. rewrite Hst in H2. cbn [mb_occ] in H2. lia.
    + intros c' chs' Hin. pose proof (remove_waiter_In _ _ _ Hin) as Hin0.
      assert (c' <> c).
      { intro; subst c'. apply (remove_waiter_notin c (s_waiters s) (inv_wnd _ _ _ I)).
        apply in_map_iff. exists (c, chs'). auto. }
      rewrite get_put_other by (sf; congruence). apply (inv_wait _ _ _ I); auto.
    + apply remove_waiter_nodup. apply (inv_wnd _ _ _ I).
    + intros c0 i w0 Hin Hr. apply put_conn_In in Hin. destruct Hin as [Hin|Hin].
      * subst c0. sf. destruct (get_conn_In_or_new (s_conns s) c) as [H0|H0].
        -- eapply (inv_run _ _ _ I); eauto.
        -- rewrite H0 in Hr. destruct Hr.
      * eapply (inv_run _ _ _ I); eauto.
    + intros c' chs' y Hs. destruct (N.eq_dec c' c) as [Ec|Ec].
      * subst c'. pose proof (get_put_same (s_conns s) (mkConn c (BPull chs (Some x)) (c_run (get_conn (s_conns s) c)))) as G.
        sf. rewrite G in Hs. sf. inversion Hs; subst. exists j. split; auto.
        apply (watches_eligible _ _ Hw2).
      * rewrite get_put_other in Hs by (sf; congruence). apply (inv_mb _ _ _ I) in Hs. exact Hs.
Qed.

(* ------------------------------------------------------------------ deliver *)

Definition old_occ (l : list (jid * N)) (i : jid) (x : N) : nat :=
  match id_lookup l i with Some w => ind w x | None => 0%nat end.

Lemma occ_run_set : forall x l i v,
  (occ x (map snd (run_set l i v)) + old_occ l i x = occ x (map snd l) + ind v x)%nat.
Proof.
  intros x l i v. unfold old_occ. induction l as [|[k w] r IH]; cbn [run_set id_lookup map occ snd].
  - lia.
  - destruct (jid_eqb k i); cbn [map occ snd]; [lia|]. destruct (id_lookup r i); lia.
Qed.

Lemma run_set_In : forall l i v k w, In (k, w) (run_set l i v) -> (k = i /\ w = v) \/ In (k, w) l.
Proof.
  induction l as [|[k0 w0] r IH]; cbn [run_set]; intros i v k w H.
  - destruct H as [H|[]]. inversion H; auto.
  - destruct (jid_eqb k0 i) eqn:E.
    + destruct H as [H|H]; [|right; right; exact H]. inversion H; subst. apply jid_eqb_eq in E. auto.
    + destruct H as [H|H]; [right; left; exact H|]. destruct (IH _ _ _ _ H); [left; auto|right; right; auto].
Qed.

Lemma id_lookup_In : forall l i w, id_lookup l i = Some w -> In (i, w) l.
Proof.
  induction l as [|[k0 w0] r IH]; cbn [id_lookup]; intros i w H; [discriminate|].
  destruct (jid_eqb k0 i) eqn:E.
  - apply jid_eqb_eq in E. inversion H; subst. left; reflexivity.
  - right. apply IH. exact H.
Qed.

Lemma occ_conn_le : forall x cs c, (occ_conn x (get_conn cs c) <= occ_conns x cs)%nat.
Proof.
  intros x cs c. induction cs as [|y r IH]; cbn [get_conn occ_conns].
  - rewrite occ_conn_new. lia.
  - destruct (c_id y =? c); lia.
Qed.

Lemma occ_pos_In : forall x l, occ x l <> 0%nat -> In x l.
Proof.
  intros x l. induction l as [|y r IH]; cbn [occ]; intro H; [congruence|].
  destruct (ind_cases y x) as [[E _]|[_ E]]; [left; exact E|]. right. apply IH. lia.
Qed.

Lemma In_occ_pos : forall x l, In x l -> (1 <= occ x l)%nat.
Proof.
  intros x l. induction l as [|y r IH]; cbn [occ]; intro H; [destruct H|].
  destruct H as [H|H]; [subst; rewrite ind_refl; lia|]. apply IH in H. lia.
Qed.

Lemma conn_run_exists : forall s L R c i w, Inv s L R -> In (i, w) (c_run (get_conn (s_conns s) c)) ->
  exists j, getjob (s_jobs s) w = Some j /\ j_id j = i.
Proof.
  intros s L R c i w I H. destruct (get_conn_In_or_new (s_conns s) c) as [H0|H0].
  - eapply (inv_run _ _ _ I); eauto.
  - rewrite H0 in H. destruct H.
Qed.

Lemma deliver_inv : forall c chs x s L0 L1 j,
  Inv s L0 [] -> getjob (s_jobs s) x = Some j -> j_done j = false ->
  id_lookup (s_ids s) (j_id j) = Some x ->
  (forall y n, want (s_jobs s) y = Some n ->
             (occ y L0 + mb_occ y (c_st (get_conn (s_conns s) c)) = ind x y + occ y L1)%nat) ->
  (forall chs', c_st (get_conn (s_conns s) c) <> BPull chs' None) ->
  Inv (fst (deliver c chs x s)) L1 [].
Proof.
  intros c chs x s L0 L1 j I E D A HL Hnw. unfold deliver. rewrite E. cbv zeta. sf.
  set (cn := get_conn (s_conns s) c) in *.
  assert (NW : forall c' chs', In (c', chs') (s_waiters s) -> c' <> c).
  { intros c' chs' Hin Ec. subst c'. apply (inv_wait _ _ _ I) in Hin. fold cn in Hin. eapply Hnw; eauto. }
  assert (OLD : forall y n, want (s_jobs s) y = Some n -> old_occ (c_run cn) (j_id j) y = 0%nat).
  { intros y n W. unfold old_occ. destruct (id_lookup (c_run cn) (j_id j)) as [w|] eqn:El; [|reflexivity].
    destruct (ind_cases w y) as [[Ewy _]|[_ Ewy]]; [|exact Ewy]. subst w. exfalso.
    apply id_lookup_In in El. destruct (conn_run_exists _ _ _ _ _ _ I El) as (jy&Ey&Hid).
    destruct (want_cases _ _ _ W) as [(_&_&jy'&Ey'&Dy)|(_&En)]; [|congruence].
    rewrite Ey in Ey'. inversion Ey'; subst jy'.
    assert (y = x) by (eapply (inv_uniq _ _ _ I); eauto). subst y.
    assert (W1 : want (s_jobs s) x = Some 1%nat) by (unfold want; rewrite E, D; reflexivity).
    pose proof (inv_cons _ _ _ I x 1%nat W1) as H. unfold locs in H.
    pose proof (occ_conn_le x (s_conns s) c) as H2. fold cn in H2. unfold occ_conn in H2.
    assert (1 <= occ x (map snd (c_run cn)))%nat.
    { apply In_occ_pos. apply in_map_iff. exists (j_id j, x). auto. }
    specialize (HL x _ W1). rewrite ind_refl in HL. cbn [occ] in H. lia. }
  constructor; unfold locs; sf; try (destruct I; assumption).
  - intros y n W. pose proof (inv_cons _ _ _ I y n W) as H. unfold locs in H.
    pose proof (occ_conns_put y (s_conns s) (mkConn c Idle (run_set (c_run cn) (j_id j) x))) as H2.
    sf. fold cn in H2. unfold occ_conn in H2. sf. cbn [mb_occ] in H2.
    pose proof (occ_run_set y (c_run cn) (j_id j) x) as H3. rewrite (OLD y n W) in H3.
    specialize (HL y n W). lia.
  - intros y jy Ey Dy Oy. destruct (N.eq_dec y x) as [Eyx|Eyx].
    + subst y. rewrite E in Ey. inversion Ey; subst. exact A.
    + apply (inv_addr _ _ _ I); auto. assert (Wy : want (s_jobs s) y = Some 1%nat) by (unfold want; rewrite Ey, Dy; reflexivity).
      specialize (HL y _ Wy). rewrite ind_neq in HL by congruence. lia.
  - intros c' chs' Hin. rewrite get_put_other by (sf; intro; subst; eapply NW; eauto).
    apply (inv_wait _ _ _ I); auto.
  - intros c0 i w Hin Hr. apply put_conn_In in Hin. destruct Hin as [Hin|Hin].
    + subst c0. sf. apply run_set_In in Hr. destruct Hr as [[Hi Hw]|Hr].
      * subst. exists j. auto.
      * eapply conn_run_exists; eauto.
    + eapply (inv_run _ _ _ I); eauto.
  - intros c' chs' y Hs. destruct (N.eq_dec c' c) as [Ec|Ec].
    + subst c'. pose proof (get_put_same (s_conns s) (mkConn c Idle (run_set (c_run cn) (j_id j) x))) as G.
      sf. rewrite G in Hs. sf. discriminate.
    + rewrite get_put_other in Hs by (sf; congruence). apply (inv_mb _ _ _ I) in Hs. exact Hs.
Qed.

(* ------------------------------------------------------------------ pop *)

Lemma heads_spec : forall qs chs x, heads qs chs = Some x ->
  exists k rest, In k chs /\ q_get qs k = Some (x :: rest).
Proof.
  intros qs chs. induction chs as [|c r IH]; cbn [heads]; intros x H; [discriminate|].
  destruct (q_get qs c) as [[|y rest]|] eqn:E.
  - destruct (IH _ H) as (k&rest&Hk&Hq). exists k, rest. split; [right; auto|auto].
  - destruct (heads qs r) as [z|] eqn:Eh.
    + destruct (key_lt z y).
      * inversion H; subst. destruct (IH _ eq_refl) as (k&rest'&Hk&Hq). exists k, rest'. split; [right; auto|auto].
      * inversion H; subst. exists c, rest. split; [left; auto|auto].
    + inversion H; subst. exists c, rest. split; [left; auto|auto].
  - destruct (IH _ H) as (k&rest&Hk&Hq). exists k, rest. split; [right; auto|auto].
Qed.

Lemma q_get_map : forall (f : list qkey -> list qkey) qs k,
  q_get (map (fun kq => (fst kq, f (snd kq))) qs) k = option_map f (q_get qs k).
Proof.
  intros f qs k. induction qs as [|[k0 q0] r IH]; cbn [map q_get fst snd]; [reflexivity|].
  destruct (k0 =? k); [reflexivity|exact IH].
Qed.

Lemma want_undone : forall js x j, getjob js x = Some j -> j_done j = false -> want js x = Some 1%nat.
Proof. intros js x j E D. unfold want. rewrite E, D. reflexivity. Qed.

Lemma NoDup_snoc : forall (l : list N) c, NoDup l -> ~ In c l -> NoDup (l ++ [c]).
Proof.
  induction l as [|y r IH]; cbn [app]; intros c ND Hn.
  - constructor; [intros []|constructor].
  - inversion ND; subst. constructor.
    + intro H. apply in_app_or in H. destruct H as [H|[H|[]]]; [contradiction|]. subst. apply Hn. left; reflexivity.
    + apply IH; auto. intro H. apply Hn. right; exact H.
Qed.

Lemma pop_or_block_inv : forall c chs s,
  Inv s [] [] ->
  (forall y n, want (s_jobs s) y = Some n -> mb_occ y (c_st (get_conn (s_conns s) c)) = 0%nat) ->
  (forall chs', c_st (get_conn (s_conns s) c) <> BPull chs' None) ->
  Inv (fst (pop_or_block c chs s)) [] [].
Proof.
  intros c chs s I MB NW. unfold pop_or_block. cbv zeta.
  pose proof (preenall_inv _ _ _ I) as I1. destruct (preenall_fields s) as (Hj&Hc&Hw&Hi&Hn).
  set (s1 := preenall s) in *.
  destruct (heads (s_queues s1) _) as [[p x]|] eqn:EH.
  - destruct (heads_spec _ _ _ EH) as (k&rest&_&Hq). cbn [snd].
    pose proof (q_get_In _ _ _ Hq) as Hin.
    destruct (inv_q _ _ _ I1 _ _ _ _ Hin (or_introl eq_refl)) as (j&Ej&Hch&Hp).
    rewrite Ej. rewrite Hch, Hq. cbn [tl].
    assert (Dj : j_done j = false).
    { unfold s1, preenall in Hq. sf. rewrite q_get_map in Hq. destruct (q_get (s_queues s) k) as [q0|]; [|discriminate].
      cbn in Hq. inversion Hq as [Hq']. apply preen_head in Hq'. cbn [snd] in Hq'. unfold is_done in Hq'.
      rewrite Hj in Ej. rewrite Ej in Hq'. exact Hq'. }
    set (s2 := set_queues (q_set (s_queues s1) k rest) s1).
    assert (I2 : Inv s2 [x] []).
    { constructor; unfold locs, s2; sf; try (destruct I1; assumption).
      * intros y n W. pose proof (inv_cons _ _ _ I1 y n W) as H. unfold locs in H.
        pose proof (occ_qs_set y (s_queues s1) k rest) as H2. unfold qget in H2. rewrite Hq in H2.
        change (qocc y ((p, x) :: rest)) with (ind x y + qocc y rest)%nat in H2. cbn [occ] in *. lia.
      * intros y jy Ey Dy Oy. apply (inv_addr _ _ _ I1); auto.
      * intros k' q' p' y Hin' Hp'. apply q_set_In in Hin'. destruct Hin' as [[Hk Hq']|Hin'].
        -- subst. eapply (inv_q _ _ _ I1); eauto. right; exact Hp'.
        -- eapply (inv_q _ _ _ I1); eauto. }
    apply (deliver_inv c chs x s2 [x] [] j I2 Ej Dj).
    + apply (inv_addr _ _ _ I1); auto.
    + intros y n W. unfold s2 in *. sf. rewrite Hc. rewrite Hj in W. rewrite (MB y n W). cbn [occ]. lia.
    + unfold s2. sf. rewrite Hc. exact NW.
  - sf. set (cn := get_conn (s_conns s1) c).
    assert (NW' : forall c' chs', In (c', chs') (s_waiters s1) -> c' <> c).
    { intros c' chs' Hin Ec. subst c'. apply (inv_wait _ _ _ I1) in Hin. rewrite Hc in Hin. eapply NW; eauto. }
    constructor; unfold locs; sf; try (destruct I1; assumption).
    + intros y n W. pose proof (inv_cons _ _ _ I1 y n W) as H. unfold locs in H.
      pose proof (occ_conns_put y (s_conns s1) (mkConn c (BPull chs None) (c_run cn))) as H2.
      sf. fold cn in H2. unfold occ_conn in H2. sf. cbn [mb_occ] in H2.
      rewrite Hj in W. pose proof (MB y n W) as H3. rewrite <- Hc in H3. fold cn in H3. lia.
    + intros c' chs' Hin. apply in_app_or in Hin. destruct Hin as [Hin|[Hin|[]]].
      * rewrite get_put_other by (sf; intro; subst; eapply NW'; eauto). apply (inv_wait _ _ _ I1); auto.
      * inversion Hin; subst. pose proof (get_put_same (s_conns s1) (mkConn c' (BPull chs' None) (c_run cn))) as G.
        sf. rewrite G. reflexivity.
    + rewrite map_app. cbn [map fst]. apply NoDup_snoc; [apply (inv_wnd _ _ _ I1)|].
      intro Hin. apply in_map_iff in Hin. destruct Hin as ([c' chs']&Hf&Hin). cbn in Hf. subst c'. eapply NW'; eauto.
    + intros c0 i w Hin Hr. apply put_conn_In in Hin. destruct Hin as [Hin|Hin].
      * subst c0. sf. eapply conn_run_exists; eauto.
      * eapply (inv_run _ _ _ I1); eauto.
    + intros c' chs' y Hs. destruct (N.eq_dec c' c) as [Ec|Ec].
      * subst c'. pose proof (get_put_same (s_conns s1) (mkConn c (BPull chs None) (c_run cn))) as G.
        sf. rewrite G in Hs. sf. discriminate.
      * rewrite get_put_other in Hs by (sf; congruence). apply (inv_mb _ _ _ I1) in Hs. exact Hs.
Qed.

(* ------------------------------------------------------------------ shutdown, die *)

Lemma inv_drop_done : forall s w L R, Inv s (w :: L) R -> is_done (s_jobs s) w = true ->
  getjob (s_jobs s) w <> None -> Inv s L R.
Proof.
  intros s w L R I D Ex. constructor; try (destruct I; assumption).
  - intros y n W. pose proof (inv_cons _ _ _ I y n W) as H. cbn [occ] in H.
    rewrite ind_neq in H; [exact H|]. intro; subst y.
    destruct (want_cases _ _ _ W) as [(_&D'&_)|(_&E)]; congruence.
  - intros y jy Ey Dy Oy. apply (inv_addr _ _ _ I); auto. cbn [occ]. rewrite ind_neq; [lia|].
    intro; subst y. unfold is_done in D. rewrite Ey in D. congruence.
Qed.

Lemma inv_same : forall s s' L R, Inv s L R ->
  s_jobs s' = s_jobs s -> s_queues s' = s_queues s -> s_conns s' = s_conns s -> s_waiters s' = s_waiters s ->
  s_ids s' = s_ids s -> s_count s' = s_count s -> Inv s' L R.
Proof.
  intros s s' L R I Hj Hq Hc Hw Hi Hn. eapply inv_tab_le; eauto. rewrite Hj. apply tab_le_refl.
Qed.

Lemma is_done_false : forall js x, is_done js x = false -> exists j, getjob js x = Some j /\ j_done j = false.
Proof. intros js x. unfold is_done. destruct (getjob js x) as [j|]; [eauto|discriminate]. Qed.

Lemma shutdown_loop_inv : forall l s L R,
  Inv s (map snd l ++ L) R ->
  (forall i w, In (i, w) l -> getjob (s_jobs s) w <> None) ->
  Inv (shutdown_loop l s) L R.
Proof.
  induction l as [|[i w] r IH]; intros s L R I Ex; cbn [shutdown_loop map app snd] in *; [exact I|].
  destruct (is_done (s_jobs s) w) eqn:D.
  - apply IH.
    + eapply inv_drop_done; eauto. eapply Ex. left; reflexivity.
    + intros i' w' Hin. eapply Ex. right; exact Hin.
  - destruct (is_done_false _ _ D) as (j&Ej&Dj).
    apply IH.
    + eapply pushjob_inv with (j := j); sf; auto. eapply inv_same; eauto.
    + intros i' w' Hin. destruct (pushjob_jobs w (set_requeued (w :: s_requeued s) s)) as [Hj _]. rewrite Hj. sf.
      eapply Ex. right; exact Hin.
Qed.

Lemma not_waiter : forall s L R c, Inv s L R ->
  (forall chs', c_st (get_conn (s_conns s) c) <> BPull chs' None) -> ~ In c (map fst (s_waiters s)).
Proof.
  intros s L R c I NW Hin. apply in_map_iff in Hin. destruct Hin as ([c' chs']&Hf&Hin). cbn in Hf. subst c'.
  apply (inv_wait _ _ _ I) in Hin. eapply NW; eauto.
Qed.

Lemma die_inv : forall c s L R M,
  Inv s L (M ++ R) ->
  (forall y n, want (s_jobs s) y = Some n -> mb_occ y (c_st (get_conn (s_conns s) c)) = occ y M) ->
  ~ In c (map fst (s_waiters s)) ->
  Inv (fst (die c s)) L R.
Proof.
  intros c s L R M I MB NW. unfold die. cbv zeta. cbn [fst].
  set (cn := get_conn (s_conns s) c) in *.
  assert (NW' : forall c' chs', In (c', chs') (s_waiters s) -> c' <> c).
  { intros c' chs' Hin Ec. subst c'. apply NW. apply in_map_iff. exists (c, chs'). auto. }
  apply shutdown_loop_inv.
  - constructor; unfold locs; sf; try (destruct I; assumption).
    + intros y n W. pose proof (inv_cons _ _ _ I y n W) as H. unfold locs in H.
      pose proof (occ_conns_put y (s_conns s) (mkConn c Dead [])) as H2. sf. fold cn in H2.
      unfold occ_conn in H2. sf. cbn [mb_occ map occ] in H2. rewrite (MB y n W) in H2.
      rewrite occ_app in *. lia.
    + intros y jy Ey Dy Oy. apply (inv_addr _ _ _ I); auto. rewrite occ_app in Oy. lia.
    + intros c' chs' Hin. rewrite get_put_other by (sf; intro; subst; eapply NW'; eauto).
      apply (inv_wait _ _ _ I); auto.
    + intros c0 i w Hin Hr. apply put_conn_In in Hin. destruct Hin as [Hin|Hin].
      * subst c0. destruct Hr.
      * eapply (inv_run _ _ _ I); eauto.
    + intros c' chs' y Hs. destruct (N.eq_dec c' c) as [Ec|Ec].
      * subst c'. pose proof (get_put_same (s_conns s) (mkConn c Dead [])) as G. sf. rewrite G in Hs. discriminate.
      * rewrite get_put_other in Hs by (sf; congruence). apply (inv_mb _ _ _ I) in Hs. exact Hs.
  - sf. intros i w Hin. destruct (conn_run_exists _ _ _ _ _ _ I Hin) as (j&Ej&_). congruence.
Qed.

(* ------------------------------------------------------------------ release (finish_event wake-ups) *)

Lemma release_spec : forall ser js cs,
  (forall x, occ_conns x (fst (release ser js cs)) = occ_conns x cs) /\
  (forall c, c_run (get_conn (fst (release ser js cs)) c) = c_run (get_conn cs c) /\
             (c_st (get_conn (fst (release ser js cs)) c) = c_st (get_conn cs c) \/
              (c_st (get_conn (fst (release ser js cs)) c) = Idle /\ c_st (get_conn cs c) = BWait ser))) /\
  (forall c', In c' (fst (release ser js cs)) -> exists c0, In c0 cs /\ c_run c' = c_run c0).
Proof.
  intros ser js cs. induction cs as [|y r (IH1&IH2&IH3)]; cbn [release].
  - cbn. repeat split; auto. intros c' [].
  - destruct (release ser js r) as [r' o] eqn:ER. cbn [fst] in *.
    assert (CASE : (exists o', (let (r'0, o0) := (r', o) in
              match c_st y with
              | BWait w => if w =? ser then (mkConn (c_id y) Idle (c_run y) :: r', o') else (y :: r', o0)
              | _ => (y :: r', o0) end) = (mkConn (c_id y) Idle (c_run y) :: r', o') /\ c_st y = BWait ser) \/
            True) by (right; exact I).
    clear CASE.
    destruct (c_st y) as [| | w |] eqn:ES; try destruct (w =? ser) eqn:EW; cbn [fst];
      (repeat split;
       [ intro x; cbn [occ_conns]; rewrite IH1; try reflexivity; unfold occ_conn; sf; rewrite ?ES; reflexivity
       | cbn [get_conn c_id]; destruct (c_id y =? c); [reflexivity|apply IH2]
       | cbn [get_conn c_id]; destruct (c_id y =? c); sf;
         [first [left; rewrite ES; reflexivity | right; split; [reflexivity|rewrite ES; apply N.eqb_eq in EW; subst; reflexivity]] | apply IH2]
       | intros c' [H|H]; [subst c'; exists y; split; [left; reflexivity|reflexivity]
                         | destruct (IH3 _ H) as (c0&H0&H1); exists c0; split; [right; exact H0|exact H1]] ]).
Qed.

(* ------------------------------------------------------------------ hub events *)

Lemma pushjob_conn_other : forall x s c, ~ In c (map fst (s_waiters s)) ->
  get_conn (s_conns (pushjob x s)) c = get_conn (s_conns s) c.
Proof.
  intros x s c Hn. unfold pushjob. destruct (getjob (s_jobs s) x) as [j|]; [|reflexivity]. cbv zeta. sf.
  destruct (filter (watches (j_chan j)) (s_waiters s)) as [|a0 alts'] eqn:EA; sf; [reflexivity|].
  remember (nth _ (a0 :: alts') a0) as w.
  assert (Hw : In w (a0 :: alts')) by (subst w; apply nth_In_default; left; reflexivity).
  rewrite <- EA in Hw. apply filter_In in Hw. destruct Hw as [Hw1 _].
  apply get_put_other. sf. intro; subst c. apply Hn. apply in_map. exact Hw1.
Qed.

Lemma pushjob_waiters_sub : forall x s w, In w (s_waiters (pushjob x s)) -> In w (s_waiters s).
Proof.
  intros x s w. unfold pushjob. destruct (getjob (s_jobs s) x) as [j|]; [|auto]. cbv zeta. sf.
  destruct (filter (watches (j_chan j)) (s_waiters s)); sf; [auto|]. apply remove_waiter_In.
Qed.

Lemma mb_done_occ : forall s L R c chs ser y n, Inv s L R ->
  c_st (get_conn (s_conns s) c) = BPull chs (Some ser) -> is_done (s_jobs s) ser = true ->
  want (s_jobs s) y = Some n -> ind ser y = 0%nat.
Proof.
  intros s L R c chs ser y n I Hs D W. destruct (ind_cases ser y) as [[E _]|[_ E]]; [|exact E]. subst y. exfalso.
  destruct (inv_mb _ _ _ I _ _ _ Hs) as (j&Ej&_).
  destruct (want_cases _ _ _ W) as [(_&D'&_)|(_&E)]; congruence.
Qed.

(* ------------------------------------------------------------------ job table untouched by queue moves *)

Lemma deliver_jobs : forall c chs x s, s_jobs (fst (deliver c chs x s)) = s_jobs s.
Proof. intros. unfold deliver. destruct (getjob (s_jobs s) x); reflexivity. Qed.

Lemma pop_jobs : forall c chs s, s_jobs (fst (pop_or_block c chs s)) = s_jobs s.
Proof.
  intros. unfold pop_or_block. cbv zeta. destruct (heads _ _) as [x|]; [|reflexivity].
  destruct (getjob _ _); [|reflexivity]. rewrite deliver_jobs. reflexivity.
Qed.

Lemma shutdown_jobs : forall l s, s_jobs (shutdown_loop l s) = s_jobs s.
Proof.
  induction l as [|[i w] r IH]; intro s; cbn [shutdown_loop]; [reflexivity|].
  destruct (is_done (s_jobs s) w); [apply IH|]. rewrite IH. destruct (pushjob_jobs w (set_requeued (w :: s_requeued s) s)) as [H _].
  rewrite H. reflexivity.
Qed.

Lemma die_jobs : forall c s, s_jobs (fst (die c s)) = s_jobs s.
Proof. intros. unfold die. cbv zeta. cbn [fst]. rewrite shutdown_jobs. reflexivity. Qed.

Lemma run_event_jobs : forall e s, s_jobs (fst (run_event e s)) = s_jobs s.
Proof.
  intros e s. destruct e as [c|c|ser]; cbn [run_event].
  - destruct (c_st (get_conn (s_conns s) c)) as [|chs [x|]|w|]; try reflexivity.
    destruct (is_done (s_jobs s) x); [apply pop_jobs|apply deliver_jobs].
  - destruct (c_st (get_conn (s_conns s) c)) as [|chs mb|w|]; try reflexivity; rewrite die_jobs; try reflexivity.
    destruct mb as [x|]; [|reflexivity]. sf. destruct (is_done (s_jobs s) x); [reflexivity|].
    destruct (pushjob_jobs x (set_waiters (remove_waiter c (s_waiters s)) s)) as [H _]. rewrite H. reflexivity.
  - destruct (release ser (s_jobs s) (s_conns s)). destruct (getjob (s_jobs s) ser) as [j|]; [|reflexivity].
    destruct (j_drop j && has_waiter ser (s_conns s) && id_is (s_ids s) (j_id j) ser); reflexivity.
Qed.

Lemma run_events_jobs : forall es s, s_jobs (fst (run_events es s)) = s_jobs s.
Proof.
  induction es as [|e r IH]; intro s; cbn [run_events]; [reflexivity|].
  pose proof (run_event_jobs e s) as H1. destruct (run_event e s) as [s1 o1]. cbn [fst] in H1.
  specialize (IH s1). destruct (run_events r s1) as [s2 o2]. cbn [fst] in *. congruence.
Qed.

(* side invariant on the job table: only finished jobs carry a dropdead deadline (so the watchdog only
   forgets finished jobs) *)
Definition Aux (s : state) : Prop :=
  forall x j, getjob (s_jobs s) x = Some j -> j_done j = false -> j_dl j = None.

(* the jobs whose finish notification is queued in the hub are finished (finish_event.set() is called by
   _mark_finished only, after job.done = True) *)
Definition really_done (js : list job) (ser : N) : Prop := exists j, getjob js ser = Some j /\ j_done j = true.
Definition hub_ok (js : list job) (es : list event) : Prop := forall ser, In (EvDone ser) es -> really_done js ser.
Definition HubOK (s : state) : Prop := hub_ok (s_jobs s) (s_hub s).

Lemma really_done_is_done : forall js ser, really_done js ser -> is_done js ser = true.
Proof. intros js ser (j&E&D). unfold is_done. rewrite E. exact D. Qed.

Lemma tab_le_really_done : forall js js' x, tab_le js js' -> really_done js x -> really_done js' x.
Proof.
  intros js js' x T (j&E&D). specialize (T x). rewrite E in T. destruct (getjob js' x) as [j'|] eqn:E'; [|contradiction].
  exists j'. split; [exact E'|]. destruct T as (_&_&_&T). destruct (j_done j') eqn:D'; [reflexivity|].
  destruct (T eq_refl) as [T0 _]. congruence.
Qed.

Lemma id_is_spec : forall ids i ser, id_is ids i ser = true -> id_lookup ids i = Some ser.
Proof.
  intros ids i ser. unfold id_is. destruct (id_lookup ids i) as [w|]; [|discriminate].
  intro H. apply N.eqb_eq in H. subst. reflexivity.
Qed.

Lemma aux_same : forall s s', s_jobs s' = s_jobs s -> Aux s -> Aux s'.
Proof. intros s s' H A x j E. rewrite H in E. exact (A x j E). Qed.

Lemma id_lookup_del_other : forall ids i k, jid_eqb i k = false -> id_lookup (id_del ids i) k = id_lookup ids k.
Proof.
  induction ids as [|[a w] r IH]; intros i k H; cbn [id_del id_lookup]; [reflexivity|].
  destruct (jid_eqb a i) eqn:E1.
  - apply jid_eqb_eq in E1. subst a. rewrite H. reflexivity.
  - cbn [id_lookup]. destruct (jid_eqb a k); [reflexivity|apply IH; exact H].
Qed.

(* forgetting the id of a FINISHED job keeps the invariant *)
Lemma inv_del_done : forall s L R i ser, Inv s L R ->
  id_lookup (s_ids s) i = Some ser -> is_done (s_jobs s) ser = true ->
  Inv (set_ids (id_del (s_ids s) i) s) L R.
Proof.
  intros s L R i ser I El D. constructor; unfold locs; sf; try (destruct I; assumption).
  intros x j E Dj O. pose proof (inv_addr _ _ _ I x j E Dj O) as H.
  destruct (jid_eqb i (j_id j)) eqn:Ei.
  - apply jid_eqb_eq in Ei. subst i. rewrite El in H. inversion H; subst ser.
    unfold is_done in D. rewrite E in D. congruence.
  - rewrite id_lookup_del_other by exact Ei. exact H.
Qed.

Lemma run_event_inv : forall e s, Inv s [] [] -> (forall ser, e = EvDone ser -> really_done (s_jobs s) ser) ->
  Inv (fst (run_event e s)) [] [].
Proof.
  intros e s I HD. destruct e as [c|c|ser]; cbn [run_event].
  - destruct (c_st (get_conn (s_conns s) c)) as [|chs [ser|]|w|] eqn:ES; try exact I.
    destruct (is_done (s_jobs s) ser) eqn:D.
    + apply pop_or_block_inv; auto.
      * intros y n W. rewrite ES. cbn [mb_occ]. eapply mb_done_occ; eauto.
      * intros chs' H. rewrite ES in H. discriminate.
    + destruct (is_done_false _ _ D) as (j&Ej&Dj).
      apply (deliver_inv c chs ser s [] [] j I Ej Dj).
      * apply (inv_addr _ _ _ I); auto.
      * intros y n W. rewrite ES. cbn [mb_occ occ]. lia.
      * intros chs' H. rewrite ES in H. discriminate.
  - destruct (c_st (get_conn (s_conns s) c)) as [|chs mb|w|] eqn:ES; try exact I.
    + apply die_inv with (M := []); auto.
      * intros y n W. rewrite ES. reflexivity.
      * eapply not_waiter; eauto. intros chs' H. rewrite ES in H. discriminate.
    + set (s1 := set_waiters (remove_waiter c (s_waiters s)) s).
      assert (I1 : Inv s1 [] []).
      { constructor; unfold s1, locs; sf; try (destruct I; assumption).
        - intros c' chs' Hin. apply remove_waiter_In in Hin. apply (inv_wait _ _ _ I); auto.
        - apply remove_waiter_nodup. apply (inv_wnd _ _ _ I). }
      assert (NI : ~ In c (map fst (s_waiters s1))) by (apply remove_waiter_notin; apply (inv_wnd _ _ _ I)).
      assert (ES1 : c_st (get_conn (s_conns s1) c) = BPull chs mb) by exact ES.
      destruct mb as [ser|].
      * destruct (is_done (s_jobs s1) ser) eqn:D.
        -- apply die_inv with (M := []); auto.
           ++ intros y n W. rewrite ES1. cbn [mb_occ occ]. eapply mb_done_occ; eauto.
        -- destruct (is_done_false _ _ D) as (j&Ej&Dj).
           assert (I2 : Inv s1 [ser] [ser]).
           { constructor; try (destruct I1; assumption).
             - intros y n W. pose proof (inv_cons _ _ _ I1 y n W) as H. cbn [occ] in *. lia.
             - intros y jy Ey Dy Oy. apply (inv_addr _ _ _ I1); auto. }
           pose proof (pushjob_inv ser s1 [] [ser] j I2 Ej Dj) as I3.
           destruct (pushjob_jobs ser s1) as [Hj _].
           apply die_inv with (M := [ser]); auto.
           ++ intros y n W. rewrite pushjob_conn_other by exact NI. rewrite ES1. cbn [mb_occ occ]. lia.
           ++ intro Hin. apply NI. apply in_map_iff in Hin. destruct Hin as (w0&Hf&Hin).
              apply in_map_iff. exists w0. split; [exact Hf|]. eapply pushjob_waiters_sub; eauto.
      * apply die_inv with (M := []); auto.
        -- intros y n W. rewrite ES1. reflexivity.
    + apply die_inv with (M := []); auto.
      * intros y n W. rewrite ES. reflexivity.
      * eapply not_waiter; eauto. intros chs' H. rewrite ES in H. discriminate.
  - destruct (release ser (s_jobs s) (s_conns s)) as [cs o] eqn:ER.
    destruct (release_spec ser (s_jobs s) (s_conns s)) as (R1&R2&R3). rewrite ER in *. cbn [fst] in *.
    assert (I1 : Inv (set_conns cs s) [] []).
    { constructor; unfold locs; sf; try (destruct I; assumption).
      + intros y n W. rewrite R1. apply (inv_cons _ _ _ I); auto.
      + intros c chs Hin. pose proof (inv_wait _ _ _ I _ _ Hin) as H. destruct (R2 c) as [_ [H2|[_ H2]]]; congruence.
      + intros c' i w Hin Hr. destruct (R3 _ Hin) as (c0&H0&H1). rewrite H1 in Hr. eapply (inv_run _ _ _ I); eauto.
      + intros c chs y Hs. destruct (R2 c) as [_ [H2|[H2 _]]]; [|congruence]. rewrite H2 in Hs. apply (inv_mb _ _ _ I) in Hs. exact Hs. }
    destruct (getjob (s_jobs s) ser) as [j|] eqn:Ej; [|exact I1].
    destruct (j_drop j && has_waiter ser (s_conns s) && id_is (s_ids s) (j_id j) ser) eqn:EC; [|exact I1].
    apply andb_true_iff in EC. destruct EC as [_ EI]. apply id_is_spec in EI. cbn [fst].
    (* the entry that is deleted refers to the finished job itself *)
    apply (inv_del_done (set_conns cs s) [] [] (j_id j) ser I1); sf; [exact EI|].
    apply really_done_is_done. apply HD. reflexivity.
Qed.

Lemma run_events_inv : forall es s, Inv s [] [] -> hub_ok (s_jobs s) es -> Inv (fst (run_events es s)) [] [].
Proof.
  induction es as [|e r IH]; intros s I HD; cbn [run_events]; [exact I|].
  assert (I1 : Inv (fst (run_event e s)) [] []).
  { apply run_event_inv; [exact I|]. intros ser E. apply HD. left. exact E. }
  pose proof (run_event_jobs e s) as J1.
  destruct (run_event e s) as [s1 o1]. cbn [fst] in I1, J1.
  assert (HD1 : hub_ok (s_jobs s1) r) by (rewrite J1; intros ser Hin; apply HD; right; exact Hin).
  specialize (IH s1 I1 HD1). destruct (run_events r s1) as [s2 o2]. exact IH.
Qed.

(* ------------------------------------------------------------------ ops on an idle connection *)

Lemma is_idle_st : forall c s, is_idle c s = true -> c_st (get_conn (s_conns s) c) = Idle.
Proof. intros c s. unfold is_idle. destruct (c_st (get_conn (s_conns s) c)); congruence. Qed.

Lemma conn_update_inv : forall s c st l,
  Inv s [] [] -> c_st (get_conn (s_conns s) c) = Idle ->
  (st = Idle \/ exists w, st = BWait w) ->
  (forall y n, want (s_jobs s) y = Some n -> occ y (map snd l) = occ y (map snd (c_run (get_conn (s_conns s) c)))) ->
  incl l (c_run (get_conn (s_conns s) c)) ->
  Inv (set_conns (put_conn (s_conns s) (mkConn c st l)) s) [] [].
Proof.
  intros s c st l I ES Hst Hocc Hincl.
  assert (NW' : forall c' chs', In (c', chs') (s_waiters s) -> c' <> c).
  { intros c' chs' Hin Ec. subst c'. apply (inv_wait _ _ _ I) in Hin. congruence. }
  assert (MB0 : forall y, mb_occ y st = 0%nat) by (intro y; destruct Hst as [->|[w ->]]; reflexivity).
  constructor; unfold locs; sf; try (destruct I; assumption).
  - intros y n W. pose proof (inv_cons _ _ _ I y n W) as H. unfold locs in H.
    pose proof (occ_conns_put y (s_conns s) (mkConn c st l)) as H2. sf. unfold occ_conn in H2. sf.
    rewrite ES, MB0 in H2. cbn [mb_occ] in H2. rewrite (Hocc y n W) in H2. lia.
  - intros c' chs' Hin. rewrite get_put_other by (sf; intro; subst; eapply NW'; eauto). apply (inv_wait _ _ _ I); auto.
  - intros c0 i w Hin Hr. apply put_conn_In in Hin. destruct Hin as [Hin|Hin].
    + subst c0. sf. eapply conn_run_exists; eauto.
    + eapply (inv_run _ _ _ I); eauto.
  - intros c' chs' y Hs. destruct (N.eq_dec c' c) as [Ec|Ec].
    + subst c'. pose proof (get_put_same (s_conns s) (mkConn c st l)) as G. sf. rewrite G in Hs. sf.
      destruct Hst as [->|[w ->]]; discriminate.
    + rewrite get_put_other in Hs by (sf; congruence). apply (inv_mb _ _ _ I) in Hs. exact Hs.
Qed.

Lemma occ_run_del : forall x l i, (occ x (map snd (run_del l i)) + old_occ l i x = occ x (map snd l))%nat.
Proof.
  intros x l i. unfold old_occ. induction l as [|[k w] r IH]; cbn [run_del id_lookup map occ snd]; [lia|].
  destruct (jid_eqb k i); cbn [map occ snd]; [lia|]. destruct (id_lookup r i); lia.
Qed.

Lemma run_del_incl : forall l i, incl (run_del l i) l.
Proof.
  induction l as [|[k w] r IH]; intros i; cbn [run_del]; [apply incl_refl|].
  destruct (jid_eqb k i); [apply incl_tl, incl_refl|]. intros y [H|H]; [left; auto|right; apply (IH i); auto].
Qed.

Lemma run_del_fold : forall js l y,
  (forall i w, In i js -> In (i, w) l -> w <> y) ->
  occ y (map snd (fold_left run_del js l)) = occ y (map snd l) /\ incl (fold_left run_del js l) l.
Proof.
  induction js as [|i r IH]; intros l y H; cbn [fold_left]; [split; [reflexivity|apply incl_refl]|].
  destruct (IH (run_del l i) y) as [H1 H2].
  - intros i' w Hi Hin. apply (H i' w); [right; auto|]. eapply run_del_incl; eauto.
  - split; [|eapply incl_tran; [exact H2|apply run_del_incl]].
    rewrite H1. pose proof (occ_run_del y l i) as H3. unfold old_occ in H3.
    destruct (id_lookup l i) as [w|] eqn:El; [|lia]. apply id_lookup_In in El.
    rewrite ind_neq in H3; [lia|]. apply (H i w); [left; auto|auto].
Qed.

Lemma run_del_fold_incl : forall js l, incl (fold_left run_del js l) l.
Proof.
  induction js as [|i r IH]; intros l; cbn [fold_left]; [apply incl_refl|].
  eapply incl_tran; [apply IH|apply run_del_incl].
Qed.

Lemma killjobs_inv : forall js s L R, Inv s L R -> Inv (killjobs js s) L R.
Proof.
  induction js as [|i r IH]; intros s L R I; cbn [killjobs]; [exact I|].
  destruct (id_lookup (s_ids s) i); apply IH; [apply mark_inv|]; exact I.
Qed.

Lemma killjobs_ids : forall js s, s_ids (killjobs js s) = s_ids s /\ tab_le (s_jobs s) (s_jobs (killjobs js s)) /\
  s_conns (killjobs js s) = s_conns s.
Proof.
  induction js as [|i r IH]; intros s; cbn [killjobs]; [repeat split; apply tab_le_refl|].
  destruct (id_lookup (s_ids s) i) as [ser|]; [|apply IH].
  destruct (IH (mark_finished ser (upd_err e_killed) s)) as (H1&H2&H3).
  destruct (mark_fields ser (upd_err e_killed) s) as (_&Hc&_&Hi&_).
  repeat split; try congruence. eapply tab_le_trans; [apply mark_tab_le|exact H2].
Qed.

Lemma killjobs_done : forall js s i w, In i js -> id_lookup (s_ids s) i = Some w ->
  is_done (s_jobs (killjobs js s)) w = true.
Proof.
  induction js as [|i0 r IH]; intros s i w Hin El; [destruct Hin|]. cbn [killjobs].
  destruct Hin as [Hin|Hin].
  - subst i0. rewrite El. destruct (killjobs_ids r (mark_finished w (upd_err e_killed) s)) as (_&T&_).
    eapply tab_le_done; [exact T|apply mark_done].
  - destruct (id_lookup (s_ids s) i0) as [ser|] eqn:E0; [|eapply IH; eauto].
    eapply IH; eauto. destruct (mark_fields ser (upd_err e_killed) s) as (_&_&_&Hi&_). rewrite Hi. exact El.
Qed.

(* entries dropped from running_jobs after finish/kill are finished jobs *)
Lemma drop_running_inv : forall s c js,
  Inv s [] [] -> c_st (get_conn (s_conns s) c) = Idle ->
  (forall i w, In i js -> id_lookup (s_ids s) i = Some w -> is_done (s_jobs s) w = true) ->
  Inv (set_conns (put_conn (s_conns s) (mkConn c (c_st (get_conn (s_conns s) c))
                                               (fold_left run_del js (c_run (get_conn (s_conns s) c))))) s) [] [].
Proof.
  intros s c js I ES HD. apply conn_update_inv; auto.
  - intros y n W. apply run_del_fold. intros i w Hi Hin Ewy. subst w.
    destruct (conn_run_exists _ _ _ _ _ _ I Hin) as (j&Ej&Hid).
    destruct (want_cases _ _ _ W) as [(_&D&j'&Ej'&Dj)|(_&En)]; [|congruence].
    rewrite Ej in Ej'. inversion Ej'; subst j'.
    pose proof (inv_addr _ _ _ I y j Ej Dj eq_refl) as A. rewrite Hid in A.
    rewrite (HD i y Hi A) in D. discriminate.
  - apply run_del_fold_incl.
Qed.

Lemma timeouts_loop_inv : forall q s L R, Inv s L R -> Inv (timeouts_loop q s) L R.
Proof.
  induction q as [|x r IH]; intros s L R I; cbn [timeouts_loop].
  - eapply inv_same; eauto.
  - destruct (is_done (s_jobs s) (snd (snd x))); [apply IH; exact I|].
    destruct (s_now s <? fst x); [eapply inv_same; eauto|]. apply IH. apply mark_inv. exact I.
Qed.

Lemma getjob_cons_old : forall j js x j0, getjob js x = Some j0 -> j_serial j <> x -> getjob (j :: js) x = Some j0.
Proof. intros j js x j0 E H. cbn [getjob]. apply N.eqb_neq in H. rewrite H. exact E. Qed.

Lemma push_inv : forall ch prio name tmo s, Inv s [] [] -> Inv (fst (push ch prio name tmo s)) [] [].
Proof.
  intros ch prio name tmo s I. unfold push.
  set (ser := s_count s + 1).
  set (i := match name with Some n => JName n | None => JAuto ser end).
  set (j := mkJob ser i ch prio (s_now s + match tmo with Some t => t | None => 120 end) false ENone None None 3600 None false).
  assert (FRESH : (forall y jy, getjob (s_jobs s) y = Some jy -> j_done jy = false -> j_id jy <> i) ->
                  Inv (fst (pushjob ser (set_jobs (j :: s_jobs s) (set_count ser s)), i)) [] []).
  { intro NEW. cbn [fst].
    assert (OLD : forall y jy, getjob (s_jobs s) y = Some jy -> y <> ser).
    { intros y jy Ey. pose proof (inv_tab _ _ _ I _ _ Ey). unfold ser. lia. }
    assert (GN : getjob (s_jobs s) ser = None).
    { destruct (getjob (s_jobs s) ser) eqn:E; [|reflexivity]. exfalso. eapply OLD; eauto. }
    assert (GO : forall y, y <> ser -> getjob (j :: s_jobs s) y = getjob (s_jobs s) y).
    { intros y Hy. cbn [getjob]. change (j_serial j) with ser. destruct (ser =? y) eqn:E; [apply N.eqb_eq in E; congruence|reflexivity]. }
    assert (GS : getjob (j :: s_jobs s) ser = Some j).
    { cbn [getjob]. change (j_serial j) with ser. rewrite N.eqb_refl. reflexivity. }
    apply pushjob_inv with (j := j); sf; auto.
    constructor; unfold locs; sf; try (destruct I; assumption).
    - intros y n W. destruct (N.eq_dec y ser) as [E|E].
      + subst y. unfold want in W. rewrite GS in W. cbn in W. inversion W; subst n.
        pose proof (inv_cons _ _ _ I ser 0%nat) as H. unfold want in H. rewrite GN in H. specialize (H eq_refl).
        unfold locs in H. cbn [occ] in *. rewrite ind_refl. lia.
      + unfold want in W. rewrite GO in W by exact E. pose proof (inv_cons _ _ _ I y n W) as H. unfold locs in H.
        cbn [occ] in *. rewrite ind_neq by congruence. lia.
    - intros y jy Ey Dy Oy. cbn [occ] in Oy. destruct (N.eq_dec y ser) as [E|E]; [subst; rewrite ind_refl in Oy; lia|].
      rewrite GO in Ey by exact E. apply (inv_addr _ _ _ I); auto.
    - intros x y jx jy Ex Ey Dx Dy Hid.
      destruct (N.eq_dec x ser) as [E1|E1]; destruct (N.eq_dec y ser) as [E2|E2]; try congruence.
      + subst x. rewrite GS in Ex. inversion Ex; subst jx. rewrite GO in Ey by exact E2. exfalso. eapply NEW; eauto.
      + subst y. rewrite GS in Ey. inversion Ey; subst jy. rewrite GO in Ex by exact E1. exfalso. eapply NEW; eauto.
      + rewrite GO in Ex, Ey by assumption. eapply (inv_uniq _ _ _ I); eauto.
    - intros x jx n Ex Hid. destruct (N.eq_dec x ser) as [E|E].
      + subst x. rewrite GS in Ex. inversion Ex; subst jx. cbn in Hid. unfold i in Hid. destruct name; inversion Hid; reflexivity.
      + rewrite GO in Ex by exact E. eapply (inv_auto _ _ _ I); eauto.
    - intros x jx Ex. destruct (N.eq_dec x ser) as [E|E]; [subst; lia|].
      rewrite GO in Ex by exact E. pose proof (inv_tab _ _ _ I _ _ Ex). unfold ser. lia.
    - intros x jx Ex Dx. destruct (N.eq_dec x ser) as [E|E].
      + subst x. rewrite GS in Ex. inversion Ex; subst jx. reflexivity.
      + rewrite GO in Ex by exact E. eapply (inv_err _ _ _ I); eauto.
    - intros k q p x Hin Hp. destruct (inv_q _ _ _ I _ _ _ _ Hin Hp) as (j0&E0&H0). exists j0. split; [|exact H0].
      rewrite GO; [exact E0|eapply OLD; eauto].
    - intros c0 i0 w Hin Hr. destruct (inv_run _ _ _ I _ _ _ Hin Hr) as (j0&E0&H0). exists j0. split; [|exact H0].
      rewrite GO; [exact E0|eapply OLD; eauto].
    - intros c0 chs x Hs. destruct (inv_mb _ _ _ I _ _ _ Hs) as (j0&E0&H0). exists j0. split; [|exact H0].
      rewrite GO; [exact E0|eapply OLD; eauto]. }
  destruct name as [n|].
  - destruct (id_lookup (s_ids s) (JName n)) as [ser0|] eqn:El.
    + destruct (getjob (s_jobs s) ser0) as [j0|] eqn:E0.
      * destruct (err_is_killed (j_err j0)) eqn:EK; [|exact I].
        apply FRESH. intros y jy Ey Dy Hid. unfold i in Hid.
        pose proof (inv_addr _ _ _ I y jy Ey Dy eq_refl) as A. rewrite Hid, El in A. inversion A; subst ser0.
        rewrite Ey in E0. inversion E0; subst j0. rewrite (inv_err _ _ _ I _ _ Ey Dy) in EK. discriminate.
      * apply FRESH. intros y jy Ey Dy Hid. unfold i in Hid.
        pose proof (inv_addr _ _ _ I y jy Ey Dy eq_refl) as A. rewrite Hid, El in A. inversion A; subst ser0. congruence.
    + apply FRESH. intros y jy Ey Dy Hid. unfold i in Hid.
      pose proof (inv_addr _ _ _ I y jy Ey Dy eq_refl) as A. rewrite Hid, El in A. discriminate.
  - apply FRESH. intros y jy Ey Dy Hid. unfold i in Hid.
    pose proof (inv_auto _ _ _ I _ _ _ Ey Hid) as A. pose proof (inv_tab _ _ _ I _ _ Ey). unfold ser in A. lia.
Qed.

(* ------------------------------------------------------------------ every op preserves the invariant *)

Lemma setinfo_tab_le : forall js ser v,
  tab_le js (setjob ser (fun j => mkJob (j_serial j) (j_id j) (j_chan j) (j_prio j) (j_timeout j) (j_done j)
                                         (j_err j) (j_res j) (Some v) (j_ttl j) (j_dl j) (j_drop j)) js).
Proof.
  intros js ser v y. rewrite getjob_setjob by (intros; cbn; assumption).
  destruct (y =? ser) eqn:E.
  - apply N.eqb_eq in E. subst y. destruct (getjob js ser); cbn; auto.
  - destruct (getjob js y); auto.
Qed.

(* ---- Drop / Watchdog / Advance *)

Lemma set_dl_tab_le : forall js ser d, tab_le js (setjob ser (set_dl d) js).
Proof.
  intros js ser d y. rewrite getjob_setjob by (intros; cbn; assumption).
  destruct (y =? ser) eqn:E.
  - apply N.eqb_eq in E. subst y. destruct (getjob js ser); cbn; auto.
  - destruct (getjob js y); auto.
Qed.

Lemma aux_set_dl : forall s ser j d, Aux s -> getjob (s_jobs s) ser = Some j -> j_done j = true ->
  Aux (set_jobs (setjob ser (set_dl d) (s_jobs s)) s).
Proof.
  intros s ser j d A Ej Dj x jx. sf. rewrite getjob_setjob by (intros; cbn; assumption).
  destruct (x =? ser) eqn:E.
  - apply N.eqb_eq in E. subst x. rewrite Ej. cbn. intro H. inversion H; subst jx. cbn. congruence.
  - apply A.
Qed.

Lemma dropdead_loop_good : forall l s, Aux s -> Inv s [] [] ->
  Aux (dropdead_loop l s) /\ Inv (dropdead_loop l s) [] [].
Proof.
  induction l as [|i r IH]; intros s A I; cbn [dropdead_loop]; [split; assumption|].
  destruct (id_lookup (s_ids s) i) as [ser|] eqn:El; [|apply IH; assumption].
  destruct (getjob (s_jobs s) ser) as [j|] eqn:Ej; [|apply IH; assumption].
  cbv zeta.
  set (expired := match j_dl j with Some d => negb (d =? 0) && (d <? s_now s) | None => false end).
  set (s1 := if expired then set_ids (id_del (s_ids s) i) s else s).
  assert (J1 : s_jobs s1 = s_jobs s) by (unfold s1; destruct expired; reflexivity).
  assert (A1 : Aux s1) by (eapply aux_same; eauto).
  assert (I1 : Inv s1 [] []).
  { unfold s1. destruct expired eqn:EX; [|exact I]. eapply inv_del_done; eauto.
    unfold is_done. rewrite Ej. destruct (j_done j) eqn:Dj; [reflexivity|].
    unfold expired in EX. rewrite (A _ _ Ej Dj) in EX. discriminate. }
  destruct (j_done j && negb (dl_truthy (j_dl j))) eqn:EC; [|apply IH; assumption].
  apply andb_true_iff in EC. destruct EC as [Dj _]. rewrite J1. apply IH.
  - intros x jx. sf. intro E. apply (aux_set_dl s ser j (Some (s_now s + j_ttl j)) A Ej Dj x jx). sf. exact E.
  - eapply inv_tab_le; [exact I1| |reflexivity|reflexivity|reflexivity|reflexivity|reflexivity].
    sf. rewrite J1. apply set_dl_tab_le.
Qed.

(* ---- the side invariant Aux *)

Lemma aux_mark : forall x u s, (forall j, j_dl (u j) = j_dl j) -> Aux s -> Aux (mark_finished x u s).
Proof.
  intros x u s Hu A. unfold mark_finished. destruct (getjob (s_jobs s) x) as [j|] eqn:E; [|exact A].
  destruct (j_done j) eqn:D; [exact A|]. intros y jy. sf.
  rewrite getjob_setjob by (intros; cbn; eapply getjob_serial; eauto).
  destruct (y =? x) eqn:Eyx.
  - apply N.eqb_eq in Eyx. subst y. rewrite E. cbn. intro H. inversion H; subst jy. cbn. discriminate.
  - apply A.
Qed.

Lemma aux_killjobs : forall js s, Aux s -> Aux (killjobs js s).
Proof.
  induction js as [|i r IH]; intros s A; cbn [killjobs]; [exact A|].
  destruct (id_lookup (s_ids s) i); [|apply IH; exact A]. apply IH. apply aux_mark; [reflexivity|exact A].
Qed.

Lemma aux_timeouts : forall q s, Aux s -> Aux (timeouts_loop q s).
Proof.
  induction q as [|x r IH]; intros s A; cbn [timeouts_loop]; [exact A|].
  destruct (is_done (s_jobs s) (snd (snd x))); [apply IH; exact A|].
  destruct (s_now s <? fst x); [exact A|]. apply IH. apply aux_mark; [reflexivity|exact A].
Qed.

Lemma set_drop_tab_le : forall js ser, tab_le js (setjob ser set_drop js).
Proof.
  intros js ser y. rewrite getjob_setjob by (intros; cbn; assumption).
  destruct (y =? ser) eqn:E.
  - apply N.eqb_eq in E. subst y. destruct (getjob js ser); cbn; auto.
  - destruct (getjob js y); auto.
Qed.

Lemma aux_tab_le_dl : forall s s', Aux s ->
  (forall x j', getjob (s_jobs s') x = Some j' -> exists j, getjob (s_jobs s) x = Some j /\ j_done j = j_done j' /\ j_dl j = j_dl j') ->
  Aux s'.
Proof. intros s s' A H x j' E D. destruct (H x j' E) as (j&Ej&Hd&Hl). rewrite <- Hl. apply (A x j Ej). congruence. Qed.

Lemma aux_dropjobs : forall js s, Aux s -> Aux (dropjobs js s).
Proof.
  induction js as [|i r IH]; intros s A; cbn [dropjobs]; [exact A|].
  destruct (id_lookup (s_ids s) i) as [ser|]; [|apply IH; exact A]. apply IH.
  eapply aux_tab_le_dl; [exact A|]. intros x j'. sf. rewrite getjob_setjob by (intros; cbn; assumption).
  destruct (x =? ser) eqn:E.
  - apply N.eqb_eq in E. subst x. destruct (getjob (s_jobs s) ser) as [j|]; cbn; [|discriminate].
    intro H. inversion H; subst j'. exists j. cbn. auto.
  - intro H. exists j'. auto.
Qed.

Lemma step_aux : forall s o, Aux s -> Inv s [] [] -> Aux (fst (step s o)).
Proof.
  intros s o A I.
  destruct o as [ch prio name tmo|c chs| |c i res e|c js|dt|c|k|c i|i|i v| |dt|js|]; cbn [step].
  - assert (F : forall j0, j_dl j0 = None ->
                Aux (pushjob (s_count s + 1) (set_jobs (j0 :: s_jobs s) (set_count (s_count s + 1) s)))).
    { intros j0 H2. eapply aux_same; [apply pushjob_jobs|]. intros x jx. sf. cbn [getjob].
      destruct (j_serial j0 =? x); [intro H; injection H as H0; rewrite <- H0; auto|apply A]. }
    unfold push. destruct name as [n|]; [|apply F; reflexivity].
    destruct (id_lookup (s_ids s) (JName n)) as [ser|]; [|apply F; reflexivity].
    destruct (getjob (s_jobs s) ser) as [j0|]; [|apply F; reflexivity].
    destruct (err_is_killed (j_err j0)); [apply F; reflexivity|exact A].
  - destruct (is_idle c s); [|exact A]. eapply aux_same; [apply pop_jobs|exact A].
  - eapply aux_same; [apply run_events_jobs|]. exact A.
  - destruct (is_idle c s); [|exact A]. destruct (id_lookup (s_ids s) i); [|exact A]. cbn [fst].
    eapply aux_same; [|apply aux_mark; [|exact A]]; [reflexivity|reflexivity].
  - destruct (is_idle c s); [|exact A]. cbn [fst]. eapply aux_same; [|apply aux_killjobs; exact A]. reflexivity.
  - cbn [fst]. unfold handletimeouts. eapply aux_same; [|apply (aux_timeouts (s_tq s) (set_now (s_now s + dt) s)); exact A]. reflexivity.
  - destruct (c_st (get_conn (s_conns s) c)); exact A.
  - exact A.
  - destruct (is_idle c s); [|exact A]. destruct (id_lookup (s_ids s) i) as [ser|]; [|exact A].
    destruct (getjob (s_jobs s) ser) as [j|]; [|exact A].
    destruct (j_done j); [destruct (j_drop j && id_is (s_ids s) (j_id j) ser)|]; exact A.
  - exact A.
  - destruct (id_lookup (s_ids s) i) as [ser|]; [|exact A]. cbn [fst]. intros x jx. sf.
    rewrite getjob_setjob by (intros; cbn; assumption). destruct (x =? ser) eqn:E.
    + apply N.eqb_eq in E. subst x. destruct (getjob (s_jobs s) ser) as [j|] eqn:Ej; cbn; [|discriminate].
      intro H. inversion H; subst jx. cbn. exact (A _ _ Ej).
    + apply A.
  - exact A.
  - exact A.
  - cbn [fst]. apply aux_dropjobs. exact A.
  - cbn [fst]. unfold dropdead. apply dropdead_loop_good; assumption.
Qed.

(* ---- the hub invariant HubOK *)

(* a state transformer that neither touches the job table nor queues / consumes a finish notification *)
Definition nnd (s s' : state) : Prop :=
  s_jobs s' = s_jobs s /\ forall ser, In (EvDone ser) (s_hub s') <-> In (EvDone ser) (s_hub s).

Lemma nnd_refl : forall s, nnd s s.
Proof. intro s. split; [reflexivity|intro; tauto]. Qed.

Lemma nnd_trans : forall a b c, nnd a b -> nnd b c -> nnd a c.
Proof. intros a b c [J1 H1] [J2 H2]. split; [congruence|]. intro ser. rewrite H2. apply H1. Qed.

Lemma nnd_same : forall s s', s_jobs s' = s_jobs s -> s_hub s' = s_hub s -> nnd s s'.
Proof. intros s s' J H. split; [exact J|]. intro ser. rewrite H. tauto. Qed.

Lemma in_done_snoc : forall ser es e, (forall x, e <> EvDone x) -> (In (EvDone ser) (es ++ [e]) <-> In (EvDone ser) es).
Proof.
  intros ser es e He. split; intro H.
  - apply in_app_or in H. destruct H as [H|[H|[]]]; [exact H|]. exfalso. eapply He; eauto.
  - apply in_or_app. left; exact H.
Qed.

Lemma pushjob_nnd : forall x s, nnd s (pushjob x s).
Proof.
  intros x s. unfold pushjob. destruct (getjob (s_jobs s) x) as [j|]; [|apply nnd_refl]. cbv zeta. sf.
  destruct (filter (watches (j_chan j)) (s_waiters s)); sf; [apply nnd_same; reflexivity|].
  split; [reflexivity|]. intro ser. sf. apply in_done_snoc. intros y H; discriminate H.
Qed.

Lemma deliver_nnd : forall c chs x s, nnd s (fst (deliver c chs x s)).
Proof. intros. unfold deliver. destruct (getjob (s_jobs s) x); cbn [fst]; apply nnd_same; reflexivity. Qed.

Lemma pop_nnd : forall c chs s, nnd s (fst (pop_or_block c chs s)).
Proof.
  intros. unfold pop_or_block. cbv zeta. destruct (heads _ _) as [x|]; [|apply nnd_same; reflexivity].
  destruct (getjob _ _); [|apply nnd_same; reflexivity].
  eapply nnd_trans; [|apply deliver_nnd]. apply nnd_same; reflexivity.
Qed.

Lemma shutdown_nnd : forall l s, nnd s (shutdown_loop l s).
Proof.
  induction l as [|[i w] r IH]; intro s; cbn [shutdown_loop]; [apply nnd_refl|].
  destruct (is_done (s_jobs s) w); [apply IH|].
  eapply nnd_trans; [|apply IH]. eapply nnd_trans; [|apply pushjob_nnd]. apply nnd_same; reflexivity.
Qed.

Lemma die_nnd : forall c s, nnd s (fst (die c s)).
Proof. intros. unfold die. cbv zeta. cbn [fst]. eapply nnd_trans; [|apply shutdown_nnd]. apply nnd_same; reflexivity. Qed.

Lemma run_event_nnd : forall e s, nnd s (fst (run_event e s)).
Proof.
  intros e s. destruct e as [c|c|ser]; cbn [run_event].
  - destruct (c_st (get_conn (s_conns s) c)) as [|chs [x|]|w|]; try apply nnd_refl.
    destruct (is_done (s_jobs s) x); [apply pop_nnd|apply deliver_nnd].
  - destruct (c_st (get_conn (s_conns s) c)) as [|chs mb|w|]; try apply nnd_refl; try apply die_nnd.
    eapply nnd_trans; [|apply die_nnd]. destruct mb as [x|]; [|apply nnd_same; reflexivity].
    sf. destruct (is_done (s_jobs s) x); [apply nnd_same; reflexivity|].
    eapply nnd_trans; [|apply pushjob_nnd]. apply nnd_same; reflexivity.
  - destruct (release ser (s_jobs s) (s_conns s)). destruct (getjob (s_jobs s) ser) as [j|]; [|apply nnd_same; reflexivity].
    destruct (j_drop j && has_waiter ser (s_conns s) && id_is (s_ids s) (j_id j) ser); apply nnd_same; reflexivity.
Qed.

Lemma run_events_nnd : forall es s, nnd s (fst (run_events es s)).
Proof.
  induction es as [|e r IH]; intro s; cbn [run_events]; [apply nnd_refl|].
  pose proof (run_event_nnd e s) as H1. destruct (run_event e s) as [s1 o1]. cbn [fst] in H1.
  specialize (IH s1). destruct (run_events r s1) as [s2 o2]. cbn [fst] in *. eapply nnd_trans; eauto.
Qed.

Lemma hub_nnd : forall s s', nnd s s' -> HubOK s -> HubOK s'.
Proof. intros s s' [J H] K ser Hin. unfold HubOK, hub_ok in *. rewrite J. apply K. apply H. exact Hin. Qed.

Lemma hub_tab_le : forall s s', tab_le (s_jobs s) (s_jobs s') -> s_hub s' = s_hub s -> HubOK s -> HubOK s'.
Proof. intros s s' T H K ser Hin. rewrite H in Hin. eapply tab_le_really_done; [exact T|]. apply K. exact Hin. Qed.

Lemma mark_hub_cases : forall x u s,
  s_hub (mark_finished x u s) = s_hub s \/
  (s_hub (mark_finished x u s) = s_hub s ++ [EvDone x] /\ really_done (s_jobs (mark_finished x u s)) x).
Proof.
  intros x u s. unfold mark_finished. destruct (getjob (s_jobs s) x) as [j|] eqn:E; [|left; reflexivity].
  destruct (j_done j) eqn:D; [left; reflexivity|]. sf.
  destruct (has_waiter x (s_conns s)); [right|left; reflexivity]. split; [reflexivity|].
  unfold really_done. rewrite getjob_setjob by (intros; cbn; eapply getjob_serial; eauto).
  rewrite N.eqb_refl, E. cbn. eexists; split; [reflexivity|reflexivity].
Qed.

Lemma mark_hub : forall x u s, HubOK s -> HubOK (mark_finished x u s).
Proof.
  intros x u s K ser Hin. destruct (mark_hub_cases x u s) as [H|[H R]]; rewrite H in Hin.
  - eapply tab_le_really_done; [apply mark_tab_le|]. apply K. exact Hin.
  - apply in_app_or in Hin. destruct Hin as [Hin|[Hin|[]]].
    + eapply tab_le_really_done; [apply mark_tab_le|]. apply K. exact Hin.
    + inversion Hin; subst ser. exact R.
Qed.

Lemma hub_same : forall s s', s_jobs s' = s_jobs s -> s_hub s' = s_hub s -> HubOK s -> HubOK s'.
Proof. intros s s' J H. apply hub_nnd. apply nnd_same; assumption. Qed.

Lemma killjobs_hub : forall js s, HubOK s -> HubOK (killjobs js s).
Proof.
  induction js as [|i r IH]; intros s K; cbn [killjobs]; [exact K|].
  destruct (id_lookup (s_ids s) i); apply IH; [apply mark_hub|]; exact K.
Qed.

Lemma timeouts_hub : forall q s, HubOK s -> HubOK (timeouts_loop q s).
Proof.
  induction q as [|x r IH]; intros s K; cbn [timeouts_loop]; [eapply hub_same; [| |exact K]; reflexivity|].
  destruct (is_done (s_jobs s) (snd (snd x))); [apply IH; exact K|].
  destruct (s_now s <? fst x); [eapply hub_same; [| |exact K]; reflexivity|]. apply IH. apply mark_hub. exact K.
Qed.

Lemma dropjobs_tab_le : forall js s, tab_le (s_jobs s) (s_jobs (dropjobs js s)) /\ s_hub (dropjobs js s) = s_hub s.
Proof.
  induction js as [|i r IH]; intro s; cbn [dropjobs]; [split; [apply tab_le_refl|reflexivity]|].
  destruct (id_lookup (s_ids s) i) as [ser|]; [|apply IH].
  destruct (IH (set_jobs (setjob ser set_drop (s_jobs s)) s)) as [T H]. sf. split; [|exact H].
  eapply tab_le_trans; [apply set_drop_tab_le|exact T].
Qed.

Lemma dropdead_tab_le : forall l s, tab_le (s_jobs s) (s_jobs (dropdead_loop l s)) /\ s_hub (dropdead_loop l s) = s_hub s.
Proof.
  induction l as [|i r IH]; intro s; cbn [dropdead_loop]; [split; [apply tab_le_refl|reflexivity]|].
  destruct (id_lookup (s_ids s) i) as [ser|]; [|apply IH].
  destruct (getjob (s_jobs s) ser) as [j|]; [|apply IH]. cbv zeta.
  match goal with |- context [dropdead_loop r ?t] => destruct (IH t) as [T H]; assert (T0 : tab_le (s_jobs s) (s_jobs t) /\ s_hub t = s_hub s) end.
  { destruct (match j_dl j with Some d => negb (d =? 0) && (d <? s_now s) | None => false end);
      destruct (j_done j && negb (dl_truthy (j_dl j))); sf; split; try reflexivity; try apply tab_le_refl; apply set_dl_tab_le. }
  destruct T0 as [T0 H0]. split; [eapply tab_le_trans; eauto|congruence].
Qed.

Lemma step_hub : forall s o, Inv s [] [] -> HubOK s -> HubOK (fst (step s o)).
Proof.
  intros s o I K.
  destruct o as [ch prio name tmo|c chs| |c i res e|c js|dt|c|k|c i|i|i v| |dt|js|]; cbn [step].
  - assert (F : forall j0, j_serial j0 = s_count s + 1 ->
                HubOK (pushjob (s_count s + 1) (set_jobs (j0 :: s_jobs s) (set_count (s_count s + 1) s)))).
    { intros j0 Hs. eapply hub_nnd; [apply pushjob_nnd|]. intros ser Hin. sf.
      destruct (K ser Hin) as (j&E&D). exists j. split; [|exact D]. cbn [getjob]. rewrite Hs.
      pose proof (inv_tab _ _ _ I _ _ E). destruct (s_count s + 1 =? ser) eqn:Ex; [apply N.eqb_eq in Ex; lia|exact E]. }
    unfold push. destruct name as [n|]; [|apply F; reflexivity].
    destruct (id_lookup (s_ids s) (JName n)) as [ser|]; [|apply F; reflexivity].
    destruct (getjob (s_jobs s) ser) as [j0|]; [|apply F; reflexivity].
    destruct (err_is_killed (j_err j0)); [apply F; reflexivity|exact K].
  - destruct (is_idle c s); [|exact K]. eapply hub_nnd; [apply pop_nnd|exact K].
  - eapply hub_nnd; [apply run_events_nnd|]. intros ser []. 
  - destruct (is_idle c s); [|exact K]. destruct (id_lookup (s_ids s) i); [|exact K]. cbn [fst].
    eapply hub_same; [| |apply mark_hub; exact K]; reflexivity.
  - destruct (is_idle c s); [|exact K]. cbn [fst]. eapply hub_same; [| |apply killjobs_hub; exact K]; reflexivity.
  - cbn [fst]. unfold handletimeouts. eapply hub_same; [| |apply (timeouts_hub (s_tq s) (set_now (s_now s + dt) s))]; try reflexivity.
    eapply hub_same; [| |exact K]; reflexivity.
  - destruct (c_st (get_conn (s_conns s) c)); cbn [fst]; try exact K;
      (eapply hub_nnd; [|exact K]; split; [reflexivity|]; intro ser0; sf; apply in_done_snoc; intros y H; discriminate H).
  - cbn [fst]. eapply hub_same; [| |exact K]; reflexivity.
  - destruct (is_idle c s); [|exact K]. destruct (id_lookup (s_ids s) i) as [ser|]; [|exact K].
    destruct (getjob (s_jobs s) ser) as [j|]; [|exact K].
    destruct (j_done j); [destruct (j_drop j && id_is (s_ids s) (j_id j) ser)|]; cbn [fst];
      try exact K; (eapply hub_same; [| |exact K]; reflexivity).
  - exact K.
  - destruct (id_lookup (s_ids s) i) as [ser|]; [|exact K]. cbn [fst].
    eapply hub_tab_le; [| |exact K]; [sf; apply setinfo_tab_le|reflexivity].
  - exact K.
  - cbn [fst]. eapply hub_same; [| |exact K]; reflexivity.
  - cbn [fst]. destruct (dropjobs_tab_le js s) as [T H]. eapply hub_tab_le; eauto.
  - cbn [fst]. unfold dropdead. destruct (dropdead_tab_le (map fst (s_ids s)) s) as [T H]. eapply hub_tab_le; eauto.
Qed.

Lemma dropjobs_inv : forall js s L R, Inv s L R -> Inv (dropjobs js s) L R.
Proof.
  induction js as [|i r IH]; intros s L R I; cbn [dropjobs]; [exact I|].
  destruct (id_lookup (s_ids s) i) as [ser|]; [|apply IH; exact I]. apply IH.
  eapply inv_tab_le; [exact I| |reflexivity|reflexivity|reflexivity|reflexivity|reflexivity]. sf. apply set_drop_tab_le.
Qed.

Lemma step_inv : forall s o, Aux s -> HubOK s -> Inv s [] [] -> Inv (fst (step s o)) [] [].
Proof.
  intros s o A K I.
  destruct o as [ch prio name tmo|c chs| |c i res e|c js|dt|c|k|c i|i|i v| |dt|js|]; cbn [step].
  - pose proof (push_inv ch prio name tmo s I) as H. destruct (push ch prio name tmo s) as [s1 i]. exact H.
  - destruct (is_idle c s) eqn:EI; [|exact I]. apply is_idle_st in EI.
    apply pop_or_block_inv; auto.
    + intros y n W. rewrite EI. reflexivity.
    + intros chs' H. rewrite EI in H. discriminate.
  - apply run_events_inv; [eapply inv_same; eauto|exact K].
  - destruct (is_idle c s) eqn:EI; [|exact I]. apply is_idle_st in EI.
    destruct (id_lookup (s_ids s) i) as [ser|] eqn:El; [|exact I]. cbn [fst].
    set (u := fun j => upd_finish res e (if err_truthy e then N_min 10 (j_ttl j) else j_ttl j) j).
    destruct (mark_fields ser u s) as (_&Hc&_&Hi&_).
    pose proof (mark_inv ser u s _ _ I) as I1.
    apply (drop_running_inv (mark_finished ser u s) c [i] I1).
    + rewrite Hc. exact EI.
    + intros i' w [Hi'|[]] Hl. subst i'. rewrite Hi, El in Hl. inversion Hl; subst. apply mark_done.
  - destruct (is_idle c s) eqn:EI; [|exact I]. apply is_idle_st in EI. cbn [fst].
    destruct (killjobs_ids js s) as (Hi&_&Hc).
    apply (drop_running_inv (killjobs js s) c js (killjobs_inv js s _ _ I)).
    + rewrite Hc. exact EI.
    + intros i w Hin Hl. rewrite Hi in Hl. eapply killjobs_done; eauto.
  - cbn [fst]. unfold handletimeouts. apply preenall_inv. apply timeouts_loop_inv. eapply inv_same; eauto.
  - destruct (c_st (get_conn (s_conns s) c)); cbn [fst]; try exact I; eapply inv_same; eauto.
  - cbn [fst]. eapply inv_same; eauto.
  - destruct (is_idle c s) eqn:EI; [|exact I]. apply is_idle_st in EI.
    destruct (id_lookup (s_ids s) i) as [ser|]; [|exact I].
    destruct (getjob (s_jobs s) ser) as [j|] eqn:Ej; [|exact I].
    destruct (j_done j) eqn:ED.
    + (* released at once; a dropped job's id is forgotten only while it still names this finished job *)
      destruct (j_drop j && id_is (s_ids s) (j_id j) ser) eqn:EC; [|exact I]. cbn [fst].
      apply andb_true_iff in EC. destruct EC as [_ EI2]. apply id_is_spec in EI2.
      eapply inv_del_done; eauto. unfold is_done. rewrite Ej. exact ED.
    + cbn [fst]. apply conn_update_inv; auto; [right; eexists; reflexivity|apply incl_refl].
  - exact I.
  - destruct (id_lookup (s_ids s) i) as [ser|]; [|exact I]. cbn [fst].
    eapply inv_tab_le; eauto. sf. apply setinfo_tab_le.
  - exact I.
  - cbn [fst]. eapply inv_same; eauto.
  - cbn [fst]. apply dropjobs_inv. exact I.
  - cbn [fst]. unfold dropdead. apply dropdead_loop_good; assumption.
Qed.

(* the three invariants together *)
Definition Good (s : state) : Prop := Aux s /\ HubOK s /\ Inv s [] [].

Lemma step_good : forall s o, Good s -> Good (fst (step s o)).
Proof.
  intros s o (A&K&I). split; [apply step_aux; assumption|]. split; [apply step_hub; assumption|apply step_inv; assumption].
Qed.

Lemma inv_init : Inv init [] [].
Proof.
  constructor; cbn; try discriminate; try tauto.
  - intros x n H. inversion H. reflexivity.
  - constructor.
Qed.

Lemma aux_init : Aux init.
Proof. intros x j H. discriminate H. Qed.

Lemma hub_init : HubOK init.
Proof. intros ser []. Qed.

Lemma good_init : Good init.
Proof. split; [apply aux_init|]. split; [apply hub_init|apply inv_init]. Qed.

(* EVERY history: Drop (rpc_qdrop), Watchdog and Advance included *)
Lemma run_good : forall h s, Good s -> Good (run h s).
Proof. intro h. apply (invariant_reachable Good). intros s o. apply step_good. Qed.

Lemma run_inv : forall h s, Good s -> Inv (run h s) [] [].
Proof. intros h s G. apply (run_good h s G). Qed.

Lemma reachable_good : forall h, Good (run h init).
Proof. intro h. apply run_good. apply good_init. Qed.

Lemma reachable_inv : forall h, Inv (run h init) [] [].
Proof. intro h. apply (reachable_good h). Qed.

Lemma reachable_aux : forall h, Aux (run h init).
Proof. intro h. apply (reachable_good h). Qed.

Lemma reachable_hub : forall h, HubOK (run h init).
Proof. intro h. apply (reachable_good h). Qed.

(* ------------------------------------------------------------------ C16 statements *)

(* places where job object x sits: channel queues + (mailboxes of blocked pullers + running_jobs) *)
Definition in_queues (s : state) (x : N) : nat := occ_qs x (s_queues s).
Definition with_workers (s : state) (x : N) : nat := occ_conns x (s_conns s).

Lemma conservation : forall h x j,
  let s := run h init in
  getjob (s_jobs s) x = Some j -> j_done j = false ->
  (in_queues s x + with_workers s x = 1)%nat /\
  id_lookup (s_ids s) (j_id j) = Some x /\
  (forall k q p, In (k, q) (s_queues s) -> In (p, x) q -> k = j_chan j /\ p = j_prio j).
Proof.
  intros h x j s E D. pose proof (reachable_inv h) as I. fold s in I.
  split; [|split].
  - pose proof (inv_cons _ _ _ I x 1%nat (want_undone _ _ _ E D)) as H. unfold locs in H. cbn [occ] in H.
    unfold in_queues, with_workers. lia.
  - apply (inv_addr _ _ _ I); auto.
  - intros k q p Hin Hp. destruct (inv_q _ _ _ I _ _ _ _ Hin Hp) as (j'&E'&Hc&Hpp). rewrite E in E'. inversion E'; subst. auto.
Qed.

(* nothing but accepted jobs is ever queued or handed out, a registered waiter has an empty
   mailbox (so a hand-off never overwrites a job), and no connection is registered twice *)
Lemma no_phantoms : forall h x,
  let s := run h init in
  getjob (s_jobs s) x = None -> (in_queues s x + with_workers s x = 0)%nat.
Proof.
  intros h x s E. pose proof (reachable_inv h) as I. fold s in I.
  pose proof (inv_cons _ _ _ I x 0%nat) as H. unfold want in H. rewrite E in H. specialize (H eq_refl).
  unfold locs in H. cbn [occ] in H. unfold in_queues, with_workers. lia.
Qed.

Lemma waiters_empty_mailbox : forall h c chs,
  let s := run h init in
  In (c, chs) (s_waiters s) -> c_st (get_conn (s_conns s) c) = BPull chs None.
Proof. intros h c chs s. apply (inv_wait _ _ _ (reachable_inv h)). Qed.

Lemma mailbox_eligible : forall h c chs x,
  let s := run h init in
  c_st (get_conn (s_conns s) c) = BPull chs (Some x) ->
  exists j, getjob (s_jobs s) x = Some j /\ eligible (j_chan j) chs.
Proof. intros h c chs x s. apply (inv_mb _ _ _ (reachable_inv h)). Qed.

Definition example_history : list op :=
  [StartPull 1 [0]; StartPull 2 []; Add 0 1 None None; Add 0 0 (Some 0) None; Choice 1; Add 1 0 None (Some 5);
   RunLoop; Disconnect 1; RunLoop; StartPull 3 [1; 0]].

Lemma example_ok :
  let s := run example_history init in
  length example_history = 10%nat /\
  map (fun j => (j_serial j, j_done j)) (s_jobs s) = [(3, false); (2, false); (1, false)] /\
  map (fun x => (in_queues s x, with_workers s x)) [1; 2; 3] = [(1, 0); (0, 1); (0, 1)]%nat /\
  map (fun c => c_st c) (s_conns s) = [Dead; Idle; Idle].
Proof. vm_compute. repeat split. Qed.
