(* C19 — the Content-Disposition value is header safe; well-formed results never crash. *)
From Coq Require Import List NArith ZArith Bool Lia ZifyBool ZifyN.
From MW Require Import Common.Str C19.Gen_writers C19.Model C19.Proofs.
Import ListNotations.
Local Open Scope N_scope.

(* Unicode category Cc *)
Definition is_control (c : N) : bool := (c <? 32) || ((127 <=? c) && (c <=? 159)).

(* printable ASCII other than the separator class gen_sep_chars (space, semicolon, colon, double quote,
   apostrophe, comma) *)
Definition name_char (c : N) : bool := (33 <=? c) && (c <=? 126) && negb (is_sep c).

(* unreserved characters, '/' (quote's default safe character) and the '%' of an escape *)
Definition quoted_char (c : N) : bool := unreserved c || (c =? 47) || (c =? 37).

Local Arguments is_sep : simpl never.
Local Arguments name_char : simpl never.
Local Arguments py_isspace : simpl never.
Local Arguments quoted_char : simpl never.
Local Arguments is_control : simpl never.
Local Arguments scalar : simpl never.

Definition noctl (s : str) : Prop := Forall (fun c => is_control c = false) s.
Definition scalars (s : str) : Prop := Forall (fun c => scalar c = true) s.

(* facts about the generated separator class: re-checked whenever nserve.py's regex changes *)
Lemma sep_space : is_sep 32 = true.
Proof. reflexivity. Qed.
Lemma sep_dash : is_sep 45 = false.
Proof. reflexivity. Qed.

(* ------------------------------------------------------------------ strip & co keep Forall *)

Lemma lstrip_Forall (P : N -> Prop) s : Forall P s -> Forall P (lstrip s).
Proof.
  induction s as [|c s IH]; intros H; cbn; [constructor|].
  destruct (py_isspace c); [apply IH; inversion H; assumption|exact H].
Qed.

Lemma strip_Forall (P : N -> Prop) s : Forall P s -> Forall P (strip s).
Proof.
  intros H. unfold strip. apply Forall_rev, lstrip_Forall, Forall_rev, lstrip_Forall, H.
Qed.

Lemma or_collection_Forall (P : N -> Prop) s : Forall P k_collection -> Forall P s -> Forall P (or_collection s).
Proof. intros Hk H. destruct s; cbn; assumption. Qed.

Lemma or_collection_nonnil s : or_collection s <> [].
Proof. destruct s; cbn; discriminate. Qed.

Lemma collection_noctl : noctl k_collection.
Proof. unfold noctl, k_collection. repeat constructor. Qed.
Lemma collection_scalars : scalars k_collection.
Proof. unfold scalars, k_collection. repeat constructor. Qed.
Lemma collection_name : Forall (fun c => c = 32 \/ name_char c = true) k_collection.
Proof. unfold k_collection. repeat (constructor; [right; reflexivity|]). constructor. Qed.

(* ------------------------------------------------------------------ the ASCII name *)

Lemma ascii_only_range s : noctl s -> Forall (fun c => 32 <= c <= 126) (ascii_only s).
Proof.
  unfold noctl, ascii_only. induction s as [|c s IH]; intros H; cbn; [constructor|].
  inversion H as [|? ? Hc Hs]; subst.
  destruct (c <? 128) eqn:E.
  - constructor; [|apply IH; assumption]. unfold is_control in Hc. lia.
  - apply IH; assumption.
Qed.

Lemma collapse_chars s : forall b,
  Forall (fun c => 32 <= c <= 126) s ->
  Forall (fun c => c = 32 \/ name_char c = true) (collapse b s).
Proof.
  induction s as [|c s IH]; intros b H; cbn; [constructor|].
  inversion H as [|? ? Hc Hs]; subst.
  destruct (is_sep c) eqn:E.
  - destruct b; [apply IH; assumption|]. constructor; [left; reflexivity|apply IH; assumption].
  - constructor; [|apply IH; assumption].
    right. unfold name_char. rewrite E. cbn [negb]. rewrite andb_true_r.
    assert (c <> 32) by (intros ->; rewrite sep_space in E; discriminate). lia.
Qed.

Lemma dash_chars s :
  Forall (fun c => c = 32 \/ name_char c = true) s -> Forall (fun c => name_char c = true) (dash s).
Proof.
  unfold dash. induction s as [|c s IH]; intros H; cbn; [constructor|].
  inversion H as [|? ? Hc Hs]; subst. constructor; [|apply IH; assumption].
  destruct (c =? 32) eqn:E; [reflexivity|].
  destruct Hc as [->|Hc]; [discriminate|exact Hc].
Qed.

Lemma dash_nonnil s : s <> [] -> dash s <> [].
Proof. destruct s; cbn; [congruence|discriminate]. Qed.

(* ------------------------------------------------------------------ quote *)

Lemma hexdigit_alnum n : n < 16 -> alnum (hexdigit n) = true.
Proof. intros H. unfold alnum, hexdigit. destruct (n <? 10) eqn:E; lia. Qed.

Lemma quote_byte_chars b : Forall (fun c => quoted_char c = true) (quote_byte b).
Proof.
  unfold quote_byte. destruct (unreserved b || (b =? 47)) eqn:E.
  - constructor; [|constructor]. unfold quoted_char. rewrite E. reflexivity.
  - assert (H1 : (b / 16) mod 16 < 16) by (apply N.mod_lt; lia).
    assert (H2 : b mod 16 < 16) by (apply N.mod_lt; lia).
    repeat constructor.
    + unfold quoted_char, unreserved. rewrite (hexdigit_alnum _ H1). reflexivity.
    + unfold quoted_char, unreserved. rewrite (hexdigit_alnum _ H2). reflexivity.
Qed.

Lemma flat_map_quote_chars bs : Forall (fun c => quoted_char c = true) (flat_map quote_byte bs).
Proof.
  induction bs as [|b bs IH]; cbn; [constructor|]. apply Forall_app. split; [apply quote_byte_chars|exact IH].
Qed.

Lemma utf8_scalar c : scalar c = true -> exists bs, utf8 c = Some bs.
Proof.
  unfold scalar, utf8. intros H.
  destruct (c <? 128); [eauto|]. destruct (c <? 2048); [eauto|].
  destruct (c <? 65536) eqn:E3.
  - destruct ((55296 <=? c) && (c <=? 57343)) eqn:E4; [|eauto]. rewrite andb_true_iff in H. destruct H as [_ H]. discriminate.
  - destruct (c <? 1114112) eqn:E5; [eauto|]. rewrite andb_true_iff in H. destruct H as [H _]. discriminate.
Qed.

Lemma quote_scalars s : scalars s -> exists q, quote s = Some q /\ Forall (fun c => quoted_char c = true) q.
Proof.
  unfold scalars. induction s as [|c s IH]; intros H; cbn.
  - exists []. split; [reflexivity|constructor].
  - inversion H as [|? ? Hc Hs]; subst.
    destruct (utf8_scalar c Hc) as [bs ->]. destruct (IH Hs) as (q & -> & Hq).
    eexists. split; [reflexivity|]. apply Forall_app. split; [apply flat_map_quote_chars|exact Hq].
Qed.

(* ------------------------------------------------------------------ content disposition *)

Section CD.
  Variable nfkd : str -> str.
  (* unicodedata.normalize("NFKD", s) introduces no control character *)
  Hypothesis nfkd_no_new_controls : forall s, noctl s -> noctl (nfkd s).

  Lemma cd_values_name filename :
    noctl filename ->
    Forall (fun c => name_char c = true) (fst (cd_values nfkd filename)) /\ fst (cd_values nfkd filename) <> [].
  Proof.
    intros H. unfold cd_values. cbn [fst]. split.
    - apply dash_chars, or_collection_Forall; [exact collection_name|].
      apply strip_Forall, collapse_chars, ascii_only_range, nfkd_no_new_controls.
      apply or_collection_Forall; [exact collection_noctl|]. apply strip_Forall, H.
    - apply dash_nonnil, or_collection_nonnil.
  Qed.

  Lemma cd_values_utf8 filename : scalars filename -> scalars (snd (cd_values nfkd filename)).
  Proof.
    intros H. unfold cd_values. cbn [snd].
    apply or_collection_Forall; [exact collection_scalars|]. apply strip_Forall, H.
  Qed.

  Lemma cd_inr filename ext : scalars filename -> exists d, content_disposition nfkd filename ext = inr d.
  Proof.
    intros H. unfold content_disposition.
    pose proof (cd_values_utf8 filename H) as Hu.
    destruct (cd_values nfkd filename) as [a u]. cbn [snd] in Hu.
    destruct (negb (str_eqb u a)); [|eauto].
    destruct (quote_scalars u Hu) as (q & -> & _). eauto.
  Qed.

  Lemma cd_header_safe filename ext :
    noctl filename -> scalars filename ->
    exists a tail,
      content_disposition nfkd filename ext = inr (k_inline ++ a ++ k_dot :: ext ++ tail) /\
      a <> [] /\ Forall (fun c => name_char c = true) a /\
      (tail = [] \/ exists q, tail = k_star ++ q ++ k_dot :: ext /\ q <> [] /\ Forall (fun c => quoted_char c = true) q).
  Proof.
    intros Hc Hs. unfold content_disposition.
    pose proof (cd_values_name filename Hc) as [Ha Hne].
    pose proof (cd_values_utf8 filename Hs) as Hu.
    assert (Hun : snd (cd_values nfkd filename) <> []) by (unfold cd_values; cbn [snd]; apply or_collection_nonnil).
    destruct (cd_values nfkd filename) as [a u]. cbn [fst snd] in *.
    exists a.
    destruct (negb (str_eqb u a)).
    - destruct (quote_scalars u Hu) as (q & Hq & Hqc). rewrite Hq.
      exists (k_star ++ q ++ k_dot :: ext). split.
      + f_equal. rewrite <- !app_assoc. reflexivity.
      + repeat split; [exact Hne|exact Ha|]. right. exists q. repeat split; [|exact Hqc].
        intros ->. destruct u as [|c u]; [congruence|]. cbn in Hq.
        inversion Hu as [|? ? Hcs _]; subst. destruct (utf8_scalar c Hcs) as [bs Hbs]. rewrite Hbs in Hq.
        destruct (quote u); [|discriminate]. inversion Hq as [Hq'].
        apply app_eq_nil in Hq' as [Hq' _].
        unfold utf8 in Hbs.
        destruct (c <? 128); [inversion Hbs; subst; cbn in Hq'; rewrite app_nil_r in Hq'; unfold quote_byte in Hq'; destruct (unreserved c || (c =? 47)); discriminate|].
        destruct (c <? 2048); [inversion Hbs; subst; cbn in Hq'; apply app_eq_nil in Hq' as [Hq' _]; unfold quote_byte in Hq'; destruct (_ || _); discriminate|].
        destruct (c <? 65536).
        * destruct (_ && _); [discriminate|]. inversion Hbs; subst; cbn in Hq'; apply app_eq_nil in Hq' as [Hq' _]; unfold quote_byte in Hq'; destruct (_ || _); discriminate.
        * destruct (c <? 1114112); [|discriminate]. inversion Hbs; subst; cbn in Hq'; apply app_eq_nil in Hq' as [Hq' _]; unfold quote_byte in Hq'; destruct (_ || _); discriminate.
    - exists []. split; [|repeat split; [exact Hne|exact Ha|left; reflexivity]].
      f_equal. rewrite app_nil_r. reflexivity.
  Qed.

  (* ---------------------------------------------------------------- well-formed results never crash *)

  Lemma cd_val_inr v ext : wf_name v -> exists d, content_disposition_val nfkd (Some v) ext = inr d.
  Proof.
    intros [F|(s & -> & Hs)]; unfold content_disposition_val.
    - rewrite F. apply cd_inr. constructor.
    - destruct (truthy (VStr s)); [apply cd_inr; exact Hs|apply cd_inr; constructor].
  Qed.

  Lemma finished_wf r ext ctype : wf_result r -> exists m, finished nfkd (or_empty r) ext ctype = Finished m.
  Proof.
    unfold wf_result, finished, result_part. intros H.
    assert (Hnone : forall ct u sz, exists m,
      (if is_nil ext then Finished (mkMore u sz None ct None)
       else match content_disposition_val nfkd None ext with
            | inl e => Crash e | inr d => Finished (mkMore u sz None ct (Some d)) end) = Finished m).
    { intros ct u sz. destruct (is_nil ext); [eauto|]. cbn [content_disposition_val].
      destruct (cd_inr [] ext) as [d ->]; [constructor|]. eauto. }
    destruct (s_result (or_empty r)) as [rv|]; [|apply Hnone].
    destruct H as [F|(kvs & -> & H)].
    - rewrite F. apply Hnone.
    - destruct (truthy (VDict kvs)); [|apply Hnone].
      destruct (assoc k_url kvs) as [u|] eqn:U; [|apply Hnone].
      destruct (assoc k_size kvs) as [sz|] eqn:Z; [|apply Hnone].
      destruct (is_nil ext); [eauto|].
      destruct (cd_val_inr _ ext (H u sz eq_refl eq_refl)) as [d ->]. eauto.
  Qed.
End CD.
