(* C19 — the status command on top of the REAL queue model (coq/C16/Model.v, the model of qs.jobs.workq + QPlugin
   + connection life cycle that C16/C17/C18 are proved about), instead of C19's own life-cycle abstraction.

   The queue model abstracts values: job names, error strings, results and info dicts are numbers (Model.v of
   C16: err = ENone | EStr n with 0 = "", 1 = "timeout", 2 = "killed", >= 3 another non-empty string).  The
   composition is parametric in the decoding of those numbers into the JSON values the status command reads
   (Section variables; the only fact used is that exactly code 0 decodes to a falsy error). *)
From Coq Require Import List NArith ZArith Bool Lia.
From MW Require Import Common.Str C19.Gen_writers C19.Model C19.Proofs C19.ProofsCD C19.ProofsLife.
From MW Require C16.Model C19.QueueInv.
Import ListNotations.

Module Q := MW.C16.Model.
Module QI := MW.C19.QueueInv.

Section Compose.
  Variable nfkd : str -> str.
  Variable code_of : str -> N.              (* job id string -> the queue model's name code *)
  Variable dec_err : N -> pyval.            (* error code -> the error value in the snapshot *)
  Variable dec_res : N -> pyval.            (* result code -> the result value *)
  Variable dec_info : N -> pyval.           (* info code -> the info dict *)
  Hypothesis dec_err_truthy : forall n, truthy (dec_err n) = negb (n =? 0)%N.

  Definition err_val (e : Q.err) : option pyval :=
    match e with Q.ENone => None | Q.EStr n => Some (dec_err n) end.

  (* job._json() restricted to the four fields the status command reads (jobs.py:54-66): info is always there,
     done/error/result only once assigned *)
  Definition snap16 (j : Q.job) : snap :=
    mkSnap (Some (match Q.j_info j with None => VDict [] | Some v => dec_info v end))
           (if Q.j_done j then Some (VBool true) else None)
           (err_val (Q.j_err j))
           (option_map dec_res (Q.j_res j)).

  (* rpc_qinfo (qserve.py:74-78) on a state of the queue model *)
  Definition qinfo16 (s : Q.state) : str -> option snap :=
    fun id => option_map snap16 (QI.job_at s (Q.JName (code_of id))).

  Definition finished_or_malformed (resp : response) (rs : option snap) : Prop :=
    (exists m, resp = Finished m) \/ (exists e, resp = Crash e /\ ~ wf_result rs).

  Lemma done_noerr_finished r m w :
    known w -> r_done r = true -> truthy (r_error r) = false -> finished_or_malformed (status nfkd r m w) r.
  Proof.
    intros K D E. destruct (status_done_noerr nfkd r m w K D E) as [H|[x H]]; [left; exact H|].
    right. exists x. split; [exact H|].
    destruct (status_crash_only nfkd r m w x H) as [NK|(_ & _ & NW)]; [contradiction|exact NW].
  Qed.

  (* C19_reachable over histories of the C16 queue model: EVERY list of its ops -- Add, StartPull, RunLoop, Finish,
     Kill, Tick, Disconnect, Choice, Wait, Info, SetInfo, Stats, Advance, Drop, Watchdog -- from the empty queue *)
  Lemma reachable_status16 h c w :
    known w ->
    let s := Q.run h Q.init in
    let q := qinfo16 s in
    let resp := do_render_status nfkd q c w in
    let rs := q (render_jobid c w) in
    let prog := Progress (progress_status rs (q (makezip_jobid c))) in
    match QI.job_at s (Q.JName (code_of (render_jobid c w))) with
    | None => resp = prog                                      (* never added, dropped after its ttl, dropped by waitjobs *)
    | Some j =>
        if Q.j_done j then
          match Q.j_err j with
          | Q.ENone => finished_or_malformed resp rs             (* finished without an error *)
          | Q.EStr n =>
              if (n =? 0)%N then finished_or_malformed resp rs   (* finished with error "" *)
              else resp = Failed (dec_err n)                     (* failed / "killed" / "timeout" *)
          end
        else                                                     (* queued, handed to a worker, running, info updates *)
          Q.j_err j = Q.ENone /\ Q.j_res j = None /\ resp = prog
    end.
  Proof.
    intros K s q resp rs prog. unfold resp, prog, rs, q, do_render_status, qinfo16.
    destruct (QI.job_at s (Q.JName (code_of (render_jobid c w)))) as [j|] eqn:E; cbn [option_map].
    2:{ apply status_progress; [exact K|reflexivity|reflexivity]. }
    destruct (Q.j_done j) eqn:D.
    - destruct (Q.j_err j) as [|n] eqn:Er.
      + apply done_noerr_finished; [exact K| |]; unfold r_done, r_error, snap16; cbn; rewrite ?D, ?Er; reflexivity.
      + destruct (n =? 0)%N eqn:Z.
        * apply done_noerr_finished; [exact K| |]; unfold r_done, r_error, snap16; cbn; rewrite ?D, ?Er; cbn;
            [reflexivity|]. rewrite dec_err_truthy, Z. reflexivity.
        * apply status_failed_iff. split; [exact K|]. unfold r_error, snap16. cbn. rewrite Er. cbn.
          split; [reflexivity|]. rewrite dec_err_truthy, Z. reflexivity.
    - assert (F : Q.j_err j = Q.ENone /\ Q.j_res j = None).
      { unfold QI.job_at in E. destruct (Q.id_lookup (Q.s_ids s) (Q.JName (code_of (render_jobid c w)))) as [ser|]; [|discriminate].
        apply QI.getjob_In' in E. exact (QI.run_fd h j E D). }
      destruct F as [Fe Fr]. split; [exact Fe|]. split; [exact Fr|].
      apply status_progress; [exact K| |]; unfold r_done, r_error, snap16; cbn; rewrite ?D, ?Fe; reflexivity.
  Qed.

  (* `finished` is never reported for a job that is absent, not done, or done with a truthy error -- over queue histories *)
  Lemma finished_only_if16 h c w mo :
    do_render_status nfkd (qinfo16 (Q.run h Q.init)) c w = Finished mo ->
    exists j, QI.job_at (Q.run h Q.init) (Q.JName (code_of (render_jobid c w))) = Some j /\ Q.j_done j = true /\
              Q.err_truthy (Q.j_err j) = false.
  Proof.
    intros H. unfold do_render_status in H. pose proof (status_finished_only_if _ _ _ _ _ H) as (K & D & E & s0 & Es).
    unfold qinfo16 in *. destruct (QI.job_at (Q.run h Q.init) (Q.JName (code_of (render_jobid c w)))) as [j|]; [|discriminate Es].
    exists j. split; [reflexivity|]. cbn [option_map] in D, E. unfold r_done, r_error, snap16 in D, E. cbn in D, E.
    split.
    - destruct (Q.j_done j); [reflexivity|discriminate D].
    - destruct (Q.j_err j) as [|n]; [reflexivity|]. cbn in E. rewrite dec_err_truthy in E. exact E.
  Qed.

  (* ---------------------------------------------------------------- how a job gets its outcome (single steps) *)

  Lemma job_at_mark ser u s i j :
    QI.job_at s i = Some j -> Q.id_lookup (Q.s_ids s) i = Some ser -> Q.j_done j = false ->
    exists j', QI.job_at (Q.mark_finished ser u s) i = Some j' /\ Q.j_done j' = true /\
               Q.j_err j' = Q.j_err (u j) /\ Q.j_res j' = Q.j_res (u j) /\ Q.j_info j' = Q.j_info j.
  Proof.
    intros E L D. unfold QI.job_at in *. rewrite L in E.
    destruct (QI.mark_finished_fields ser u s j E D) as (j' & G & H1 & H2 & H3 & H4 & _).
    exists j'. rewrite QI.mark_ids, L. auto.
  Qed.

  (* rpc_qfinish by an idle connection on a job that is not done: the snapshot carries exactly that outcome *)
  Lemma finish_step s cn i res e j :
    Q.is_idle cn s = true -> QI.job_at s i = Some j -> Q.j_done j = false ->
    exists j', QI.job_at (fst (Q.step s (Q.Finish cn i res e))) i = Some j' /\
               Q.j_done j' = true /\ Q.j_err j' = e /\ Q.j_res j' = res /\ Q.j_info j' = Q.j_info j.
  Proof.
    intros I E D. cbn [Q.step]. rewrite I.
    assert (L : exists ser, Q.id_lookup (Q.s_ids s) i = Some ser).
    { unfold QI.job_at in E. destruct (Q.id_lookup (Q.s_ids s) i) as [ser|]; [eauto|discriminate]. }
    destruct L as [ser L]. rewrite L. cbn [fst].
    destruct (job_at_mark ser (fun j0 => Q.upd_finish res e (if Q.err_truthy e then Q.N_min 10 (Q.j_ttl j0) else Q.j_ttl j0) j0) s i j E L D)
      as (j' & G & H1 & H2 & H3 & H4).
    exists j'. split; [exact G|]. cbn in H2, H3. auto.
  Qed.

  (* rpc_qkill of that one id *)
  Lemma kill_step s cn i j :
    Q.is_idle cn s = true -> QI.job_at s i = Some j -> Q.j_done j = false ->
    exists j', QI.job_at (fst (Q.step s (Q.Kill cn [i]))) i = Some j' /\
               Q.j_done j' = true /\ Q.j_err j' = Q.e_killed /\ Q.j_info j' = Q.j_info j.
  Proof.
    intros I E D. cbn [Q.step]. rewrite I. cbn [fst Q.killjobs].
    assert (L : exists ser, Q.id_lookup (Q.s_ids s) i = Some ser).
    { unfold QI.job_at in E. destruct (Q.id_lookup (Q.s_ids s) i) as [ser|]; [eauto|discriminate]. }
    destruct L as [ser L]. rewrite L.
    destruct (job_at_mark ser (Q.upd_err Q.e_killed) s i j E L D) as (j' & G & H1 & H2 & H3 & H4).
    exists j'. split; [exact G|]. cbn in H2. auto.
  Qed.

  (* status right after those steps, over any queue history before them *)
  Lemma status_after_finish h cn c w res e j :
    known w ->
    let s := Q.run h Q.init in
    let i := Q.JName (code_of (render_jobid c w)) in
    Q.is_idle cn s = true -> QI.job_at s i = Some j -> Q.j_done j = false ->
    let s' := Q.run (h ++ [Q.Finish cn i res e]) Q.init in
    let resp := do_render_status nfkd (qinfo16 s') c w in
    if Q.err_truthy e then exists n, e = Q.EStr n /\ resp = Failed (dec_err n)
    else finished_or_malformed resp (qinfo16 s' (render_jobid c w)).
  Proof.
    intros K s i I E D s' resp.
    assert (Es' : fst (Q.step s (Q.Finish cn i res e)) = s').
    { unfold s', s, Q.run. rewrite fold_left_app. reflexivity. }
    destruct (finish_step s cn i res e j I E D) as (j' & G & H1 & H2 & _).
    rewrite Es' in G.
    pose proof (reachable_status16 (h ++ [Q.Finish cn i res e]) c w K) as R. cbv zeta in R.
    change (Q.run (h ++ [Q.Finish cn i res e]) Q.init) with s' in R.
    change (Q.JName (code_of (render_jobid c w))) with i in R.
    rewrite G, H1, H2 in R. fold resp in R.
    destruct e as [|n]; cbn [Q.err_truthy]; [exact R|].
    destruct (n =? 0)%N; cbn [negb]; [exact R|]. exists n. split; [reflexivity|exact R].
  Qed.

  Lemma status_after_kill h cn c w j :
    known w ->
    let s := Q.run h Q.init in
    let i := Q.JName (code_of (render_jobid c w)) in
    Q.is_idle cn s = true -> QI.job_at s i = Some j -> Q.j_done j = false ->
    do_render_status nfkd (qinfo16 (Q.run (h ++ [Q.Kill cn [i]]) Q.init)) c w = Failed (dec_err 2).
  Proof.
    intros K s i I E D.
    assert (Es' : fst (Q.step s (Q.Kill cn [i])) = Q.run (h ++ [Q.Kill cn [i]]) Q.init).
    { unfold s, Q.run. rewrite fold_left_app. reflexivity. }
    destruct (kill_step s cn i j I E D) as (j' & G & H1 & H2 & _).
    rewrite Es' in G.
    pose proof (reachable_status16 (h ++ [Q.Kill cn [i]]) c w K) as R. cbv zeta in R.
    change (Q.JName (code_of (render_jobid c w))) with i in R.
    rewrite G, H1, H2 in R. exact R.
  Qed.
End Compose.

(* NOT proved (full statements):
   (1) the step lemma for handletimeouts, the analogue of status_after_kill:
         forall h dt c w j, known w -> let s := Q.run h Q.init in let i := Q.JName (code_of (render_jobid c w)) in
           QI.job_at s i = Some j -> Q.j_done j = false -> Q.j_timeout j <= Q.s_now s + dt ->
           do_render_status nfkd (qinfo16 (Q.run (h ++ [Q.Tick dt]) Q.init)) c w = Failed (dec_err 1)
       it needs the queue invariant "every job that is not done has its (timeout, (prio, serial)) entry in s_tq", which
       coq/C16 does not provide.  (reachable_status16 does cover the state after the sweep: a job whose error code is 1
       is answered with Failed (dec_err 1).)
   (2) a simulation between C19's own life-cycle model (Model.v `run`, full JSON values, one record per id; tied to the
       real workq by the harness) and the C16 model under the decoding, i.e.
         forall ops, exists h, forall id, qinfo_of (Model.run ops) id = qinfo16 (Q.run h Q.init) id
       (the C16 model stores value CODES and replaces the info dict on SetInfo where jobs.py updates it key-wise, so the
       statement needs a decoding that is history dependent).  Both models are tied to the same real code instead. *)

(* the statement Properties.v uses, with the decoding made explicit *)
Lemma reachable_status16_full :
  forall (nfkd : str -> str) (code_of : str -> N) (dec_err dec_res dec_info : N -> pyval),
  (forall n, truthy (dec_err n) = negb (n =? 0)%N) ->
  forall h c w, known w ->
    let s := Q.run h Q.init in
    let q := qinfo16 code_of dec_err dec_res dec_info s in
    let resp := do_render_status nfkd q c w in
    let rs := q (render_jobid c w) in
    let prog := Progress (progress_status rs (q (makezip_jobid c))) in
    match QI.job_at s (Q.JName (code_of (render_jobid c w))) with
    | None => resp = prog
    | Some j =>
        if Q.j_done j then
          match Q.j_err j with
          | Q.ENone => finished_or_malformed resp rs
          | Q.EStr n => if (n =? 0)%N then finished_or_malformed resp rs else resp = Failed (dec_err n)
          end
        else Q.j_err j = Q.ENone /\ Q.j_res j = None /\ resp = prog
    end.
Proof. intros. apply reachable_status16; assumption. Qed.

(* non-vacuity on the queue model: render job "7" added, pulled by connection 1, finished with error code 5;
   another one killed; a third still queued *)
Definition ex_ops : list Q.op :=
  [Q.Add 1 0 (Some 7%N) None; Q.Add 1 0 (Some 8%N) None; Q.Add 1 0 (Some 9%N) None;
   Q.StartPull 1 [1%N]; Q.Finish 1 (Q.JName 7) None (Q.EStr 5); Q.Kill 2 [Q.JName 8]].

Lemma ex_ops_states :
  let s := Q.run ex_ops Q.init in
  option_map (fun j => (Q.j_done j, Q.j_err j)) (QI.job_at s (Q.JName 7)) = Some (true, Q.EStr 5) /\
  option_map (fun j => (Q.j_done j, Q.j_err j)) (QI.job_at s (Q.JName 8)) = Some (true, Q.e_killed) /\
  option_map (fun j => (Q.j_done j, Q.j_err j)) (QI.job_at s (Q.JName 9)) = Some (false, Q.ENone) /\
  QI.job_at s (Q.JName 10) = None.
Proof. vm_compute. repeat split. Qed.

Lemma ex_decoding : exists dec_err : N -> pyval, forall n, truthy (dec_err n) = negb (n =? 0)%N.
Proof.
  exists (fun n => VInt (Z.of_N n)). intro n. cbn [truthy]. f_equal.
  destruct n; reflexivity.
Qed.
