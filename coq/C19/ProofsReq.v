(* C19 — one status request whose qinfo reads see DIFFERENT queue states (other clients of the queue act between
   the RPCs of the request).  Definitions: ModelReq.v.

   What is proved here is about the REQUEST: which reads it makes, that its answer is a function of the snapshots it
   actually read, what a `finished` / `failed` / `progress` answer says about those snapshots, and when the answer
   coincides with the atomic answer (Model.do_render_status) on one of the states.  Whether the snapshots a request
   reads are mutually consistent is not a property of nserve: the harness (vt/harness/c19_impl.py, op "istatus")
   injects queue events between the reads of one request of the real code and judges the answer against the states
   the jobs had during the request. *)
From Coq Require Import List NArith ZArith Bool Lia.
From MW Require Import Common.Str C19.Gen_writers C19.Model C19.ModelReq C19.Proofs C19.ProofsCD C19.ProofsLife C19.ProofsCompose.
Import ListNotations.

(* ------------------------------------------------------------------ any request program *)

(* the states qs answer the reads of trace tr: the i-th state maps the i-th id asked to the i-th snapshot read *)
Fixpoint answers (qs : list (str -> option snap)) (tr : list (str * option snap)) {struct tr} : Prop :=
  match tr with
  | [] => True
  | (id, s) :: tr' =>
      match qs with
      | [] => False
      | q :: qs' => q id = s /\ answers qs' tr'
      end
  end.

Lemma exec_answers r : forall qs x tr, exec r qs = Some (x, tr) -> answers qs tr.
Proof.
  induction r as [x0|id k IH]; intros qs x tr H; cbn in H.
  - inversion H; subst. exact I.
  - destruct qs as [|q qs']; [discriminate|].
    destruct (exec (k (q id)) qs') as [[x1 tr1]|] eqn:E; [|discriminate].
    inversion H; subst. cbn. split; [reflexivity|]. exact (IH _ _ _ _ E).
Qed.

(* the response (and the reads) of a request are a function of the snapshots it actually read: any other sequence of
   queue states that answers the same reads in the same way gives the same response and the same trace *)
Lemma exec_function_of_reads r : forall qs qs' x tr,
  exec r qs = Some (x, tr) -> answers qs' tr -> exec r qs' = Some (x, tr).
Proof.
  induction r as [x0|id k IH]; intros qs qs' x tr H A; cbn in H.
  - inversion H; subst. reflexivity.
  - destruct qs as [|q qs1]; [discriminate|].
    destruct (exec (k (q id)) qs1) as [[x1 tr1]|] eqn:E; [|discriminate].
    inversion H; subst. cbn in A. destruct qs' as [|q' qs1']; [contradiction|].
    destruct A as [A1 A2]. cbn. rewrite A1. rewrite (IH _ _ _ _ _ E A2). reflexivity.
Qed.

(* ------------------------------------------------------------------ the status request *)

Section Req.
  Variable nfkd : str -> str.

  (* the request reads the render job, then at most the fetch job; its answer is Model.status applied to the
     render snapshot of the FIRST state and the fetch snapshot of the SECOND *)
  Lemma status_req_exec c w q1 q2 qs :
    exists tr,
      exec (status_req nfkd c w) (q1 :: q2 :: qs) =
        Some (status nfkd (q1 (render_jobid c w)) (q2 (makezip_jobid c)) w, tr) /\
      (tr = [] \/ tr = [(render_jobid c w, q1 (render_jobid c w))] \/
       tr = [(render_jobid c w, q1 (render_jobid c w)); (makezip_jobid c, q2 (makezip_jobid c))]).
  Proof.
    unfold status_req, status.
    destruct (assoc w writers) as [[ext ctype]|]; [|eexists; split; [reflexivity|left; reflexivity]].
    cbn [exec].
    destruct (truthy (get_or (s_error (or_empty (q1 (render_jobid c w)))) VNone));
      [eexists; split; [reflexivity|right; left; reflexivity]|].
    destruct (truthy (get_or (s_done (or_empty (q1 (render_jobid c w)))) (VBool false)));
      [eexists; split; [reflexivity|right; left; reflexivity]|].
    destruct (negb (truthy (get_or (s_info (or_empty (q1 (render_jobid c w)))) (VDict []))));
      [|eexists; split; [reflexivity|right; left; reflexivity]].
    cbn [exec].
    destruct (negb (truthy (get_or (s_done (or_empty (q2 (makezip_jobid c)))) (VBool false))));
      eexists; (split; [reflexivity|right; right; reflexivity]).
  Qed.

  (* with a single state supplied the request either completes with one read (then the fetch job does not matter) or
     wants a second read *)
  Lemma status_req_exec1 c w q1 x tr :
    exec (status_req nfkd c w) [q1] = Some (x, tr) ->
    forall q2 qs, exec (status_req nfkd c w) (q1 :: q2 :: qs) = Some (x, tr).
  Proof.
    intros H q2 qs. apply (exec_function_of_reads _ _ _ _ _ H).
    pose proof (exec_answers _ _ _ _ H) as A.
    destruct tr as [|[id s] tr]; [exact I|]. cbn in A. destruct A as [A1 A2]. cbn. split; [exact A1|].
    destruct tr as [|[id' s'] tr']; [exact I|contradiction].
  Qed.

  (* all reads of the request see the SAME queue state: the request is the atomic command of Model.v, and every theorem
     about do_render_status / status applies *)
  Lemma status_req_consistent c w q qs :
    exists tr, exec (status_req nfkd c w) (q :: q :: qs) = Some (do_render_status nfkd q c w, tr).
  Proof.
    destruct (status_req_exec c w q q qs) as (tr & H & _). exists tr. exact H.
  Qed.

  (* weaker hypothesis: between the reads, only OTHER jobs changed *)
  Lemma status_req_atomic_first c w q1 q2 qs :
    q2 (makezip_jobid c) = q1 (makezip_jobid c) ->
    exists tr, exec (status_req nfkd c w) (q1 :: q2 :: qs) = Some (do_render_status nfkd q1 c w, tr).
  Proof.
    intros E. destruct (status_req_exec c w q1 q2 qs) as (tr & H & _). exists tr. rewrite H, E. reflexivity.
  Qed.

  Lemma status_req_atomic_second c w q1 q2 qs :
    q2 (render_jobid c w) = q1 (render_jobid c w) ->
    exists tr, exec (status_req nfkd c w) (q1 :: q2 :: qs) = Some (do_render_status nfkd q2 c w, tr).
  Proof.
    intros E. destruct (status_req_exec c w q1 q2 qs) as (tr & H & _). exists tr. rewrite H. unfold do_render_status. rewrite E. reflexivity.
  Qed.

  Lemma status_req_atomic_one_unchanged c w q1 q2 qs :
    (q2 (makezip_jobid c) = q1 (makezip_jobid c) ->
     exists tr, exec (status_req nfkd c w) (q1 :: q2 :: qs) = Some (do_render_status nfkd q1 c w, tr)) /\
    (q2 (render_jobid c w) = q1 (render_jobid c w) ->
     exists tr, exec (status_req nfkd c w) (q1 :: q2 :: qs) = Some (do_render_status nfkd q2 c w, tr)).
  Proof. split; [apply status_req_atomic_first|apply status_req_atomic_second]. Qed.

  (* ---------------------------------------------------------------- the interleaved case *)

  (* the answer does not depend on the fetch job unless the render job has neither error, nor done, nor info *)
  Lemma status_indep_makezip r m m' w :
    truthy (r_error r) = true \/ r_done r = true \/ truthy (r_info r) = true ->
    status nfkd r m w = status nfkd r m' w.
  Proof.
    unfold status, r_error, r_done, r_info. intros H.
    destruct (assoc w writers) as [[ext ctype]|]; [|reflexivity].
    destruct (truthy (get_or (s_error (or_empty r)) VNone)); [reflexivity|].
    destruct (truthy (get_or (s_done (or_empty r)) (VBool false))); [reflexivity|].
    destruct (truthy (get_or (s_info (or_empty r)) (VDict []))); [reflexivity|].
    destruct H as [H|[H|H]]; discriminate H.
  Qed.

  (* whatever happens to the queue between the reads: a `finished` answer was derived from ONE read, the read of the
     render job of that writer, and the snapshot read had done and no (truthy) error; the answer is the atomic answer
     on the state of the first read *)
  Lemma interleaved_finished_only_if c w q1 q2 qs mo tr :
    exec (status_req nfkd c w) (q1 :: q2 :: qs) = Some (Finished mo, tr) ->
    known w /\
    (exists s, q1 (render_jobid c w) = Some s /\ tr = [(render_jobid c w, Some s)]) /\
    r_done (q1 (render_jobid c w)) = true /\ truthy (r_error (q1 (render_jobid c w))) = false /\
    do_render_status nfkd q1 c w = Finished mo.
  Proof.
    intros H. destruct (status_req_exec c w q1 q2 qs) as (tr' & H' & T).
    assert (S : status nfkd (q1 (render_jobid c w)) (q2 (makezip_jobid c)) w = Finished mo) by congruence.
    assert (Etr : tr' = tr) by congruence. subst tr'.
    destruct (status_finished_only_if nfkd _ _ _ _ S) as (K & D & E & s & Es).
    split; [exact K|]. split.
    - exists s. split; [exact Es|].
      (* one read only: the trace of a finished answer *)
      clear H. unfold status_req in H'. unfold known in K. unfold r_done in D. unfold r_error in E.
      destruct (assoc w writers) as [[ext ctype]|]; [|congruence]. cbn [exec] in H'.
      rewrite E, D in H'. inversion H'. rewrite Es. reflexivity.
    - split; [exact D|]. split; [exact E|].
      unfold do_render_status. rewrite <- S. apply status_indep_makezip. right; left; exact D.
  Qed.

  Lemma interleaved_failed_iff c w q1 q2 qs e :
    (exists tr, exec (status_req nfkd c w) (q1 :: q2 :: qs) = Some (Failed e, tr)) <->
    known w /\ e = r_error (q1 (render_jobid c w)) /\ truthy e = true.
  Proof.
    destruct (status_req_exec c w q1 q2 qs) as (tr' & H' & _). split.
    - intros [tr H]. assert (S : status nfkd (q1 (render_jobid c w)) (q2 (makezip_jobid c)) w = Failed e) by congruence.
      apply (status_failed_iff nfkd) in S. exact S.
    - intros H. apply (status_failed_iff nfkd _ (q2 (makezip_jobid c))) in H. exists tr'. rewrite H'. rewrite H. reflexivity.
  Qed.

  (* `progress`: the render job was not done and had no error WHEN IT WAS READ; what is shown is its own info from
     that read or, if it had none, the fetch job as read later *)
  Lemma interleaved_progress_only_if c w q1 q2 qs st tr :
    exec (status_req nfkd c w) (q1 :: q2 :: qs) = Some (Progress st, tr) ->
    known w /\ truthy (r_error (q1 (render_jobid c w))) = false /\ r_done (q1 (render_jobid c w)) = false /\
    st = progress_status (q1 (render_jobid c w)) (q2 (makezip_jobid c)).
  Proof.
    intros H. destruct (status_req_exec c w q1 q2 qs) as (tr' & H' & _).
    assert (S : status nfkd (q1 (render_jobid c w)) (q2 (makezip_jobid c)) w = Progress st) by congruence.
    exact (status_progress_only_if nfkd _ _ _ _ S).
  Qed.

  (* ---------------------------------------------------------------- over histories of C19's own life-cycle model *)

  (* the queue ran ops0 before the first read, then ANY ops1 before the second: a `finished` answer means the render job
     of that writer was in phase FinishedOK after ops0 (so: neither queued, running, failed, killed, timed out nor absent
     at the time it was read), whatever ops1 did to it afterwards *)
  Lemma interleaved_history_finished ops0 ops1 c w mo tr qs :
    exec (status_req nfkd c w) (qinfo_of (run ops0) :: qinfo_of (run (ops0 ++ ops1)) :: qs) = Some (Finished mo, tr) ->
    exists j, run ops0 (render_jobid c w) = Some j /\ j_phase j = FinishedOK /\ j_done j = true.
  Proof.
    intros H. apply interleaved_finished_only_if in H. destruct H as (K & _ & _ & _ & S).
    pose proof (reachable_status nfkd ops0 c w K) as R. cbv zeta in R.
    destruct (run ops0 (render_jobid c w)) as [j|] eqn:E; [|rewrite R in S; discriminate S].
    exists j. split; [reflexivity|].
    pose proof (run_inv ops0 _ _ E) as I. unfold job_inv in I.
    destruct (j_phase j).
    - rewrite R in S; discriminate S.
    - rewrite R in S; discriminate S.
    - split; [reflexivity|]. destruct I as (D & _). exact D.
    - destruct R as (e & R & _). rewrite R in S; discriminate S.
    - rewrite R in S; discriminate S.
    - rewrite R in S; discriminate S.
  Qed.

  (* the scenario of the seeded regression, in the model: the render job is running without info when it is read, it is
     then finished with an error / killed / timed out (or anything else: ops1 is arbitrary) before the fetch job is
     read: the model's answer is `progress`, never `finished` *)
  Lemma interleaved_running_progress ops0 ops1 c w j qs :
    known w -> run ops0 (render_jobid c w) = Some j -> j_done j = false ->
    exists st tr, exec (status_req nfkd c w) (qinfo_of (run ops0) :: qinfo_of (run (ops0 ++ ops1)) :: qs) = Some (Progress st, tr).
  Proof.
    intros K E D.
    destruct (status_req_exec c w (qinfo_of (run ops0)) (qinfo_of (run (ops0 ++ ops1))) qs) as (tr & H & _).
    pose proof (run_inv ops0 _ _ E) as I. unfold job_inv in I.
    assert (Er : j_error j = None).
    { destruct (j_error j) eqn:X; [|reflexivity]. assert (j_done j = true) by (apply (run_error_done ops0 _ _ E); congruence). congruence. }
    eexists. exists tr. rewrite H. f_equal. f_equal.
    apply status_progress; [exact K| |]; unfold qinfo_of; rewrite E; unfold r_error, r_done, snap_of; cbn; rewrite ?D, ?Er; reflexivity.
  Qed.
  (* ---------------------------------------------------------------- one event between the reads *)

  Lemma run_snoc ops o : run (ops ++ [o]) = apply_op (run ops) o.
  Proof. unfold run. rewrite fold_left_app. reflexivity. Qed.

  Lemma apply_onjob_other st now id e id' : id' <> id -> apply_op st (OnJob now id e) id' = st id'.
  Proof.
    intros N. unfold apply_op. destruct (step now (st id) e) as [u|o]; [reflexivity|].
    unfold upd. apply str_eqb_false in N. rewrite N. reflexivity.
  Qed.

  (* LINEARIZABLE for events addressed to one job (push, pull, setinfo, finish, kill, dropjobs, waitjobs of ANY id): if
     exactly one such event happens between the two reads, the answer is the atomic answer on the state before it or on
     the state after it.  (Tick and DropDead change several jobs at once -- both jobs of a collection share their
     deadline -- and then the answer combines the render job of before with the fetch job of after: this is why the
     monitor asks for a justifying state per JOB, not for one atomic state of both.) *)
  Lemma interleaved_single_job_event_atomic ops0 now id e c w qs :
    let q1 := qinfo_of (run ops0) in
    let q2 := qinfo_of (run (ops0 ++ [OnJob now id e])) in
    exists tr, exec (status_req nfkd c w) (q1 :: q2 :: qs) = Some (do_render_status nfkd q1 c w, tr) \/
               exec (status_req nfkd c w) (q1 :: q2 :: qs) = Some (do_render_status nfkd q2 c w, tr).
  Proof.
    intros q1 q2. destruct (str_eqb (makezip_jobid c) id) eqn:E.
    - apply str_eqb_spec in E.
      assert (H : q2 (render_jobid c w) = q1 (render_jobid c w)).
      { unfold q1, q2, qinfo_of. rewrite run_snoc, apply_onjob_other; [reflexivity|]. subst id. apply render_ne_makezip. }
      destruct (status_req_atomic_second c w q1 q2 qs H) as [tr Ht]. exists tr. right. exact Ht.
    - apply str_eqb_false in E.
      assert (H : q2 (makezip_jobid c) = q1 (makezip_jobid c)).
      { unfold q1, q2, qinfo_of. rewrite run_snoc, apply_onjob_other; [reflexivity|exact E]. }
      destruct (status_req_atomic_first c w q1 q2 qs H) as [tr Ht]. exists tr. left. exact Ht.
  Qed.

  (* ---------------------------------------------------------------- how the outcome gets there, C19's own life-cycle model
     (the analogues of status_after_finish / status_after_kill of ProofsCompose.v, plus the TIMEOUT step that is not
     proved over the C16 queue model) *)

  Lemma own_status_after_tick ops now c w j :
    known w -> run ops (render_jobid c w) = Some j -> j_done j = false -> (j_timeout j <= now)%Z ->
    do_render_status nfkd (qinfo_of (run (ops ++ [Tick now]))) c w = Failed (VStr k_timeout).
  Proof.
    intros K E D T. unfold do_render_status. apply status_failed_iff. split; [exact K|].
    unfold qinfo_of. rewrite run_snoc. cbn [apply_op]. rewrite E. cbn [option_map]. unfold tick. rewrite D.
    assert (L : (j_timeout j <=? now)%Z = true) by (apply Z.leb_le; exact T). rewrite L. cbn [negb andb].
    unfold mark_finished. rewrite D. unfold r_error, snap_of. cbn. split; reflexivity.
  Qed.

  Lemma own_status_after_kill ops now c w j :
    known w -> run ops (render_jobid c w) = Some j -> j_done j = false ->
    do_render_status nfkd (qinfo_of (run (ops ++ [OnJob now (render_jobid c w) Kill]))) c w = Failed (VStr k_killed).
  Proof.
    intros K E D. unfold do_render_status. apply status_failed_iff. split; [exact K|].
    unfold qinfo_of. rewrite run_snoc. cbn [apply_op]. rewrite E. cbn [step]. unfold upd. rewrite str_eqb_refl. cbn [option_map].
    unfold mark_finished. rewrite D. unfold r_error, snap_of. cbn. split; reflexivity.
  Qed.

  Lemma own_status_after_finish_error ops now c w j res e :
    known w -> run ops (render_jobid c w) = Some j -> j_done j = false -> truthy e = true ->
    do_render_status nfkd (qinfo_of (run (ops ++ [OnJob now (render_jobid c w) (Finish res e)]))) c w = Failed e.
  Proof.
    intros K E D T. unfold do_render_status. apply status_failed_iff. split; [exact K|].
    unfold qinfo_of. rewrite run_snoc. cbn [apply_op]. rewrite E. cbn [step]. unfold upd. rewrite str_eqb_refl. cbn [option_map].
    unfold mark_finished. rewrite D. unfold r_error, snap_of. cbn. split; [reflexivity|exact T].
  Qed.

  (* the whole seeded scenario: a request in flight while the job fails answers `progress`; the NEXT request answers
     `failed` with that error -- never `finished` *)
  Lemma interleaved_then_failed ops0 now c w j res e qs :
    known w -> run ops0 (render_jobid c w) = Some j -> j_done j = false -> truthy e = true ->
    let ops1 := [OnJob now (render_jobid c w) (Finish res e)] in
    (exists st tr, exec (status_req nfkd c w) (qinfo_of (run ops0) :: qinfo_of (run (ops0 ++ ops1)) :: qs) = Some (Progress st, tr)) /\
    do_render_status nfkd (qinfo_of (run (ops0 ++ ops1))) c w = Failed e.
  Proof.
    intros K E D T ops1. split.
    - apply interleaved_running_progress with (j := j); assumption.
    - apply own_status_after_finish_error with (j := j); assumption.
  Qed.
End Req.

(* ------------------------------------------------------------------ over histories of the C16 queue model *)

(* h0 = the queue's history up to the first read, h1 = ANYTHING the queue does before the second read *)
Lemma interleaved_finished_only_if16 :
  forall (nfkd : str -> str) (code_of : str -> N) (dec_err dec_res dec_info : N -> pyval),
  (forall n, truthy (dec_err n) = negb (n =? 0)%N) ->
  forall h0 h1 c w mo tr qs,
  exec (status_req nfkd c w)
       (qinfo16 code_of dec_err dec_res dec_info (Q.run h0 Q.init) ::
        qinfo16 code_of dec_err dec_res dec_info (Q.run (h0 ++ h1) Q.init) :: qs) = Some (Finished mo, tr) ->
  exists j, QI.job_at (Q.run h0 Q.init) (Q.JName (code_of (render_jobid c w))) = Some j /\ Q.j_done j = true /\
            Q.err_truthy (Q.j_err j) = false.
Proof.
  intros nfkd code_of dec_err dec_res dec_info Hd h0 h1 c w mo tr qs H.
  apply interleaved_finished_only_if in H. destruct H as (_ & _ & _ & _ & S).
  exact (finished_only_if16 nfkd code_of dec_err dec_res dec_info Hd h0 c w mo S).
Qed.

(* non-vacuity / the seeded scenario as a computation: fetch done, render job pulled (no info), status request reads the
   render job, THEN the worker reports an error, then the request reads the fetch job: `progress` with the fixed text *)
Definition ex_c : str := [48;49]%N.
Definition ex_w : str := [114;108]%N.
Definition ex_ops0 : list op :=
  [OnJob 0 (makezip_jobid ex_c) (Push 1200 None); OnJob 0 (render_jobid ex_c ex_w) (Push 1200 None);
   OnJob 1 (makezip_jobid ex_c) Pull; OnJob 2 (makezip_jobid ex_c) (Finish VNone VNone); OnJob 3 (render_jobid ex_c ex_w) Pull].
Definition ex_ops1 : list op := [OnJob 4 (render_jobid ex_c ex_w) (Finish VNone (VStr [98;111;111;109]%N))].

Lemma ex_interleaved :
  option_map fst (exec (status_req (fun s => s) ex_c ex_w) [qinfo_of (run ex_ops0); qinfo_of (run (ex_ops0 ++ ex_ops1))])
    = Some (Progress fetched_status) /\
  do_render_status (fun s => s) (qinfo_of (run (ex_ops0 ++ ex_ops1))) ex_c ex_w = Failed (VStr [98;111;111;109]%N).
Proof. vm_compute. split; reflexivity. Qed.
