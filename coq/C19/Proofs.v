(* C19 — lemmas about the status mapping and the job ids (content disposition: ProofsCD.v,
   life cycle: ProofsLife.v). *)
From Coq Require Import List NArith ZArith Bool Lia.
From MW Require Import Common.Str C19.Gen_writers C19.Model.
Import ListNotations.
Local Open Scope N_scope.

(* ------------------------------------------------------------------ job ids *)

Lemma colon_split c c' r r' :
  no_char 58 c -> no_char 58 c' -> c ++ 58 :: r = c' ++ 58 :: r' -> c = c' /\ r = r'.
Proof.
  revert c'. induction c as [|x c IH]; intros [|y c'] Hc Hc' H; cbn in H.
  - inversion H; auto.
  - inversion H; subst. exfalso. apply Hc'. left; reflexivity.
  - inversion H; subst. exfalso. apply Hc. left; reflexivity.
  - inversion H; subst. destruct (IH c') as [-> ->]; auto.
    + intro Hin. apply Hc. right. exact Hin.
    + intro Hin. apply Hc'. right. exact Hin.
Qed.

Definition render_tail : str := Eval compute in tl k_render.
Definition makezip_tail : str := Eval compute in tl k_makezip.

Lemma render_jobid_eq c w : render_jobid c w = c ++ 58 :: render_tail ++ w.
Proof. reflexivity. Qed.
Lemma makezip_jobid_eq c : makezip_jobid c = c ++ 58 :: makezip_tail.
Proof. reflexivity. Qed.

(* same collection: the id determines the writer, and is never the fetch job's id *)
Lemma render_jobid_inj_w c w w' : render_jobid c w = render_jobid c w' -> w = w'.
Proof.
  unfold render_jobid. intros H. apply app_inv_head in H. apply app_inv_head in H. exact H.
Qed.

Lemma render_ne_makezip c w : render_jobid c w <> makezip_jobid c.
Proof.
  unfold render_jobid, makezip_jobid. intros H. apply app_inv_head in H. cbv in H. discriminate H.
Qed.

(* collection ids contain no colon (they are 16 hex digits, nserve.py:77): ids of different
   collections never coincide either *)
Lemma render_jobid_inj c c' w w' :
  no_char 58 c -> no_char 58 c' -> render_jobid c w = render_jobid c' w' -> c = c' /\ w = w'.
Proof.
  intros Hc Hc' H. rewrite !render_jobid_eq in H.
  destruct (colon_split _ _ _ _ Hc Hc' H) as [-> H2]. split; [reflexivity|].
  apply app_inv_head in H2. exact H2.
Qed.

Lemma render_ne_makezip_any c c' w :
  no_char 58 c -> no_char 58 c' -> render_jobid c w <> makezip_jobid c'.
Proof.
  intros Hc Hc' H. rewrite render_jobid_eq, makezip_jobid_eq in H.
  destruct (colon_split _ _ _ _ Hc Hc' H) as [_ H2]. cbv in H2. discriminate H2.
Qed.

Lemma makezip_jobid_inj c c' : makezip_jobid c = makezip_jobid c' -> c = c'.
Proof. unfold makezip_jobid. intros H. apply app_inv_tail in H. exact H. Qed.

(* ------------------------------------------------------------------ the status mapping *)

Definition r_done (o : option snap) : bool := truthy (get_or (s_done (or_empty o)) (VBool false)).
Definition r_error (o : option snap) : pyval := get_or (s_error (or_empty o)) VNone.
Definition r_info (o : option snap) : pyval := get_or (s_info (or_empty o)) (VDict []).
Definition known (w : str) : Prop := assoc w writers <> None.

Definition scalar (c : N) : bool := (c <? 1114112) && negb ((55296 <=? c) && (c <=? 57343)).

(* job results as the queue's clients produce them: nothing, a falsy value, or a dict whose
   suggested_filename (if url and size are there) is falsy or text without lone surrogates *)
Definition wf_name (v : pyval) : Prop :=
  truthy v = false \/ exists s, v = VStr s /\ Forall (fun c => scalar c = true) s.

Definition wf_result (o : option snap) : Prop :=
  match s_result (or_empty o) with
  | None => True
  | Some r =>
      truthy r = false \/
      exists kvs, r = VDict kvs /\
        (forall u sz, assoc k_url kvs = Some u -> assoc k_size kvs = Some sz ->
                      wf_name (get_or (assoc k_sugg kvs) (VStr [])))
  end.

(* what `progress` shows *)
Definition progress_status (r m : option snap) : pyval :=
  if truthy (r_info r) then r_info r
  else if r_done m then fetched_status else r_info m.

Section Status.
  Variable nfkd : str -> str.

  Lemma finished_cases res ext ctype :
    (exists m, finished nfkd res ext ctype = Finished m) \/ (exists e, finished nfkd res ext ctype = Crash e).
  Proof.
    unfold finished. destruct (result_part res) as [e|[[u sz] sf]]; [right; eauto|].
    destruct (is_nil ext); [left; eauto|].
    destruct (content_disposition_val nfkd sf ext); [right|left]; eauto.
  Qed.

  Lemma status_failed_iff r m w e :
    status nfkd r m w = Failed e <-> known w /\ e = r_error r /\ truthy e = true.
  Proof.
    unfold status, known, r_error.
    destruct (assoc w writers) as [[ext ctype]|] eqn:W.
    - destruct (truthy (get_or (s_error (or_empty r)) VNone)) eqn:E.
      + split.
        * intros H. inversion H; subst. repeat split; [discriminate|exact E].
        * intros (_ & -> & _). reflexivity.
      + split.
        * intros H. exfalso.
          destruct (truthy (get_or (s_done (or_empty r)) (VBool false))).
          -- destruct (finished_cases (or_empty r) ext ctype) as [[x Hx]|[x Hx]]; rewrite Hx in H; discriminate.
          -- destruct (negb (truthy (get_or (s_info (or_empty r)) (VDict [])))); [|discriminate].
             destruct (negb (truthy (get_or (s_done (or_empty m)) (VBool false)))); discriminate.
        * intros (_ & -> & H). congruence.
    - split; [discriminate|]. intros (H & _). congruence.
  Qed.

  Lemma status_finished_only_if r m w mo :
    status nfkd r m w = Finished mo ->
    known w /\ r_done r = true /\ truthy (r_error r) = false /\ exists s, r = Some s.
  Proof.
    unfold status, known, r_done, r_error.
    destruct (assoc w writers) as [[ext ctype]|] eqn:W; [|discriminate].
    destruct (truthy (get_or (s_error (or_empty r)) VNone)) eqn:E; [discriminate|].
    destruct (truthy (get_or (s_done (or_empty r)) (VBool false))) eqn:D.
    - intros _. repeat split; [discriminate|].
      destruct r as [s|]; [eauto|]. cbn in D. discriminate.
    - destruct (negb (truthy (get_or (s_info (or_empty r)) (VDict [])))); [|discriminate].
      destruct (negb (truthy (get_or (s_done (or_empty m)) (VBool false)))); discriminate.
  Qed.

  Lemma status_progress r m w :
    known w -> truthy (r_error r) = false -> r_done r = false ->
    status nfkd r m w = Progress (progress_status r m).
  Proof.
    unfold progress_status, status, known, r_done, r_error, r_info.
    intros K E D. destruct (assoc w writers) as [[ext ctype]|] eqn:W; [|congruence].
    rewrite E, D.
    destruct (truthy (get_or (s_info (or_empty r)) (VDict []))); cbn [negb]; [reflexivity|].
    destruct (truthy (get_or (s_done (or_empty m)) (VBool false))); reflexivity.
  Qed.

  Lemma status_progress_only_if r m w st :
    status nfkd r m w = Progress st ->
    known w /\ truthy (r_error r) = false /\ r_done r = false /\ st = progress_status r m.
  Proof.
    intros H. unfold known.
    destruct (assoc w writers) as [[ext ctype]|] eqn:W.
    2:{ unfold status in H. rewrite W in H. discriminate. }
    assert (K : known w) by (unfold known; congruence).
    destruct (truthy (r_error r)) eqn:E.
    { assert (F : status nfkd r m w = Failed (r_error r)) by (apply (proj2 (status_failed_iff r m w (r_error r))); repeat split; auto). congruence. }
    destruct (r_done r) eqn:D.
    { exfalso. unfold status in H. rewrite W in H. unfold r_error in E. unfold r_done in D. rewrite E, D in H.
      destruct (finished_cases (or_empty r) ext ctype) as [[x Hx]|[x Hx]]; rewrite Hx in H; discriminate. }
    rewrite (status_progress r m w K E D) in H. inversion H.
    split; [discriminate|]. split; [reflexivity|]. split; reflexivity.
  Qed.

  Lemma status_done_noerr r m w :
    known w -> r_done r = true -> truthy (r_error r) = false ->
    (exists mo, status nfkd r m w = Finished mo) \/ (exists e, status nfkd r m w = Crash e).
  Proof.
    unfold status, known, r_done, r_error. intros K D E.
    destruct (assoc w writers) as [[ext ctype]|] eqn:W; [|congruence].
    rewrite E, D. apply finished_cases.
  Qed.

  Lemma status_local (q q' : str -> option snap) c w :
    q (render_jobid c w) = q' (render_jobid c w) -> q (makezip_jobid c) = q' (makezip_jobid c) ->
    do_render_status nfkd q c w = do_render_status nfkd q' c w.
  Proof. unfold do_render_status. intros -> ->. reflexivity. Qed.
End Status.
