(* C19 — invariants of the C16 queue model (coq/C16/Model.v: qs.jobs.workq + QPlugin + connection life cycle under
   gevent scheduling) that the status command relies on, proved for EVERY op of that model -- Drop (dropjobs),
   Watchdog (dropdead), Advance, Disconnect, RunLoop included; C16's own `Inv` carries `inv_err` only for histories
   without Drop.  Stated on the job table alone, so no other invariant is needed. *)
From Coq Require Import List NArith Bool Lia.
From MW Require Import C16.Model.
Import ListNotations.
Open Scope N_scope.

(* This file depends on C16/Model.v only (not on C16/Proofs.v): the few structural facts about the queue model it
   needs -- which helpers leave the job table alone -- are re-proved here by case analysis on the model's code, so
   that C19 keeps checking while the C16/C17/C18 proofs are being worked on. *)

Ltac jobs_same :=
  repeat match goal with
         | |- context [if ?b then _ else _] => destruct b
         | |- context [match ?x with _ => _ end] => destruct x
         end; reflexivity.

Lemma invariant_reachable : forall (P : state -> Prop),
  (forall s o, P s -> P (fst (step s o))) -> forall h s, P s -> P (run h s).
Proof.
  intros P HP h. induction h as [|o h IH]; intros s Hs; [exact Hs|].
  change (P (run h (fst (step s o)))). apply IH, HP, Hs.
Qed.

Lemma getjob_serial : forall js x j, getjob js x = Some j -> j_serial j = x.
Proof.
  induction js as [|y r IH]; cbn; intros x j H; [discriminate|].
  destruct (j_serial y =? x) eqn:E; [inversion H; subst; apply N.eqb_eq; exact E|apply IH; exact H].
Qed.

Lemma pushjob_jobs : forall x s, s_jobs (pushjob x s) = s_jobs s.
Proof. intros x s. unfold pushjob. cbv zeta. jobs_same. Qed.

Lemma deliver_jobs : forall c chs x s, s_jobs (fst (deliver c chs x s)) = s_jobs s.
Proof. intros. unfold deliver. jobs_same. Qed.

Lemma preenall_jobs : forall s, s_jobs (preenall s) = s_jobs s.
Proof. reflexivity. Qed.

Lemma pop_jobs : forall c chs s, s_jobs (fst (pop_or_block c chs s)) = s_jobs s.
Proof.
  intros. unfold pop_or_block. cbv zeta. destruct (heads _ _) as [x|]; [|reflexivity].
  destruct (getjob _ _); [|reflexivity]. rewrite deliver_jobs. reflexivity.
Qed.

Lemma shutdown_jobs : forall l s, s_jobs (shutdown_loop l s) = s_jobs s.
Proof.
  induction l as [|[i w] r IH]; intro s; cbn [shutdown_loop]; [reflexivity|].
  destruct (is_done (s_jobs s) w); [apply IH|]. rewrite IH, pushjob_jobs. reflexivity.
Qed.

Lemma die_jobs : forall c s, s_jobs (fst (die c s)) = s_jobs s.
Proof. intros. unfold die. cbv zeta. cbn [fst]. rewrite shutdown_jobs. reflexivity. Qed.

Lemma run_event_jobs : forall e s, s_jobs (fst (run_event e s)) = s_jobs s.
Proof.
  intros e s. destruct e as [c|c|ser]; cbn [run_event].
  - destruct (c_st (get_conn (s_conns s) c)) as [|chs [x|]|w|]; try reflexivity.
    destruct (is_done (s_jobs s) x); [apply pop_jobs|apply deliver_jobs].
  - destruct (c_st (get_conn (s_conns s) c)) as [|chs mb|w|]; try reflexivity; rewrite die_jobs; try reflexivity.
    destruct mb as [x|]; [|reflexivity]. cbv zeta.
    destruct (is_done (s_jobs (set_waiters (remove_waiter c (s_waiters s)) s)) x); [reflexivity|].
    rewrite pushjob_jobs. reflexivity.
  - destruct (release ser (s_jobs s) (s_conns s)). jobs_same.
Qed.

Lemma run_events_jobs : forall es s, s_jobs (fst (run_events es s)) = s_jobs s.
Proof.
  induction es as [|e r IH]; intro s; cbn [run_events]; [reflexivity|].
  pose proof (run_event_jobs e s) as H1. destruct (run_event e s) as [s1 o1]. cbn [fst] in H1.
  specialize (IH s1). destruct (run_events r s1) as [s2 o2]. cbn [fst] in *. congruence.
Qed.

Lemma mark_ids : forall x u s, s_ids (mark_finished x u s) = s_ids s.
Proof. intros x u s. unfold mark_finished. jobs_same. Qed.

(* a job object that is not done has neither an error nor a result (jobs.py: both are class-level None until
   _mark_finished assigns them together with done = True) *)
Definition FD (s : state) : Prop :=
  forall j, In j (s_jobs s) -> j_done j = false -> j_err j = ENone /\ j_res j = None.

Lemma fd_same : forall s s', s_jobs s' = s_jobs s -> FD s -> FD s'.
Proof. intros s s' E H j. rewrite E. apply H. Qed.

Lemma fd_jobs : forall js s s', s_jobs s' = js -> s_jobs s = js -> FD s -> FD s'.
Proof. intros js s s' E1 E2. apply fd_same. congruence. Qed.

(* rewriting one object by a function that keeps (or sets) done, or keeps err/res *)
Lemma fd_setjob : forall s s' ser f,
  s_jobs s' = setjob ser f (s_jobs s) ->
  (forall j, j_done (f j) = true \/ (j_done (f j) = j_done j /\ j_err (f j) = j_err j /\ j_res (f j) = j_res j)) ->
  FD s -> FD s'.
Proof.
  intros s s' ser f E Hf H j Hin D. rewrite E in Hin. unfold setjob in Hin. apply in_map_iff in Hin.
  destruct Hin as (j0 & He & Hin). destruct (j_serial j0 =? ser).
  - subst j. destruct (Hf j0) as [Ht|(Hd & Herr & Hres)]; [congruence|].
    rewrite Herr, Hres. apply H; [exact Hin|congruence].
  - subst j. apply H; assumption.
Qed.

Lemma fd_mark : forall x u s, FD s -> FD (mark_finished x u s).
Proof.
  intros x u s H. unfold mark_finished. destruct (getjob (s_jobs s) x) as [j|] eqn:E; [|exact H].
  destruct (j_done j) eqn:D; [exact H|].
  eapply fd_setjob; [| |exact H].
  - cbn [s_jobs set_cnt set_hub set_jobs]. reflexivity.
  - intro j0. left. reflexivity.
Qed.

Lemma fd_killjobs : forall js s, FD s -> FD (killjobs js s).
Proof.
  induction js as [|i r IH]; intros s H; cbn [killjobs]; [exact H|].
  destruct (id_lookup (s_ids s) i); apply IH; [apply fd_mark|]; exact H.
Qed.

Lemma fd_timeouts : forall q s, FD s -> FD (timeouts_loop q s).
Proof.
  induction q as [|x r IH]; intros s H; cbn [timeouts_loop]; [eapply fd_same; [|exact H]; reflexivity|].
  destruct (is_done (s_jobs s) (snd (snd x))); [apply IH; exact H|].
  destruct (s_now s <? fst x); [eapply fd_same; [|exact H]; reflexivity|]. apply IH, fd_mark, H.
Qed.

Lemma fd_dropjobs : forall js s, FD s -> FD (dropjobs js s).
Proof.
  induction js as [|i r IH]; intros s H; cbn [dropjobs]; [exact H|].
  destruct (id_lookup (s_ids s) i) as [ser|]; [|apply IH; exact H]. apply IH.
  eapply fd_setjob; [reflexivity| |exact H]. intro j. right. cbn. auto.
Qed.

Lemma fd_dropdead : forall l s, FD s -> FD (dropdead_loop l s).
Proof.
  induction l as [|i r IH]; intros s H; cbn [dropdead_loop]; [exact H|].
  destruct (id_lookup (s_ids s) i) as [ser|]; [|apply IH; exact H].
  destruct (getjob (s_jobs s) ser) as [j|]; [|apply IH; exact H]. cbv zeta. apply IH.
  assert (H1 : FD (if match j_dl j with Some d => negb (d =? 0) && (d <? s_now s) | None => false end
                   then set_ids (id_del (s_ids s) i) s else s)).
  { destruct (match j_dl j with Some d => negb (d =? 0) && (d <? s_now s) | None => false end); [|exact H].
    eapply fd_same; [|exact H]. reflexivity. }
  destruct (j_done j && negb (dl_truthy (j_dl j))); [|exact H1].
  eapply fd_setjob; [reflexivity| |exact H1]. intro j0. right. cbn. auto.
Qed.

Lemma fd_push_fresh : forall s j0, FD s -> j_err j0 = ENone -> j_res j0 = None ->
  forall ser c, FD (pushjob ser (set_jobs (j0 :: s_jobs s) (set_count c s))).
Proof.
  intros s j0 H He Hr ser c. eapply fd_same; [apply pushjob_jobs|].
  intros j [Hj|Hj] D; [subst j; auto|apply H; assumption].
Qed.

(* every op of the queue model (Drop, Watchdog, Advance, Disconnect, RunLoop included) keeps FD *)
Lemma step_fd : forall s o, FD s -> FD (fst (step s o)).
Proof.
  intros s o H. destruct o as [ch prio name tmo|c chs| |c i res e|c js|dt|c|k|c i|i|i v| |dt|js|]; cbn [step].
  - assert (F : forall j0 ser c, j_err j0 = ENone -> j_res j0 = None ->
                FD (pushjob ser (set_jobs (j0 :: s_jobs s) (set_count c s))))
      by (intros; apply fd_push_fresh; assumption).
    unfold push. destruct name as [n|]; [|apply F; reflexivity].
    destruct (id_lookup (s_ids s) (JName n)) as [ser|]; [|apply F; reflexivity].
    destruct (getjob (s_jobs s) ser) as [j0|]; [|apply F; reflexivity].
    destruct (err_is_killed (j_err j0)); [apply F; reflexivity|exact H].
  - destruct (is_idle c s); [|exact H]. eapply fd_same; [apply pop_jobs|exact H].
  - eapply fd_same; [apply run_events_jobs|]. eapply fd_same; [|exact H]. reflexivity.
  - destruct (is_idle c s); [|exact H]. destruct (id_lookup (s_ids s) i); [|exact H]. cbn [fst].
    eapply fd_same; [|apply fd_mark; exact H]. reflexivity.
  - destruct (is_idle c s); [|exact H]. cbn [fst]. eapply fd_same; [|apply fd_killjobs; exact H]. reflexivity.
  - cbn [fst]. unfold handletimeouts, preenall. eapply fd_same; [|apply (fd_timeouts (s_tq s) (set_now (s_now s + dt) s))].
    + reflexivity.
    + eapply fd_same; [|exact H]. reflexivity.
  - destruct (c_st (get_conn (s_conns s) c)); cbn [fst]; try exact H; (eapply fd_same; [|exact H]; reflexivity).
  - cbn [fst]. eapply fd_same; [|exact H]. reflexivity.
  - assert (E : s_jobs (fst (step s (Wait c i))) = s_jobs s) by (cbn [step]; jobs_same).
    cbn [step] in E. eapply fd_same; [exact E|exact H].
  - exact H.
  - destruct (id_lookup (s_ids s) i) as [ser|]; [|exact H]. cbn [fst].
    eapply fd_setjob; [reflexivity| |exact H]. intro j. right. cbn. auto.
  - exact H.
  - cbn [fst]. eapply fd_same; [|exact H]. reflexivity.
  - cbn [fst]. apply fd_dropjobs. exact H.
  - cbn [fst]. unfold dropdead. apply fd_dropdead. exact H.
Qed.

Lemma fd_init : FD init.
Proof. intros j []. Qed.

Lemma run_fd : forall h, FD (run h init).
Proof. intro h. apply (invariant_reachable FD); [intros s o; apply step_fd|apply fd_init]. Qed.

Lemma getjob_In' : forall js x j, getjob js x = Some j -> In j js.
Proof.
  induction js as [|z r IH]; intros x j H; [discriminate|]. cbn [getjob] in H.
  destruct (j_serial z =? x); [inversion H; left; reflexivity|right; eapply IH; eauto].
Qed.

(* the job object registered under an id (what rpc_qinfo serves: qserve.py:74-78) *)
Definition job_at (s : state) (i : jid) : option job :=
  match id_lookup (s_ids s) i with Some ser => getjob (s_jobs s) ser | None => None end.

(* `error is not None -> done`, and `result is not None -> done`, in every reachable state of the queue model *)
Lemma reachable_error_done : forall h i j,
  job_at (run h init) i = Some j -> (j_err j <> ENone \/ j_res j <> None) -> j_done j = true.
Proof.
  intros h i j E Hne. unfold job_at in E. destruct (id_lookup (s_ids (run h init)) i) as [ser|]; [|discriminate].
  apply getjob_In' in E. destruct (j_done j) eqn:D; [reflexivity|].
  destruct (run_fd h j E D) as [He Hr]. destruct Hne; congruence.
Qed.

(* single steps: what finishing, killing and timing out write into a job that is not done yet *)
Lemma getjob_setjob_same : forall js ser f j, getjob js ser = Some j -> j_serial (f j) = ser ->
  getjob (setjob ser f js) ser = Some (f j).
Proof.
  induction js as [|z r IH]; intros ser f j E Hs; [discriminate|]. cbn [getjob setjob map] in *.
  destruct (j_serial z =? ser) eqn:Ez.
  - inversion E; subst z. cbn [getjob]. rewrite Hs, N.eqb_refl. reflexivity.
  - cbn [getjob]. rewrite Ez. apply IH; assumption.
Qed.

Lemma mark_finished_fields : forall ser u s j, getjob (s_jobs s) ser = Some j -> j_done j = false ->
  exists j', getjob (s_jobs (mark_finished ser u s)) ser = Some j' /\
             j_done j' = true /\ j_err j' = j_err (u j) /\ j_res j' = j_res (u j) /\ j_info j' = j_info j /\ j_id j' = j_id j.
Proof.
  intros ser u s j E D. unfold mark_finished. rewrite E, D. cbn [s_jobs set_cnt set_hub set_jobs].
  eexists. split.
  - apply getjob_setjob_same; [exact E|]. cbn. eapply getjob_serial; eauto.
  - cbn. repeat split.
Qed.
