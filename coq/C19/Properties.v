(* C19 — property theorems only.  Each is closed by `exact <lemma>` and followed by
   Print Assumptions; the check re-compiles this file on every run. *)
From Coq Require Import List NArith ZArith Bool.
From MW Require Import Common.Str C19.Gen_writers C19.Model C19.ModelReq C19.Proofs C19.ProofsCD C19.ProofsLife C19.ProofsCompose C19.ProofsReq C19.ModelConn C19.ProofsConn.
Import ListNotations.

(* `status nfkd r m w` is do_render_status after its two qinfo calls: r / m are the `_json()` snapshots of
   the jobs "<c>:render-<w>" / "<c>:makezip" (None = unknown to the queue; fields may be absent; every
   field is an arbitrary JSON value with Python truthiness).  r_done/r_error/r_info are the three
   `res.get(...)` reads.  All statements are over ALL snapshots, reachable or not. *)

(* `finished` is reported only for a render job OF THAT WRITER that exists, is done, and whose error is
   falsy — never for an absent, queued, running or failed job. *)
Theorem C19_finished_only_if : forall nfkd r m w mo,
  status nfkd r m w = Finished mo ->
  known w /\ r_done r = true /\ truthy (r_error r) = false /\ exists s, r = Some s.
Proof. exact status_finished_only_if. Qed.
Print Assumptions C19_finished_only_if.

(* ... and it IS reported for every such job whose result is well formed (absent, falsy, or a dict
   whose suggested_filename is falsy or text without lone surrogates). *)
Theorem C19_finished_iff : forall nfkd r m w,
  known w -> wf_result r ->
  ((exists mo, status nfkd r m w = Finished mo) <-> r_done r = true /\ truthy (r_error r) = false).
Proof. exact status_finished_iff. Qed.
Print Assumptions C19_finished_iff.

(* `failed` iff the render job's snapshot carries a truthy error; the response carries that very value.
   (That a job with an error is done is C19_error_implies_done, over reachable queue states.) *)
Theorem C19_failed_iff : forall nfkd r m w e,
  status nfkd r m w = Failed e <-> known w /\ e = r_error r /\ truthy e = true.
Proof. exact status_failed_iff. Qed.
Print Assumptions C19_failed_iff.

(* otherwise `progress`: the render job's own info once it is truthy, until then the fetch job's info
   while that job is not done, then the fixed "data fetched" text *)
Theorem C19_progress_otherwise : forall nfkd r m w,
  known w -> truthy (r_error r) = false -> r_done r = false ->
  status nfkd r m w = Progress (progress_status r m) /\
  (truthy (r_info r) = true -> progress_status r m = r_info r) /\
  (truthy (r_info r) = false -> r_done m = false -> progress_status r m = r_info m).
Proof. exact progress_otherwise_full. Qed.
Print Assumptions C19_progress_otherwise.

Theorem C19_progress_only_if : forall nfkd r m w st,
  status nfkd r m w = Progress st ->
  known w /\ truthy (r_error r) = false /\ r_done r = false /\ st = progress_status r m.
Proof. exact status_progress_only_if. Qed.
Print Assumptions C19_progress_only_if.

(* the command raises only for an unknown writer or a malformed result of a successfully finished job *)
Theorem C19_crash_only_malformed : forall nfkd r m w e,
  status nfkd r m w = Crash e -> ~ known w \/ (r_done r = true /\ truthy (r_error r) = false /\ ~ wf_result r).
Proof. exact status_crash_only. Qed.
Print Assumptions C19_crash_only_malformed.

(* jobs of other writers / other collections cannot influence the answer: the answer depends on the
   two looked-up ids only, and those ids are injective *)
Theorem C19_other_writer :
  (forall nfkd (q q' : str -> option snap) c w,
     q (render_jobid c w) = q' (render_jobid c w) -> q (makezip_jobid c) = q' (makezip_jobid c) ->
     do_render_status nfkd q c w = do_render_status nfkd q' c w) /\
  (forall c w w', render_jobid c w = render_jobid c w' -> w = w') /\
  (forall c w, render_jobid c w <> makezip_jobid c) /\
  (forall c c' w w', no_char 58%N c -> no_char 58%N c' -> render_jobid c w = render_jobid c' w' -> c = c' /\ w = w') /\
  (forall c c' w, no_char 58%N c -> no_char 58%N c' -> render_jobid c w <> makezip_jobid c').
Proof. exact other_writer_full. Qed.
Print Assumptions C19_other_writer.

(* Content-Disposition: for every suggested filename without control characters and lone surrogates,
   and ANY function nfkd that introduces no control character, the header value is
   inline; filename=<A>.<ext>[;filename*=UTF-8''<Q>.<ext>]  with <A> non-empty and made of printable
   ASCII other than the separator class, <Q> non-empty and made of unreserved characters, '/', '%'. *)
Theorem C19_filename_header_safe : forall nfkd,
  (forall s, noctl s -> noctl (nfkd s)) ->
  forall filename ext, noctl filename -> scalars filename ->
  exists a tail,
    content_disposition nfkd filename ext = inr (k_inline ++ a ++ k_dot :: ext ++ tail) /\
    a <> [] /\ Forall (fun c => name_char c = true) a /\
    (tail = [] \/ exists q, tail = k_star ++ q ++ k_dot :: ext /\ q <> [] /\ Forall (fun c => quoted_char c = true) q).
Proof. exact cd_header_safe. Qed.
Print Assumptions C19_filename_header_safe.

(* the generated writer table: extensions and content types are header-safe tokens *)
Theorem C19_writers_header_safe : forall w ext ct,
  assoc w writers = Some (ext, ct) ->
  ext <> [] /\ Forall (fun c => token_char c = true) ext /\ Forall (fun c => ctype_char c = true) ct.
Proof. exact writer_fields_safe. Qed.
Print Assumptions C19_writers_header_safe.

(* Life cycle over C19's OWN abstraction of qs.jobs.workq (one record per job id, full JSON values, a ghost phase; tied
   to the real workq by the harness after every op of every history).  The same statement over the C16 queue model
   is C19_reachable below; this one is kept (name unchanged) because its values are not coded: the failed response
   carries the very error value, and "killed"/"timeout" are the literal strings. *)
Theorem C19_reachable_partial : forall nfkd ops c w,
  known w ->
  let st := run ops in
  let resp := do_render_status nfkd (qinfo_of st) c w in
  let rs := qinfo_of st (render_jobid c w) in
  match st (render_jobid c w) with
  | None => resp = Progress (progress_status rs (qinfo_of st (makezip_jobid c)))
  | Some j =>
      match j_phase j with
      | Queued | Running => resp = Progress (progress_status rs (qinfo_of st (makezip_jobid c)))
      | FinishedOK => (exists m, resp = Finished m) \/ (exists e, resp = Crash e /\ ~ wf_result rs)
      | FinishedErr => exists e, resp = Failed e /\ j_error j = Some e /\ truthy e = true
      | Killed => resp = Failed (VStr k_killed)
      | TimedOut => resp = Failed (VStr k_timeout)
      end
  end.
Proof. exact reachable_status. Qed.
Print Assumptions C19_reachable_partial.

Theorem C19_error_implies_done : forall ops id j,
  run ops id = Some j -> j_error j <> None -> j_done j = true.
Proof. exact run_error_done. Qed.
Print Assumptions C19_error_implies_done.

(* ---------------------------------------------------------------------------------------------------------
   Composition with the REAL queue model: coq/C16/Model.v (`Q`), the model of qs.jobs.workq + QPlugin + connection
   life cycle under gevent scheduling that C16/C17/C18 are proved about.  Its values are coded (job names, error
   strings, results, info dicts are numbers; error code 0 = "", 1 = "timeout", 2 = "killed"); the theorems hold for
   EVERY decoding of the codes into JSON values under which exactly code 0 is a falsy error.  `qinfo16 .. s` is
   rpc_qinfo on a state of that model, `QI.job_at s i` the job object registered under id i. *)

(* invariant of the queue model over ALL its ops (Drop/Watchdog/Advance/Disconnect/RunLoop included; C16's own
   inv_err covers only histories without Drop): a job with an error or a result is done *)
Theorem C19_queue_error_implies_done : forall h i j,
  QI.job_at (Q.run h Q.init) i = Some j -> (Q.j_err j <> Q.ENone \/ Q.j_res j <> None) -> Q.j_done j = true.
Proof. exact QI.reachable_error_done. Qed.
Print Assumptions C19_queue_error_implies_done.

(* C19_reachable: for EVERY history of the queue model (any list of Add / StartPull / RunLoop / Finish / Kill / Tick /
   Disconnect / Choice / Wait / Info / SetInfo / Stats / Advance / Drop / Watchdog from the empty queue), every
   collection and every known writer, the status command answers according to the render job of THAT writer as the
   queue holds it: absent (never added, dropped after its time-to-live, dropped by waitjobs) or not done (queued,
   handed to a worker, running; then it has neither error nor result) -> progress; done with a truthy error
   (failed, "killed", "timeout") -> failed with that error; done without / with a falsy error -> finished (or the
   command raises, and then the job's result is malformed). *)
Theorem C19_reachable :
  forall (nfkd : str -> str) (code_of : str -> N) (dec_err dec_res dec_info : N -> pyval),
  (forall n, truthy (dec_err n) = negb (n =? 0)%N) ->
  forall h c w, known w ->
    let s := Q.run h Q.init in
    let q := qinfo16 code_of dec_err dec_res dec_info s in
    let resp := do_render_status nfkd q c w in
    let rs := q (render_jobid c w) in
    let prog := Progress (progress_status rs (q (makezip_jobid c))) in
    match QI.job_at s (Q.JName (code_of (render_jobid c w))) with
    | None => resp = prog
    | Some j =>
        if Q.j_done j then
          match Q.j_err j with
          | Q.ENone => finished_or_malformed resp rs
          | Q.EStr n => if (n =? 0)%N then finished_or_malformed resp rs else resp = Failed (dec_err n)
          end
        else Q.j_err j = Q.ENone /\ Q.j_res j = None /\ resp = prog
    end.
Proof. exact reachable_status16_full. Qed.
Print Assumptions C19_reachable.

(* never `finished` for a job that is absent, queued, running or failed -- over queue histories *)
Theorem C19_finished_only_if_queue :
  forall (nfkd : str -> str) (code_of : str -> N) (dec_err dec_res dec_info : N -> pyval),
  (forall n, truthy (dec_err n) = negb (n =? 0)%N) ->
  forall h c w mo,
  do_render_status nfkd (qinfo16 code_of dec_err dec_res dec_info (Q.run h Q.init)) c w = Finished mo ->
  exists j, QI.job_at (Q.run h Q.init) (Q.JName (code_of (render_jobid c w))) = Some j /\ Q.j_done j = true /\
            Q.err_truthy (Q.j_err j) = false.
Proof. exact finished_only_if16. Qed.
Print Assumptions C19_finished_only_if_queue.

(* how the outcome gets there: after ANY queue history in which the render job is present and not done, rpc_qfinish by an
   idle connection makes the status `failed` with that error (truthy error) or `finished` (no / falsy error); rpc_qkill
   makes it `failed` with "killed" (code 2) *)
Theorem C19_status_after_finish :
  forall (nfkd : str -> str) (code_of : str -> N) (dec_err dec_res dec_info : N -> pyval),
  (forall n, truthy (dec_err n) = negb (n =? 0)%N) ->
  forall h cn c w res e j, known w ->
    let s := Q.run h Q.init in
    let i := Q.JName (code_of (render_jobid c w)) in
    Q.is_idle cn s = true -> QI.job_at s i = Some j -> Q.j_done j = false ->
    let s' := Q.run (h ++ [Q.Finish cn i res e]) Q.init in
    let resp := do_render_status nfkd (qinfo16 code_of dec_err dec_res dec_info s') c w in
    if Q.err_truthy e then exists n, e = Q.EStr n /\ resp = Failed (dec_err n)
    else finished_or_malformed resp (qinfo16 code_of dec_err dec_res dec_info s' (render_jobid c w)).
Proof. exact status_after_finish. Qed.
Print Assumptions C19_status_after_finish.

Theorem C19_status_after_kill :
  forall (nfkd : str -> str) (code_of : str -> N) (dec_err dec_res dec_info : N -> pyval),
  (forall n, truthy (dec_err n) = negb (n =? 0)%N) ->
  forall h cn c w j, known w ->
    let s := Q.run h Q.init in
    let i := Q.JName (code_of (render_jobid c w)) in
    Q.is_idle cn s = true -> QI.job_at s i = Some j -> Q.j_done j = false ->
    do_render_status nfkd (qinfo16 code_of dec_err dec_res dec_info (Q.run (h ++ [Q.Kill cn [i]]) Q.init)) c w = Failed (dec_err 2%N).
Proof. exact status_after_kill. Qed.
Print Assumptions C19_status_after_kill.

(* ---------------------------------------------------------------------------------------------------------
   ONE REQUEST, SEVERAL READS.  The theorems above are about `status` / `do_render_status`, i.e. the command applied to
   snapshots taken from ONE queue state.  The real command reads the queue by up to two qinfo RPCs, and other clients of
   the queue act between them.  `status_req` (ModelReq.v) is the command with its reads explicit, `exec r qs` runs it
   with the queue state qs[i] answering its i-th read; the harness ties it to the real code on the reads of real
   requests (answer AND sequence of ids asked).  Consistency ACROSS the reads of a request is NOT a theorem about nserve
   (the code takes no atomic snapshot): it is the harness' part -- op "istatus" of vt/harness/c19_impl.py injects queue
   events between the RPCs of one real request and the monitor judges the answer against the states the jobs had during
   the request. *)

(* the response (and the sequence of reads) of ANY request program is a function of the snapshots it actually read *)
Theorem C19_request_function_of_reads : forall r qs qs' x tr,
  exec r qs = Some (x, tr) -> answers qs' tr -> exec r qs' = Some (x, tr).
Proof. exact exec_function_of_reads. Qed.
Print Assumptions C19_request_function_of_reads.

(* the status request reads the render job of that writer, then at most the fetch job, nothing else; its answer is
   `status` on the render snapshot of the first read and the fetch snapshot of the second *)
Theorem C19_request_reads : forall nfkd c w q1 q2 qs,
  exists tr,
    exec (status_req nfkd c w) (q1 :: q2 :: qs) = Some (status nfkd (q1 (render_jobid c w)) (q2 (makezip_jobid c)) w, tr) /\
    (tr = [] \/ tr = [(render_jobid c w, q1 (render_jobid c w))] \/
     tr = [(render_jobid c w, q1 (render_jobid c w)); (makezip_jobid c, q2 (makezip_jobid c))]).
Proof. exact status_req_exec. Qed.
Print Assumptions C19_request_reads.

(* all reads taken from the same queue state: the request IS do_render_status on that state, so every theorem above
   (C19_finished_only_if .. C19_reachable, C19_status_after_finish/kill) applies to it *)
Theorem C19_request_consistent : forall nfkd c w q qs,
  exists tr, exec (status_req nfkd c w) (q :: q :: qs) = Some (do_render_status nfkd q c w, tr).
Proof. exact status_req_consistent. Qed.
Print Assumptions C19_request_consistent.

(* ... and already when, between the two reads, the fetch job (resp. the render job) did not change: the answer is the
   atomic answer on the state of the first (resp. second) read *)
Theorem C19_request_atomic_if_one_job_unchanged : forall nfkd c w q1 q2 qs,
  (q2 (makezip_jobid c) = q1 (makezip_jobid c) ->
   exists tr, exec (status_req nfkd c w) (q1 :: q2 :: qs) = Some (do_render_status nfkd q1 c w, tr)) /\
  (q2 (render_jobid c w) = q1 (render_jobid c w) ->
   exists tr, exec (status_req nfkd c w) (q1 :: q2 :: qs) = Some (do_render_status nfkd q2 c w, tr)).
Proof. exact status_req_atomic_one_unchanged. Qed.
Print Assumptions C19_request_atomic_if_one_job_unchanged.

(* the interleaved case, arbitrary different states q1, q2: a `finished` answer was derived from exactly ONE read -- the
   render job of that writer -- and the snapshot read had done and no (truthy) error; it is the atomic answer on q1 *)
Theorem C19_interleaved_finished_only_if : forall nfkd c w q1 q2 qs mo tr,
  exec (status_req nfkd c w) (q1 :: q2 :: qs) = Some (Finished mo, tr) ->
  known w /\
  (exists s, q1 (render_jobid c w) = Some s /\ tr = [(render_jobid c w, Some s)]) /\
  r_done (q1 (render_jobid c w)) = true /\ truthy (r_error (q1 (render_jobid c w))) = false /\
  do_render_status nfkd q1 c w = Finished mo.
Proof. exact interleaved_finished_only_if. Qed.
Print Assumptions C19_interleaved_finished_only_if.

Theorem C19_interleaved_failed_iff : forall nfkd c w q1 q2 qs e,
  (exists tr, exec (status_req nfkd c w) (q1 :: q2 :: qs) = Some (Failed e, tr)) <->
  known w /\ e = r_error (q1 (render_jobid c w)) /\ truthy e = true.
Proof. exact interleaved_failed_iff. Qed.
Print Assumptions C19_interleaved_failed_iff.

Theorem C19_interleaved_progress_only_if : forall nfkd c w q1 q2 qs st tr,
  exec (status_req nfkd c w) (q1 :: q2 :: qs) = Some (Progress st, tr) ->
  known w /\ truthy (r_error (q1 (render_jobid c w))) = false /\ r_done (q1 (render_jobid c w)) = false /\
  st = progress_status (q1 (render_jobid c w)) (q2 (makezip_jobid c)).
Proof. exact interleaved_progress_only_if. Qed.
Print Assumptions C19_interleaved_progress_only_if.

(* over histories: the queue ran ops0 before the first read and ANY ops1 before the second.  `finished` => the render
   job of that writer was FinishedOK after ops0 (C19's own life-cycle model) / done without truthy error after h0 (C16
   queue model) -- never queued, running, failed, killed, timed out or absent when it was read *)
Theorem C19_interleaved_history_finished : forall nfkd ops0 ops1 c w mo tr qs,
  exec (status_req nfkd c w) (qinfo_of (run ops0) :: qinfo_of (run (ops0 ++ ops1)) :: qs) = Some (Finished mo, tr) ->
  exists j, run ops0 (render_jobid c w) = Some j /\ j_phase j = FinishedOK /\ j_done j = true.
Proof. exact interleaved_history_finished. Qed.
Print Assumptions C19_interleaved_history_finished.

Theorem C19_interleaved_finished_only_if_queue :
  forall (nfkd : str -> str) (code_of : str -> N) (dec_err dec_res dec_info : N -> pyval),
  (forall n, truthy (dec_err n) = negb (n =? 0)%N) ->
  forall h0 h1 c w mo tr qs,
  exec (status_req nfkd c w)
       (qinfo16 code_of dec_err dec_res dec_info (Q.run h0 Q.init) ::
        qinfo16 code_of dec_err dec_res dec_info (Q.run (h0 ++ h1) Q.init) :: qs) = Some (Finished mo, tr) ->
  exists j, QI.job_at (Q.run h0 Q.init) (Q.JName (code_of (render_jobid c w))) = Some j /\ Q.j_done j = true /\
            Q.err_truthy (Q.j_err j) = false.
Proof. exact interleaved_finished_only_if16. Qed.
Print Assumptions C19_interleaved_finished_only_if_queue.

(* a render job that is not done when it is read is answered `progress`, whatever happens to it before the next read
   (finished with an error, killed, timed out, dropped, ..) *)
Theorem C19_interleaved_running_progress : forall nfkd ops0 ops1 c w j qs,
  known w -> run ops0 (render_jobid c w) = Some j -> j_done j = false ->
  exists st tr, exec (status_req nfkd c w) (qinfo_of (run ops0) :: qinfo_of (run (ops0 ++ ops1)) :: qs) = Some (Progress st, tr).
Proof. exact interleaved_running_progress. Qed.
Print Assumptions C19_interleaved_running_progress.

(* exactly one event addressed to ONE job (push, pull, setinfo, finish, kill, dropjobs, waitjobs of any id) between the two
   reads: the request is linearizable -- its answer is the atomic answer on the state before or on the state after the
   event.  (Tick / DropDead change both jobs of a collection at once; then the answer combines the render job of before
   with the fetch job of after, which is why the monitor asks for a justifying state per job.) *)
Theorem C19_interleaved_single_job_event_atomic : forall nfkd ops0 now id e c w qs,
  let q1 := qinfo_of (run ops0) in
  let q2 := qinfo_of (run (ops0 ++ [OnJob now id e])) in
  exists tr, exec (status_req nfkd c w) (q1 :: q2 :: qs) = Some (do_render_status nfkd q1 c w, tr) \/
             exec (status_req nfkd c w) (q1 :: q2 :: qs) = Some (do_render_status nfkd q2 c w, tr).
Proof. exact interleaved_single_job_event_atomic. Qed.
Print Assumptions C19_interleaved_single_job_event_atomic.

(* how the error outcomes get there, C19's own life-cycle model (after ANY history in which the render job is present and
   not done): handletimeouts past its deadline -> failed "timeout"; qkill -> failed "killed"; qfinish with a truthy
   error -> failed with that error.  (Over the C16 queue model the kill / finish steps are C19_status_after_kill / _finish;
   the timeout step is not proved there, see ProofsCompose.v.) *)
Theorem C19_own_status_after_tick : forall nfkd ops now c w j,
  known w -> run ops (render_jobid c w) = Some j -> j_done j = false -> (j_timeout j <= now)%Z ->
  do_render_status nfkd (qinfo_of (run (ops ++ [Tick now]))) c w = Failed (VStr k_timeout).
Proof. exact own_status_after_tick. Qed.
Print Assumptions C19_own_status_after_tick.

Theorem C19_own_status_after_kill : forall nfkd ops now c w j,
  known w -> run ops (render_jobid c w) = Some j -> j_done j = false ->
  do_render_status nfkd (qinfo_of (run (ops ++ [OnJob now (render_jobid c w) Kill]))) c w = Failed (VStr k_killed).
Proof. exact own_status_after_kill. Qed.
Print Assumptions C19_own_status_after_kill.

Theorem C19_own_status_after_finish_error : forall nfkd ops now c w j res e,
  known w -> run ops (render_jobid c w) = Some j -> j_done j = false -> truthy e = true ->
  do_render_status nfkd (qinfo_of (run (ops ++ [OnJob now (render_jobid c w) (Finish res e)]))) c w = Failed e.
Proof. exact own_status_after_finish_error. Qed.
Print Assumptions C19_own_status_after_finish_error.

(* the seeded scenario as a theorem: the job fails while a request is in flight -> that request says `progress`, the next
   one `failed` with the error; `finished` is never said *)
Theorem C19_interleaved_then_failed : forall nfkd ops0 now c w j res e qs,
  known w -> run ops0 (render_jobid c w) = Some j -> j_done j = false -> truthy e = true ->
  let ops1 := [OnJob now (render_jobid c w) (Finish res e)] in
  (exists st tr, exec (status_req nfkd c w) (qinfo_of (run ops0) :: qinfo_of (run (ops0 ++ ops1)) :: qs) = Some (Progress st, tr)) /\
  do_render_status nfkd (qinfo_of (run (ops0 ++ ops1))) c w = Failed e.
Proof. exact interleaved_then_failed. Qed.
Print Assumptions C19_interleaved_then_failed.

(* non-vacuity: fetch done, render job pulled; the request reads the render job, THEN the worker reports "boom", then the
   request reads the fetch job: `progress` (the fixed text); a request after that: failed "boom" *)
Example C19_example_interleaved :
  option_map fst (exec (status_req (fun s => s) ex_c ex_w) [qinfo_of (run ex_ops0); qinfo_of (run (ex_ops0 ++ ex_ops1))])
    = Some (Progress fetched_status) /\
  do_render_status (fun s => s) (qinfo_of (run (ex_ops0 ++ ex_ops1))) ex_c ex_w = Failed (VStr [98;111;111;109]%N).
Proof. exact ex_interleaved. Qed.
Print Assumptions C19_example_interleaved.

(* Non-vacuity. (1) the NFKD hypothesis is satisfiable; (2) a concrete history: render job of "rl" pushed,
   pulled, finished with a result: finished, with the header of the Motörhead test case (nfkd tabulated). *)
Example C19_example_hypothesis : exists nfkd : str -> str, forall s, noctl s -> noctl (nfkd s).
Proof. exists (fun s => s). auto. Qed.
Print Assumptions C19_example_hypothesis.

Example C19_example_history :
  let c := [48;49]%N in let w := [114;108]%N in
  let name := [77;111;116;246;114;104;101;97;100]%N in
  let nfkd := fun s : str => if str_eqb s name then [77;111;116;111;776;114;104;101;97;100]%N else s in
  let res := VDict [(k_url, VStr [117]%N); (k_size, VInt 3); (k_sugg, VStr name)] in
  let ops := [OnJob 0 (makezip_jobid c) (Push 1200 None); OnJob 0 (render_jobid c w) (Push 1200 None);
              OnJob 1 (render_jobid c w) Pull; OnJob 2 (render_jobid c w) (Finish res VNone)] in
  known w /\
  do_render_status nfkd (qinfo_of (run ops)) c w =
  Finished (mkMore (Some (VStr [117]%N)) (Some (VInt 3)) (Some (VStr name))
     (Some [97;112;112;108;105;99;97;116;105;111;110;47;112;100;102]%N)
     (Some (k_inline ++ [77;111;116;111;114;104;101;97;100;46;112;100;102]%N ++ k_star ++
            [77;111;116;37;67;51;37;66;54;114;104;101;97;100;46;112;100;102]%N))) /\
  do_render_status nfkd (qinfo_of (run ops)) c [111;100;102]%N = Progress (VDict []).
Proof. vm_compute. repeat split. discriminate. Qed.
Print Assumptions C19_example_history.

(* (3) the queue-model hypotheses are satisfiable: a history with a failed, a killed and a queued job and an absent one;
   and a decoding with exactly code 0 falsy exists *)
Example C19_example_queue :
  let s := Q.run ex_ops Q.init in
  option_map (fun j => (Q.j_done j, Q.j_err j)) (QI.job_at s (Q.JName 7%N)) = Some (true, Q.EStr 5%N) /\
  option_map (fun j => (Q.j_done j, Q.j_err j)) (QI.job_at s (Q.JName 8%N)) = Some (true, Q.e_killed) /\
  option_map (fun j => (Q.j_done j, Q.j_err j)) (QI.job_at s (Q.JName 9%N)) = Some (false, Q.ENone) /\
  QI.job_at s (Q.JName 10%N) = None.
Proof. exact ex_ops_states. Qed.
Print Assumptions C19_example_queue.

Example C19_example_decoding : exists dec_err : N -> pyval, forall n, truthy (dec_err n) = negb (n =? 0)%N.
Proof. exact ex_decoding. Qed.
Print Assumptions C19_example_decoding.

(* ---- CLIENT CONNECTIONS of the queue server (ModelConn.v).  Every connection has a handler that remembers the job
   OBJECTS pulled through it and, when the connection closes, hands the unfinished ones back (QPlugin.shutdown ->
   workq.pushjob: id2job[j.jobid] = j).  An id stands for several job objects over time (a killed or dropped job is
   re-added as a new object), so pushjob can overwrite the entry render_status reads.  cstate: id -> registered
   incarnation, done/killed per incarnation, held jobs per connection; crun dec = any history of adds, pulls, finishes,
   kills, timeouts, drops, disconnects; dec_repo = the test of qserve.py:104 (`if j.done: continue`). *)

(* closing ANY connection after ANY history leaves every id registered to the same job object in the same state:
   the status command answers the same before and after *)
Theorem C19_disconnect_preserves_registration : forall ops c id,
  let s := crun dec_repo ops in
  let s' := cstep dec_repo s (CDisconnect c) in
  table s' id = table s id /\ jdone s' = jdone s /\ jkilled s' = jkilled s /\ served_done s' id = served_done s id.
Proof. exact disconnect_preserves_registration. Qed.
Print Assumptions C19_disconnect_preserves_registration.

(* the invariant behind it: an unfinished job object held by a connection IS the one registered under its id *)
Theorem C19_held_unfinished_is_registered : forall ops c id i,
  let s := crun dec_repo ops in In (id, i) (held s c) -> jdone s i = false -> table s id = Some i.
Proof. exact held_unfinished_is_registered. Qed.
Print Assumptions C19_held_unfinished_is_registered.

(* seeded/C19-7 (shutdown asks the id->job table instead of its own job object): refuted.  Pulled by connection 1,
   killed, re-added, pulled by connection 2, connection 1 closes: the killed incarnation 0 is registered again over the
   live incarnation 1, the status source says done+killed, and worker 2's finish then hits the stale object - the live
   job never becomes done.  The same history is harmless with the repo's test (last conjunct).
   Also the non-vacuity example of the two theorems above: a history with a pull, a kill, a re-add and a disconnect. *)
Theorem C19_disconnect_by_id_refuted :
  let s := crun dec_byid byid_history in
  let s' := cstep dec_byid s (CDisconnect 1) in
  let s'' := cstep dec_byid s' (CFinish 2 jid) in
  table s jid = Some 1 /\ served_done s jid = Some false /\
  table s' jid = Some 0 /\ served_done s' jid = Some true /\ jkilled s' 0 = true /\ jdone s' 1 = false /\
  table s'' jid = Some 0 /\ jdone s'' 1 = false /\
  table (cstep dec_repo (crun dec_repo byid_history) (CDisconnect 1)) jid = Some 1.
Proof. exact disconnect_byid_refuted. Qed.
Print Assumptions C19_disconnect_by_id_refuted.
