From Coq Require Import Extraction ExtrOcamlBasic.
From MW Require Import Common.Str C19.Gen_writers C19.Model C19.ModelReq.
Extraction "../ocaml/c19/c19_model.ml" status do_render_status content_disposition cd_values
  apply_op empty_store qinfo_of strip py_isspace render_jobid makezip_jobid writers
  exec_reads.
