(* C19 — the life cycle of a job in the queue, and the status command along every history. *)
From Coq Require Import List NArith ZArith Bool Lia.
From MW Require Import Common.Str C19.Gen_writers C19.Model C19.Proofs C19.ProofsCD.
Import ListNotations.

(* what the ghost phase means for the fields the status command reads *)
Definition job_inv (j : job) : Prop :=
  match j_phase j with
  | Queued | Running => j_done j = false /\ j_error j = None /\ j_result j = None
  | FinishedOK => j_done j = true /\ exists e, j_error j = Some e /\ truthy e = false
  | FinishedErr => j_done j = true /\ exists e, j_error j = Some e /\ truthy e = true
  | Killed => j_done j = true /\ j_error j = Some (VStr k_killed)
  | TimedOut => j_done j = true /\ j_error j = Some (VStr k_timeout)
  end.

Definition store_inv (st : store) : Prop := forall id j, st id = Some j -> job_inv j.

Lemma new_job_inv now t ttl : job_inv (new_job now t ttl).
Proof. cbn. auto. Qed.

Lemma mark_finished_inv j r e ttl ph :
  job_inv j ->
  (j_done j = false ->
   match ph with
   | Queued | Running => False
   | FinishedOK => exists x, e = Some x /\ truthy x = false
   | FinishedErr => exists x, e = Some x /\ truthy x = true
   | Killed => e = Some (VStr k_killed)
   | TimedOut => e = Some (VStr k_timeout)
   end) ->
  job_inv (mark_finished j r e ttl ph).
Proof.
  intros Hj H. unfold mark_finished. destruct (j_done j) eqn:D; [exact Hj|].
  specialize (H eq_refl). unfold job_inv. cbn.
  destruct ph; try contradiction; auto.
Qed.

Ltac inv_step Hs Hj := injection Hs as Hs; rewrite <- Hs in Hj; try discriminate Hj; injection Hj as Hj; rewrite <- Hj.

Lemma step_inv now o e o' :
  (forall j, o = Some j -> job_inv j) -> step now o e = inr o' -> forall j, o' = Some j -> job_inv j.
Proof.
  intros Ho Hs j Hj. destruct e, o as [j0|]; cbn in Hs; try discriminate Hs;
    try (injection Hs as Hs; rewrite <- Hs in Hj; discriminate Hj).
  - (* Push on an existing job *)
    pose proof (Ho j0 eq_refl) as H0.
    destruct (j_error j0) as [v|].
    + destruct (pyval_is_str v k_killed); inv_step Hs Hj; [apply new_job_inv|exact H0].
    + inv_step Hs Hj. exact H0.
  - inv_step Hs Hj. apply new_job_inv.
  - (* Pull *)
    pose proof (Ho j0 eq_refl) as H0. inv_step Hs Hj.
    destruct (j_done j0) eqn:D; [exact H0|].
    unfold job_inv in *. cbn. destruct (j_phase j0); cbn in *; intuition congruence.
  - (* SetInfo *)
    pose proof (Ho j0 eq_refl) as H0. inv_step Hs Hj. exact H0.
  - (* Finish *)
    pose proof (Ho j0 eq_refl) as H0. inv_step Hs Hj.
    apply mark_finished_inv; [exact H0|]. intros _.
    destruct (truthy error) eqn:E; eauto.
  - (* Kill *)
    pose proof (Ho j0 eq_refl) as H0. inv_step Hs Hj.
    apply mark_finished_inv; [exact H0|]. reflexivity.
  - (* DropMark *)
    pose proof (Ho j0 eq_refl) as H0. inv_step Hs Hj. exact H0.
  - (* Wait *)
    pose proof (Ho j0 eq_refl) as H0.
    destruct (j_done j0 && j_drop j0); inv_step Hs Hj. exact H0.
Qed.

Lemma tick_inv now j : job_inv j -> job_inv (tick now j).
Proof.
  intros H. unfold tick. destruct (negb (j_done j) && (j_timeout j <=? now)%Z); [|exact H].
  apply mark_finished_inv; [exact H|]. reflexivity.
Qed.

Lemma job_inv_ext j j' :
  j_phase j' = j_phase j -> j_done j' = j_done j -> j_error j' = j_error j -> j_result j' = j_result j ->
  job_inv j -> job_inv j'.
Proof. unfold job_inv. intros -> -> -> ->. auto. Qed.

Lemma dropdead_inv now j j' : job_inv j -> dropdead now j = Some j' -> job_inv j'.
Proof.
  intros H. unfold dropdead.
  destruct (j_deadline j) as [d|].
  - destruct (negb (d =? 0)%Z && (d <? now)%Z); [discriminate|].
    destruct (j_done j && (d =? 0)%Z); intros E; injection E as <-; [|exact H].
    eapply job_inv_ext; [| | | |exact H]; reflexivity.
  - destruct (j_done j) eqn:D; intros E; injection E as <-; [|exact H].
    eapply job_inv_ext; [| | | |exact H]; cbn; auto.
Qed.

Lemma apply_op_inv st o : store_inv st -> store_inv (apply_op st o).
Proof.
  intros H id j. destruct o as [now id0 e|now|now]; cbn.
  - destruct (step now (st id0) e) as [u|o'] eqn:S; [apply H|].
    unfold upd. destruct (str_eqb id id0); [|apply H].
    intros Hj. eapply step_inv; [|exact S|exact Hj]. intros j0 H0. exact (H id0 j0 H0).
  - destruct (st id) as [j0|] eqn:E; cbn; [|discriminate].
    intros Hj. inversion Hj; subst. apply tick_inv. exact (H id j0 E).
  - destruct (st id) as [j0|] eqn:E; cbn; [|discriminate].
    intros Hj. eapply dropdead_inv; [|exact Hj]. exact (H id j0 E).
Qed.

Lemma run_inv_from ops : forall st, store_inv st -> store_inv (fold_left apply_op ops st).
Proof.
  induction ops as [|o ops IH]; intros st H; cbn; [exact H|]. apply IH, apply_op_inv, H.
Qed.

Lemma run_inv ops : store_inv (run ops).
Proof. apply run_inv_from. intros id j H. discriminate H. Qed.

(* error present in a snapshot only once the job is done: the fact the all-snapshot theorems need
   to read `failed` as `finished with an error` *)
Lemma run_error_done ops id j : run ops id = Some j -> j_error j <> None -> j_done j = true.
Proof.
  intros H He. pose proof (run_inv ops id j H) as I. unfold job_inv in I.
  destruct (j_phase j); intuition congruence.
Qed.

(* ------------------------------------------------------------------ status along histories *)

Definition phase_of (o : option job) : option phase := option_map j_phase o.

Section Reach.
  Variable nfkd : str -> str.

  Lemma reachable_status ops c w :
    known w ->
    let st := run ops in
    let resp := do_render_status nfkd (qinfo_of st) c w in
    let rs := qinfo_of st (render_jobid c w) in
    match st (render_jobid c w) with
    | None => resp = Progress (progress_status rs (qinfo_of st (makezip_jobid c)))
    | Some j =>
        match j_phase j with
        | Queued | Running => resp = Progress (progress_status rs (qinfo_of st (makezip_jobid c)))
        | FinishedOK => (exists m, resp = Finished m) \/ (exists e, resp = Crash e /\ ~ wf_result rs)
        | FinishedErr => exists e, resp = Failed e /\ j_error j = Some e /\ truthy e = true
        | Killed => resp = Failed (VStr k_killed)
        | TimedOut => resp = Failed (VStr k_timeout)
        end
    end.
  Proof.
    intros K st resp rs. unfold resp, rs, do_render_status, qinfo_of.
    destruct (st (render_jobid c w)) as [j|] eqn:E; cbn [option_map].
    2:{ apply status_progress; [exact K|reflexivity|reflexivity]. }
    pose proof (run_inv ops _ _ E) as I. unfold job_inv in I.
    destruct (j_phase j).
    - destruct I as (D & Er & _). apply status_progress; [exact K| |]; unfold r_error, r_done, snap_of; cbn; rewrite ?D, ?Er; reflexivity.
    - destruct I as (D & Er & _). apply status_progress; [exact K| |]; unfold r_error, r_done, snap_of; cbn; rewrite ?D, ?Er; reflexivity.
    - destruct I as (D & e & Er & T).
      destruct (status_done_noerr nfkd (Some (snap_of j)) (option_map snap_of (st (makezip_jobid c))) w K) as [H|[x H]].
      + unfold r_done, snap_of. cbn. rewrite D. reflexivity.
      + unfold r_error, snap_of. cbn. rewrite Er. exact T.
      + left. exact H.
      + right. exists x. split; [exact H|]. intros WF.
        unfold status in H. unfold known in K.
        destruct (assoc w writers) as [[ext ctype]|]; [|congruence].
        destruct (finished_wf nfkd (Some (snap_of j)) ext ctype WF) as [m Hm].
        cbn [or_empty] in *. unfold snap_of in H at 1 2 3. cbn in H. rewrite Er, D in H. cbn in H. rewrite T in H.
        rewrite Hm in H. discriminate.
    - destruct I as (D & e & Er & T). exists e. split; [|auto].
      apply status_failed_iff. split; [exact K|]. unfold r_error, snap_of. cbn. rewrite Er. auto.
    - destruct I as (D & Er). apply status_failed_iff. split; [exact K|]. unfold r_error, snap_of. cbn. rewrite Er. auto.
    - destruct I as (D & Er). apply status_failed_iff. split; [exact K|]. unfold r_error, snap_of. cbn. rewrite Er. auto.
  Qed.
End Reach.

Lemma status_finished_iff nfkd r m w :
  known w -> wf_result r ->
  ((exists mo, status nfkd r m w = Finished mo) <-> r_done r = true /\ truthy (r_error r) = false).
Proof.
  intros K WF. split.
  - intros [mo H]. apply status_finished_only_if in H. tauto.
  - intros [D E]. unfold status. unfold known in K.
    destruct (assoc w writers) as [[ext ctype]|]; [|congruence].
    unfold r_done in D. unfold r_error in E. rewrite E, D. apply finished_wf. exact WF.
Qed.

Lemma status_crash_only nfkd r m w e :
  status nfkd r m w = Crash e -> ~ known w \/ (r_done r = true /\ truthy (r_error r) = false /\ ~ wf_result r).
Proof.
  intros H. destruct (assoc w writers) as [[ext ctype]|] eqn:W.
  2:{ left. unfold known. intros K. congruence. }
  right. assert (K : known w) by (unfold known; congruence).
  destruct (truthy (r_error r)) eqn:E.
  { assert (F : status nfkd r m w = Failed (r_error r)) by (apply (proj2 (status_failed_iff nfkd r m w (r_error r))); repeat split; auto). congruence. }
  destruct (r_done r) eqn:D.
  - repeat split. intros WF. destruct (proj2 (status_finished_iff nfkd r m w K WF) (conj D E)) as [mo Hm]. congruence.
  - rewrite (status_progress nfkd r m w K E D) in H. discriminate.
Qed.

(* ------------------------------------------------------------------ the generated writer table *)

Definition token_char (c : N) : bool := alnum c || (c =? 46)%N || (c =? 45)%N || (c =? 43)%N || (c =? 95)%N.
Definition ctype_char (c : N) : bool := token_char c || (c =? 47)%N.

Definition writer_ok (r : str * (str * str)) : bool :=
  let '(n, (ext, ct)) := r in
  negb (is_nil n) && negb (is_nil ext) && negb (is_nil ct)
  && forallb token_char n && forallb token_char ext && forallb ctype_char ct.

Lemma writers_ok : forallb writer_ok writers = true.
Proof. vm_compute. reflexivity. Qed.

Lemma writer_fields_safe w ext ct :
  assoc w writers = Some (ext, ct) ->
  ext <> [] /\ Forall (fun c => token_char c = true) ext /\ Forall (fun c => ctype_char c = true) ct.
Proof.
  pose proof writers_ok as H. revert H. generalize writers. intros l.
  induction l as [|[n [e t]] l IH]; cbn [assoc forallb]; [discriminate|].
  rewrite andb_true_iff. intros [H1 H2].
  destruct (str_eqb w n).
  - intros E. inversion E; subst. unfold writer_ok in H1.
    rewrite !andb_true_iff in H1. destruct H1 as [[[[[_ Hn] _] _] He] Ht].
    split; [destruct ext; [discriminate|discriminate]|].
    split; apply Forall_forall; intros x Hx; [eapply forallb_forall in He|eapply forallb_forall in Ht]; eauto.
  - apply IH. exact H2.
Qed.

(* ------------------------------------------------------------------ statements used verbatim by Properties.v *)

Lemma progress_otherwise_full nfkd r m w :
  known w -> truthy (r_error r) = false -> r_done r = false ->
  status nfkd r m w = Progress (progress_status r m) /\
  (truthy (r_info r) = true -> progress_status r m = r_info r) /\
  (truthy (r_info r) = false -> r_done m = false -> progress_status r m = r_info m).
Proof.
  intros K E D. split; [exact (status_progress nfkd r m w K E D)|].
  unfold progress_status. split; intros H; rewrite H; [reflexivity|]. intros ->. reflexivity.
Qed.

Lemma other_writer_full :
  (forall nfkd (q q' : str -> option snap) c w,
     q (render_jobid c w) = q' (render_jobid c w) -> q (makezip_jobid c) = q' (makezip_jobid c) ->
     do_render_status nfkd q c w = do_render_status nfkd q' c w) /\
  (forall c w w', render_jobid c w = render_jobid c w' -> w = w') /\
  (forall c w, render_jobid c w <> makezip_jobid c) /\
  (forall c c' w w', no_char 58%N c -> no_char 58%N c' -> render_jobid c w = render_jobid c' w' -> c = c' /\ w = w') /\
  (forall c c' w, no_char 58%N c -> no_char 58%N c' -> render_jobid c w <> makezip_jobid c').
Proof.
  split; [exact status_local|]. split; [exact render_jobid_inj_w|]. split; [exact render_ne_makezip|].
  split; [exact render_jobid_inj|exact render_ne_makezip_any].
Qed.
