(* C19 — do_render_status as a CLIENT of the queue server (nserve.py:387-420): a resumption over its qinfo RPCs.
   Model.v's `status` takes the two snapshots as arguments, i.e. it describes the command AFTER its reads.  The
   real command issues the reads one after the other over a socket; every RPC is a scheduling point of the gevent
   server, so other clients of the queue act between two reads of ONE request.  `status_req` is the same code with
   the reads made explicit (`Ask id k` = `res = self.qserve.qinfo(jobid=id)`, continue with k res), `exec` runs it
   against the queue as it is AT THE TIME OF EACH READ.  Only definitions here; lemmas are in ProofsReq.v. *)
From Coq Require Import List NArith Bool.
From MW Require Import Common.Str C19.Gen_writers C19.Model.
Import ListNotations.

Inductive req :=
| Ret (r : response)                              (* return retval(...) / an uncaught exception *)
| Ask (id : str) (k : option snap -> req).        (* self.qserve.qinfo(jobid=id), then k *)

(* nserve.py:387-420, line by line as Model.status, with the reads where the code has them:
   :399 the render job is read first; :410-412 the fetch job is read only if the render job has neither error,
   nor done, nor info *)
Definition status_req (nfkd : str -> str) (c w : str) : req :=
  match assoc w writers with
  | None => Ret (Crash KeyError)                            (* name2writer[writer], before any read *)
  | Some (ext, ctype) =>
      Ask (render_jobid c w) (fun render =>
        let res := or_empty render in
        let info := get_or (s_info res) (VDict []) in
        let done := get_or (s_done res) (VBool false) in
        let error := get_or (s_error res) VNone in
        if truthy error then Ret (Failed error)
        else if truthy done then Ret (finished nfkd res ext ctype)
        else if negb (truthy info) then
          Ask (makezip_jobid c) (fun mk =>
            let res2 := or_empty mk in
            if negb (truthy (get_or (s_done res2) (VBool false)))
            then Ret (Progress (get_or (s_info res2) (VDict [])))
            else Ret (Progress fetched_status))
        else Ret (Progress info))
  end.

(* qs = what rpc_qinfo answers at the time of the 1st, 2nd, .. read of the request (one queue state per read; the
   states may differ arbitrarily).  Result: the response and the trace of (job id asked, snapshot read);
   None = the request wanted more reads than states were supplied. *)
Fixpoint exec (r : req) (qs : list (str -> option snap)) : option (response * list (str * option snap)) :=
  match r with
  | Ret x => Some (x, [])
  | Ask id k =>
      match qs with
      | [] => None
      | q :: qs' =>
          match exec (k (q id)) qs' with
          | Some (x, tr) => Some (x, (id, q id) :: tr)
          | None => None
          end
      end
  end.

(* the harness' entry point: the request for (c, w) when the 1st read sees `r` under the render job's id and the
   2nd read sees `m` under the fetch job's id (every other id: unknown job) *)
Definition exec_reads (nfkd : str -> str) (c w : str) (r m : option snap) : option (response * list (str * option snap)) :=
  exec (status_req nfkd c w)
       [(fun id => if str_eqb id (render_jobid c w) then r else None);
        (fun id => if str_eqb id (makezip_jobid c) then m else None)].
