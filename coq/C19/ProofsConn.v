(* C19 — closing a client connection never changes which job an id stands for (so never changes what render_status
   reports), for every history of adds, pulls, finishes, kills, timeouts, drops and disconnects on any number of
   connections - as long as shutdown() asks the job object it holds (dec_repo).  Asking the id->job table instead
   (dec_byid, seeded/C19-7) is refuted: a killed earlier incarnation comes back over the live one. *)
From Coq Require Import List NArith Bool Arith Lia.
From MW Require Import Common.Str C19.ModelConn.
Import ListNotations.

(* an unfinished job object held by a connection is the one registered under its id; killed implies done *)
Definition coherent (s : cstate) : Prop :=
  (forall c id i, In (id, i) (held s c) -> jdone s i = false -> table s id = Some i) /\
  (forall i, jkilled s i = true -> jdone s i = true).

Lemma updT_same : forall t id v, t id = v -> forall x, updT t id v x = t x.
Proof.
  intros t id v H x. unfold updT. destruct (str_eqb x id) eqn:E; [|reflexivity].
  apply str_eqb_spec in E. subst x. symmetry. exact H.
Qed.

Lemma requeue_repo_id : forall dn l tbl,
  (forall id i, In (id, i) l -> dn i = false -> tbl id = Some i) ->
  forall x, requeue dec_repo dn l tbl x = tbl x.
Proof.
  intros dn l. induction l as [|[id i] l IH]; intros tbl H x; [reflexivity|].
  change (requeue dec_repo dn ((id, i) :: l) tbl)
    with (requeue dec_repo dn l (if negb (dn i) then updT tbl id (Some i) else tbl)).
  destruct (dn i) eqn:Hd; cbn [negb].
  - apply IH. intros id' i' Hin. apply H. right. exact Hin.
  - assert (Hi : tbl id = Some i) by (apply H; [left; reflexivity|exact Hd]).
    rewrite IH.
    + apply updT_same. exact Hi.
    + intros id' i' Hin Hd'. rewrite (updT_same tbl id (Some i) Hi). apply H; [right; exact Hin|exact Hd'].
Qed.

Lemma in_forget : forall id e l, In e (forget id l) -> In e l.
Proof. intros id e l H. unfold forget in H. apply filter_In in H. tauto. Qed.

Lemma updB_true_mono : forall t k x, updB t k true x = false -> t x = false.
Proof. intros t k x. unfold updB. destruct (Nat.eqb x k); [discriminate|auto]. Qed.

Lemma mark_props : forall s id k, coherent s ->
  table (mark s id k) = table s /\ held (mark s id k) = held s /\ fresh (mark s id k) = fresh s /\
  (forall i, jdone (mark s id k) i = false -> jdone s i = false) /\
  (forall i, jkilled (mark s id k) i = true -> jdone (mark s id k) i = true).
Proof.
  intros s id k [_ Hk]. unfold mark. destruct (table s id) as [i|]; [|repeat split; auto].
  destruct (jdone s i) eqn:Hd; [repeat split; auto|]. cbn [table held fresh jdone jkilled].
  repeat split; auto.
  - intros j. apply updB_true_mono.
  - intros j. unfold updB. destruct (Nat.eqb j i) eqn:E; [reflexivity|].
    destruct k; [rewrite E|]; apply Hk.
Qed.

Lemma coherent_mark_forget : forall s id k c, coherent s ->
  coherent (let s1 := mark s id k in
            mkC (table s1) (jdone s1) (jkilled s1) (updH (held s1) c (forget id (held s1 c))) (fresh s1)).
Proof.
  intros s id k c H. destruct (mark_props s id k H) as [Ht [Hh [_ [Hm Hk']]]]. destruct H as [Hc _].
  cbn zeta. split; cbn [table held jdone jkilled]; [|exact Hk'].
  intros c' id' i' Hin Hd. rewrite Ht, Hh in *. apply (Hc c'); [|apply Hm; exact Hd].
  unfold updH in Hin. destruct (Nat.eqb c' c) eqn:E; [|exact Hin].
  apply Nat.eqb_eq in E. subst c'. eapply in_forget. exact Hin.
Qed.

Lemma coherent_step : forall s o, coherent s -> coherent (cstep dec_repo s o).
Proof.
  intros s o H. destruct o as [id|c id|c id|c id|id|id|c]; cbn [cstep].
  - (* CAdd *)
    destruct H as [Hc Hk].
    assert (Hnew : (forall j, table s id = Some j -> jkilled s j = true) ->
              coherent (mkC (updT (table s) id (Some (fresh s))) (jdone s) (jkilled s) (held s) (S (fresh s)))).
    { intros H0. split; cbn [table held jdone jkilled]; [|exact Hk].
      intros c id' i' Hin Hd. unfold updT. destruct (str_eqb id' id) eqn:E; [|eapply Hc; eauto].
      apply str_eqb_spec in E. subst id'. pose proof (Hc c id i' Hin Hd) as Ht.
      pose proof (Hk i' (H0 i' Ht)). congruence. }
    destruct (table s id) as [i|] eqn:E.
    + destruct (jkilled s i) eqn:Ek; [|split; assumption]. apply Hnew. intros j Hj. injection Hj as <-. exact Ek.
    + apply Hnew. discriminate.
  - (* CPull *)
    destruct (table s id) as [i|] eqn:E; [|exact H]. destruct (jdone s i) eqn:Hd; [exact H|].
    destruct H as [Hc Hk]. split; cbn [table held jdone jkilled]; [|exact Hk].
    intros c' id' i' Hin Hd'. unfold updH in Hin. destruct (Nat.eqb c' c) eqn:Ec; [|eapply Hc; eauto].
    destruct Hin as [Heq|Hin]; [injection Heq as <- <-; exact E|].
    apply in_forget in Hin. apply Nat.eqb_eq in Ec. subst c'. eapply Hc; eauto.
  - apply coherent_mark_forget. exact H.
  - apply coherent_mark_forget. exact H.
  - (* CTimeout *)
    destruct (mark_props s id false H) as [Ht [Hh [_ [Hm Hk']]]]. destruct H as [Hc _].
    split; [|exact Hk']. intros c id' i' Hin Hd. rewrite Ht, Hh in *. eapply Hc; eauto.
  - (* CDrop *)
    destruct (table s id) as [i|] eqn:E; [|exact H]. destruct (jdone s i) eqn:Hd; [|exact H].
    destruct H as [Hc Hk]. split; cbn [table held jdone jkilled]; [|exact Hk].
    intros c id' i' Hin Hd'. unfold updT. destruct (str_eqb id' id) eqn:Ei; [|eapply Hc; eauto].
    apply str_eqb_spec in Ei. subst id'. pose proof (Hc c id i' Hin Hd') as Ht. rewrite E in Ht.
    injection Ht as ->. congruence.
  - (* CDisconnect *)
    destruct H as [Hc Hk]. split; cbn [table held jdone jkilled]; [|exact Hk].
    intros c' id' i' Hin Hd. rewrite requeue_repo_id; [|intros a b; apply Hc].
    unfold updH in Hin. destruct (Nat.eqb c' c); [destruct Hin|]. eapply Hc; eauto.
Qed.

Lemma coherent_c0 : coherent c0.
Proof. split; cbn; [intros _ _ _ []|discriminate]. Qed.

Lemma coherent_fold : forall ops s, coherent s -> coherent (fold_left (cstep dec_repo) ops s).
Proof. induction ops as [|o ops IH]; intros s H; [exact H|]. cbn [fold_left]. apply IH, coherent_step, H. Qed.

Theorem crun_coherent : forall ops, coherent (crun dec_repo ops).
Proof. intros ops. apply coherent_fold, coherent_c0. Qed.

(* closing any connection after any history leaves every id registered to the same job object, with the same state:
   render_status (a function of the registered jobs' snapshots) answers the same before and after *)
Theorem disconnect_preserves_registration : forall ops c id,
  let s := crun dec_repo ops in
  let s' := cstep dec_repo s (CDisconnect c) in
  table s' id = table s id /\ jdone s' = jdone s /\ jkilled s' = jkilled s /\ served_done s' id = served_done s id.
Proof.
  intros ops c id. cbn zeta. destruct (crun_coherent ops) as [Hc _].
  assert (Ht : table (cstep dec_repo (crun dec_repo ops) (CDisconnect c)) id = table (crun dec_repo ops) id).
  { cbn [cstep table]. apply requeue_repo_id. intros a b. apply Hc. }
  repeat split; auto. unfold served_done. rewrite Ht. reflexivity.
Qed.

(* ... and along the whole history: a job object that a connection still holds unfinished is the registered one *)
Theorem held_unfinished_is_registered : forall ops c id i,
  let s := crun dec_repo ops in In (id, i) (held s c) -> jdone s i = false -> table s id = Some i.
Proof. intros ops c id i. cbn zeta. destruct (crun_coherent ops) as [Hc _]. apply Hc. Qed.

(* seeded/C19-7: the test by id.  Render job pulled by connection 1, killed, re-added under the same id, pulled by
   connection 2; connection 1 closes: the killed incarnation 0 is registered again over the live incarnation 1;
   the status source says `done` while the job worker 2 holds is not; worker 2's finish then hits the stale object
   and the live job never becomes done. *)
Definition jid : str := [120%N].
Definition byid_history : list cop := [CAdd jid; CPull 1 jid; CKill 0 jid; CAdd jid; CPull 2 jid].

Theorem disconnect_byid_refuted :
  let s := crun dec_byid byid_history in
  let s' := cstep dec_byid s (CDisconnect 1) in
  let s'' := cstep dec_byid s' (CFinish 2 jid) in
  table s jid = Some 1 /\ served_done s jid = Some false /\
  table s' jid = Some 0 /\ served_done s' jid = Some true /\ jkilled s' 0 = true /\ jdone s' 1 = false /\
  table s'' jid = Some 0 /\ jdone s'' 1 = false /\
  (* the same history is harmless with the repo's test *)
  table (cstep dec_repo (crun dec_repo byid_history) (CDisconnect 1)) jid = Some 1.
Proof. vm_compute. repeat split. Qed.
