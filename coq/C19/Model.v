(* C19 — executable model of mwlib.core.nserve.Application.do_render_status (nserve.py:387-420),
   _process_and_return_finished_state (:370-385), get_content_disposition[_values] (:198-221),
   the job ids of do_render (:354-366), and of the life cycle of one job in qs.jobs.workq as seen
   through rpc_qinfo / job._json (jobs.py:54-66, qserve.py:74-78).
   Only definitions here; lemmas are in Proofs*.v. *)
From Coq Require Import List NArith ZArith Bool String Ascii.
From MW Require Import Common.Str C19.Gen_writers.
Import ListNotations.
Local Open Scope N_scope.

Definition s2l (s : string) : str := map N_of_ascii (list_ascii_of_string s).

(* ------------------------------------------------------------------ Python / JSON values *)

(* the values that can travel through the queue's JSON RPC (floats are not modelled) *)
Inductive pyval :=
| VNone
| VBool (b : bool)
| VInt (z : Z)
| VStr (s : str)
| VList (l : list pyval)
| VDict (kvs : list (str * pyval)).

(* bool(v) *)
Definition truthy (v : pyval) : bool :=
  match v with
  | VNone => false
  | VBool b => b
  | VInt z => negb (Z.eqb z 0)
  | VStr s => match s with [] => false | _ => true end
  | VList l => match l with [] => false | _ => true end
  | VDict k => match k with [] => false | _ => true end
  end.

Fixpoint assoc {A} (k : str) (l : list (str * A)) : option A :=
  match l with
  | [] => None
  | (k', v) :: r => if str_eqb k k' then Some v else assoc k r
  end.

(* the `_json()` view of a job: `__dict__` minus finish_event.  Class-level defaults (done=False,
   error=None, result=None) are NOT in the dict until assigned, hence `option`. *)
Record snap := mkSnap {
  s_info : option pyval;
  s_done : option pyval;
  s_error : option pyval;
  s_result : option pyval
}.

Definition empty_snap : snap := mkSnap None None None None.

(* d.get(k, default) *)
Definition get_or (o : option pyval) (d : pyval) : pyval := match o with Some v => v | None => d end.

(* ------------------------------------------------------------------ job ids *)

Definition k_render : str := Eval compute in s2l ":render-".
Definition k_makezip : str := Eval compute in s2l ":makezip".
Definition render_jobid (c w : str) : str := c ++ k_render ++ w.      (* f"{collection_id}:render-{writer}" *)
Definition makezip_jobid (c : str) : str := c ++ k_makezip.            (* f"{collection_id}:makezip" *)

(* ------------------------------------------------------------------ content disposition *)

(* str.isspace (checked exhaustively against CPython by the tie) *)
Definition py_isspace (c : N) : bool :=
  ((9 <=? c) && (c <=? 13)) || ((28 <=? c) && (c <=? 32)) || (c =? 133) || (c =? 160) || (c =? 5760)
  || ((8192 <=? c) && (c <=? 8202)) || (c =? 8232) || (c =? 8233) || (c =? 8239) || (c =? 8287) || (c =? 12288).

Fixpoint lstrip (s : str) : str :=
  match s with
  | c :: s' => if py_isspace c then lstrip s' else s
  | [] => []
  end.

Definition strip (s : str) : str := rev (lstrip (rev (lstrip s))).

(* .encode("ASCII", "ignore").decode() *)
Definition ascii_only (s : str) : str := filter (fun c => c <? 128) s.

Definition is_sep (c : N) : bool := existsb (N.eqb c) gen_sep_chars.

(* re.sub(<class of gen_sep_chars>+, <one space>, s): every maximal run of separator characters
   becomes one space (nserve.py:209) *)
Fixpoint collapse (prev_sep : bool) (s : str) : str :=
  match s with
  | [] => []
  | c :: s' =>
      if is_sep c then (if prev_sep then collapse true s' else 32 :: collapse true s')
      else c :: collapse false s'
  end.

Definition k_collection : str := Eval compute in s2l "collection".

Definition or_collection (s : str) : str := match s with [] => k_collection | _ => s end.

(* s.replace(" ", "-") *)
Definition dash (s : str) : str := map (fun c => if c =? 32 then 45 else c) s.

Definition alnum (c : N) : bool :=
  ((48 <=? c) && (c <=? 57)) || ((65 <=? c) && (c <=? 90)) || ((97 <=? c) && (c <=? 122)).

(* urllib.parse.quote(s) with the default safe="/" : _ALWAYS_SAFE = letters digits _ . - ~ *)
Definition unreserved (b : N) : bool := alnum b || (b =? 95) || (b =? 46) || (b =? 45) || (b =? 126).

Definition hexdigit (n : N) : N := if n <? 10 then 48 + n else 55 + n.     (* "%02X" *)

Definition quote_byte (b : N) : str :=
  if unreserved b || (b =? 47) then [b]
  else [37; hexdigit ((b / 16) mod 16); hexdigit (b mod 16)].

(* str.encode("utf-8") of one code point; None = UnicodeEncodeError (lone surrogate) *)
Definition utf8 (c : N) : option (list N) :=
  if c <? 128 then Some [c]
  else if c <? 2048 then Some [192 + c / 64; 128 + c mod 64]
  else if c <? 65536 then
    if (55296 <=? c) && (c <=? 57343) then None
    else Some [224 + c / 4096; 128 + (c / 64) mod 64; 128 + c mod 64]
  else if c <? 1114112 then
    Some [240 + c / 262144; 128 + (c / 4096) mod 64; 128 + (c / 64) mod 64; 128 + c mod 64]
  else None.

Fixpoint quote (s : str) : option str :=
  match s with
  | [] => Some []
  | c :: s' =>
      match utf8 c, quote s' with
      | Some bs, Some r => Some (flat_map quote_byte bs ++ r)
      | _, _ => None
      end
  end.

Definition k_inline : str := Eval compute in s2l "inline; filename=".
Definition k_star : str := Eval compute in s2l ";filename*=UTF-8''".
Definition k_dot : N := 46.

Inductive exc := KeyError | TypeError | AttributeError | UnicodeEncodeError.

Section ContentDisposition.
  (* unicodedata.normalize("NFKD", .) : third-party oracle *)
  Variable nfkd : str -> str.

  (* get_content_disposition_values(filename, _) for a str (or falsy) filename: (ascii_fn, utf8_fn) *)
  Definition cd_values (filename : str) : str * str :=
    let f := or_collection (strip filename) in
    let a := ascii_only (nfkd f) in
    let a := or_collection (strip (collapse false a)) in
    (dash a, f).

  (* get_content_disposition(filename, ext) *)
  Definition content_disposition (filename ext : str) : exc + str :=
    let '(a, u) := cd_values filename in
    let base := k_inline ++ a ++ k_dot :: ext in
    if negb (str_eqb u a) then          (* utf8_fn is never empty *)
      match quote u with
      | Some q => inr (base ++ k_star ++ q ++ k_dot :: ext)
      | None => inl UnicodeEncodeError
      end
    else inr base.

  (* filename as it arrives: more.get("suggested_filename") -> None or any JSON value *)
  Definition content_disposition_val (filename : option pyval) (ext : str) : exc + str :=
    match filename with
    | None => content_disposition [] ext
    | Some v =>
        if truthy v then
          match v with
          | VStr s => content_disposition s ext
          | _ => inl AttributeError            (* .strip() on a non-string *)
          end
        else content_disposition [] ext
    end.

  (* ---------------------------------------------------------------- status *)

  Record finished_more := mkMore {
    f_url : option pyval;
    f_size : option pyval;
    f_sugg : option pyval;
    f_ctype : option str;
    f_cdisp : option str
  }.

  Inductive response :=
  | Failed (err : pyval)
  | Finished (m : finished_more)
  | Progress (status : pyval)
  | Crash (e : exc).

  Definition k_url : str := Eval compute in s2l "url".
  Definition k_size : str := Eval compute in s2l "size".
  Definition k_sugg : str := Eval compute in s2l "suggested_filename".
  Definition k_status : str := Eval compute in s2l "status".

  (* the try-block of _process_and_return_finished_state: inl = uncaught exception,
     inr (url, size, suggested_filename) = the three optional entries of `more` *)
  Definition result_part (res : snap) : exc + (option pyval * option pyval * option pyval) :=
    match s_result res with
    | None => inr (None, None, None)                       (* res["result"] -> KeyError, caught *)
    | Some r =>
        if truthy r then
          match r with
          | VDict kvs =>
              match assoc k_url kvs with
              | None => inr (None, None, None)             (* KeyError, caught *)
              | Some u =>
                  match assoc k_size kvs with
                  | None => inr (Some u, None, None)       (* KeyError after url was stored *)
                  | Some sz => inr (Some u, Some sz, Some (get_or (assoc k_sugg kvs) (VStr [])))
                  end
              end
          | _ => inl TypeError                             (* subscripting a str/int/list/bool with "url" *)
          end
        else inr (None, None, None)
    end.

  Definition is_nil (s : str) : bool := match s with [] => true | _ => false end.

  Definition finished (res : snap) (ext ctype : str) : response :=
    match result_part res with
    | inl e => Crash e
    | inr (u, sz, sf) =>
        let ct := if is_nil ctype then None else Some ctype in
        if is_nil ext then Finished (mkMore u sz sf ct None)
        else match content_disposition_val sf ext with
             | inl e => Crash e
             | inr d => Finished (mkMore u sz sf ct (Some d))
             end
    end.

  Definition or_empty (o : option snap) : snap := match o with Some s => s | None => empty_snap end.

  Definition fetched_status : pyval := VDict [(k_status, VStr gen_progress_text)].

  (* do_render_status after the two qinfo calls: `render`/`mk` are the snapshots of the jobs
     "<c>:render-<w>" and "<c>:makezip" (None = job unknown to the queue) *)
  Definition status (render mk : option snap) (w : str) : response :=
    match assoc w writers with
    | None => Crash KeyError                                (* name2writer[writer] *)
    | Some (ext, ctype) =>
        let res := or_empty render in
        let info := get_or (s_info res) (VDict []) in
        let done := get_or (s_done res) (VBool false) in
        let error := get_or (s_error res) VNone in
        if truthy error then Failed error
        else if truthy done then finished res ext ctype
        else if negb (truthy info) then
          let res2 := or_empty mk in
          if negb (truthy (get_or (s_done res2) (VBool false)))
          then Progress (get_or (s_info res2) (VDict []))
          else Progress fetched_status
        else Progress info
    end.

  Definition do_render_status (qinfo : str -> option snap) (c w : str) : response :=
    status (qinfo (render_jobid c w)) (qinfo (makezip_jobid c)) w.
End ContentDisposition.

(* ------------------------------------------------------------------ life cycle of a job in workq *)

Local Open Scope Z_scope.

(* ghost: how the job got where it is (not part of the snapshot) *)
Inductive phase := Queued | Running | FinishedOK | FinishedErr | Killed | TimedOut.

Record job := mkJob {
  j_info : list (str * pyval);
  j_done : bool;                    (* done in __dict__ (only ever set to True) *)
  j_error : option pyval;           (* None = attribute not in __dict__ *)
  j_result : option pyval;
  j_timeout : Z;                    (* absolute time *)
  j_ttl : Z;
  j_deadline : option Z;
  j_drop : bool;
  j_phase : phase
}.

Definition k_killed : str := Eval compute in s2l "killed".
Definition k_timeout : str := Eval compute in s2l "timeout".

Inductive event :=
| Push (timeout : Z) (ttl : option Z)       (* workq.push(channel, jobid=id, timeout=, ttl=) *)
| Pull                                      (* workq.pop returned this job *)
| SetInfo (kvs : list (str * pyval))        (* workq.updatejob *)
| Finish (result error : pyval)             (* workq.finishjob *)
| Kill                                      (* workq.killjobs([id]) *)
| DropMark                                  (* workq.dropjobs([id]) *)
| Wait.                                     (* workq.waitjobs([id]) on a finished job *)

(* dict.update *)
Fixpoint dict_set (k : str) (v : pyval) (d : list (str * pyval)) : list (str * pyval) :=
  match d with
  | [] => [(k, v)]
  | (k', v') :: r => if str_eqb k k' then (k, v) :: r else (k', v') :: dict_set k v r
  end.

Definition dict_update (d u : list (str * pyval)) : list (str * pyval) :=
  fold_left (fun acc kv => dict_set (fst kv) (snd kv) acc) u d.

Definition pyval_is_str (v : pyval) (s : str) : bool :=
  match v with VStr t => str_eqb t s | _ => false end.

Definition new_job (now timeout : Z) (ttl : option Z) : job :=
  mkJob [] false None None (now + timeout) (match ttl with Some t => t | None => 3600 end) None false Queued.

Definition mark_finished (j : job) (result error : option pyval) (ttl : Z) (ph : phase) : job :=
  if j_done j then j
  else mkJob (j_info j) true error result (j_timeout j) ttl (j_deadline j) (j_drop j) ph.

(* one operation addressed to one job id; None = the id is not in id2job.
   inl tt = the real call raises KeyError (finishjob / updatejob / waitjobs on an unknown id). *)
Definition step (now : Z) (o : option job) (e : event) : unit + option job :=
  match e, o with
  | Push t ttl, None => inr (Some (new_job now t ttl))
  | Push t ttl, Some j =>
      match j_error j with
      | Some v => if pyval_is_str v k_killed then inr (Some (new_job now t ttl)) else inr (Some j)
      | None => inr (Some j)
      end
  | Pull, Some j =>
      inr (Some (if j_done j then j
                 else mkJob (j_info j) false (j_error j) (j_result j) (j_timeout j) (j_ttl j) (j_deadline j) (j_drop j) Running))
  | Pull, None => inr None
  | SetInfo kvs, Some j =>
      inr (Some (mkJob (dict_update (j_info j) kvs) (j_done j) (j_error j) (j_result j) (j_timeout j) (j_ttl j)
                       (j_deadline j) (j_drop j) (j_phase j)))
  | SetInfo _, None => inl tt
  | Finish r er, Some j =>
      let ttl := if truthy er then Z.min 10 (j_ttl j) else j_ttl j in
      inr (Some (mark_finished j (Some r) (Some er) ttl (if truthy er then FinishedErr else FinishedOK)))
  | Finish _ _, None => inl tt
  | Kill, Some j => inr (Some (mark_finished j (j_result j) (Some (VStr k_killed)) (j_ttl j) Killed))
  | Kill, None => inr None
  | DropMark, Some j =>
      inr (Some (mkJob (j_info j) (j_done j) (j_error j) (j_result j) (j_timeout j) (j_ttl j) (j_deadline j) true (j_phase j)))
  | DropMark, None => inr None
  | Wait, Some j => inr (if j_done j && j_drop j then None else Some j)
  | Wait, None => inl tt
  end.

(* handletimeouts at time `now`, per job *)
Definition tick (now : Z) (j : job) : job :=
  if negb (j_done j) && (j_timeout j <=? now)
  then mark_finished j (j_result j) (Some (VStr k_timeout)) (j_ttl j) TimedOut
  else j.

(* dropdead at (integer) time `now`, per job: None = deleted from id2job *)
Definition dropdead (now : Z) (j : job) : option job :=
  match j_deadline j with
  | Some d =>
      if negb (d =? 0) && (d <? now) then None
      else if j_done j && (d =? 0)
      then Some (mkJob (j_info j) (j_done j) (j_error j) (j_result j) (j_timeout j) (j_ttl j) (Some (now + j_ttl j)) (j_drop j) (j_phase j))
      else Some j
  | None =>
      if j_done j
      then Some (mkJob (j_info j) (j_done j) (j_error j) (j_result j) (j_timeout j) (j_ttl j) (Some (now + j_ttl j)) (j_drop j) (j_phase j))
      else Some j
  end.

(* rpc_qinfo: the four fields do_render_status reads *)
Definition snap_of (j : job) : snap :=
  mkSnap (Some (VDict (j_info j)))
         (if j_done j then Some (VBool true) else None)
         (j_error j)
         (j_result j).

(* the queue: job id -> job *)
Definition store := str -> option job.
Definition empty_store : store := fun _ => None.
Definition upd (st : store) (id : str) (o : option job) : store :=
  fun id' => if str_eqb id' id then o else st id'.

Inductive op :=
| OnJob (now : Z) (id : str) (e : event)
| Tick (now : Z)                  (* handletimeouts *)
| DropDead (now : Z).             (* watchdog *)

Definition bind_opt {A B} (o : option A) (f : A -> option B) : option B :=
  match o with Some a => f a | None => None end.

Definition apply_op (st : store) (o : op) : store :=
  match o with
  | OnJob now id e =>
      match step now (st id) e with
      | inr o' => upd st id o'
      | inl _ => st                     (* the call raised; nothing changed *)
      end
  | Tick now => fun id => option_map (tick now) (st id)
  | DropDead now => fun id => bind_opt (st id) (dropdead now)
  end.

Definition run (ops : list op) : store := fold_left apply_op ops empty_store.

Definition qinfo_of (st : store) : str -> option snap := fun id => option_map snap_of (st id).
