(* C19 — client connections of the queue server (executable definitions only; lemmas live in ProofsConn.v).

   qs/qserve.py keeps one QPlugin handler per client connection.  A handler remembers the job OBJECTS pulled through
   it (running_jobs: job id -> job object, qserve.py:57) and, when the connection closes, shutdown() (qserve.py:102-107)
   hands those that are not finished back to the queue: workq.pushjob(j) stores `id2job[j.jobid] = j` (jobs.py
   pushjob).  A job id can stand for several job objects over time: push() creates a NEW object under an id whose
   registered object was killed (jobs.py push), or that is no longer registered.  So the table entry of an id - the
   object whose snapshot rpc_qinfo serves and render_status reports - may be overwritten by shutdown().

   Incarnations (job objects) are numbered in order of creation.
     table   id -> incarnation registered under it (workq.id2job)
     jdone, jkilled   per incarnation: job.done, job.error == "killed"
     held    connection -> its running_jobs, (id, incarnation) with at most one entry per id (a dict)
   `dec tbl done id i` is the test shutdown() applies to a held incarnation i of id before pushing it back:
     dec_repo   `if j.done: continue`                               the handler asks ITS OWN job object (qserve.py:104)
     dec_byid   `cur = workq.id2job.get(j.jobid); if cur is None or cur.done: continue`   seeded/C19-7: asks the table *)
From Coq Require Import List NArith Bool Arith.
From MW Require Import Common.Str.
Import ListNotations.

Record cstate := mkC {
  table : str -> option nat;
  jdone : nat -> bool;
  jkilled : nat -> bool;
  held : nat -> list (str * nat);
  fresh : nat
}.

Definition c0 : cstate := mkC (fun _ => None) (fun _ => false) (fun _ => false) (fun _ => []) 0.

Inductive cop :=
| CAdd (id : str)                 (* rpc_qadd(jobid=id) -> workq.push: nserve's do_render, for both jobs          *)
| CPull (c : nat) (id : str)      (* rpc_qpull on connection c returned the job registered under id               *)
| CFinish (c : nat) (id : str)    (* rpc_qfinish on connection c (ok or error): finishjob + del running_jobs[id]  *)
| CKill (c : nat) (id : str)      (* rpc_qkill on connection c: killjobs + del running_jobs[id]                   *)
| CTimeout (id : str)             (* handletimeouts marks the job registered under id                            *)
| CDrop (id : str)                (* watchdog after the ttl / waitjobs on a job marked by dropjobs: only finished jobs *)
| CDisconnect (c : nat).          (* connection c closes: QPlugin.shutdown() of its handler                       *)

Definition updT (t : str -> option nat) (id : str) (v : option nat) : str -> option nat :=
  fun x => if str_eqb x id then v else t x.
Definition updB (t : nat -> bool) (k : nat) (v : bool) : nat -> bool := fun x => if Nat.eqb x k then v else t x.
Definition updH (h : nat -> list (str * nat)) (c : nat) (v : list (str * nat)) := fun x => if Nat.eqb x c then v else h x.
Definition forget (id : str) (l : list (str * nat)) := filter (fun e => negb (str_eqb (fst e) id)) l.

Definition decision := (str -> option nat) -> (nat -> bool) -> str -> nat -> bool.
Definition dec_repo : decision := fun _ dn _ i => negb (dn i).
Definition dec_byid : decision := fun tbl dn id _ => match tbl id with Some cur => negb (dn cur) | None => false end.

(* pushjob of every held job that passes the test *)
Definition requeue (dec : decision) (dn : nat -> bool) (l : list (str * nat)) (tbl : str -> option nat) :=
  fold_left (fun t e => if dec t dn (fst e) (snd e) then updT t (fst e) (Some (snd e)) else t) l tbl.

Definition mark (s : cstate) (id : str) (killed : bool) : cstate :=
  match table s id with
  | Some i => if jdone s i then s
              else mkC (table s) (updB (jdone s) i true) (if killed then updB (jkilled s) i true else jkilled s) (held s) (fresh s)
  | None => s
  end.

Definition cstep (dec : decision) (s : cstate) (o : cop) : cstate :=
  match o with
  | CAdd id =>
      let new := mkC (updT (table s) id (Some (fresh s))) (jdone s) (jkilled s) (held s) (S (fresh s)) in
      match table s id with
      | Some i => if jkilled s i then new else s
      | None => new
      end
  | CPull c id =>
      match table s id with
      | Some i => if jdone s i then s
                  else mkC (table s) (jdone s) (jkilled s) (updH (held s) c ((id, i) :: forget id (held s c))) (fresh s)
      | None => s
      end
  | CFinish c id =>
      let s1 := mark s id false in
      mkC (table s1) (jdone s1) (jkilled s1) (updH (held s1) c (forget id (held s1 c))) (fresh s1)
  | CKill c id =>
      let s1 := mark s id true in
      mkC (table s1) (jdone s1) (jkilled s1) (updH (held s1) c (forget id (held s1 c))) (fresh s1)
  | CTimeout id => mark s id false
  | CDrop id =>
      match table s id with
      | Some i => if jdone s i then mkC (updT (table s) id None) (jdone s) (jkilled s) (held s) (fresh s) else s
      | None => s
      end
  | CDisconnect c =>
      mkC (requeue dec (jdone s) (held s c) (table s)) (jdone s) (jkilled s) (updH (held s) c []) (fresh s)
  end.

Definition crun (dec : decision) (ops : list cop) : cstate := fold_left (cstep dec) ops c0.

(* what render_status is told about id: is the registered job finished? (None = no such job) *)
Definition served_done (s : cstate) (id : str) : option bool := option_map (jdone s) (table s id).
