(* C17 — lemmas about what a pull returns, finality of outcomes, idempotent re-add, waits. *)
From Coq Require Import List NArith Bool Lia Arith.
From MW Require Import C16.Model C16.Proofs.
Import ListNotations.
Open Scope N_scope.

(* ------------------------------------------------------------------ what is delivered *)

Definition good_delivery (o : out) : Prop :=
  match o with
  | ODeliver c chs j => j_done j = false /\ eligible (j_chan j) chs
  | OReleased c j => j_done j = true              (* released from a wait: the job record is finished *)
  | _ => True
  end.

Lemma mem_In : forall x l, In x l -> mem x l = true.
Proof.
  intros x l. induction l as [|y r IH]; intro H; [destruct H|]. cbn [mem].
  destruct H as [H|H]; [subst; rewrite N.eqb_refl; reflexivity|]. rewrite IH by exact H. apply orb_true_r.
Qed.

Lemma deliver_out : forall c chs x s o, In o (snd (deliver c chs x s)) ->
  exists j, o = ODeliver c chs j /\ getjob (s_jobs s) x = Some j.
Proof.
  intros c chs x s o. unfold deliver. destruct (getjob (s_jobs s) x) as [j|]; cbn [snd]; intro H; [|destruct H].
  destruct H as [H|[]]. exists j. auto.
Qed.

Lemma pop_out : forall c chs s o, Inv s [] [] -> In o (snd (pop_or_block c chs s)) -> good_delivery o.
Proof.
  intros c chs s o I. unfold pop_or_block. cbv zeta.
  pose proof (preenall_inv _ _ _ I) as I1. destruct (preenall_fields s) as (Hj&Hc&Hw&Hi&Hn).
  set (s1 := preenall s) in *.
  destruct (heads (s_queues s1) _) as [[p x]|] eqn:EH.
  - destruct (heads_spec _ _ _ EH) as (k&rest&Hk&Hq). cbn [snd].
    pose proof (q_get_In _ _ _ Hq) as Hin.
    destruct (inv_q _ _ _ I1 _ _ _ _ Hin (or_introl eq_refl)) as (j&Ej&Hch&Hp).
    rewrite Ej. intro H. apply deliver_out in H. destruct H as (j'&Ho&Ej'). sf. rewrite Ej in Ej'. inversion Ej'; subst j' o.
    cbn [good_delivery]. split.
    + unfold s1, preenall in Hq. sf. rewrite q_get_map in Hq. destruct (q_get (s_queues s) k) as [q0|]; [|discriminate].
      cbn in Hq. inversion Hq as [Hq']. apply preen_head in Hq'. cbn [snd] in Hq'. unfold is_done in Hq'.
      rewrite Hj in Ej. rewrite Ej in Hq'. exact Hq'.
    + destruct chs as [|c0 r]; [left; reflexivity|right]. rewrite Hch. apply mem_In. exact Hk.
  - cbn [snd]. intros [H|[]]. subst o. exact Logic.I.
Qed.

Lemma release_out : forall ser js cs o, In o (snd (release ser js cs)) -> exists c j, o = OReleased c j /\ getjob js ser = Some j.
Proof.
  intros ser js cs o. induction cs as [|y r IH]; cbn [release]; [intros []|].
  destruct (release ser js r) as [r' o']. cbn [snd] in *.
  destruct (c_st y) as [| |w|]; cbn [snd]; auto.
  destruct (w =? ser); cbn [snd]; auto.
  destruct (getjob js ser) as [j|] eqn:E; auto.
  intros [H|H]; [exists (c_id y), j; auto|auto].
Qed.

Lemma evdone_out : forall s ser o, In o (snd (run_event (EvDone ser) s)) ->
  exists c j, o = OReleased c j /\ getjob (s_jobs s) ser = Some j.
Proof.
  intros s ser o. cbn [run_event]. destruct (release ser (s_jobs s) (s_conns s)) as [cs o'] eqn:ER.
  pose proof (release_out ser (s_jobs s) (s_conns s) o) as R. rewrite ER in R. cbn [snd] in R.
  destruct (getjob (s_jobs s) ser) as [j|] eqn:Ej; [|cbn [snd]; intro H; exact (R H)].
  destruct (j_drop j && has_waiter ser (s_conns s) && id_is (s_ids s) (j_id j) ser); cbn [snd]; intro H; exact (R H).
Qed.

Lemma run_event_out : forall e s o, Inv s [] [] -> (forall ser, e = EvDone ser -> really_done (s_jobs s) ser) ->
  In o (snd (run_event e s)) -> good_delivery o.
Proof.
  intros e s o I HD. destruct e as [c|c|ser]; cbn [run_event].
  - destruct (c_st (get_conn (s_conns s) c)) as [|chs [x|]|w|] eqn:ES; try (intros []).
    destruct (is_done (s_jobs s) x) eqn:D.
    + apply pop_out; auto.
    + intro H. apply deliver_out in H. destruct H as (j&Ho&Ej). subst o. cbn [good_delivery].
      destruct (inv_mb _ _ _ I _ _ _ ES) as (j'&Ej'&He). rewrite Ej in Ej'. inversion Ej'; subst j'.
      split; [|exact He]. unfold is_done in D. rewrite Ej in D. exact D.
  - destruct (c_st (get_conn (s_conns s) c)) as [|chs mb|w|]; unfold die; cbn [snd];
      try (intros [H|[]]; subst o; exact Logic.I); intros [].
  - intro H. destruct (evdone_out s ser o H) as (c&j&Ho&Ej). subst o. cbn [good_delivery].
    destruct (HD ser eq_refl) as (j'&Ej'&Dj'). congruence.
Qed.

Lemma run_events_out : forall es s o, Inv s [] [] -> hub_ok (s_jobs s) es -> In o (snd (run_events es s)) -> good_delivery o.
Proof.
  induction es as [|e r IH]; intros s o I HD; cbn [run_events]; [intros []|].
  assert (HDe : forall ser, e = EvDone ser -> really_done (s_jobs s) ser) by (intros ser E; apply HD; left; exact E).
  pose proof (run_event_inv e s I HDe) as I1. pose proof (run_event_out e s o I HDe) as O1. pose proof (run_event_jobs e s) as J1.
  destruct (run_event e s) as [s1 o1]. cbn [fst snd] in *.
  assert (HD1 : hub_ok (s_jobs s1) r) by (rewrite J1; intros ser Hin; apply HD; right; exact Hin).
  specialize (IH s1 o I1 HD1). destruct (run_events r s1) as [s2 o2]. cbn [snd] in *.
  intro H. apply in_app_or in H. destruct H; auto.
Qed.

Lemma step_out : forall s o x, HubOK s -> Inv s [] [] -> In x (snd (step s o)) -> good_delivery x.
Proof.
  intros s o x K I. destruct o as [ch prio name tmo|c chs| |c i res e|c js|dt|c|k|c i|i|i v| |dt|js|]; cbn [step].
  - destruct (push ch prio name tmo s). cbn [snd]. intros [H|[]]; subst; exact Logic.I.
  - destruct (is_idle c s); [apply pop_out; exact I|]. cbn [snd]. intros [H|[]]; subst; exact Logic.I.
  - apply run_events_out; [eapply inv_same; eauto|exact K].
  - destruct (is_idle c s); [destruct (id_lookup (s_ids s) i)|]; cbn [snd]; intros [H|[]]; subst; exact Logic.I.
  - destruct (is_idle c s); cbn [snd]; intros [H|[]]; subst; exact Logic.I.
  - cbn [snd]. intros [H|[]]; subst; exact Logic.I.
  - destruct (c_st (get_conn (s_conns s) c)); cbn [snd]; intros [H|[]]; subst; exact Logic.I.
  - cbn [snd]. intros [H|[]]; subst; exact Logic.I.
  - destruct (is_idle c s); [destruct (id_lookup (s_ids s) i) as [ser|]; [destruct (getjob (s_jobs s) ser) as [j|]; [destruct (j_done j) eqn:ED|]|]|];
      cbn [snd]; intros [H|[]]; subst; try exact Logic.I.
    cbn [good_delivery]. exact ED.
  - cbn [snd]. intros [H|[]]; subst; exact Logic.I.
  - destruct (id_lookup (s_ids s) i); cbn [snd]; intros [H|[]]; subst; exact Logic.I.
  - cbn [snd]. intros [H|[]]; subst; exact Logic.I.
  - cbn [snd]. intros [H|[]]; subst; exact Logic.I.
  - cbn [snd]. intros [H|[]]; subst; exact Logic.I.
  - cbn [snd]. intros [H|[]]; subst; exact Logic.I.
Qed.

Lemma delivered_ok : forall h o c chs j,
  In (ODeliver c chs j) (snd (step (run h init) o)) ->
  j_done j = false /\ (chs = [] \/ mem (j_chan j) chs = true).
Proof. intros h o c chs j H. apply (step_out _ _ _ (reachable_hub h) (reachable_inv h) H). Qed.

(* whatever op of whatever history releases a waiting client (at once from Wait, or at RunLoop through the finish
   event): the job record it returns is finished *)
Lemma released_only_finished : forall h o c j,
  In (OReleased c j) (snd (step (run h init) o)) -> j_done j = true.
Proof. intros h o c j H. apply (step_out _ _ _ (reachable_hub h) (reachable_inv h) H). Qed.

(* ------------------------------------------------------------------ finality *)

Definition fin_le (js js' : list job) : Prop :=
  forall x j, getjob js x = Some j -> j_done j = true ->
  exists j', getjob js' x = Some j' /\ j_done j' = true /\ j_err j' = j_err j /\ j_res j' = j_res j.

Lemma fin_le_refl : forall js, fin_le js js.
Proof. intros js x j E D. exists j. auto. Qed.

Lemma fin_le_eq : forall js js', js' = js -> fin_le js js'.
Proof. intros; subst; apply fin_le_refl. Qed.

Lemma fin_le_trans : forall a b c, fin_le a b -> fin_le b c -> fin_le a c.
Proof.
  intros a b c H1 H2 x j E D. destruct (H1 _ _ E D) as (j1&E1&D1&He1&Hr1).
  destruct (H2 _ _ E1 D1) as (j2&E2&D2&He2&Hr2). exists j2. repeat split; congruence.
Qed.

Lemma mark_fin_le : forall ser u s, fin_le (s_jobs s) (s_jobs (mark_finished ser u s)).
Proof.
  intros ser u s. unfold mark_finished. destruct (getjob (s_jobs s) ser) as [j0|] eqn:E0; [|apply fin_le_refl].
  destruct (j_done j0) eqn:D0; [apply fin_le_refl|]. sf. intros x j E D.
  rewrite getjob_setjob by (intros; cbn; eapply getjob_serial; eauto).
  destruct (x =? ser) eqn:Ex.
  - apply N.eqb_eq in Ex. subst x. rewrite E in E0. inversion E0; subst. congruence.
  - exists j. auto.
Qed.

Lemma killjobs_fin_le : forall js s, fin_le (s_jobs s) (s_jobs (killjobs js s)).
Proof.
  induction js as [|i r IH]; intro s; cbn [killjobs]; [apply fin_le_refl|].
  destruct (id_lookup (s_ids s) i); [|apply IH]. eapply fin_le_trans; [apply mark_fin_le|apply IH].
Qed.

Lemma timeouts_fin_le : forall q s, fin_le (s_jobs s) (s_jobs (timeouts_loop q s)).
Proof.
  induction q as [|x r IH]; intro s; cbn [timeouts_loop]; [apply fin_le_refl|].
  destruct (is_done (s_jobs s) (snd (snd x))); [apply IH|].
  destruct (s_now s <? fst x); [apply fin_le_refl|]. eapply fin_le_trans; [apply mark_fin_le|apply IH].
Qed.

Lemma setjob_fin_le : forall js ser f,
  (forall j, j_serial (f j) = j_serial j /\ j_done (f j) = j_done j /\ j_err (f j) = j_err j /\ j_res (f j) = j_res j) ->
  fin_le js (setjob ser f js).
Proof.
  intros js ser f Hf x j E D. rewrite getjob_setjob by (intros j0 H0; rewrite (proj1 (Hf j0)); exact H0).
  destruct (x =? ser) eqn:Ex.
  - apply N.eqb_eq in Ex. subst x. rewrite E. cbn. exists (f j). destruct (Hf j) as (_&H1&H2&H3).
    repeat split; congruence.
  - exists j. auto.
Qed.

Lemma dropjobs_fin_le : forall js s, fin_le (s_jobs s) (s_jobs (dropjobs js s)).
Proof.
  induction js as [|i r IH]; intro s; cbn [dropjobs]; [apply fin_le_refl|].
  destruct (id_lookup (s_ids s) i) as [ser|]; [|apply IH].
  eapply fin_le_trans; [|apply IH]. sf. apply setjob_fin_le. intro j. cbn. auto.
Qed.

Lemma dropdead_fin_le : forall l s, fin_le (s_jobs s) (s_jobs (dropdead_loop l s)).
Proof.
  induction l as [|i r IH]; intro s; cbn [dropdead_loop]; [apply fin_le_refl|].
  destruct (id_lookup (s_ids s) i) as [ser|]; [|apply IH].
  destruct (getjob (s_jobs s) ser) as [j|]; [|apply IH]. cbv zeta.
  eapply fin_le_trans; [|apply IH].
  destruct (match j_dl j with Some d => negb (d =? 0) && (d <? s_now s) | None => false end);
    destruct (j_done j && negb (dl_truthy (j_dl j))); sf; try apply fin_le_refl;
    apply setjob_fin_le; intro j0; cbn; auto.
Qed.

Lemma step_fin_le : forall s o, Inv s [] [] -> fin_le (s_jobs s) (s_jobs (fst (step s o))).
Proof.
  intros s o I. destruct o as [ch prio name tmo|c chs| |c i res e|c js|dt|c|k|c i|i|i v| |dt|js|]; cbn [step].
  - assert (F : forall j0, j_serial j0 = s_count s + 1 ->
                fin_le (s_jobs s) (s_jobs (pushjob (s_count s + 1) (set_jobs (j0 :: s_jobs s) (set_count (s_count s + 1) s))))).
    { intros j0 Hs. destruct (pushjob_jobs (s_count s + 1) (set_jobs (j0 :: s_jobs s) (set_count (s_count s + 1) s))) as [H _].
      rewrite H. sf. intros x j E D. exists j. repeat split; auto. cbn [getjob]. rewrite Hs.
      pose proof (inv_tab _ _ _ I _ _ E). destruct (s_count s + 1 =? x) eqn:Ex; [apply N.eqb_eq in Ex; lia|exact E]. }
    unfold push. destruct name as [n|]; [|apply F; reflexivity].
    destruct (id_lookup (s_ids s) (JName n)) as [ser|]; [|apply F; reflexivity].
    destruct (getjob (s_jobs s) ser) as [j0|]; [|apply F; reflexivity].
    destruct (err_is_killed (j_err j0)); [apply F; reflexivity|apply fin_le_refl].
  - destruct (is_idle c s); [apply fin_le_eq, pop_jobs|apply fin_le_refl].
  - apply fin_le_eq. rewrite run_events_jobs. reflexivity.
  - destruct (is_idle c s); [|apply fin_le_refl]. destruct (id_lookup (s_ids s) i); [|apply fin_le_refl].
    cbn [fst]. sf. apply mark_fin_le.
  - destruct (is_idle c s); [|apply fin_le_refl]. cbn [fst]. sf. apply killjobs_fin_le.
  - cbn [fst]. unfold handletimeouts, preenall. sf. eapply fin_le_trans; [|apply timeouts_fin_le]. apply fin_le_refl.
  - destruct (c_st (get_conn (s_conns s) c)); apply fin_le_refl.
  - apply fin_le_refl.
  - destruct (is_idle c s); [|apply fin_le_refl]. destruct (id_lookup (s_ids s) i) as [ser|]; [|apply fin_le_refl].
    destruct (getjob (s_jobs s) ser) as [j|]; [|apply fin_le_refl]. destruct (j_done j); [destruct (j_drop j && id_is (s_ids s) (j_id j) ser)|]; apply fin_le_refl.
  - apply fin_le_refl.
  - destruct (id_lookup (s_ids s) i) as [ser|]; [|apply fin_le_refl]. cbn [fst]. sf. intros x j E D.
    rewrite getjob_setjob by (intros; cbn; assumption). destruct (x =? ser) eqn:Ex.
    + apply N.eqb_eq in Ex. subst x. rewrite E. cbn. eexists; split; [reflexivity|auto].
    + exists j. auto.
  - apply fin_le_refl.
  - apply fin_le_refl.
  - cbn [fst]. apply dropjobs_fin_le.
  - cbn [fst]. apply dropdead_fin_le.
Qed.

Lemma run_fin_le : forall h2 s, Good s -> fin_le (s_jobs s) (s_jobs (run h2 s)).
Proof.
  induction h2 as [|o r IH]; intros s G; [apply fin_le_refl|].
  change (run (o :: r) s) with (run r (fst (step s o))).
  eapply fin_le_trans; [apply step_fin_le; apply G|apply IH; apply step_good; exact G].
Qed.

Lemma first_outcome_wins : forall h1 h2 x j,
  getjob (s_jobs (run h1 init)) x = Some j -> j_done j = true ->
  exists j', getjob (s_jobs (run h2 (run h1 init))) x = Some j' /\
             j_done j' = true /\ j_err j' = j_err j /\ j_res j' = j_res j.
Proof. intros h1 h2 x j. apply run_fin_le. apply reachable_good. Qed.

(* ------------------------------------------------------------------ re-add, wait *)

Lemma readd_idempotent : forall s ch prio n tmo ser j,
  id_lookup (s_ids s) (JName n) = Some ser -> getjob (s_jobs s) ser = Some j ->
  err_is_killed (j_err j) = false ->
  step s (Add ch prio (Some n) tmo) = (s, [OJid (JName n)]).
Proof. intros s ch prio n tmo ser j El E K. cbn [step]. unfold push. rewrite El, E, K. reflexivity. Qed.

Lemma readd_after_kill_is_new : forall s ch prio n tmo ser j,
  id_lookup (s_ids s) (JName n) = Some ser -> getjob (s_jobs s) ser = Some j ->
  err_is_killed (j_err j) = true ->
  s_count (fst (step s (Add ch prio (Some n) tmo))) = s_count s + 1 /\
  snd (step s (Add ch prio (Some n) tmo)) = [OJid (JName n)].
Proof.
  intros s ch prio n tmo ser j El E K. cbn [step]. unfold push. rewrite El, E, K. cbn [fst snd].
  split; [|reflexivity]. match goal with |- s_count (pushjob ?x ?t) = _ => destruct (pushjob_jobs x t) as [_ H]; rewrite H end. reflexivity.
Qed.

Lemma wait_done_immediate : forall s c i ser j,
  is_idle c s = true -> id_lookup (s_ids s) i = Some ser -> getjob (s_jobs s) ser = Some j -> j_done j = true ->
  j_drop j = false ->
  step s (Wait c i) = (s, [OReleased c j]).
Proof. intros s c i ser j EI El E D Dr. cbn [step]. rewrite EI, El, E, D, Dr. reflexivity. Qed.

(* ... and with the drop flag the job is handed over and its id is forgotten - provided the id still names THIS
   job object (jobs.py:234, b6f8314) *)
Lemma wait_done_dropped : forall s c i ser j,
  is_idle c s = true -> id_lookup (s_ids s) i = Some ser -> getjob (s_jobs s) ser = Some j -> j_done j = true ->
  j_drop j = true -> id_is (s_ids s) (j_id j) ser = true ->
  step s (Wait c i) = (set_ids (id_del (s_ids s) (j_id j)) s, [OReleased c j]).
Proof. intros s c i ser j EI El E D Dr Is. cbn [step]. rewrite EI, El, E, D, Dr, Is. reflexivity. Qed.

Lemma wait_undone_blocks : forall s c i ser j,
  is_idle c s = true -> id_lookup (s_ids s) i = Some ser -> getjob (s_jobs s) ser = Some j -> j_done j = false ->
  snd (step s (Wait c i)) = [OBlocked] /\ c_st (get_conn (s_conns (fst (step s (Wait c i)))) c) = BWait ser.
Proof.
  intros s c i ser j EI El E D. cbn [step]. rewrite EI, El, E, D. cbn [fst snd]. split; [reflexivity|].
  sf. pose proof (get_put_same (s_conns s) (mkConn c (BWait ser) (c_run (get_conn (s_conns s) c)))) as G. sf. rewrite G. reflexivity.
Qed.

(* the only hub event that releases a waiting client is the finish event of its job; every client it releases gets
   the job record (no KeyError any more, b6f8314), and the record is finished when the notification was queued by
   _mark_finished (HubOK) *)
Lemma released_is_done : forall s ser o, really_done (s_jobs s) ser ->
  In o (snd (run_event (EvDone ser) s)) ->
  exists c j, o = OReleased c j /\ getjob (s_jobs s) ser = Some j /\ j_done j = true.
Proof.
  intros s ser o (j'&Ej'&Dj') H. destruct (evdone_out s ser o H) as (c&j&Ho&Ej). exists c, j. repeat split; auto. congruence.
Qed.
