(* C17 — priority/FIFO order: channel queues stay sorted by (priority, serial) (the heap-as-sorted-list
   contract of Model.v), after _preenall every queue head is unfinished, and therefore a non-blocking pull
   returns the (priority, serial)-minimum among the unfinished queued jobs of the requested channels. *)
From Coq Require Import List NArith Bool Lia Arith Sorted.
From MW Require Import C16.Model C16.Proofs C17.Proofs.
Import ListNotations.
Open Scope N_scope.

(* ------------------------------------------------------------------ the order *)

Definition key_le (a b : qkey) : Prop := key_lt b a = false.

Ltac key_cases :=
  unfold key_le, key_lt in *; cbn [fst snd] in *;
  repeat match goal with
         | H : context [?x <? ?y] |- _ => destruct (N.ltb_spec x y)
         | H : context [?x =? ?y] |- _ => destruct (N.eqb_spec x y)
         | |- context [?x <? ?y] => destruct (N.ltb_spec x y)
         | |- context [?x =? ?y] => destruct (N.eqb_spec x y)
         end; cbn in *; try discriminate; try reflexivity; try lia.

Lemma key_le_trans : forall a b c, key_le a b -> key_le b c -> key_le a c.
Proof. intros [a1 a2] [b1 b2] [c1 c2] H1 H2. key_cases. Qed.

Lemma key_lt_le : forall a b, key_lt a b = true -> key_le a b.
Proof. intros [a1 a2] [b1 b2] H. key_cases. Qed.

Lemma key_le_refl : forall a, key_le a a.
Proof. intros [a1 a2]. key_cases. Qed.

Definition sorted (q : list qkey) : Prop := StronglySorted key_le q.

Lemma sorted_tl : forall q, sorted q -> sorted (tl q).
Proof. intros [|x r] H; [exact H|]. inversion H; assumption. Qed.

Lemma sorted_head_le : forall x r y, sorted (x :: r) -> In y (x :: r) -> key_le x y.
Proof.
  intros x r y H [Hy|Hy]; [subst; apply key_le_refl|].
  inversion H as [|? ? _ HF]; subst. rewrite Forall_forall in HF. apply HF. exact Hy.
Qed.

Lemma ins_forall : forall a x q, key_le a x -> Forall (key_le a) q -> Forall (key_le a) (ins x q).
Proof.
  intros a x q Hx HF. apply Forall_forall. intros y Hy. apply ins_In in Hy. destruct Hy as [Hy|Hy]; [subst; exact Hx|].
  rewrite Forall_forall in HF. apply HF. exact Hy.
Qed.

Lemma sorted_ins : forall x q, sorted q -> sorted (ins x q).
Proof.
  intros x q. induction q as [|y r IH]; intro H; cbn [ins].
  - constructor; constructor.
  - inversion H as [|? ? Hr HF]; subst. destruct (key_lt x y) eqn:E.
    + constructor; [exact H|]. constructor; [apply key_lt_le; exact E|].
      eapply Forall_impl; [|exact HF]. intros z Hz. eapply key_le_trans; [apply key_lt_le; exact E|exact Hz].
    + constructor; [apply IH; exact Hr|]. apply ins_forall; [exact E|exact HF].
Qed.

Lemma sorted_preen : forall js q, sorted q -> sorted (preen js q).
Proof.
  intros js q. induction q as [|x r IH]; intro H; cbn [preen]; [exact H|].
  destruct (is_done js (snd x)); [|exact H]. apply IH. inversion H; assumption.
Qed.

(* an unfinished entry is never skimmed off *)
Lemma preen_keeps : forall js q e, In e q -> is_done js (snd e) = false -> In e (preen js q).
Proof.
  intros js q e. induction q as [|x r IH]; intros Hin D; cbn [preen]; [exact Hin|].
  destruct (is_done js (snd x)) eqn:Dx; [|exact Hin].
  destruct Hin as [Hx|Hr]; [subst; congruence|]. apply IH; assumption.
Qed.

(* ------------------------------------------------------------------ QS: every channel queue is sorted *)

Definition QS (s : state) : Prop := forall k q, In (k, q) (s_queues s) -> sorted q.

Lemma qs_same : forall s s', s_queues s' = s_queues s -> QS s -> QS s'.
Proof. intros s s' H Q k q Hin. rewrite H in Hin. exact (Q k q Hin). Qed.

Lemma qs_qget : forall s k q, QS s -> q_get (s_queues s) k = Some q -> sorted q.
Proof. intros s k q Q H. apply (Q k q). apply q_get_In. exact H. Qed.

Lemma qs_set : forall s k l, QS s -> sorted l -> QS (set_queues (q_set (s_queues s) k l) s).
Proof.
  intros s k l Q Hl k' q Hin. sf. apply q_set_In in Hin. destruct Hin as [[_ Hq]|Hin]; [subst; exact Hl|exact (Q _ _ Hin)].
Qed.

Lemma qs_preenall : forall s, QS s -> QS (preenall s).
Proof.
  intros s Q k q Hin. unfold preenall in Hin. sf. apply in_map_iff in Hin. destruct Hin as ([k0 q0]&He&Hin).
  cbn [fst snd] in He. inversion He; subst. apply sorted_preen. exact (Q _ _ Hin).
Qed.

Lemma qs_pushjob : forall x s, QS s -> QS (pushjob x s).
Proof.
  intros x s Q. unfold pushjob. destruct (getjob (s_jobs s) x) as [j|]; [|exact Q]. cbv zeta. sf.
  destruct (filter (watches (j_chan j)) (s_waiters s)) as [|a0 r].
  - sf. intros k q Hin. sf. apply q_set_In in Hin. destruct Hin as [[_ Hq]|Hin]; [|exact (Q _ _ Hin)].
    subst q. apply sorted_ins. destruct (q_get (s_queues s) (j_chan j)) as [q0|] eqn:E; [|constructor].
    apply (Q (j_chan j)). apply q_get_In. exact E.
  - eapply qs_same; [|exact Q]. reflexivity.
Qed.

Lemma deliver_queues : forall c chs x s, s_queues (fst (deliver c chs x s)) = s_queues s.
Proof. intros. unfold deliver. destruct (getjob (s_jobs s) x); reflexivity. Qed.

Lemma qs_pop : forall c chs s, QS s -> QS (fst (pop_or_block c chs s)).
Proof.
  intros c chs s Q. unfold pop_or_block. cbv zeta. pose proof (qs_preenall s Q) as Q1.
  destruct (heads (s_queues (preenall s)) _) as [x|]; [|eapply qs_same; [|exact Q1]; reflexivity].
  destruct (getjob (s_jobs (preenall s)) (snd x)) as [j|]; [|exact Q1].
  eapply qs_same; [apply deliver_queues|]. apply qs_set; [exact Q1|].
  apply sorted_tl. destruct (q_get (s_queues (preenall s)) (j_chan j)) as [q0|] eqn:E; [|constructor].
  eapply qs_qget; eauto.
Qed.

Lemma qs_shutdown : forall l s, QS s -> QS (shutdown_loop l s).
Proof.
  induction l as [|[i w] r IH]; intros s Q; cbn [shutdown_loop]; [exact Q|].
  destruct (is_done (s_jobs s) w); [apply IH; exact Q|]. apply IH. apply qs_pushjob. eapply qs_same; [|exact Q]. reflexivity.
Qed.

Lemma qs_die : forall c s, QS s -> QS (fst (die c s)).
Proof. intros c s Q. unfold die. cbv zeta. cbn [fst]. apply qs_shutdown. eapply qs_same; [|exact Q]. reflexivity. Qed.

Lemma qs_run_event : forall e s, QS s -> QS (fst (run_event e s)).
Proof.
  intros e s Q. destruct e as [c|c|ser]; cbn [run_event].
  - destruct (c_st (get_conn (s_conns s) c)) as [|chs [x|]|w|]; try exact Q.
    destruct (is_done (s_jobs s) x); [apply qs_pop; exact Q|eapply qs_same; [apply deliver_queues|exact Q]].
  - destruct (c_st (get_conn (s_conns s) c)) as [|chs mb|w|]; try exact Q; try (apply qs_die; exact Q).
    apply qs_die. destruct mb as [x|]; [|eapply qs_same; [|exact Q]; reflexivity].
    sf. destruct (is_done (s_jobs s) x); [eapply qs_same; [|exact Q]; reflexivity|].
    apply qs_pushjob. eapply qs_same; [|exact Q]. reflexivity.
  - destruct (release ser (s_jobs s) (s_conns s)) as [cs o]. destruct (getjob (s_jobs s) ser) as [j|]; [|exact Q].
    destruct (j_drop j && has_waiter ser (s_conns s) && id_is (s_ids s) (j_id j) ser); exact Q.
Qed.

Lemma qs_run_events : forall es s, QS s -> QS (fst (run_events es s)).
Proof.
  induction es as [|e r IH]; intros s Q; cbn [run_events]; [exact Q|].
  pose proof (qs_run_event e s Q) as Q1. destruct (run_event e s) as [s1 o1]. cbn [fst] in Q1.
  specialize (IH s1 Q1). destruct (run_events r s1) as [s2 o2]. exact IH.
Qed.

Lemma mark_queues : forall x u s, s_queues (mark_finished x u s) = s_queues s.
Proof. intros. apply mark_fields. Qed.

Lemma killjobs_queues : forall js s, s_queues (killjobs js s) = s_queues s.
Proof.
  induction js as [|i r IH]; intro s; cbn [killjobs]; [reflexivity|].
  destruct (id_lookup (s_ids s) i); [|apply IH]. rewrite IH. apply mark_queues.
Qed.

Lemma timeouts_queues : forall q s, s_queues (timeouts_loop q s) = s_queues s.
Proof.
  induction q as [|x r IH]; intro s; cbn [timeouts_loop]; [reflexivity|].
  destruct (is_done (s_jobs s) (snd (snd x))); [apply IH|]. destruct (s_now s <? fst x); [reflexivity|].
  rewrite IH. apply mark_queues.
Qed.

Lemma dropjobs_queues : forall js s, s_queues (dropjobs js s) = s_queues s.
Proof.
  induction js as [|i r IH]; intro s; cbn [dropjobs]; [reflexivity|].
  destruct (id_lookup (s_ids s) i); [|apply IH]. rewrite IH. reflexivity.
Qed.

Lemma dropdead_queues : forall l s, s_queues (dropdead_loop l s) = s_queues s.
Proof.
  induction l as [|i r IH]; intro s; cbn [dropdead_loop]; [reflexivity|].
  destruct (id_lookup (s_ids s) i) as [ser|]; [|apply IH]. destruct (getjob (s_jobs s) ser) as [j|]; [|apply IH].
  cbv zeta. rewrite IH.
  destruct (match j_dl j with Some d => negb (d =? 0) && (d <? s_now s) | None => false end);
    destruct (j_done j && negb (dl_truthy (j_dl j))); reflexivity.
Qed.

(* every op - Drop included - keeps the queues sorted *)
Lemma step_qs : forall s o, QS s -> QS (fst (step s o)).
Proof.
  intros s o Q. destruct o as [ch prio name tmo|c chs| |c i res e|c js|dt|c|k|c i|i|i v| |dt|js|]; cbn [step].
  - assert (F : forall j0, QS (pushjob (s_count s + 1) (set_jobs (j0 :: s_jobs s) (set_count (s_count s + 1) s)))).
    { intro j0. apply qs_pushjob. eapply qs_same; [|exact Q]. reflexivity. }
    unfold push. destruct name as [n|]; [|apply F].
    destruct (id_lookup (s_ids s) (JName n)) as [ser|]; [|apply F].
    destruct (getjob (s_jobs s) ser) as [j0|]; [|apply F].
    destruct (err_is_killed (j_err j0)); [apply F|exact Q].
  - destruct (is_idle c s); [apply qs_pop; exact Q|exact Q].
  - apply qs_run_events. eapply qs_same; [|exact Q]. reflexivity.
  - destruct (is_idle c s); [|exact Q]. destruct (id_lookup (s_ids s) i); [|exact Q]. cbn [fst].
    eapply qs_same; [|exact Q]. sf. apply mark_queues.
  - destruct (is_idle c s); [|exact Q]. cbn [fst]. eapply qs_same; [|exact Q]. sf. apply killjobs_queues.
  - cbn [fst]. unfold handletimeouts. apply qs_preenall. eapply qs_same; [|exact Q]. rewrite timeouts_queues. reflexivity.
  - destruct (c_st (get_conn (s_conns s) c)); exact Q.
  - exact Q.
  - destruct (is_idle c s); [|exact Q]. destruct (id_lookup (s_ids s) i) as [ser|]; [|exact Q].
    destruct (getjob (s_jobs s) ser) as [j|]; [|exact Q].
    destruct (j_done j); [destruct (j_drop j && id_is (s_ids s) (j_id j) ser)|]; exact Q.
  - exact Q.
  - destruct (id_lookup (s_ids s) i); exact Q.
  - exact Q.
  - exact Q.
  - cbn [fst]. eapply qs_same; [apply dropjobs_queues|exact Q].
  - cbn [fst]. eapply qs_same; [apply dropdead_queues|exact Q].
Qed.

Lemma qs_init : QS init.
Proof. intros k q []. Qed.

Lemma reachable_qs : forall h, QS (run h init).
Proof. intro h. apply (invariant_reachable QS step_qs). apply qs_init. Qed.

(* ------------------------------------------------------------------ heads = minimum of the heads *)

Lemma heads_min : forall qs chs x, heads qs chs = Some x ->
  forall c y t, In c chs -> q_get qs c = Some (y :: t) -> key_le x y.
Proof.
  intros qs chs. induction chs as [|c0 r IH]; intros x H c y t Hin Hq; [destruct Hin|]. cbn [heads] in H.
  destruct (q_get qs c0) as [[|x0 t0]|] eqn:E0.
  - destruct Hin as [Hc|Hc]; [subst; congruence|]. eapply IH; eauto.
  - destruct (heads qs r) as [m|] eqn:EH.
    + destruct (key_lt m x0) eqn:EL; inversion H; subst x.
      * destruct Hin as [Hc|Hc]; [subst c0; rewrite E0 in Hq; inversion Hq; subst; apply key_lt_le; exact EL|].
        eapply IH; eauto.
      * destruct Hin as [Hc|Hc]; [subst c0; rewrite E0 in Hq; inversion Hq; subst; apply key_le_refl|].
        eapply key_le_trans; [exact EL|]. eapply IH; eauto.
    + inversion H; subst x. destruct Hin as [Hc|Hc]; [subst c0; rewrite E0 in Hq; inversion Hq; subst; apply key_le_refl|].
      exfalso. clear IH H E0. induction r as [|c1 r1 IHr]; [destruct Hc|]. cbn [heads] in EH.
      destruct (q_get qs c1) as [[|x1 t1]|] eqn:E1.
      * destruct Hc as [Hc|Hc]; [subst; congruence|auto].
      * destruct (heads qs r1) as [m|]; [destruct (key_lt m x1)|]; discriminate.
      * destruct Hc as [Hc|Hc]; [subst; congruence|auto].
  - destruct Hin as [Hc|Hc]; [subst; congruence|]. eapply IH; eauto.
Qed.

Lemma heads_none : forall qs chs, heads qs chs = None ->
  forall c y t, In c chs -> q_get qs c = Some (y :: t) -> False.
Proof.
  intros qs chs. induction chs as [|c0 r IH]; intros H c y t Hin Hq; [destruct Hin|]. cbn [heads] in H.
  destruct (q_get qs c0) as [[|x0 t0]|] eqn:E0.
  - destruct Hin as [Hc|Hc]; [subst; congruence|]. eapply IH; eauto.
  - destruct (heads qs r) as [m|]; [destruct (key_lt m x0)|]; discriminate.
  - destruct Hin as [Hc|Hc]; [subst; congruence|]. eapply IH; eauto.
Qed.

Lemma In_mem : forall x l, mem x l = true -> In x l.
Proof.
  intros x l. induction l as [|y r IH]; cbn [mem]; [discriminate|]. intro H. apply orb_true_iff in H.
  destruct H as [H|H]; [left; apply N.eqb_eq; exact H|right; auto].
Qed.

Lemma q_get_dom : forall qs k q, q_get qs k = Some q -> In k (map fst qs).
Proof. intros qs k q H. apply q_get_In in H. apply in_map_iff. exists (k, q). auto. Qed.

(* the channels pop() looks at contain every requested channel that has a queue *)
Definition try_of (chs : list N) (s : state) : list N := match chs with [] => map fst (s_queues s) | _ => chs end.

Lemma in_try : forall chs s k q, eligible k chs -> q_get (s_queues s) k = Some q -> In k (try_of chs s).
Proof.
  intros chs s k q [He|He] Hq; unfold try_of.
  - subst chs. eapply q_get_dom; eauto.
  - destruct chs as [|c0 r]; [discriminate|]. apply In_mem. exact He.
Qed.

(* what pop_or_block does, spelled out on the preened state *)
Lemma pop_min_first : forall chs s, QS s ->
  forall k q p x, q_get (s_queues s) k = Some q -> eligible k chs -> In (p, x) q -> is_done (s_jobs s) x = false ->
  match heads (s_queues (preenall s)) (try_of chs (preenall s)) with
  | Some m => key_le m (p, x)
  | None => False
  end.
Proof.
  intros chs s Q k q p x Hq He Hin D.
  assert (Hq1 : q_get (s_queues (preenall s)) k = Some (preen (s_jobs s) q)).
  { unfold preenall. sf. rewrite q_get_map. rewrite Hq. reflexivity. }
  pose proof (preen_keeps (s_jobs s) q (p, x) Hin D) as Hin1.
  destruct (preen (s_jobs s) q) as [|y t] eqn:EP; [destruct Hin1|].
  assert (S1 : sorted (y :: t)) by (rewrite <- EP; apply sorted_preen; eapply qs_qget; eauto).
  pose proof (in_try chs (preenall s) k _ He Hq1) as Ht.
  destruct (heads (s_queues (preenall s)) (try_of chs (preenall s))) as [m|] eqn:EH.
  - eapply key_le_trans; [eapply heads_min; eauto|]. eapply sorted_head_le; eauto.
  - eapply heads_none; eauto.
Qed.

(* C17 min-first: whatever StartPull delivers at once is the (priority, serial)-minimum among the unfinished
   jobs queued on the requested channels (all channels when none was named) ... (state form: any state with
   sorted queues that satisfies the C16 invariant, e.g. a restarted one, C18) *)
Lemma min_first_state : forall s c chs j, QS s -> Inv s [] [] ->
  In (ODeliver c chs j) (snd (step s (StartPull c chs))) ->
  forall k q p x, q_get (s_queues s) k = Some q -> (chs = [] \/ mem k chs = true) -> In (p, x) q ->
  is_done (s_jobs s) x = false -> key_lt (p, x) (j_prio j, j_serial j) = false.
Proof.
  intros s c chs j Q I Hout k q p x Hq He Hin D.
  pose proof (pop_min_first chs s Q k q p x Hq He Hin D) as M.
  cbn [step] in Hout. destruct (is_idle c s); [|destruct Hout as [H|[]]; discriminate H].
  unfold pop_or_block in Hout. cbv zeta in Hout. fold (try_of chs (preenall s)) in Hout.
  destruct (heads (s_queues (preenall s)) (try_of chs (preenall s))) as [m|] eqn:EH; [|destruct M].
  destruct m as [pm xm]. destruct (heads_spec _ _ _ EH) as (k0&rest&Hk0&Hq0).
  pose proof (preenall_inv _ _ _ I) as I1.
  destruct (inv_q _ _ _ I1 _ _ _ _ (q_get_In _ _ _ Hq0) (or_introl eq_refl)) as (jm&Ejm&Hch&Hp).
  cbn [snd fst] in *. rewrite Ejm in Hout.
  apply deliver_out in Hout. destruct Hout as (j'&Ho&Ej'). inversion Ho; subst j'. sf.
  rewrite Ejm in Ej'. inversion Ej'; subst jm. rewrite Hp. rewrite (getjob_serial _ _ _ Ejm). exact M.
Qed.

Lemma min_first : forall h c chs j,
  let s := run h init in
  In (ODeliver c chs j) (snd (step s (StartPull c chs))) ->
  forall k q p x, q_get (s_queues s) k = Some q -> (chs = [] \/ mem k chs = true) -> In (p, x) q ->
  is_done (s_jobs s) x = false -> key_lt (p, x) (j_prio j, j_serial j) = false.
Proof. intros h c chs j s. apply min_first_state; [apply reachable_qs|apply reachable_inv]. Qed.

(* The same, read as the two rules a client relies on: no unfinished job queued on a requested channel has a
   strictly better (numerically smaller) priority than the delivered one, and among those of EQUAL priority none
   arrived earlier (smaller serial): priority first, FIFO within a priority. *)
Lemma key_not_lt_prio_fifo : forall p x a b,
  key_lt (p, x) (a, b) = false -> a <= p /\ (p = a -> b <= x).
Proof.
  intros p x a b M. unfold key_lt in M. cbn [fst snd] in M.
  apply orb_false_iff in M. destruct M as [M1 M2].
  apply N.ltb_ge in M1. split; [exact M1|].
  intros E. subst p. rewrite N.eqb_refl in M2. cbn [andb] in M2. apply N.ltb_ge in M2. exact M2.
Qed.

Lemma min_first_prio_fifo : forall h c chs j,
  let s := run h init in
  In (ODeliver c chs j) (snd (step s (StartPull c chs))) ->
  forall k q p x, q_get (s_queues s) k = Some q -> (chs = [] \/ mem k chs = true) -> In (p, x) q ->
  is_done (s_jobs s) x = false -> j_prio j <= p /\ (p = j_prio j -> j_serial j <= x).
Proof.
  intros h c chs j s Hd k q p x Hq Hc Hin Hu. apply key_not_lt_prio_fifo.
  exact (min_first h c chs j Hd k q p x Hq Hc Hin Hu).
Qed.

(* ... and it blocks only when no unfinished job is queued on any requested channel *)
Lemma blocks_only_when_empty_state : forall s c chs, QS s ->
  is_idle c s = true -> In OBlocked (snd (step s (StartPull c chs))) ->
  forall k q p x, q_get (s_queues s) k = Some q -> (chs = [] \/ mem k chs = true) -> In (p, x) q ->
  is_done (s_jobs s) x = true.
Proof.
  intros s c chs Q EI Hout k q p x Hq He Hin. destruct (is_done (s_jobs s) x) eqn:D; [reflexivity|exfalso].
  pose proof (pop_min_first chs s Q k q p x Hq He Hin D) as M.
  cbn [step] in Hout. rewrite EI in Hout.
  unfold pop_or_block in Hout. cbv zeta in Hout. fold (try_of chs (preenall s)) in Hout.
  destruct (heads (s_queues (preenall s)) (try_of chs (preenall s))) as [m|] eqn:EH; [|exact M].
  destruct (getjob (s_jobs (preenall s)) (snd m)) as [jm|]; [|destruct Hout].
  apply deliver_out in Hout. destruct Hout as (j'&Ho&_). discriminate Ho.
Qed.

Lemma blocks_only_when_empty : forall h c chs,
  let s := run h init in
  is_idle c s = true -> In OBlocked (snd (step s (StartPull c chs))) ->
  forall k q p x, q_get (s_queues s) k = Some q -> (chs = [] \/ mem k chs = true) -> In (p, x) q ->
  is_done (s_jobs s) x = true.
Proof. intros h c chs s. apply blocks_only_when_empty_state. apply reachable_qs. Qed.
