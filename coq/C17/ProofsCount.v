(* C17 — per-channel outcome counters add up to the number of finished jobs. *)
From Coq Require Import List NArith Bool Lia Arith.
From MW Require Import C16.Model C16.Proofs C17.Proofs.
Import ListNotations.
Open Scope N_scope.

Definition total (c : counts) : N := n_error c + n_timeout c + n_killed c + n_success c.

(* finished job OBJECTS of channel ch among all objects created since the server (re)started.  A killed id
   that is added again is a new object: the killed one and (once finished) the new one both count. *)
Fixpoint donecount (js : list job) (ch : N) : N :=
  match js with
  | [] => 0
  | j :: r => (if j_done j && (j_chan j =? ch) then 1 else 0) + donecount r ch
  end.

Lemma total_bump : forall e c, total (bump e c) = total c + 1.
Proof.
  intros e c. unfold bump, total.
  repeat match goal with |- context [match ?x with _ => _ end] => destruct x end; cbn [n_error n_timeout n_killed n_success]; lia.
Qed.

Lemma cnt_get_set_same : forall cs c v, cnt_get (cnt_set cs c v) c = v.
Proof.
  induction cs as [|[k w] r IH]; intros c v; cbn [cnt_set cnt_get].
  - rewrite N.eqb_refl. reflexivity.
  - destruct (k =? c) eqn:E; cbn [cnt_get]; rewrite E; [reflexivity|apply IH].
Qed.

Lemma cnt_get_set_other : forall cs c v k, k <> c -> cnt_get (cnt_set cs c v) k = cnt_get cs k.
Proof.
  induction cs as [|[k0 w] r IH]; intros c v k H; cbn [cnt_set cnt_get].
  - destruct (c =? k) eqn:E; [apply N.eqb_eq in E; congruence|reflexivity].
  - destruct (k0 =? c) eqn:E; cbn [cnt_get].
    + apply N.eqb_eq in E. subst k0. destruct (c =? k) eqn:E2; [apply N.eqb_eq in E2; congruence|reflexivity].
    + destruct (k0 =? k); [reflexivity|apply IH; exact H].
Qed.

(* updates that keep done and channel keep the count *)
Lemma donecount_setjob_same : forall js ser f ch,
  (forall j, j_done (f j) = j_done j /\ j_chan (f j) = j_chan j) ->
  donecount (setjob ser f js) ch = donecount js ch.
Proof.
  intros js ser f ch Hf. unfold setjob. induction js as [|z r IH]; cbn [map donecount]; [reflexivity|].
  rewrite IH. destruct (j_serial z =? ser); [|reflexivity]. destruct (Hf z) as [H1 H2]. rewrite H1, H2. reflexivity.
Qed.

Lemma setjob_notin : forall js ser f, ~ In ser (map j_serial js) -> setjob ser f js = js.
Proof.
  intros js ser f. unfold setjob. induction js as [|z r IH]; cbn [map]; intro H; [reflexivity|].
  destruct (j_serial z =? ser) eqn:E.
  - apply N.eqb_eq in E. exfalso. apply H. left. exact E.
  - rewrite IH; [reflexivity|]. intro Hin. apply H. right. exact Hin.
Qed.

(* finishing one unfinished object adds one to its channel *)
Lemma donecount_finish : forall js ser j fin ch,
  NoDup (map j_serial js) -> getjob js ser = Some j -> j_done j = false ->
  j_done fin = true -> j_chan fin = j_chan j ->
  donecount (setjob ser (fun _ => fin) js) ch = donecount js ch + (if j_chan j =? ch then 1 else 0).
Proof.
  intros js ser j fin ch. induction js as [|z r IH]; intros ND E D Df Cf; [discriminate|].
  cbn [map] in ND. inversion ND as [|? ? Hnot ND']; subst. cbn [getjob] in E.
  unfold setjob in *. cbn [map donecount]. destruct (j_serial z =? ser) eqn:Ez.
  - inversion E; subst z. apply N.eqb_eq in Ez. rewrite <- Ez in *.
    pose proof (setjob_notin r (j_serial j) (fun _ => fin) Hnot) as Hs. unfold setjob in Hs. rewrite Hs.
    rewrite Df, Cf, D. cbn [andb]. lia.
  - rewrite (IH ND' E D Df Cf). lia.
Qed.

(* the counter invariant, relative to `base` = finished jobs that were already there at the last (re)start *)
Record CI (base : N -> N) (s : state) : Prop := {
  ci_nd : NoDup (map j_serial (s_jobs s));
  ci_le : forall j, In j (s_jobs s) -> j_serial j <= s_count s;
  ci_sum : forall ch, total (cnt_get (s_cnt s) ch) + base ch = donecount (s_jobs s) ch
}.

Lemma ci_same : forall b s s', s_jobs s' = s_jobs s -> s_count s' = s_count s -> s_cnt s' = s_cnt s -> CI b s -> CI b s'.
Proof. intros b s s' H1 H2 H3 [A B C]. constructor; rewrite ?H1, ?H2, ?H3; assumption. Qed.

Lemma setjob_serials : forall js ser f, (forall j, j_serial j = ser -> j_serial (f j) = j_serial j) ->
  map j_serial (setjob ser f js) = map j_serial js.
Proof.
  intros js ser f Hf. unfold setjob. induction js as [|z r IH]; cbn [map]; [reflexivity|]. rewrite IH.
  destruct (j_serial z =? ser) eqn:E; [apply N.eqb_eq in E; rewrite (Hf _ E)|]; reflexivity.
Qed.

Lemma setjob_In : forall js ser f j, In j (setjob ser f js) -> exists j0, In j0 js /\ (j = j0 \/ j = f j0).
Proof.
  intros js ser f j H. unfold setjob in H. apply in_map_iff in H. destruct H as (j0&He&Hin). exists j0. split; [exact Hin|].
  destruct (j_serial j0 =? ser); auto.
Qed.

(* a job-table update that keeps serial, done and channel keeps the invariant *)
Lemma ci_setjob_same : forall b s ser f,
  (forall j, j_serial (f j) = j_serial j /\ j_done (f j) = j_done j /\ j_chan (f j) = j_chan j) ->
  CI b s -> CI b (set_jobs (setjob ser f (s_jobs s)) s).
Proof.
  intros b s ser f Hf [A B C]. constructor; sf.
  - rewrite setjob_serials by (intros j _; apply Hf). exact A.
  - intros j Hin. apply setjob_In in Hin. destruct Hin as (j0&Hin&[He|He]); subst j; [|rewrite (proj1 (Hf j0))]; apply B; exact Hin.
  - intro ch. rewrite donecount_setjob_same by (intro j; split; apply Hf). apply C.
Qed.

Lemma getjob_In : forall js x j, getjob js x = Some j -> In j js.
Proof.
  induction js as [|z r IH]; intros x j H; [discriminate|]. cbn [getjob] in H.
  destruct (j_serial z =? x); [inversion H; left; reflexivity|right; eapply IH; eauto].
Qed.

Lemma ci_mark : forall b x u s, CI b s -> CI b (mark_finished x u s).
Proof.
  intros b x u s [A B C]. unfold mark_finished. destruct (getjob (s_jobs s) x) as [j|] eqn:E; [|constructor; assumption].
  destruct (j_done j) eqn:D; [constructor; assumption|].
  set (fin := mkJob (j_serial j) (j_id j) (j_chan j) (j_prio j) (j_timeout j) true (j_err (u j)) (j_res (u j)) (j_info j) (j_ttl (u j)) (j_dl j) (j_drop j)).
  pose proof (getjob_serial _ _ _ E) as Hs.
  constructor; sf.
  - rewrite setjob_serials; [exact A|]. intros j0 H0. cbn [j_serial fin]. congruence.
  - intros j0 Hin. unfold setjob in Hin. apply in_map_iff in Hin. destruct Hin as (j1&He&Hin).
    destruct (j_serial j1 =? x) eqn:E1; [|subst j0; apply B; exact Hin].
    subst j0. cbn [j_serial fin]. apply B. eapply getjob_In; eauto.
  - intro ch. rewrite (donecount_finish (s_jobs s) x j fin ch A E D eq_refl eq_refl).
    cbn [j_err fin]. destruct (N.eq_dec ch (j_chan j)) as [Ec|Ec].
    + subst ch. rewrite cnt_get_set_same, total_bump, N.eqb_refl. specialize (C (j_chan j)). lia.
    + rewrite cnt_get_set_other by exact Ec. destruct (j_chan j =? ch) eqn:E2; [apply N.eqb_eq in E2; congruence|].
      specialize (C ch). lia.
Qed.

Lemma ci_killjobs : forall b js s, CI b s -> CI b (killjobs js s).
Proof.
  induction js as [|i r IH]; intros s H; cbn [killjobs]; [exact H|].
  destruct (id_lookup (s_ids s) i); [|apply IH; exact H]. apply IH. apply ci_mark. exact H.
Qed.

Lemma ci_timeouts : forall b q s, CI b s -> CI b (timeouts_loop q s).
Proof.
  induction q as [|x r IH]; intros s H; cbn [timeouts_loop]; [eapply ci_same; [| | |exact H]; reflexivity|].
  destruct (is_done (s_jobs s) (snd (snd x))); [apply IH; exact H|].
  destruct (s_now s <? fst x); [eapply ci_same; [| | |exact H]; reflexivity|]. apply IH. apply ci_mark. exact H.
Qed.

(* queue moves do not touch the job table, the id counter or the outcome counters *)
Definition core (s : state) := (s_jobs s, s_count s, s_cnt s).

Lemma ci_core : forall b s s', core s' = core s -> CI b s -> CI b s'.
Proof. intros b s s' H. unfold core in H. inversion H. apply ci_same; assumption. Qed.

Lemma core_pushjob : forall x s, core (pushjob x s) = core s.
Proof.
  intros x s. unfold pushjob. destruct (getjob (s_jobs s) x) as [j|]; [|reflexivity]. cbv zeta. sf.
  destruct (filter (watches (j_chan j)) (s_waiters s)); reflexivity.
Qed.

Lemma core_deliver : forall c chs x s, core (fst (deliver c chs x s)) = core s.
Proof. intros. unfold deliver. destruct (getjob (s_jobs s) x); reflexivity. Qed.

Lemma core_pop : forall c chs s, core (fst (pop_or_block c chs s)) = core s.
Proof.
  intros. unfold pop_or_block. cbv zeta. destruct (heads _ _) as [x|]; [|reflexivity].
  destruct (getjob _ _); [|reflexivity]. rewrite core_deliver. reflexivity.
Qed.

Lemma core_shutdown : forall l s, core (shutdown_loop l s) = core s.
Proof.
  induction l as [|[i w] r IH]; intro s; cbn [shutdown_loop]; [reflexivity|].
  destruct (is_done (s_jobs s) w); [apply IH|]. rewrite IH, core_pushjob. reflexivity.
Qed.

Lemma core_die : forall c s, core (fst (die c s)) = core s.
Proof. intros. unfold die. cbv zeta. cbn [fst]. rewrite core_shutdown. reflexivity. Qed.

Lemma core_run_event : forall e s, core (fst (run_event e s)) = core s.
Proof.
  intros e s. destruct e as [c|c|ser]; cbn [run_event].
  - destruct (c_st (get_conn (s_conns s) c)) as [|chs [x|]|w|]; try reflexivity.
    destruct (is_done (s_jobs s) x); [apply core_pop|apply core_deliver].
  - destruct (c_st (get_conn (s_conns s) c)) as [|chs mb|w|]; try reflexivity; rewrite core_die; try reflexivity.
    destruct mb as [x|]; [|reflexivity]. sf. destruct (is_done (s_jobs s) x); [reflexivity|].
    rewrite core_pushjob. reflexivity.
  - destruct (release ser (s_jobs s) (s_conns s)). destruct (getjob (s_jobs s) ser) as [j|]; [|reflexivity].
    destruct (j_drop j && has_waiter ser (s_conns s) && id_is (s_ids s) (j_id j) ser); reflexivity.
Qed.

Lemma core_run_events : forall es s, core (fst (run_events es s)) = core s.
Proof.
  induction es as [|e r IH]; intro s; cbn [run_events]; [reflexivity|].
  pose proof (core_run_event e s) as H1. destruct (run_event e s) as [s1 o1]. cbn [fst] in H1.
  specialize (IH s1). destruct (run_events r s1) as [s2 o2]. cbn [fst] in *. congruence.
Qed.

Lemma ci_dropjobs : forall b js s, CI b s -> CI b (dropjobs js s).
Proof.
  induction js as [|i r IH]; intros s H; cbn [dropjobs]; [exact H|].
  destruct (id_lookup (s_ids s) i) as [ser|]; [|apply IH; exact H]. apply IH. apply ci_setjob_same; [|exact H].
  intro j. cbn. auto.
Qed.

Lemma ci_dropdead : forall b l s, CI b s -> CI b (dropdead_loop l s).
Proof.
  induction l as [|i r IH]; intros s H; cbn [dropdead_loop]; [exact H|].
  destruct (id_lookup (s_ids s) i) as [ser|]; [|apply IH; exact H].
  destruct (getjob (s_jobs s) ser) as [j|]; [|apply IH; exact H]. cbv zeta. apply IH.
  destruct (match j_dl j with Some d => negb (d =? 0) && (d <? s_now s) | None => false end);
    destruct (j_done j && negb (dl_truthy (j_dl j)));
    try (eapply ci_same; [| | |exact H]; reflexivity);
    [apply (ci_setjob_same b (set_ids (id_del (s_ids s) i) s)); [intro j0; cbn; auto|eapply ci_same; [| | |exact H]; reflexivity]
    |apply ci_setjob_same; [intro j0; cbn; auto|exact H]].
Qed.

Lemma ci_push_fresh : forall b s j0, CI b s -> j_serial j0 = s_count s + 1 -> j_done j0 = false ->
  CI b (pushjob (s_count s + 1) (set_jobs (j0 :: s_jobs s) (set_count (s_count s + 1) s))).
Proof.
  intros b s j0 [A B C] Hs Hd. eapply ci_core; [apply core_pushjob|]. constructor; sf.
  - cbn [map]. constructor; [|exact A]. intro Hin. apply in_map_iff in Hin. destruct Hin as (j1&He&Hin).
    specialize (B j1 Hin). lia.
  - intros j [Hj|Hj]; [subst j; lia|]. specialize (B j Hj). lia.
  - intro ch. cbn [donecount]. rewrite Hd. cbn [andb]. apply C.
Qed.

(* every op (Drop, Watchdog, Advance included) keeps the counter invariant *)
Lemma step_ci : forall b s o, CI b s -> CI b (fst (step s o)).
Proof.
  intros b s o H. destruct o as [ch prio name tmo|c chs| |c i res e|c js|dt|c|k|c i|i|i v| |dt|js|]; cbn [step].
  - assert (F : forall j0, j_serial j0 = s_count s + 1 -> j_done j0 = false ->
                CI b (pushjob (s_count s + 1) (set_jobs (j0 :: s_jobs s) (set_count (s_count s + 1) s))))
      by (intros; apply ci_push_fresh; assumption).
    unfold push. destruct name as [n|]; [|apply F; reflexivity].
    destruct (id_lookup (s_ids s) (JName n)) as [ser|]; [|apply F; reflexivity].
    destruct (getjob (s_jobs s) ser) as [j0|]; [|apply F; reflexivity].
    destruct (err_is_killed (j_err j0)); [apply F; reflexivity|exact H].
  - destruct (is_idle c s); [|exact H]. eapply ci_core; [apply core_pop|exact H].
  - eapply ci_core; [apply core_run_events|]. eapply ci_same; [| | |exact H]; reflexivity.
  - destruct (is_idle c s); [|exact H]. destruct (id_lookup (s_ids s) i); [|exact H]. cbn [fst].
    eapply ci_same; [| | |apply ci_mark; exact H]; reflexivity.
  - destruct (is_idle c s); [|exact H]. cbn [fst]. eapply ci_same; [| | |apply ci_killjobs; exact H]; reflexivity.
  - cbn [fst]. unfold handletimeouts, preenall. eapply ci_same; [| | |apply (ci_timeouts b (s_tq s) (set_now (s_now s + dt) s))]; try reflexivity.
    eapply ci_same; [| | |exact H]; reflexivity.
  - destruct (c_st (get_conn (s_conns s) c)); cbn [fst]; try exact H; (eapply ci_same; [| | |exact H]; reflexivity).
  - cbn [fst]. eapply ci_same; [| | |exact H]; reflexivity.
  - destruct (is_idle c s); [|exact H]. destruct (id_lookup (s_ids s) i) as [ser|]; [|exact H].
    destruct (getjob (s_jobs s) ser) as [j|]; [|exact H].
    destruct (j_done j); [destruct (j_drop j && id_is (s_ids s) (j_id j) ser)|]; cbn [fst]; try exact H;
      (eapply ci_same; [| | |exact H]; reflexivity).
  - exact H.
  - destruct (id_lookup (s_ids s) i) as [ser|]; [|exact H]. cbn [fst]. apply ci_setjob_same; [|exact H]. intro j. cbn. auto.
  - exact H.
  - cbn [fst]. eapply ci_same; [| | |exact H]; reflexivity.
  - cbn [fst]. apply ci_dropjobs. exact H.
  - cbn [fst]. unfold dropdead. apply ci_dropdead. exact H.
Qed.

Lemma run_ci : forall b h s, CI b s -> CI b (run h s).
Proof. intros b h s. apply (invariant_reachable (CI b)). intros s0 o. apply step_ci. Qed.

Lemma ci_init : CI (fun _ => 0) init.
Proof. constructor; cbn; [constructor|intros j []|intro ch; reflexivity]. Qed.

(* since the server started: counters of channel ch add up to the number of finished job objects of ch *)
Lemma counters : forall h ch,
  let s := run h init in
  total (cnt_get (s_cnt s) ch) = donecount (s_jobs s) ch.
Proof. intros h ch s. unfold s. pose proof (ci_sum _ _ (run_ci _ h init ci_init) ch) as H. cbv beta in H. lia. Qed.
