(* C17 — rpc_qwait with SEVERAL ids (coq/C16/ModelWaitL.v): the wait theorems for lists, over every history of the
   extended state machine (all ops of Model.v + WaitL). *)
From Coq Require Import List NArith Bool Lia.
From MW Require Import C16.Model C16.ModelWaitL C16.Proofs C17.Proofs C17.ProofsLive.
Import ListNotations.
Open Scope N_scope.

(* ------------------------------------------------------------------ the loop of waitjobs, one job at a time *)

Lemma forget_fields : forall j s,
  s_jobs (forget_dropped j s) = s_jobs s /\ s_conns (forget_dropped j s) = s_conns s /\ s_hub (forget_dropped j s) = s_hub s.
Proof. intros j s. unfold forget_dropped. destruct (j_drop j && id_is (s_ids s) (j_id j) (j_serial j)); sf; auto. Qed.

Lemma forget_idle : forall j s c, is_idle c (forget_dropped j s) = is_idle c s.
Proof. intros j s c. unfold is_idle. destruct (forget_fields j s) as (_&E&_). rewrite E. reflexivity. Qed.

(* what the loop does with a finished job is what a one-id Wait on its id does (or nothing) *)
Lemma forget_as_step : forall s c ser j, is_idle c s = true -> getjob (s_jobs s) ser = Some j -> j_done j = true ->
  forget_dropped j s = s \/ forget_dropped j s = fst (step s (Wait c (j_id j))).
Proof.
  intros s c ser j EI Ej Dj. unfold forget_dropped.
  pose proof (getjob_serial _ _ _ Ej) as Es. rewrite Es.
  destruct (j_drop j && id_is (s_ids s) (j_id j) ser) eqn:E; [right|left; reflexivity].
  apply andb_prop in E. destruct E as [E1 E2]. pose proof (id_is_spec _ _ _ E2) as El.
  cbn [step]. rewrite EI, El, Ej, Dj, E1, E2. reflexivity.
Qed.

(* ... and blocking on an unfinished job is a one-id Wait on its id *)
Lemma block_as_step : forall s c ser j, is_idle c s = true -> getjob (s_jobs s) ser = Some j -> j_done j = false ->
  id_lookup (s_ids s) (j_id j) = Some ser ->
  set_conns (put_conn (s_conns s) (mkConn c (BWait ser) (c_run (get_conn (s_conns s) c)))) s = fst (step s (Wait c (j_id j))).
Proof. intros s c ser j EI Ej Dj El. cbn [step]. rewrite EI, El, Ej, Dj. reflexivity. Qed.

Lemma wait_from_jobs : forall c all rest s, s_jobs (fst (fst (wait_from c all rest s))) = s_jobs s /\
                                             s_hub (fst (fst (wait_from c all rest s))) = s_hub s.
Proof.
  intros c all rest. induction rest as [|ser r IH]; intros s; cbn [wait_from]; [auto|].
  destruct (getjob (s_jobs s) ser) as [j|]; [|apply IH].
  destruct (j_done j).
  - destruct (IH (forget_dropped j s)) as [A B]. destruct (forget_fields j s) as (E1&_&E3). rewrite A, B. auto.
  - sf. auto.
Qed.

(* the state the loop leaves is reached from s by one-id Waits of the same connection: every invariant of Model.v's
   reachable states carries over *)
Lemma wait_from_run : forall c all rest s, Good s -> is_idle c s = true ->
  exists h, fst (fst (wait_from c all rest s)) = run h s.
Proof.
  intros c all rest. induction rest as [|ser r IH]; intros s G EI; cbn [wait_from].
  - exists []. reflexivity.
  - destruct (getjob (s_jobs s) ser) as [j|] eqn:Ej; [|apply IH; auto].
    destruct (j_done j) eqn:Dj.
    + destruct (forget_as_step s c ser j EI Ej Dj) as [E|E]; rewrite E.
      * apply IH; auto.
      * destruct (IH (fst (step s (Wait c (j_id j))))) as [h Hh].
        { apply step_good; exact G. }
        { rewrite <- E. rewrite forget_idle. exact EI. }
        exists (Wait c (j_id j) :: h). rewrite Hh. reflexivity.
    + destruct G as (A&K&I).
      pose proof (inv_addr _ _ _ I ser j Ej Dj eq_refl) as El.
      exists [Wait c (j_id j)]. cbn [fst]. rewrite (block_as_step s c ser j EI Ej Dj El). reflexivity.
Qed.

Lemma wait_from_good : forall c all rest s, Good s -> is_idle c s = true -> Good (fst (fst (wait_from c all rest s))).
Proof. intros c all rest s G EI. destruct (wait_from_run c all rest s G EI) as [h Hh]. rewrite Hh. apply run_good. exact G. Qed.

(* ------------------------------------------------------------------ Good is an invariant of the extended machine *)

Lemma hub_ok_jobs : forall js js' es, js' = js -> hub_ok js es -> hub_ok js' es.
Proof. intros; subst; auto. Qed.

Lemma resume_good : forall ser ws s k es, Good s -> hub_ok (s_jobs s) es ->
  Good (fst (fst (resume ser ws (s, k)))) /\ hub_ok (s_jobs (fst (fst (resume ser ws (s, k))))) es.
Proof.
  intros ser ws. induction ws as [|c r IH]; intros s k es G H; cbn [resume]; [split; assumption|].
  destruct (is_idle c s) eqn:EI; [|apply IH; assumption].
  destruct (match k_get k c with Some (cur, v) => if cur =? ser then v else ([], [ser]) | None => ([], [ser]) end) as [rest all].
  pose proof (wait_from_good c all rest s G EI) as G1.
  destruct (wait_from_jobs c all rest s) as [J1 _].
  destruct (wait_from c all rest s) as [[s1 [[ser' r']|]] o]; cbn [fst] in G1, J1.
  - destruct (IH s1 (k_set k c (ser', (r', all))) es G1 (hub_ok_jobs _ _ _ J1 H)) as [A B].
    destruct (resume ser r (s1, k_set k c (ser', (r', all)))) as [x2 o2]. split; assumption.
  - destruct (IH s1 (k_del k c) es G1 (hub_ok_jobs _ _ _ J1 H)) as [A B].
    destruct (resume ser r (s1, k_del k c)) as [x2 o2]. split; assumption.
Qed.

Lemma run_event_good : forall e s es, Good s -> hub_ok (s_jobs s) (e :: es) ->
  Good (fst (run_event e s)) /\ hub_ok (s_jobs (fst (run_event e s))) es.
Proof.
  intros e s es (A&K&I) H. split; [split; [|split]|].
  - eapply aux_same; [apply run_event_jobs|exact A].
  - eapply hub_nnd; [apply run_event_nnd|exact K].
  - apply run_event_inv; [exact I|]. intros ser E. apply H. left. exact E.
  - rewrite run_event_jobs. intros ser Hin. apply H. right. exact Hin.
Qed.

Lemma xrun_event_good : forall e s k es, Good s -> hub_ok (s_jobs s) (e :: es) ->
  Good (fst (fst (xrun_event e (s, k)))) /\ hub_ok (s_jobs (fst (fst (xrun_event e (s, k))))) es.
Proof.
  intros e s k es G H. destruct (run_event_good e s es G H) as [G1 H1].
  destruct e as [c|c|ser]; cbn [xrun_event].
  - destruct (run_event (EvNotify c) s) as [s1 o]; cbn [fst] in *. split; assumption.
  - destruct (run_event (EvKill c) s) as [s1 o]; cbn [fst] in *. split; assumption.
  - destruct (run_event (EvDone ser) s) as [s1 o]; cbn [fst] in *. apply resume_good; assumption.
Qed.

Lemma xrun_events_good : forall es s k, Good s -> hub_ok (s_jobs s) es -> Good (fst (fst (xrun_events es (s, k)))).
Proof.
  induction es as [|e r IH]; intros s k G H; cbn [xrun_events]; [exact G|].
  destruct (xrun_event_good e s k r G H) as [G1 H1].
  destruct (xrun_event e (s, k)) as [[s1 k1] o1]; cbn [fst] in *.
  specialize (IH s1 k1 G1 H1). destruct (xrun_events r (s1, k1)) as [x2 o2]. exact IH.
Qed.

Lemma wait_start_good : forall c is s k, Good s -> Good (fst (fst (wait_start c is (s, k)))).
Proof.
  intros c is s k G. unfold wait_start. destruct (is_idle c s) eqn:EI; [|exact G].
  destruct (resolve s is) as [all|]; [|exact G].
  pose proof (wait_from_good c all all s G EI) as G1.
  destruct (wait_from c all all s) as [[s1 [[ser r]|]] o]; exact G1.
Qed.

Lemma base_step_good : forall s (k : conts) b, Good s ->
  Good (fst (fst (let (s1, out) := step s b in ((s1, k), out)))).
Proof. intros s k b G. pose proof (step_good s b G) as H. destruct (step s b) as [s1 out]. exact H. Qed.

Lemma xstep_good : forall x o, Good (fst x) -> Good (fst (fst (xstep x o))).
Proof.
  intros [s k] o G. cbn [fst] in G. destruct o as [b|c is]; [|apply wait_start_good; exact G].
  destruct b; cbn [xstep]; try (apply base_step_good; exact G).
  - (* RunLoop *)
    destruct G as (A&K&I). apply xrun_events_good.
    + split; [|split].
      * eapply aux_same; [|exact A]. reflexivity.
      * intros ser [].
      * eapply inv_same; eauto.
    + exact K.
  - (* Wait *) apply wait_start_good; exact G.
Qed.

Lemma xrun_good : forall h x, Good (fst x) -> Good (fst (xrun h x)).
Proof. induction h as [|o r IH]; intros x G; [exact G|]. cbn [xrun fold_left]. apply IH. apply xstep_good. exact G. Qed.

Lemma x_reachable_good : forall h, Good (fst (xrun h xinit)).
Proof. intros h. apply xrun_good. exact good_init. Qed.

(* C16's conservation statement, for every history of the extended machine *)
Lemma x_conservation : forall h x j,
  let s := fst (xrun h xinit) in
  getjob (s_jobs s) x = Some j -> j_done j = false ->
  (in_queues s x + with_workers s x = 1)%nat /\
  id_lookup (s_ids s) (j_id j) = Some x.
Proof.
  intros h x j s E D. destruct (x_reachable_good h) as (_&_&I). fold s in I. split.
  - pose proof (inv_cons _ _ _ I x 1%nat (want_undone _ _ _ E D)) as H. unfold locs in H. cbn [occ] in H.
    unfold in_queues, with_workers. lia.
  - apply (inv_addr _ _ _ I); auto.
Qed.

(* ------------------------------------------------------------------ the wait theorems for lists (every state) *)

Definition all_done (s : state) (l : list N) : Prop := forall x, In x l -> really_done (s_jobs s) x.

Lemma all_done_jobs : forall s s' l, s_jobs s' = s_jobs s -> all_done s l -> all_done s' l.
Proof. intros s s' l E H x Hx. unfold really_done. rewrite E. apply H. exact Hx. Qed.

(* every job of the rest finished: the loop runs through (forgetting the ids of dropped jobs) and returns all records *)
Lemma wait_from_all_done : forall c all rest s, all_done s rest ->
  exists s', wait_from c all rest s = (s', None, records s' c all) /\
             s_jobs s' = s_jobs s /\ s_conns s' = s_conns s /\ s_hub s' = s_hub s.
Proof.
  intros c all rest. induction rest as [|ser r IH]; intros s H; cbn [wait_from].
  - exists s. auto.
  - destruct (H ser (or_introl eq_refl)) as (j&Ej&Dj). rewrite Ej, Dj.
    destruct (forget_fields j s) as (F1&F2&F3).
    destruct (IH (forget_dropped j s)) as (s'&E&A&B&C).
    { eapply all_done_jobs; [exact F1|]. intros x Hx. apply H. right. exact Hx. }
    exists s'. rewrite E. repeat split; congruence.
Qed.

(* ... and blocks on the FIRST unfinished one, keeping what follows for later *)
Lemma wait_from_blocks : forall c all pre ser post s j, all_done s pre ->
  getjob (s_jobs s) ser = Some j -> j_done j = false ->
  exists s', wait_from c all (pre ++ ser :: post) s = (s', Some (ser, post), []) /\
             s_jobs s' = s_jobs s /\ c_st (get_conn (s_conns s') c) = BWait ser.
Proof.
  intros c all pre. induction pre as [|p r IH]; intros ser post s j H Ej Dj; cbn [app wait_from].
  - rewrite Ej, Dj. eexists. split; [reflexivity|]. sf. split; [reflexivity|].
    pose proof (get_put_same (s_conns s) (mkConn c (BWait ser) (c_run (get_conn (s_conns s) c)))) as G.
    cbn [c_id] in G. rewrite G. reflexivity.
  - destruct (H p (or_introl eq_refl)) as (jp&Ep&Dp). rewrite Ep, Dp.
    destruct (forget_fields jp s) as (F1&F2&F3).
    destruct (IH ser post (forget_dropped jp s) j) as (s'&E&A&B).
    { eapply all_done_jobs; [exact F1|]. intros x Hx. apply H. right. exact Hx. }
    { rewrite F1. exact Ej. } { exact Dj. }
    exists s'. rewrite E. repeat split; congruence.
Qed.

Lemma k_get_set : forall k c v, k_get (k_set k c v) c = Some v.
Proof. intros k c v. unfold k_set. cbn [k_get]. rewrite N.eqb_refl. reflexivity. Qed.

(* "released exactly when ALL are finished", the immediate half: every id names a finished job -> the request returns at
   once with all records in request order; nothing but the id table (ids of dropped jobs) changes *)
Lemma waitl_all_done_immediate : forall s k c is all,
  is_idle c s = true -> resolve s is = Some all -> all_done s all ->
  exists s', xstep (s, k) (WaitL c is) = ((s', k_del k c), records s' c all) /\
             s_jobs s' = s_jobs s /\ s_conns s' = s_conns s /\ s_hub s' = s_hub s.
Proof.
  intros s k c is all EI ER H. cbn [xstep]. unfold wait_start. rewrite EI, ER.
  destruct (wait_from_all_done c all all s H) as (s'&E&A&B&C). rewrite E. exists s'. auto.
Qed.

(* the blocking half: the client blocks on the first unfinished job object of its list; the continuation remembers the
   OBJECTS (serials) that follow and the whole request - the ids are never looked up again *)
Lemma waitl_blocks_on_first_unfinished : forall s k c is pre ser post j,
  is_idle c s = true -> resolve s is = Some (pre ++ ser :: post) -> all_done s pre ->
  getjob (s_jobs s) ser = Some j -> j_done j = false ->
  let r := xstep (s, k) (WaitL c is) in
  snd r = [OBlocked] /\ c_st (get_conn (s_conns (fst (fst r))) c) = BWait ser /\
  k_get (snd (fst r)) c = Some (ser, (post, pre ++ ser :: post)) /\ s_jobs (fst (fst r)) = s_jobs s.
Proof.
  intros s k c is pre ser post j EI ER H Ej Dj. cbn [xstep]. unfold wait_start. rewrite EI, ER.
  destruct (wait_from_blocks c (pre ++ ser :: post) pre ser post s j H Ej Dj) as (s'&E&A&B). rewrite E.
  cbn [fst snd]. repeat split; auto. apply k_get_set.
Qed.

(* one id: the extended machine does exactly what Model.v's Wait does *)
Lemma xwait_single_agrees : forall s k c i,
  fst (fst (xstep (s, k) (Base (Wait c i)))) = fst (step s (Wait c i)) /\
  snd (xstep (s, k) (Base (Wait c i))) = snd (step s (Wait c i)).
Proof.
  intros s k c i. cbn [xstep step]. unfold wait_start. destruct (is_idle c s); [|split; reflexivity].
  cbn [resolve]. destruct (id_lookup (s_ids s) i) as [ser|]; [|split; reflexivity].
  destruct (getjob (s_jobs s) ser) as [j|] eqn:Ej; [|split; reflexivity].
  cbn [wait_from]. rewrite Ej. pose proof (getjob_serial _ _ _ Ej) as Es.
  destruct (j_done j) eqn:Dj.
  - cbn [wait_from fst snd]. unfold records. cbn [flat_map]. destruct (forget_fields j s) as (F1&_&_). rewrite F1, Ej.
    unfold forget_dropped. rewrite Es. split; reflexivity.
  - cbn [fst snd]. split; reflexivity.
Qed.

(* ------------------------------------------------------------------ what a released client receives is finished *)

(* the continuation invariant: every job object of the request is finished, or is the one the client is blocked on,
   or is still to come *)
Definition entry_ok (js : list job) (e : cont) : Prop :=
  forall x j, In x (snd (snd e)) -> getjob js x = Some j -> j_done j = true \/ x = fst e \/ In x (fst (snd e)).

Lemma records_done : forall s c all c' j,
  (forall x j0, In x all -> getjob (s_jobs s) x = Some j0 -> j_done j0 = true) ->
  In (OReleased c' j) (records s c all) -> j_done j = true.
Proof.
  intros s c all c' j H Hin. unfold records in Hin. apply in_flat_map in Hin. destruct Hin as (x&Hx&Ho).
  destruct (getjob (s_jobs s) x) as [j0|] eqn:E; [|destruct Ho].
  destruct Ho as [Ho|[]]. inversion Ho; subst. eapply H; eauto.
Qed.

(* one run of the loop, from a point where every job of the request is finished or still in `rest`:
   either it returns, and every record it returns is finished; or it blocks, with a continuation that is ok again *)
Lemma wait_from_spec : forall c all rest s,
  (forall x j, In x all -> getjob (s_jobs s) x = Some j -> j_done j = true \/ In x rest) ->
  match wait_from c all rest s with
  | (s', None, o) => forall c' j, In (OReleased c' j) o -> j_done j = true
  | (s', Some (ser', r'), o) => o = [] /\ entry_ok (s_jobs s') (ser', (r', all))
  end.
Proof.
  intros c all rest. induction rest as [|ser r IH]; intros s H; cbn [wait_from].
  - intros c' j Hin. eapply records_done; [|exact Hin]. intros x j0 Hx E. destruct (H x j0 Hx E) as [D|[]]. exact D.
  - destruct (getjob (s_jobs s) ser) as [j|] eqn:Ej.
    + destruct (j_done j) eqn:Dj.
      * apply IH. destruct (forget_fields j s) as (F1&_&_). rewrite F1. intros x j0 Hx E.
        destruct (H x j0 Hx E) as [D|[Q|Q]]; auto. subst x. left. congruence.
      * split; [reflexivity|]. unfold entry_ok. cbn [fst snd]. sf. intros x j0 Hx E.
        destruct (H x j0 Hx E) as [D|[Q|Q]]; auto.
    + apply IH. intros x j0 Hx E. destruct (H x j0 Hx E) as [D|[Q|Q]]; auto. subst x. congruence.
Qed.

(* a wait that returns at once - in ANY state - returns finished records only *)
Lemma waitl_immediate_release_finished : forall s k c is c' j,
  In (OReleased c' j) (snd (xstep (s, k) (WaitL c is))) -> j_done j = true.
Proof.
  intros s k c is c' j. cbn [xstep]. unfold wait_start. destruct (is_idle c s); [|intros [H|[]]; discriminate H].
  destruct (resolve s is) as [all|]; [|intros [H|[]]; discriminate H].
  pose proof (wait_from_spec c all all s) as SP.
  destruct (wait_from c all all s) as [[s1 [[ser r]|]] o]; cbn [snd].
  - intros [H|[]]; discriminate H.
  - apply SP. intros x j0 Hx _. right. exact Hx.
Qed.

(* a wait that blocks stores a continuation that is ok *)
Lemma waitl_block_entry_ok : forall s k c is all s1 ser r o,
  is_idle c s = true -> resolve s is = Some all -> wait_from c all all s = (s1, Some (ser, r), o) ->
  xstep (s, k) (WaitL c is) = ((s1, k_set k c (ser, (r, all))), [OBlocked]) /\ entry_ok (s_jobs s1) (ser, (r, all)).
Proof.
  intros s k c is all s1 ser r o EI ER EW. cbn [xstep]. unfold wait_start. rewrite EI, ER, EW. split; [reflexivity|].
  pose proof (wait_from_spec c all all s) as SP. rewrite EW in SP. apply SP. intros x j0 Hx _. right. exact Hx.
Qed.

(* the finish notifier of job ser resumes a client whose continuation is ok and blocked on ser (now finished): it returns
   finished records only, or blocks again with a continuation that is ok *)
Lemma resume_one_ok : forall c ser rest all s,
  entry_ok (s_jobs s) (ser, (rest, all)) -> really_done (s_jobs s) ser ->
  match wait_from c all rest s with
  | (s', None, o) => forall c' j, In (OReleased c' j) o -> j_done j = true
  | (s', Some (ser', r'), o) => o = [] /\ entry_ok (s_jobs s') (ser', (r', all))
  end.
Proof.
  intros c ser rest all s H (js&Es&Ds). apply wait_from_spec. intros x j Hx E.
  destruct (H x j Hx E) as [D|[Q|Q]]; cbn [fst snd] in *; auto. subst x. left. congruence.
Qed.

(* ------------------------------------------------------------------ non-vacuity *)

(* jobs n0 (serial 1) and n1 (serial 2); client 5 waits for [n0; n1] and blocks on n0; n1 is killed and RE-ADDED (serial 3
   now owns the id n1); n0 is finished; the event loop runs: client 5 is released with the records of serials 1 and 2 -
   the objects it named - although the id n1 names the unfinished serial 3 by then. *)
Definition wl_h : list xop :=
  [Base (Add 0 0 (Some 0) None); Base (Add 0 0 (Some 1) None); WaitL 5 [JName 0; JName 1];
   Base (Kill 7 [JName 1]); Base (Add 0 0 (Some 1) None); Base (Finish 7 (JName 0) (Some 7) ENone)].

Lemma wl_example :
  let x := xrun wl_h xinit in
  c_st (get_conn (s_conns (fst x)) 5) = BWait 1 /\ k_get (snd x) 5 = Some (1, ([2], [1; 2])) /\
  id_lookup (s_ids (fst x)) (JName 1) = Some 3 /\ is_done (s_jobs (fst x)) 3 = false /\
  map (fun o => match o with OReleased c j => (c, j_serial j, j_done j) | _ => (0, 0, false) end)
      (snd (xstep x (Base RunLoop))) = [(5, 1, true); (5, 2, true)] /\
  c_st (get_conn (s_conns (fst (fst (xstep x (Base RunLoop))))) 5) = Idle.
Proof. vm_compute. repeat split; reflexivity. Qed.
