(* C17 — property theorems only (each closed by `exact <lemma>`, followed by Print Assumptions). *)
From Coq Require Import List NArith Bool.
From MW Require Import C16.Model C16.ModelWaitL C16.Proofs C17.Proofs C17.ProofsOrder C17.ProofsCount C17.ProofsLive C17.ProofsWaitL.
Import ListNotations.
Open Scope N_scope.

(* Eligibility and "never a finished job": whatever any op of any history delivers to a puller
   (immediately from StartPull, or at RunLoop through a hand-off, a retry or after re-queues) is
   not done at delivery time and belongs to a requested channel (or none was requested). *)
Theorem C17_delivered_eligible_and_unfinished : forall h o c chs j,
  In (ODeliver c chs j) (snd (step (run h init) o)) ->
  j_done j = false /\ (chs = [] \/ mem (j_chan j) chs = true).
Proof. exact delivered_ok. Qed.
Print Assumptions C17_delivered_eligible_and_unfinished.

(* Finality: once a job is done in a reachable state, no continuation (finish, kill, timeout,
   re-add, disconnects, ...) changes done / error / result. *)
Theorem C17_first_outcome_wins : forall h1 h2 x j,
  getjob (s_jobs (run h1 init)) x = Some j -> j_done j = true ->
  exists j', getjob (s_jobs (run h2 (run h1 init))) x = Some j' /\
             j_done j' = true /\ j_err j' = j_err j /\ j_res j' = j_res j.
Proof. exact first_outcome_wins. Qed.
Print Assumptions C17_first_outcome_wins.

(* Re-add under an existing id whose job was not killed: nothing changes, the id is returned. *)
Theorem C17_readd_idempotent : forall s ch prio n tmo ser j,
  id_lookup (s_ids s) (JName n) = Some ser -> getjob (s_jobs s) ser = Some j ->
  err_is_killed (j_err j) = false ->
  step s (Add ch prio (Some n) tmo) = (s, [OJid (JName n)]).
Proof. exact readd_idempotent. Qed.
Print Assumptions C17_readd_idempotent.

Theorem C17_readd_after_kill_is_new : forall s ch prio n tmo ser j,
  id_lookup (s_ids s) (JName n) = Some ser -> getjob (s_jobs s) ser = Some j ->
  err_is_killed (j_err j) = true ->
  s_count (fst (step s (Add ch prio (Some n) tmo))) = s_count s + 1 /\
  snd (step s (Add ch prio (Some n) tmo)) = [OJid (JName n)].
Proof. exact readd_after_kill_is_new. Qed.
Print Assumptions C17_readd_after_kill_is_new.

(* Waits: a wait on a finished job returns at once with it - in EVERY state, also while the finish notifier of
   earlier waiters is still pending in the hub (a8ac510: before, such a late client blocked on gevent's pending
   notifier and was never released when the earlier waiters' connections dropped first:
   A 0 0 - -;W 1 a1;D 1;K 7 a1;W 5 a1;L); a wait on an unfinished job blocks; the only event that releases a
   blocked client is the finish event of its job. *)
Theorem C17_wait_done_immediate : forall s c i ser j,
  is_idle c s = true -> id_lookup (s_ids s) i = Some ser -> getjob (s_jobs s) ser = Some j -> j_done j = true ->
  j_drop j = false ->                       (* nobody called rpc_qdrop on it (then its id is forgotten as well: C17_wait_done_dropped) *)
  step s (Wait c i) = (s, [OReleased c j]).
Proof. exact wait_done_immediate. Qed.
Print Assumptions C17_wait_done_immediate.

(* a dropped finished job is handed over and its id is forgotten - while the id still names this very job object *)
Theorem C17_wait_done_dropped : forall s c i ser j,
  is_idle c s = true -> id_lookup (s_ids s) i = Some ser -> getjob (s_jobs s) ser = Some j -> j_done j = true ->
  j_drop j = true -> id_is (s_ids s) (j_id j) ser = true ->
  step s (Wait c i) = (set_ids (id_del (s_ids s) (j_id j)) s, [OReleased c j]).
Proof. exact wait_done_dropped. Qed.
Print Assumptions C17_wait_done_dropped.

(* "released exactly when finished", safety half, over all histories: whatever op releases a waiting client (Wait
   at once, or RunLoop through the job's finish event), the job record it returns is finished. *)
Theorem C17_released_only_finished : forall h o c j,
  In (OReleased c j) (snd (step (run h init) o)) -> j_done j = true.
Proof. exact released_only_finished. Qed.
Print Assumptions C17_released_only_finished.

Theorem C17_wait_undone_blocks : forall s c i ser j,
  is_idle c s = true -> id_lookup (s_ids s) i = Some ser -> getjob (s_jobs s) ser = Some j -> j_done j = false ->
  snd (step s (Wait c i)) = [OBlocked] /\ c_st (get_conn (s_conns (fst (step s (Wait c i)))) c) = BWait ser.
Proof. exact wait_undone_blocks. Qed.
Print Assumptions C17_wait_undone_blocks.

(* Priority/FIFO order.  For every history h and every pull: the job StartPull hands over at once
   is the minimum, in the order (priority, serial) of jobs.py:45-52 (serial = arrival order), among ALL unfinished
   jobs queued on a requested channel (on any channel when none was named): no such job (p, x) is smaller.
   `q_get (s_queues s) k = Some q` is the dict lookup channel2q[k].  Rests on: every channel queue is sorted (the
   heap-as-sorted-list contract of Model.v, proved as invariant QS for every op incl. Drop), _preenall leaves an
   unfinished job at every non-empty queue's head, heads = min of the heads. *)
Theorem C17_min_first : forall h c chs j,
  let s := run h init in
  In (ODeliver c chs j) (snd (step s (StartPull c chs))) ->
  forall k q p x, q_get (s_queues s) k = Some q -> (chs = [] \/ mem k chs = true) -> In (p, x) q ->
  is_done (s_jobs s) x = false -> key_lt (p, x) (j_prio j, j_serial j) = false.
Proof. exact min_first. Qed.
Print Assumptions C17_min_first.

(* ... read as the two rules a client relies on: priority first (numerically smaller wins), FIFO (arrival serial)
   within one priority. *)
Theorem C17_priority_then_fifo : forall h c chs j,
  let s := run h init in
  In (ODeliver c chs j) (snd (step s (StartPull c chs))) ->
  forall k q p x, q_get (s_queues s) k = Some q -> (chs = [] \/ mem k chs = true) -> In (p, x) q ->
  is_done (s_jobs s) x = false -> j_prio j <= p /\ (p = j_prio j -> j_serial j <= x).
Proof. exact min_first_prio_fifo. Qed.
Print Assumptions C17_priority_then_fifo.

(* ... and a pull blocks only when every job queued on the requested channels is finished (stale heap entries) *)
Theorem C17_pull_blocks_only_when_nothing_is_queued : forall h c chs,
  let s := run h init in
  is_idle c s = true -> In OBlocked (snd (step s (StartPull c chs))) ->
  forall k q p x, q_get (s_queues s) k = Some q -> (chs = [] \/ mem k chs = true) -> In (p, x) q ->
  is_done (s_jobs s) x = true.
Proof. exact blocks_only_when_empty. Qed.
Print Assumptions C17_pull_blocks_only_when_nothing_is_queued.

(* Counters.  For EVERY history (Drop, Watchdog, Advance included): for each channel, error + timeout + killed +
   success of _channel2count equals the number of finished job OBJECTS of that channel among all objects created
   since the server started (s_jobs never forgets an object, also when dropdead/waitjobs forget its id).  "Since
   start" for an id that was killed and added again: the killed object and the new object are two objects, each
   counted once when it finishes.  (True of the code since f2b0ce6: a falsy error counts as success.)  After a
   restart the counters start from zero (restore_state: s_cnt = []) while finished jobs are kept; the same proof
   gives  total + base = donecount  for base = the finished jobs restored (invariant CI, lemma run_ci). *)
Theorem C17_counters : forall h ch,
  let s := run h init in
  total (cnt_get (s_cnt s) ch) = donecount (s_jobs s) ch.
Proof. exact counters. Qed.
Print Assumptions C17_counters.

(* "Clients waiting for a job are released exactly when it is finished", liveness half.
   Hub invariant, for EVERY history: a connection blocked in a wait either waits for an unfinished job, or the wake-up
   (the notifier of its job's finish event, EvDone) is queued in the hub. *)
Theorem C17_waiter_has_wakeup : forall h c ser, let s := run h init in
  c_st (get_conn (s_conns s) c) = BWait ser ->
  is_done (s_jobs s) ser = false \/ done_pending ser (s_hub s) = true.
Proof. exact waiter_has_wakeup. Qed.
Print Assumptions C17_waiter_has_wakeup.

(* The event-loop turn that follows the finish ends the wait: connection c blocked on job ser, ser finished; after
   RunLoop c has received the finished job record - or c's own disconnect was queued in front of the notification and
   c died in this very turn. *)
Theorem C17_runloop_releases : forall h c ser, let s := run h init in
  c_st (get_conn (s_conns s) c) = BWait ser -> is_done (s_jobs s) ser = true ->
  exists j, getjob (s_jobs s) ser = Some j /\ j_done j = true /\
    (In (OReleased c j) (snd (step s RunLoop)) \/
     (In (ODied c) (snd (step s RunLoop)) /\
      exists a b, s_hub s = a ++ EvKill c :: b /\ ~ In (EvDone ser) a)).
Proof. exact runloop_outcome. Qed.
Print Assumptions C17_runloop_releases.

Theorem C17_no_waiter_of_finished_job_after_loop : forall h c ser, let s := run h init in
  is_done (s_jobs s) ser = true -> c_st (get_conn (s_conns (fst (step s RunLoop))) c) <> BWait ser.
Proof. exact no_waiter_of_done_after_loop. Qed.
Print Assumptions C17_no_waiter_of_finished_job_after_loop.

(* From the wait to its end, over any continuation h2: c blocks on ser after h; if ser is finished after h2, then in
   the outputs of h2 followed by one RunLoop c was released with the finished record of ser, or c died; and as long as
   ser is unfinished, c is still blocked (or died): released exactly when finished. *)
Theorem C17_wait_ends_by_release_or_death : forall h c ser h2, let s := run h init in let s2 := run h2 s in
  c_st (get_conn (s_conns s) c) = BWait ser ->
  is_done (s_jobs s2) ser = true ->
  let tr := outs (h2 ++ [RunLoop]) s in
  (exists j, j_serial j = ser /\ j_done j = true /\ In (OReleased c j) tr) \/ In (ODied c) tr.
Proof. exact wait_ends_by_release_or_death. Qed.
Print Assumptions C17_wait_ends_by_release_or_death.

Theorem C17_wait_blocks_until_finish : forall h c ser h2, let s := run h init in let s2 := run h2 s in
  c_st (get_conn (s_conns s) c) = BWait ser ->
  is_done (s_jobs s2) ser = false ->
  c_st (get_conn (s_conns s2) c) = BWait ser \/ In (ODied c) (outs h2 s).
Proof. exact wait_blocks_until_finish. Qed.
Print Assumptions C17_wait_blocks_until_finish.

(* Non-vacuity: Add; Wait 1 a1 blocks; Finish 2 a1 queues the notifier; RunLoop releases connection 1 with result 7. *)
Example C17_wait_example :
  let s := run live_h init in
  let s2 := run [live_fin] s in
  outs live_h init = [OJid (JAuto 1); OBlocked] /\
  c_st (get_conn (s_conns s) 1) = BWait 1 /\ is_done (s_jobs s) 1 = false /\
  c_st (get_conn (s_conns s2) 1) = BWait 1 /\ is_done (s_jobs s2) 1 = true /\ s_hub s2 = [EvDone 1] /\
  c_st (get_conn (s_conns (fst (step s2 RunLoop))) 1) = Idle /\
  exists j, snd (step s2 RunLoop) = [OReleased 1 j] /\ j_serial j = 1 /\ j_done j = true /\ j_res j = Some 7.
Proof. exact live_released. Qed.
Print Assumptions C17_wait_example.

(* ------------------------------------------------------------------------------------------------------------------
   rpc_qwait with SEVERAL ids (coq/C16/ModelWaitL.v: xstep = Model.step + WaitL c [i1; ..; in] + the continuation of the
   waitjobs loop at the finish notifier).  "A client is released exactly when ALL the job objects its ids named when the
   request arrived are finished; it receives their records."

   Every state of the extended machine satisfies Model.v's invariant Good (the loop of waitjobs is a sequence of one-id
   Waits of the same connection: wait_from_run), so the state invariants proved for Model.v carry over. *)
Theorem C17_waitl_invariant : forall h, Good (fst (xrun h xinit)).
Proof. exact x_reachable_good. Qed.
Print Assumptions C17_waitl_invariant.

Theorem C17_waitl_conservation : forall h x j,
  let s := fst (xrun h xinit) in
  getjob (s_jobs s) x = Some j -> j_done j = false ->
  (in_queues s x + with_workers s x = 1)%nat /\ id_lookup (s_ids s) (j_id j) = Some x.
Proof. exact x_conservation. Qed.
Print Assumptions C17_waitl_conservation.

(* one id: exactly Model.v's Wait (state and outputs) *)
Theorem C17_waitl_one_id_is_wait : forall s k c i,
  fst (fst (xstep (s, k) (Base (Wait c i)))) = fst (step s (Wait c i)) /\
  snd (xstep (s, k) (Base (Wait c i))) = snd (step s (Wait c i)).
Proof. exact xwait_single_agrees. Qed.
Print Assumptions C17_waitl_one_id_is_wait.

(* in EVERY state: all named jobs finished -> the request returns at once with all records, in request order *)
Theorem C17_waitl_all_done_immediate : forall s k c is all,
  is_idle c s = true -> resolve s is = Some all -> all_done s all ->
  exists s', xstep (s, k) (WaitL c is) = ((s', k_del k c), records s' c all) /\
             s_jobs s' = s_jobs s /\ s_conns s' = s_conns s /\ s_hub s' = s_hub s.
Proof. exact waitl_all_done_immediate. Qed.
Print Assumptions C17_waitl_all_done_immediate.

(* in EVERY state: the client blocks on the first unfinished job OBJECT; the continuation keeps the objects (serials)
   that follow and the whole request - ids are resolved once, when the request arrives *)
Theorem C17_waitl_blocks_on_first_unfinished : forall s k c is pre ser post j,
  is_idle c s = true -> resolve s is = Some (pre ++ ser :: post) -> all_done s pre ->
  getjob (s_jobs s) ser = Some j -> j_done j = false ->
  let r := xstep (s, k) (WaitL c is) in
  snd r = [OBlocked] /\ c_st (get_conn (s_conns (fst (fst r))) c) = BWait ser /\
  k_get (snd (fst r)) c = Some (ser, (post, pre ++ ser :: post)) /\ s_jobs (fst (fst r)) = s_jobs s.
Proof. exact waitl_blocks_on_first_unfinished. Qed.
Print Assumptions C17_waitl_blocks_on_first_unfinished.

(* in EVERY state: what a wait that returns at once hands over is finished *)
Theorem C17_waitl_immediate_release_finished : forall s k c is c' j,
  In (OReleased c' j) (snd (xstep (s, k) (WaitL c is))) -> j_done j = true.
Proof. exact waitl_immediate_release_finished. Qed.
Print Assumptions C17_waitl_immediate_release_finished.

(* PARTIAL (one link of the chain, in every state): a client whose continuation is ok (every job object of its request is
   finished, or the one it is blocked on, or still to come) and whose current job is finished, when resumed by the finish
   notifier, returns finished records only - or blocks again with a continuation that is ok again; and a WaitL that blocks
   stores a continuation that is ok.
   NOT PROVED (full statement):
     Theorem C17_waitl_released_only_finished : forall h o c j,
       In (OReleased c j) (snd (xstep (xrun h xinit) o)) -> j_done j = true.
     Theorem C17_waitl_runloop_releases : forall h c ser rest all, let x := xrun h xinit in
       c_st (get_conn (s_conns (fst x)) c) = BWait ser -> k_get (snd x) c = Some (ser, (rest, all)) ->
       (forall y, In y all -> is_done (s_jobs (fst x)) y = true) ->
       (forall y, In y all -> exists j, In (OReleased c j) (snd (xstep x (Base RunLoop))) /\ j_serial j = y /\ j_done j = true)
       \/ In (ODied c) (snd (xstep x (Base RunLoop))).
   Missing: that entry_ok of every stored continuation is preserved by every op (needs: job objects are never removed from
   s_jobs and stay finished once finished, at the granularity of single ops - step_fin_le gives the second half only for
   finished jobs - and that the continuation of a connection in BWait ser has cur = ser), and the lift of
   ProofsLive.run_events_track to xrun_events.  For ONE id both are C17_released_only_finished / C17_runloop_releases above
   (C17_waitl_one_id_is_wait).  On the real code the list statements are checked by the monitor `wait` on every history. *)
Theorem C17_waitl_continuation_ok_partial : forall c ser rest all s,
  entry_ok (s_jobs s) (ser, (rest, all)) -> really_done (s_jobs s) ser ->
  match wait_from c all rest s with
  | (s', None, o) => forall c' j, In (OReleased c' j) o -> j_done j = true
  | (s', Some (ser', r'), o) => o = [] /\ entry_ok (s_jobs s') (ser', (r', all))
  end.
Proof. exact resume_one_ok. Qed.
Print Assumptions C17_waitl_continuation_ok_partial.

Theorem C17_waitl_block_stores_ok_continuation : forall s k c is all s1 ser r o,
  is_idle c s = true -> resolve s is = Some all -> wait_from c all all s = (s1, Some (ser, r), o) ->
  xstep (s, k) (WaitL c is) = ((s1, k_set k c (ser, (r, all))), [OBlocked]) /\ entry_ok (s_jobs s1) (ser, (r, all)).
Proof. exact waitl_block_entry_ok. Qed.
Print Assumptions C17_waitl_block_stores_ok_continuation.

(* Non-vacuity = the regression this guards against: client 5 waits for [n0; n1]; while it is blocked on n0, n1 is killed
   and re-added (the id n1 now names the unfinished serial 3); n0 finishes; the loop turn releases client 5 with the
   records of serials 1 and 2. *)
Example C17_waitl_example :
  let x := xrun wl_h xinit in
  c_st (get_conn (s_conns (fst x)) 5) = BWait 1 /\ k_get (snd x) 5 = Some (1, ([2], [1; 2])) /\
  id_lookup (s_ids (fst x)) (JName 1) = Some 3 /\ is_done (s_jobs (fst x)) 3 = false /\
  map (fun o => match o with OReleased c j => (c, j_serial j, j_done j) | _ => (0, 0, false) end)
      (snd (xstep x (Base RunLoop))) = [(5, 1, true); (5, 2, true)] /\
  c_st (get_conn (s_conns (fst (fst (xstep x (Base RunLoop))))) 5) = Idle.
Proof. exact wl_example. Qed.
Print Assumptions C17_waitl_example.
