(* C17 — property theorems only (each closed by `exact <lemma>`, followed by Print Assumptions). *)
From Coq Require Import List NArith Bool.
From MW Require Import C16.Model C16.Proofs C17.Proofs.
Import ListNotations.
Open Scope N_scope.

(* Eligibility and "never a finished job": whatever any op of any history delivers to a puller
   (immediately from StartPull, or at RunLoop through a hand-off, a retry or after re-queues) is
   not done at delivery time and belongs to a requested channel (or none was requested). *)
Theorem C17_delivered_eligible_and_unfinished : forall h o c chs j, nodrop h = true ->
  In (ODeliver c chs j) (snd (step (run h init) o)) ->
  j_done j = false /\ (chs = [] \/ mem (j_chan j) chs = true).
Proof. exact delivered_ok. Qed.
Print Assumptions C17_delivered_eligible_and_unfinished.

(* Finality: once a job is done in a reachable state, no continuation (finish, kill, timeout,
   re-add, disconnects, ...) changes done / error / result. *)
Theorem C17_first_outcome_wins : forall h1 h2 x j, nodrop h1 = true -> nodrop h2 = true ->
  getjob (s_jobs (run h1 init)) x = Some j -> j_done j = true ->
  exists j', getjob (s_jobs (run h2 (run h1 init))) x = Some j' /\
             j_done j' = true /\ j_err j' = j_err j /\ j_res j' = j_res j.
Proof. exact first_outcome_wins. Qed.
Print Assumptions C17_first_outcome_wins.

(* Re-add under an existing id whose job was not killed: nothing changes, the id is returned. *)
Theorem C17_readd_idempotent : forall s ch prio n tmo ser j,
  id_lookup (s_ids s) (JName n) = Some ser -> getjob (s_jobs s) ser = Some j ->
  err_is_killed (j_err j) = false ->
  step s (Add ch prio (Some n) tmo) = (s, [OJid (JName n)]).
Proof. exact readd_idempotent. Qed.
Print Assumptions C17_readd_idempotent.

Theorem C17_readd_after_kill_is_new : forall s ch prio n tmo ser j,
  id_lookup (s_ids s) (JName n) = Some ser -> getjob (s_jobs s) ser = Some j ->
  err_is_killed (j_err j) = true ->
  s_count (fst (step s (Add ch prio (Some n) tmo))) = s_count s + 1 /\
  snd (step s (Add ch prio (Some n) tmo)) = [OJid (JName n)].
Proof. exact readd_after_kill_is_new. Qed.
Print Assumptions C17_readd_after_kill_is_new.

(* Waits: a wait on a finished job returns at once with it; a wait on an unfinished job blocks;
   the only event that releases a waiting client is the finish event of its job. *)
Theorem C17_wait_done_immediate : forall s c i ser j,
  is_idle c s = true -> id_lookup (s_ids s) i = Some ser -> getjob (s_jobs s) ser = Some j -> j_done j = true ->
  done_pending ser (s_hub s) = false ->     (* no finish notification of this job still queued in the hub; after a restart s_hub = [] *)
  j_drop j = false ->                       (* nobody called rpc_qdrop on it (then its id is forgotten as well: wait_done_dropped) *)
  step s (Wait c i) = (s, [OReleased c j]).
Proof. exact wait_done_immediate. Qed.
Print Assumptions C17_wait_done_immediate.

Theorem C17_wait_undone_blocks : forall s c i ser j,
  is_idle c s = true -> id_lookup (s_ids s) i = Some ser -> getjob (s_jobs s) ser = Some j -> j_done j = false ->
  snd (step s (Wait c i)) = [OBlocked] /\ c_st (get_conn (s_conns (fst (step s (Wait c i)))) c) = BWait ser.
Proof. exact wait_undone_blocks. Qed.
Print Assumptions C17_wait_undone_blocks.

(* NOT PROVED in Coq (covered by the differential run and the monitors only); full statements:
   C17_min_first : forall h c chs j, is_idle c (run h init) = true ->
       In (ODeliver c chs j) (snd (step (run h init) (StartPull c chs))) ->
       forall k q p x, In (k, q) (s_queues (run h init)) -> (chs = [] \/ mem k chs = true) -> In (p, x) q ->
       is_done (s_jobs (run h init)) x = false -> key_lt (p, x) (j_prio j, j_serial j) = false.
     (needs the additional invariant "every channel queue is sorted by (prio, serial)".)
   C17_wait_released_iff_done, liveness half : a connection in BWait ser in a reachable state has the job
       unfinished or EvDone ser pending in s_hub. (needs a hub invariant.)
   C17_counters : forall h ch, n_error + n_timeout + n_killed + n_success of cnt_get (s_cnt (run h init)) ch
       = number of done jobs of channel ch in s_jobs (run h init).   (holds for the model with
       /verif/fixes/C17-counters.diff; false for the current code: error="" is counted nowhere.) *)
