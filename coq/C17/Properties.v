(* C17 — property theorems only (each closed by `exact <lemma>`, followed by Print Assumptions). *)
From Coq Require Import List NArith Bool.
From MW Require Import C16.Model C16.Proofs C17.Proofs C17.ProofsOrder C17.ProofsCount.
Import ListNotations.
Open Scope N_scope.

(* Eligibility and "never a finished job": whatever any op of any history delivers to a puller
   (immediately from StartPull, or at RunLoop through a hand-off, a retry or after re-queues) is
   not done at delivery time and belongs to a requested channel (or none was requested). *)
Theorem C17_delivered_eligible_and_unfinished : forall h o c chs j, nodrop h = true ->
  In (ODeliver c chs j) (snd (step (run h init) o)) ->
  j_done j = false /\ (chs = [] \/ mem (j_chan j) chs = true).
Proof. exact delivered_ok. Qed.
Print Assumptions C17_delivered_eligible_and_unfinished.

(* Finality: once a job is done in a reachable state, no continuation (finish, kill, timeout,
   re-add, disconnects, ...) changes done / error / result. *)
Theorem C17_first_outcome_wins : forall h1 h2 x j, nodrop h1 = true -> nodrop h2 = true ->
  getjob (s_jobs (run h1 init)) x = Some j -> j_done j = true ->
  exists j', getjob (s_jobs (run h2 (run h1 init))) x = Some j' /\
             j_done j' = true /\ j_err j' = j_err j /\ j_res j' = j_res j.
Proof. exact first_outcome_wins. Qed.
Print Assumptions C17_first_outcome_wins.

(* Re-add under an existing id whose job was not killed: nothing changes, the id is returned. *)
Theorem C17_readd_idempotent : forall s ch prio n tmo ser j,
  id_lookup (s_ids s) (JName n) = Some ser -> getjob (s_jobs s) ser = Some j ->
  err_is_killed (j_err j) = false ->
  step s (Add ch prio (Some n) tmo) = (s, [OJid (JName n)]).
Proof. exact readd_idempotent. Qed.
Print Assumptions C17_readd_idempotent.

Theorem C17_readd_after_kill_is_new : forall s ch prio n tmo ser j,
  id_lookup (s_ids s) (JName n) = Some ser -> getjob (s_jobs s) ser = Some j ->
  err_is_killed (j_err j) = true ->
  s_count (fst (step s (Add ch prio (Some n) tmo))) = s_count s + 1 /\
  snd (step s (Add ch prio (Some n) tmo)) = [OJid (JName n)].
Proof. exact readd_after_kill_is_new. Qed.
Print Assumptions C17_readd_after_kill_is_new.

(* Waits: a wait on a finished job returns at once with it; a wait on an unfinished job blocks;
   the only event that releases a waiting client is the finish event of its job. *)
Theorem C17_wait_done_immediate : forall s c i ser j,
  is_idle c s = true -> id_lookup (s_ids s) i = Some ser -> getjob (s_jobs s) ser = Some j -> j_done j = true ->
  done_pending ser (s_hub s) = false ->     (* no finish notification of this job still queued in the hub; after a restart s_hub = [] *)
  j_drop j = false ->                       (* nobody called rpc_qdrop on it (then its id is forgotten as well: wait_done_dropped) *)
  step s (Wait c i) = (s, [OReleased c j]).
Proof. exact wait_done_immediate. Qed.
Print Assumptions C17_wait_done_immediate.

Theorem C17_wait_undone_blocks : forall s c i ser j,
  is_idle c s = true -> id_lookup (s_ids s) i = Some ser -> getjob (s_jobs s) ser = Some j -> j_done j = false ->
  snd (step s (Wait c i)) = [OBlocked] /\ c_st (get_conn (s_conns (fst (step s (Wait c i)))) c) = BWait ser.
Proof. exact wait_undone_blocks. Qed.
Print Assumptions C17_wait_undone_blocks.

(* Priority/FIFO order.  For every history h without Drop and every pull: the job StartPull hands over at once
   is the minimum, in the order (priority, serial) of jobs.py:45-52 (serial = arrival order), among ALL unfinished
   jobs queued on a requested channel (on any channel when none was named): no such job (p, x) is smaller.
   `q_get (s_queues s) k = Some q` is the dict lookup channel2q[k].  Rests on: every channel queue is sorted (the
   heap-as-sorted-list contract of Model.v, proved as invariant QS for every op incl. Drop), _preenall leaves an
   unfinished job at every non-empty queue's head, heads = min of the heads. *)
Theorem C17_min_first : forall h c chs j, nodrop h = true ->
  let s := run h init in
  In (ODeliver c chs j) (snd (step s (StartPull c chs))) ->
  forall k q p x, q_get (s_queues s) k = Some q -> (chs = [] \/ mem k chs = true) -> In (p, x) q ->
  is_done (s_jobs s) x = false -> key_lt (p, x) (j_prio j, j_serial j) = false.
Proof. exact min_first. Qed.
Print Assumptions C17_min_first.

(* ... and a pull blocks only when every job queued on the requested channels is finished (stale heap entries) *)
Theorem C17_pull_blocks_only_when_nothing_is_queued : forall h c chs,
  let s := run h init in
  is_idle c s = true -> In OBlocked (snd (step s (StartPull c chs))) ->
  forall k q p x, q_get (s_queues s) k = Some q -> (chs = [] \/ mem k chs = true) -> In (p, x) q ->
  is_done (s_jobs s) x = true.
Proof. exact blocks_only_when_empty. Qed.
Print Assumptions C17_pull_blocks_only_when_nothing_is_queued.

(* Counters.  For EVERY history (Drop, Watchdog, Advance included): for each channel, error + timeout + killed +
   success of _channel2count equals the number of finished job OBJECTS of that channel among all objects created
   since the server started (s_jobs never forgets an object, also when dropdead/waitjobs forget its id).  "Since
   start" for an id that was killed and added again: the killed object and the new object are two objects, each
   counted once when it finishes.  (True of the code since f2b0ce6: a falsy error counts as success.)  After a
   restart the counters start from zero (restore_state: s_cnt = []) while finished jobs are kept; the same proof
   gives  total + base = donecount  for base = the finished jobs restored (invariant CI, lemma run_ci). *)
Theorem C17_counters : forall h ch,
  let s := run h init in
  total (cnt_get (s_cnt s) ch) = donecount (s_jobs s) ch.
Proof. exact counters. Qed.
Print Assumptions C17_counters.

(* NOT PROVED in Coq (covered by the differential run and the monitors only); full statement:
   C17_wait_released_iff_done, liveness half : forall h c ser, nodrop h = true ->
       c_st (get_conn (s_conns (run h init)) c) = BWait ser ->
       is_done (s_jobs (run h init)) ser = false \/ done_pending ser (s_hub (run h init)) = true.
     (a connection blocked in a wait has its job unfinished or the wake-up EvDone queued in the hub; needs a hub
      invariant: mark_finished queues EvDone exactly when has_waiter, and RunLoop consumes the whole hub.)
   The safety half is proved: C17_wait_done_immediate, C17_wait_undone_blocks, and released_is_done / evdone_out
   in Proofs.v (a client is released only through EvDone of its job, with the job record, or - dropped job whose
   id is already gone - gets the KeyError response). *)
