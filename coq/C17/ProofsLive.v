(* C17 — LIVENESS of waits: "clients waiting for a job are released exactly when it is finished".
   The safety half (a released client gets a finished record) is in C17/Proofs.v; here:

   (A) waiter_has_wakeup : in every reachable state, a connection blocked in waitjobs() either waits for an
       unfinished job or the wake-up (the notifier of the job's finish_event, EvDone) is queued in the hub;
   (B) runloop_releases / runloop_outcome : the hub turn that follows the finish releases the waiter (it gets
       the finished job record), unless its own disconnect was queued in front of the notification;
   (C) wait_released_after_finish / wait_ends_by_release_or_death : whatever happens between the wait and
       the finish, after the hub turn that follows the finish the client does not wait any more, and over
       the whole trace it was either released with the finished record or it died.

   Every history is over the full alphabet (Drop / Watchdog / Advance included). *)
From Coq Require Import List NArith Bool Lia Arith.
From MW Require Import C16.Model C16.Proofs C17.Proofs.
Import ListNotations.
Open Scope N_scope.

(* ------------------------------------------------------------------ small facts *)

Lemma done_pending_In : forall ser es, done_pending ser es = true <-> In (EvDone ser) es.
Proof.
  intros ser es. induction es as [|e r IH]; cbn [done_pending In].
  - split; [discriminate|tauto].
  - destruct e as [c|c|w].
    + rewrite IH. split; [auto|]. intros [H|H]; [discriminate H|exact H].
    + rewrite IH. split; [auto|]. intros [H|H]; [discriminate H|exact H].
    + rewrite orb_true_iff, IH, N.eqb_eq. split; intros [H|H]; auto.
      * left. congruence.
      * left. inversion H. reflexivity.
Qed.

Lemma new_conn_st : forall c, c_st (new_conn c) = Idle.
Proof. reflexivity. Qed.

(* somebody blocked on `ser` is seen by _mark_finished's "is anybody linked to the event" test; no uniqueness
   of connection ids is needed: get_conn returns the first match, which is an element of the list *)
Lemma has_waiter_get : forall cs c ser, c_st (get_conn cs c) = BWait ser -> has_waiter ser cs = true.
Proof.
  induction cs as [|y r IH]; intros c ser H; cbn [get_conn has_waiter] in *.
  - rewrite new_conn_st in H. discriminate H.
  - destruct (c_id y =? c).
    + rewrite H. rewrite N.eqb_refl. reflexivity.
    + specialize (IH _ _ H). destruct (c_st y); try exact IH. rewrite IH. apply orb_true_r.
Qed.

(* ------------------------------------------------------------------ the invariant *)

(* every connection blocked in a wait waits for an existing job, and either the job is unfinished or its
   finish notification is among the pending hub events `hub` *)
Definition wl (js : list job) (cs : list conn) (hub : list event) : Prop :=
  forall c ser, c_st (get_conn cs c) = BWait ser ->
    getjob js ser <> None /\ (is_done js ser = false \/ In (EvDone ser) hub).

Definition WL (s : state) : Prop := wl (s_jobs s) (s_conns s) (s_hub s).

(* "no connection was newly blocked in a wait" *)
Definition nbw (cs cs' : list conn) : Prop :=
  forall c ser, c_st (get_conn cs' c) = BWait ser -> c_st (get_conn cs c) = BWait ser.

Lemma nbw_refl : forall cs, nbw cs cs.
Proof. intros cs c ser H. exact H. Qed.

Lemma nbw_trans : forall a b c, nbw a b -> nbw b c -> nbw a c.
Proof. intros a b c H1 H2 x ser H. apply H1. apply H2. exact H. Qed.

Lemma nbw_put : forall cs x,
  (forall w, c_st x = BWait w -> c_st (get_conn cs (c_id x)) = BWait w) -> nbw cs (put_conn cs x).
Proof.
  intros cs x Hx c ser H. destruct (N.eq_dec (c_id x) c) as [E|E].
  - subst c. rewrite get_put_same in H. apply Hx. exact H.
  - rewrite get_put_other in H by exact E. exact H.
Qed.

(* a transformer that leaves the job table and the set of pending finish notifications alone (nnd) and does
   not block anybody in a wait *)
Definition frame (s s' : state) : Prop := nnd s s' /\ nbw (s_conns s) (s_conns s').

Lemma frame_refl : forall s, frame s s.
Proof. intro s. split; [apply nnd_refl|apply nbw_refl]. Qed.

Lemma frame_trans : forall a b c, frame a b -> frame b c -> frame a c.
Proof. intros a b c [N1 B1] [N2 B2]. split; [eapply nnd_trans; eauto|eapply nbw_trans; eauto]. Qed.

Lemma frame_same : forall s s', s_jobs s' = s_jobs s -> s_hub s' = s_hub s -> s_conns s' = s_conns s -> frame s s'.
Proof. intros s s' J H C. split; [apply nnd_same; assumption|]. rewrite C. apply nbw_refl. Qed.

Lemma frame_wl_gen : forall s s' es, frame s s' ->
  wl (s_jobs s) (s_conns s) (es ++ s_hub s) -> wl (s_jobs s') (s_conns s') (es ++ s_hub s').
Proof.
  intros s s' es [[J H] B] W c ser Hst. destruct (W c ser (B _ _ Hst)) as [Ex D]. rewrite J. split; [exact Ex|].
  destruct D as [D|D]; [left; exact D|right].
  apply in_app_or in D. apply in_or_app. destruct D as [D|D]; [left; exact D|right; apply H; exact D].
Qed.

Lemma frame_wl : forall s s', frame s s' -> WL s -> WL s'.
Proof. intros s s' F W. apply (frame_wl_gen s s' [] F). exact W. Qed.

(* ------------------------------------------------------------------ frame lemmas of the primitives *)

Lemma pushjob_nbw : forall x s, nbw (s_conns s) (s_conns (pushjob x s)).
Proof.
  intros x s. unfold pushjob. destruct (getjob (s_jobs s) x) as [j|]; [|apply nbw_refl]. cbv zeta. sf.
  destruct (filter (watches (j_chan j)) (s_waiters s)); sf; [apply nbw_refl|].
  apply nbw_put. intros w H. cbn [c_st] in H. discriminate H.
Qed.

Lemma pushjob_frame : forall x s, frame s (pushjob x s).
Proof. intros x s. split; [apply pushjob_nnd|apply pushjob_nbw]. Qed.

Lemma deliver_nbw : forall c chs x s, nbw (s_conns s) (s_conns (fst (deliver c chs x s))).
Proof.
  intros c chs x s. unfold deliver. destruct (getjob (s_jobs s) x) as [j|]; cbn [fst]; [|apply nbw_refl]. sf.
  apply nbw_put. intros w H. cbn [c_st] in H. discriminate H.
Qed.

Lemma pop_nbw : forall c chs s, nbw (s_conns s) (s_conns (fst (pop_or_block c chs s))).
Proof.
  intros c chs s. unfold pop_or_block. cbv zeta. destruct (heads _ _) as [x|].
  - destruct (getjob _ _); [|apply nbw_refl].
    eapply nbw_trans; [|apply deliver_nbw]. apply nbw_refl.
  - cbn [fst]. sf. apply nbw_put. intros w H. cbn [c_st] in H. discriminate H.
Qed.

Lemma shutdown_nbw : forall l s, nbw (s_conns s) (s_conns (shutdown_loop l s)).
Proof.
  induction l as [|[i w] r IH]; intro s; cbn [shutdown_loop]; [apply nbw_refl|].
  destruct (is_done (s_jobs s) w); [apply IH|].
  eapply nbw_trans; [|apply IH]. eapply nbw_trans; [|apply pushjob_nbw]. apply nbw_refl.
Qed.

Lemma die_nbw : forall c s, nbw (s_conns s) (s_conns (fst (die c s))).
Proof.
  intros c s. unfold die. cbv zeta. cbn [fst]. eapply nbw_trans; [|apply shutdown_nbw]. sf.
  apply nbw_put. intros w H. cbn [c_st] in H. discriminate H.
Qed.

Lemma release_nbw : forall ser js cs, nbw cs (fst (release ser js cs)).
Proof.
  intros ser js cs c w H. destruct (release_spec ser js cs) as (_&R2&_).
  destruct (R2 c) as [_ [E|[E _]]]; congruence.
Qed.

Lemma run_event_done_conns : forall x s,
  s_conns (fst (run_event (EvDone x) s)) = fst (release x (s_jobs s) (s_conns s)).
Proof.
  intros x s. cbn [run_event]. destruct (release x (s_jobs s) (s_conns s)) as [cs o].
  destruct (getjob (s_jobs s) x) as [j|]; [|reflexivity].
  destruct (j_drop j && has_waiter x (s_conns s) && id_is (s_ids s) (j_id j) x); reflexivity.
Qed.

Lemma run_event_done_out : forall x s,
  snd (run_event (EvDone x) s) = snd (release x (s_jobs s) (s_conns s)).
Proof.
  intros x s. cbn [run_event]. destruct (release x (s_jobs s) (s_conns s)) as [cs o].
  destruct (getjob (s_jobs s) x) as [j|]; [|reflexivity].
  destruct (j_drop j && has_waiter x (s_conns s) && id_is (s_ids s) (j_id j) x); reflexivity.
Qed.

Lemma run_event_nbw : forall e s, nbw (s_conns s) (s_conns (fst (run_event e s))).
Proof.
  intros e s. destruct e as [c|c|ser].
  - cbn [run_event]. destruct (c_st (get_conn (s_conns s) c)) as [|chs [x|]|w|]; try apply nbw_refl.
    destruct (is_done (s_jobs s) x); [apply pop_nbw|apply deliver_nbw].
  - cbn [run_event]. destruct (c_st (get_conn (s_conns s) c)) as [|chs mb|w|]; try apply nbw_refl; try apply die_nbw.
    eapply nbw_trans; [|apply die_nbw]. destruct mb as [x|]; [|apply nbw_refl].
    sf. destruct (is_done (s_jobs s) x); [apply nbw_refl|].
    eapply nbw_trans; [|apply pushjob_nbw]. apply nbw_refl.
  - rewrite run_event_done_conns. apply release_nbw.
Qed.

Lemma run_event_frame : forall e s, frame s (fst (run_event e s)).
Proof. intros e s. split; [apply run_event_nnd|apply run_event_nbw]. Qed.

Lemma run_events_nbw : forall es s, nbw (s_conns s) (s_conns (fst (run_events es s))).
Proof.
  induction es as [|e r IH]; intro s; cbn [run_events]; [apply nbw_refl|].
  pose proof (run_event_nbw e s) as H1. destruct (run_event e s) as [s1 o1]. cbn [fst] in H1.
  specialize (IH s1). destruct (run_events r s1) as [s2 o2]. cbn [fst] in *. eapply nbw_trans; eauto.
Qed.

(* the notifier of job `ser` releases EVERY connection blocked on it *)
Lemma release_no_bwait : forall ser js cs c, c_st (get_conn (fst (release ser js cs)) c) <> BWait ser.
Proof.
  intros ser js cs c. induction cs as [|y r IH]; cbn [release].
  - cbn [fst get_conn]. rewrite new_conn_st. discriminate.
  - destruct (release ser js r) as [r' o]. cbn [fst] in IH.
    destruct (c_st y) as [|chs mb|w|] eqn:ES; try destruct (w =? ser) eqn:EW; cbn [fst get_conn c_id];
      (destruct (c_id y =? c); [|exact IH]);
      first [ rewrite ES; discriminate
            | cbn [c_st]; discriminate
            | rewrite ES; intro H; inversion H; subst w; rewrite N.eqb_refl in EW; discriminate EW ].
Qed.

Lemma run_event_done_no_bwait : forall x s c, c_st (get_conn (s_conns (fst (run_event (EvDone x) s))) c) <> BWait x.
Proof. intros x s c. rewrite run_event_done_conns. apply release_no_bwait. Qed.

(* ------------------------------------------------------------------ preservation: the hub turn *)

Lemma wl_drop_head : forall js cs e es, (forall x, e <> EvDone x) -> wl js cs (e :: es) -> wl js cs es.
Proof.
  intros js cs e es He W c ser Hst. destruct (W c ser Hst) as [Ex [D|[D|D]]]; split; auto.
  exfalso. eapply He; eauto.
Qed.

Lemma run_event_wl : forall e r s,
  wl (s_jobs s) (s_conns s) ((e :: r) ++ s_hub s) ->
  wl (s_jobs (fst (run_event e s))) (s_conns (fst (run_event e s))) (r ++ s_hub (fst (run_event e s))).
Proof.
  intros e r s W. pose proof (run_event_frame e s) as F. cbn [app] in W.
  destruct e as [c'|c'|x].
  - apply (frame_wl_gen _ _ r F). eapply wl_drop_head; [|exact W]. intros y H; discriminate H.
  - apply (frame_wl_gen _ _ r F). eapply wl_drop_head; [|exact W]. intros y H; discriminate H.
  - intros c ser Hst. destruct F as [[J H] B].
    assert (NE : ser <> x).
    { intro E. subst ser. exact (run_event_done_no_bwait x s c Hst). }
    destruct (W c ser (B _ _ Hst)) as [Ex D]. rewrite J. split; [exact Ex|].
    destruct D as [D|[D|D]]; [left; exact D| |right].
    + exfalso. apply NE. inversion D. reflexivity.
    + apply in_app_or in D. apply in_or_app. destruct D as [D|D]; [left; exact D|right; apply H; exact D].
Qed.

Lemma run_events_wl : forall es s, wl (s_jobs s) (s_conns s) (es ++ s_hub s) -> WL (fst (run_events es s)).
Proof.
  induction es as [|e r IH]; intros s W; cbn [run_events]; [exact W|].
  pose proof (run_event_wl e r s W) as W1. destruct (run_event e s) as [s1 o1]. cbn [fst] in W1.
  specialize (IH s1 W1). destruct (run_events r s1) as [s2 o2]. exact IH.
Qed.

(* ------------------------------------------------------------------ preservation: _mark_finished *)

Lemma mark_wl : forall x u s, WL s -> WL (mark_finished x u s).
Proof.
  intros x u s W. unfold mark_finished. destruct (getjob (s_jobs s) x) as [j|] eqn:E; [|exact W].
  destruct (j_done j) eqn:D; [exact W|]. unfold WL. sf. intros c w Hst.
  destruct (W c w Hst) as [Ex Dw].
  pose proof (has_waiter_get _ _ _ Hst) as HW.
  unfold is_done. rewrite getjob_setjob by (intros; cbn; eapply getjob_serial; eauto).
  destruct (w =? x) eqn:Ewx.
  - apply N.eqb_eq in Ewx. subst w. rewrite E. cbn [option_map]. split; [discriminate|].
    right. rewrite HW. apply in_or_app. right. left. reflexivity.
  - split; [exact Ex|]. destruct Dw as [Dw|Dw]; [left; exact Dw|right].
    destruct (has_waiter x (s_conns s)); [apply in_or_app; left; exact Dw|exact Dw].
Qed.

Lemma killjobs_wl : forall js s, WL s -> WL (killjobs js s).
Proof.
  induction js as [|i r IH]; intros s W; cbn [killjobs]; [exact W|].
  destruct (id_lookup (s_ids s) i); apply IH; [apply mark_wl|]; exact W.
Qed.

Lemma wl_same : forall s s', s_jobs s' = s_jobs s -> s_hub s' = s_hub s -> s_conns s' = s_conns s -> WL s -> WL s'.
Proof. intros s s' J H C. apply frame_wl. apply frame_same; assumption. Qed.

Lemma timeouts_wl : forall q s, WL s -> WL (timeouts_loop q s).
Proof.
  induction q as [|x r IH]; intros s W; cbn [timeouts_loop]; [eapply wl_same; [| | |exact W]; reflexivity|].
  destruct (is_done (s_jobs s) (snd (snd x))); [apply IH; exact W|].
  destruct (s_now s <? fst x); [eapply wl_same; [| | |exact W]; reflexivity|]. apply IH. apply mark_wl. exact W.
Qed.

(* ------------------------------------------------------------------ preservation: updates that keep `done` *)

Definition tab_eqd (js js' : list job) : Prop :=
  forall x, match getjob js x, getjob js' x with
            | None, None => True
            | Some j, Some j' => j_done j' = j_done j
            | _, _ => False
            end.

Lemma tab_eqd_refl : forall js, tab_eqd js js.
Proof. intros js x. destruct (getjob js x); auto. Qed.

Lemma tab_eqd_trans : forall a b c, tab_eqd a b -> tab_eqd b c -> tab_eqd a c.
Proof.
  intros a b c H1 H2 x. specialize (H1 x). specialize (H2 x).
  destruct (getjob a x), (getjob b x), (getjob c x); try contradiction; auto. congruence.
Qed.

Lemma setjob_eqd : forall js ser f,
  (forall j, j_serial (f j) = j_serial j /\ j_done (f j) = j_done j) -> tab_eqd js (setjob ser f js).
Proof.
  intros js ser f Hf x. rewrite getjob_setjob by (intros j0 H0; rewrite (proj1 (Hf j0)); exact H0).
  destruct (x =? ser) eqn:Ex.
  - apply N.eqb_eq in Ex. subst x. destruct (getjob js ser) as [j|]; cbn [option_map]; [apply Hf|exact I].
  - destruct (getjob js x); auto.
Qed.

Lemma wl_eqd : forall js js' cs hub, tab_eqd js js' -> wl js cs hub -> wl js' cs hub.
Proof.
  intros js js' cs hub T W c ser Hst. destruct (W c ser Hst) as [Ex D]. specialize (T ser). unfold is_done in *.
  destruct (getjob js ser) as [j|]; [|congruence]. destruct (getjob js' ser) as [j'|]; [|contradiction].
  split; [discriminate|]. rewrite T. exact D.
Qed.

Lemma dropjobs_eqd : forall js s,
  tab_eqd (s_jobs s) (s_jobs (dropjobs js s)) /\ s_hub (dropjobs js s) = s_hub s /\ s_conns (dropjobs js s) = s_conns s.
Proof.
  induction js as [|i r IH]; intro s; cbn [dropjobs]; [split; [apply tab_eqd_refl|split; reflexivity]|].
  destruct (id_lookup (s_ids s) i) as [ser|]; [|apply IH].
  destruct (IH (set_jobs (setjob ser set_drop (s_jobs s)) s)) as (T&H&C). sf. split; [|split; assumption].
  eapply tab_eqd_trans; [|exact T]. apply setjob_eqd. intro j. cbn. auto.
Qed.

Lemma dropdead_eqd : forall l s,
  tab_eqd (s_jobs s) (s_jobs (dropdead_loop l s)) /\ s_hub (dropdead_loop l s) = s_hub s /\
  s_conns (dropdead_loop l s) = s_conns s.
Proof.
  induction l as [|i r IH]; intro s; cbn [dropdead_loop]; [split; [apply tab_eqd_refl|split; reflexivity]|].
  destruct (id_lookup (s_ids s) i) as [ser|]; [|apply IH].
  destruct (getjob (s_jobs s) ser) as [j|]; [|apply IH]. cbv zeta.
  match goal with |- context [dropdead_loop r ?t] =>
    destruct (IH t) as (T&H&C);
    assert (T0 : tab_eqd (s_jobs s) (s_jobs t) /\ s_hub t = s_hub s /\ s_conns t = s_conns s) end.
  { destruct (match j_dl j with Some d => negb (d =? 0) && (d <? s_now s) | None => false end);
      destruct (j_done j && negb (dl_truthy (j_dl j))); sf; (split; [|split; reflexivity]);
      try apply tab_eqd_refl; apply setjob_eqd; intro j0; cbn; auto. }
  destruct T0 as (T0&H0&C0). split; [eapply tab_eqd_trans; eauto|split; congruence].
Qed.

(* ------------------------------------------------------------------ preservation: every op *)

Lemma step_wl : forall s o, Inv s [] [] -> WL s -> WL (fst (step s o)).
Proof.
  intros s o I W.
  destruct o as [ch prio name tmo|c chs| |c i res e|c js|dt|c|k|c i|i|i v| |dt|js|]; cbn [step].
  - (* Add: the new object has a fresh serial; nobody waits for it *)
    assert (F : forall j0, j_serial j0 = s_count s + 1 ->
                WL (pushjob (s_count s + 1) (set_jobs (j0 :: s_jobs s) (set_count (s_count s + 1) s)))).
    { intros j0 Hs. eapply frame_wl; [apply pushjob_frame|]. unfold WL. sf. intros c w Hst.
      destruct (W c w Hst) as [Ex D].
      assert (Hg : getjob (j0 :: s_jobs s) w = getjob (s_jobs s) w).
      { cbn [getjob]. rewrite Hs. destruct (getjob (s_jobs s) w) as [jw|] eqn:Ew; [|congruence].
        pose proof (inv_tab _ _ _ I _ _ Ew). destruct (s_count s + 1 =? w) eqn:Ex2; [apply N.eqb_eq in Ex2; lia|reflexivity]. }
      unfold is_done. rewrite Hg. split; [exact Ex|exact D]. }
    unfold push. destruct name as [n|]; [|apply F; reflexivity].
    destruct (id_lookup (s_ids s) (JName n)) as [ser|]; [|apply F; reflexivity].
    destruct (getjob (s_jobs s) ser) as [j0|]; [|apply F; reflexivity].
    destruct (err_is_killed (j_err j0)); [apply F; reflexivity|exact W].
  - destruct (is_idle c s); [|exact W]. eapply frame_wl; [|exact W]. split; [apply pop_nnd|apply pop_nbw].
  - apply run_events_wl. sf. rewrite app_nil_r. exact W.
  - destruct (is_idle c s); [|exact W]. destruct (id_lookup (s_ids s) i) as [ser|]; [|exact W]. cbn [fst].
    match goal with |- WL (set_conns _ ?t) => assert (W1 : WL t) by (apply mark_wl; exact W) end.
    eapply frame_wl; [|exact W1]. split; [apply nnd_same; reflexivity|]. sf.
    apply nbw_put. intros w H. cbn [c_st c_id] in *. exact H.
  - destruct (is_idle c s); [|exact W]. cbn [fst].
    pose proof (killjobs_wl js s W) as W1.
    eapply frame_wl; [|exact W1]. split; [apply nnd_same; reflexivity|]. sf.
    apply nbw_put. intros w H. cbn [c_st c_id] in *. exact H.
  - cbn [fst]. unfold handletimeouts. eapply wl_same; [| | |apply (timeouts_wl (s_tq s) (set_now (s_now s + dt) s))]; try reflexivity.
    eapply wl_same; [| | |exact W]; reflexivity.
  - destruct (c_st (get_conn (s_conns s) c)); cbn [fst]; try exact W;
      (intros c0 w Hst; sf; destruct (W c0 w Hst) as [Ex D]; split; [exact Ex|];
       destruct D as [D|D]; [left; exact D|right; apply in_or_app; left; exact D]).
  - cbn [fst]. eapply wl_same; [| | |exact W]; reflexivity.
  - (* Wait blocks only on an existing job that is unfinished or whose notifier is still pending *)
    destruct (is_idle c s); [|exact W]. destruct (id_lookup (s_ids s) i) as [ser|]; [|exact W].
    destruct (getjob (s_jobs s) ser) as [j|] eqn:Ej; [|exact W].
    destruct (j_done j) eqn:ED.
    + destruct (j_drop j && id_is (s_ids s) (j_id j) ser); cbn [fst]; [|exact W].
      eapply wl_same; [| | |exact W]; reflexivity.
    + cbn [fst]. unfold WL. sf. intros c0 w Hst. destruct (N.eq_dec c c0) as [Ec|Ec].
      * subst c0.
        pose proof (get_put_same (s_conns s) (mkConn c (BWait ser) (c_run (get_conn (s_conns s) c)))) as G.
        cbn [c_id] in G. rewrite G in Hst. cbn [c_st] in Hst. inversion Hst; subst w.
        split; [congruence|]. unfold is_done. rewrite Ej. left; exact ED.
      * rewrite get_put_other in Hst by (cbn [c_id]; exact Ec). exact (W c0 w Hst).
  - exact W.
  - destruct (id_lookup (s_ids s) i) as [ser|]; [|exact W]. cbn [fst]. unfold WL. sf.
    eapply wl_eqd; [|exact W]. apply setjob_eqd. intro j. cbn. auto.
  - exact W.
  - cbn [fst]. eapply wl_same; [| | |exact W]; reflexivity.
  - cbn [fst]. destruct (dropjobs_eqd js s) as (T&H&C). unfold WL. rewrite H, C. eapply wl_eqd; eauto.
  - cbn [fst]. unfold dropdead. destruct (dropdead_eqd (map fst (s_ids s)) s) as (T&H&C).
    unfold WL. rewrite H, C. eapply wl_eqd; eauto.
Qed.

Definition GW (s : state) : Prop := Good s /\ WL s.

Lemma step_gw : forall s o, GW s -> GW (fst (step s o)).
Proof. intros s o [G W]. split; [apply step_good; exact G|apply step_wl; [apply G|exact W]]. Qed.

Lemma gw_init : GW init.
Proof. split; [apply good_init|]. intros c ser H. cbn in H. discriminate H. Qed.

Lemma run_gw : forall h s, GW s -> GW (run h s).
Proof. intro h. apply (invariant_reachable GW). intros s o. apply step_gw. Qed.

Lemma reachable_gw : forall h, GW (run h init).
Proof. intro h. apply run_gw. apply gw_init. Qed.

(* (A) every connection blocked in a wait either waits for an unfinished job, or its wake-up - the notifier
   of the job's finish_event - is queued in the hub.  ("every finished job with registered waiters has a
   pending notifier event"; jobs.py:129 finish_event.set() + gevent's Event.) *)
Lemma waiter_has_wakeup : forall h c ser, let s := run h init in
  c_st (get_conn (s_conns s) c) = BWait ser ->
  is_done (s_jobs s) ser = false \/ done_pending ser (s_hub s) = true.
Proof.
  intros h c ser s Hst. destruct (reachable_gw h) as [_ W]. destruct (W c ser Hst) as [_ [D|D]]; [left; exact D|right].
  apply done_pending_In. exact D.
Qed.

(* ... and the job it waits for exists (the job table never forgets) *)
Lemma waiter_job_exists : forall h c ser, let s := run h init in
  c_st (get_conn (s_conns s) c) = BWait ser -> exists j, getjob (s_jobs s) ser = Some j.
Proof.
  intros h c ser s Hst. subst s. destruct (reachable_gw h) as [_ W]. destruct (W c ser Hst) as [Ex _].
  destruct (getjob (s_jobs (run h init)) ser) as [j|]; [exists j; reflexivity|congruence].
Qed.

(* ------------------------------------------------------------------ (B) the hub turn releases the waiter *)

(* what the notifier hands to a blocked client: the job record *)
Lemma release_outputs : forall ser js cs c j,
  c_st (get_conn cs c) = BWait ser -> getjob js ser = Some j ->
  In (OReleased c j) (snd (release ser js cs)).
Proof.
  intros ser js cs c j H Ej. revert H. induction cs as [|y r IH]; cbn [release get_conn]; intro H.
  - rewrite new_conn_st in H. discriminate H.
  - destruct (release ser js r) as [r' o]. cbn [snd] in IH.
    destruct (c_id y =? c) eqn:E.
    + apply N.eqb_eq in E. rewrite H. rewrite N.eqb_refl. cbn [snd]. rewrite Ej. left. rewrite E. reflexivity.
    + specialize (IH H). destruct (c_st y) as [| |w|]; cbn [snd]; try exact IH.
      destruct (w =? ser); cbn [snd]; [rewrite Ej; right; exact IH|exact IH].
Qed.

Lemma release_keeps : forall w ser js cs c, w <> ser ->
  c_st (get_conn cs c) = BWait ser -> c_st (get_conn (fst (release w js cs)) c) = BWait ser.
Proof.
  intros w ser js cs c NE H. destruct (release_spec w js cs) as (_&R2&_).
  destruct (R2 c) as [_ [E|[_ E]]]; [congruence|]. exfalso. apply NE. congruence.
Qed.

(* the primitives touch only the connection they serve (and waiters blocked in a pull) *)
Lemma deliver_conn_other : forall c' chs x s c, c' <> c ->
  get_conn (s_conns (fst (deliver c' chs x s))) c = get_conn (s_conns s) c.
Proof.
  intros c' chs x s c NE. unfold deliver. destruct (getjob (s_jobs s) x) as [j|]; cbn [fst]; [|reflexivity]. sf.
  apply get_put_other. cbn [c_id]. exact NE.
Qed.

Lemma pop_conn_other : forall c' chs s c, c' <> c ->
  get_conn (s_conns (fst (pop_or_block c' chs s))) c = get_conn (s_conns s) c.
Proof.
  intros c' chs s c NE. unfold pop_or_block. cbv zeta. destruct (heads _ _) as [x|].
  - destruct (getjob _ _); [|reflexivity]. rewrite deliver_conn_other by exact NE. reflexivity.
  - cbn [fst]. sf. apply get_put_other. cbn [c_id]. exact NE.
Qed.

Lemma pushjob_not_waiter : forall x s c, ~ In c (map fst (s_waiters s)) -> ~ In c (map fst (s_waiters (pushjob x s))).
Proof.
  intros x s c NW Hin. apply NW. apply in_map_iff in Hin. destruct Hin as (w0&Hf&Hin).
  apply in_map_iff. exists w0. split; [exact Hf|]. eapply pushjob_waiters_sub; eauto.
Qed.

Lemma shutdown_conn_other : forall l s c, ~ In c (map fst (s_waiters s)) ->
  get_conn (s_conns (shutdown_loop l s)) c = get_conn (s_conns s) c.
Proof.
  induction l as [|[i w] r IH]; intros s c NW; cbn [shutdown_loop]; [reflexivity|].
  destruct (is_done (s_jobs s) w); [apply IH; exact NW|].
  rewrite IH by (apply pushjob_not_waiter; exact NW).
  rewrite pushjob_conn_other by exact NW. reflexivity.
Qed.

Lemma die_conn_other : forall c' s c, c' <> c -> ~ In c (map fst (s_waiters s)) ->
  get_conn (s_conns (fst (die c' s))) c = get_conn (s_conns s) c.
Proof.
  intros c' s c NE NW. unfold die. cbv zeta. cbn [fst]. rewrite shutdown_conn_other by exact NW. sf.
  apply get_put_other. cbn [c_id]. exact NE.
Qed.

(* one hub event, seen from a connection c blocked on ser: unless the event is ser's notifier, either c stays
   blocked on ser or the event is c's own disconnect *)
Lemma run_event_track : forall e s c ser, Inv s [] [] ->
  c_st (get_conn (s_conns s) c) = BWait ser -> e <> EvDone ser ->
  c_st (get_conn (s_conns (fst (run_event e s))) c) = BWait ser \/
  (e = EvKill c /\ In (ODied c) (snd (run_event e s))).
Proof.
  intros e s c ser I Hst NE.
  assert (NW : ~ In c (map fst (s_waiters s))).
  { eapply not_waiter; eauto. intros chs' H. rewrite Hst in H. discriminate H. }
  destruct e as [c'|c'|w].
  - left. cbn [run_event]. destruct (N.eq_dec c' c) as [Ec|Ec].
    + subst c'. rewrite Hst. exact Hst.
    + destruct (c_st (get_conn (s_conns s) c')) as [|chs [x|]|w|]; try exact Hst.
      destruct (is_done (s_jobs s) x); [rewrite pop_conn_other by exact Ec|rewrite deliver_conn_other by exact Ec]; exact Hst.
  - cbn [run_event]. destruct (N.eq_dec c' c) as [Ec|Ec].
    + subst c'. right. rewrite Hst. split; [reflexivity|]. unfold die. cbn [snd]. left. reflexivity.
    + left. destruct (c_st (get_conn (s_conns s) c')) as [|chs mb|w|]; try exact Hst;
        try (rewrite die_conn_other by assumption; exact Hst).
      set (s1 := set_waiters (remove_waiter c' (s_waiters s)) s).
      assert (NW1 : ~ In c (map fst (s_waiters s1))).
      { unfold s1. sf. intro Hin. apply NW. apply in_map_iff in Hin. destruct Hin as (w0&Hf&Hin).
        apply in_map_iff. exists w0. split; [exact Hf|]. eapply remove_waiter_In; eauto. }
      destruct mb as [x|]; [destruct (is_done (s_jobs s1) x)|].
      * rewrite die_conn_other by assumption. exact Hst.
      * rewrite die_conn_other by (try assumption; apply pushjob_not_waiter; exact NW1).
        rewrite pushjob_conn_other by exact NW1. exact Hst.
      * rewrite die_conn_other by assumption. exact Hst.
  - left. rewrite run_event_done_conns. apply release_keeps; [congruence|exact Hst].
Qed.

(* one hub turn, seen from a connection c blocked on ser *)
Lemma run_events_track : forall es s c ser j, Inv s [] [] -> hub_ok (s_jobs s) es ->
  c_st (get_conn (s_conns s) c) = BWait ser -> getjob (s_jobs s) ser = Some j ->
  (c_st (get_conn (s_conns (fst (run_events es s))) c) = BWait ser /\ ~ In (EvDone ser) es) \/
  (In (OReleased c j) (snd (run_events es s)) /\ In (EvDone ser) es) \/
  (In (ODied c) (snd (run_events es s)) /\ exists a b, es = a ++ EvKill c :: b /\ ~ In (EvDone ser) a).
Proof.
  induction es as [|e r IH]; intros s c ser j I HD Hst Ej; cbn [run_events].
  - left. split; [exact Hst|intros []].
  - assert (HDe : forall x, e = EvDone x -> really_done (s_jobs s) x) by (intros x E; apply HD; left; exact E).
    pose proof (run_event_inv e s I HDe) as I1. pose proof (run_event_jobs e s) as J1.
    assert (DEC : e = EvDone ser \/ e <> EvDone ser).
    { destruct e as [a|a|w]; try (right; discriminate). destruct (N.eq_dec w ser); [left; congruence|right; congruence]. }
    destruct DEC as [Ee|NE].
    + subst e. right. left. pose proof (release_outputs ser (s_jobs s) (s_conns s) c j Hst Ej) as RO.
      rewrite <- run_event_done_out in RO.
      destruct (run_event (EvDone ser) s) as [s1 o1]. destruct (run_events r s1) as [s2 o2]. cbn [snd] in *.
      split; [|left; reflexivity]. apply in_or_app. left. exact RO.
    + pose proof (run_event_track e s c ser I Hst NE) as T.
      destruct (run_event e s) as [s1 o1]. cbn [fst snd] in *.
      assert (HD1 : hub_ok (s_jobs s1) r) by (rewrite J1; intros x Hin; apply HD; right; exact Hin).
      destruct T as [T|[Ek T]].
      * rewrite <- J1 in Ej. specialize (IH s1 c ser j I1 HD1 T Ej).
        destruct (run_events r s1) as [s2 o2]. cbn [fst snd] in *.
        destruct IH as [[K N]|[[R Rin]|[D (a&b&Eab&Na)]]].
        -- left. split; [exact K|]. intros [H|H]; [exact (NE H)|exact (N H)].
        -- right. left. split; [|right; exact Rin]. apply in_or_app. right. exact R.
        -- right. right. split; [apply in_or_app; right; exact D|].
           exists (e :: a), b. split; [rewrite Eab; reflexivity|]. intros [H|H]; [exact (NE H)|exact (Na H)].
      * destruct (run_events r s1) as [s2 o2]. cbn [snd]. right. right. split; [apply in_or_app; left; exact T|].
        exists [], r. split; [rewrite Ek; reflexivity|intros []].
Qed.

(* the notifier of ser is among the events of the turn: it releases c, and nothing in a hub turn blocks it again *)
Lemma run_events_done_no_bwait : forall es s c ser, In (EvDone ser) es ->
  c_st (get_conn (s_conns (fst (run_events es s))) c) <> BWait ser.
Proof.
  induction es as [|e r IH]; intros s c ser Hin; [destruct Hin|]. cbn [run_events].
  pose proof (run_events_nbw r (fst (run_event e s)) c ser) as B.
  destruct Hin as [He|Hin].
  - subst e. pose proof (run_event_done_no_bwait ser s c) as NB.
    destruct (run_event (EvDone ser) s) as [s1 o1]. cbn [fst] in *.
    destruct (run_events r s1) as [s2 o2]. cbn [fst] in *. intro H. exact (NB (B H)).
  - specialize (IH (fst (run_event e s)) c ser Hin). destruct (run_event e s) as [s1 o1]. cbn [fst] in *.
    destruct (run_events r s1) as [s2 o2]. exact IH.
Qed.

(* state-level versions (any state satisfying the invariants), then the reachable-state corollaries *)
Lemma runloop_no_waiter_gw : forall s c ser, GW s -> is_done (s_jobs s) ser = true ->
  c_st (get_conn (s_conns (fst (step s RunLoop))) c) <> BWait ser.
Proof.
  intros s c ser [G W] D Hafter. cbn [step] in Hafter.
  pose proof (run_events_nbw (s_hub s) (set_hub [] s) c ser Hafter) as Hst. sf.
  destruct (W c ser Hst) as [_ [D0|Hin]]; [congruence|].
  exact (run_events_done_no_bwait (s_hub s) (set_hub [] s) c ser Hin Hafter).
Qed.

Lemma runloop_outcome_gw : forall s c ser, GW s ->
  c_st (get_conn (s_conns s) c) = BWait ser -> is_done (s_jobs s) ser = true ->
  exists j, getjob (s_jobs s) ser = Some j /\ j_done j = true /\
    (In (OReleased c j) (snd (step s RunLoop)) \/
     (In (ODied c) (snd (step s RunLoop)) /\
      exists a b, s_hub s = a ++ EvKill c :: b /\ ~ In (EvDone ser) a)).
Proof.
  intros s c ser [(A&K&I) W] Hst D.
  destruct (W c ser Hst) as [_ [D0|Hin]]; [congruence|].
  destruct (K ser Hin) as (j&Ej&Dj). exists j. split; [exact Ej|]. split; [exact Dj|].
  cbn [step].
  assert (I0 : Inv (set_hub [] s) [] []) by (eapply inv_same; eauto).
  destruct (run_events_track (s_hub s) (set_hub [] s) c ser j I0 K Hst Ej) as [[_ N]|[[R _]|Dd]].
  - exfalso. exact (N Hin).
  - left. exact R.
  - right. exact Dd.
Qed.

(* (B) a waiter blocked on a finished job is not blocked on it after the next hub turn ... *)
Lemma runloop_releases : forall h c ser, let s := run h init in
  c_st (get_conn (s_conns s) c) = BWait ser -> is_done (s_jobs s) ser = true ->
  let s' := fst (step s RunLoop) in c_st (get_conn (s_conns s') c) <> BWait ser.
Proof. intros h c ser s _ D s'. apply runloop_no_waiter_gw; [apply reachable_gw|exact D]. Qed.

(* ... it is not blocked in any wait at all (a hub turn never blocks anybody in a wait) ... *)
Lemma runloop_not_waiting : forall h c ser w, let s := run h init in
  c_st (get_conn (s_conns s) c) = BWait ser -> is_done (s_jobs s) ser = true ->
  c_st (get_conn (s_conns (fst (step s RunLoop))) c) <> BWait w.
Proof.
  intros h c ser w s Hst D Hafter.
  assert (Hb : c_st (get_conn (s_conns s) c) = BWait w).
  { cbn [step] in Hafter. exact (run_events_nbw (s_hub s) (set_hub [] s) c w Hafter). }
  assert (w = ser) by congruence. subst w.
  exact (runloop_releases h c ser Hst D Hafter).
Qed.

(* ... because that turn handed it the finished job record (rpc_qwait returned), unless the connection's own
   disconnect had been queued in front of the finish notification (then it died in this very turn) *)
Lemma runloop_outcome : forall h c ser, let s := run h init in
  c_st (get_conn (s_conns s) c) = BWait ser -> is_done (s_jobs s) ser = true ->
  exists j, getjob (s_jobs s) ser = Some j /\ j_done j = true /\
    (In (OReleased c j) (snd (step s RunLoop)) \/
     (In (ODied c) (snd (step s RunLoop)) /\
      exists a b, s_hub s = a ++ EvKill c :: b /\ ~ In (EvDone ser) a)).
Proof. intros h c ser s Hst D. apply runloop_outcome_gw; [apply reachable_gw|exact Hst|exact D]. Qed.

(* nobody at all waits for a finished job after a hub turn *)
Lemma no_waiter_of_done_after_loop : forall h c ser, let s := run h init in
  is_done (s_jobs s) ser = true -> c_st (get_conn (s_conns (fst (step s RunLoop))) c) <> BWait ser.
Proof. intros h c ser s D. apply runloop_no_waiter_gw; [apply reachable_gw|exact D]. Qed.

(* ------------------------------------------------------------------ (C) from the wait to the finish and beyond *)

Lemma timeouts_conns : forall q s, s_conns (timeouts_loop q s) = s_conns s.
Proof.
  induction q as [|x r IH]; intro s; cbn [timeouts_loop]; [reflexivity|].
  destruct (is_done (s_jobs s) (snd (snd x))); [apply IH|].
  destruct (s_now s <? fst x); [reflexivity|]. rewrite IH.
  destruct (mark_fields (snd (snd x)) (upd_err e_timeout) s) as (_&Hc&_). exact Hc.
Qed.

Lemma idle_other : forall c' s c ser, is_idle c' s = true -> c_st (get_conn (s_conns s) c) = BWait ser -> c' <> c.
Proof. intros c' s c ser EI Hst E. subst c'. apply is_idle_st in EI. congruence. Qed.

(* no request of another client, no timer, nothing but a hub turn touches a connection blocked in a wait *)
Lemma step_conn_blocked : forall s o c ser, Inv s [] [] ->
  c_st (get_conn (s_conns s) c) = BWait ser -> o <> RunLoop ->
  get_conn (s_conns (fst (step s o))) c = get_conn (s_conns s) c.
Proof.
  intros s o c ser I Hst NR.
  assert (NW : ~ In c (map fst (s_waiters s))).
  { eapply not_waiter; eauto. intros chs' H. rewrite Hst in H. discriminate H. }
  destruct o as [ch prio name tmo|c' chs| |c' i res e|c' js|dt|c'|k|c' i|i|i v| |dt|js|]; cbn [step].
  - assert (F : forall j0, get_conn (s_conns (pushjob (s_count s + 1) (set_jobs (j0 :: s_jobs s) (set_count (s_count s + 1) s)))) c
                           = get_conn (s_conns s) c).
    { intro j0. rewrite pushjob_conn_other by (sf; exact NW). reflexivity. }
    unfold push. destruct name as [n|]; [|apply F].
    destruct (id_lookup (s_ids s) (JName n)) as [x|]; [|apply F].
    destruct (getjob (s_jobs s) x) as [j0|]; [|apply F].
    destruct (err_is_killed (j_err j0)); [apply F|reflexivity].
  - destruct (is_idle c' s) eqn:EI; [|reflexivity]. apply pop_conn_other. eapply idle_other; eauto.
  - exfalso. apply NR. reflexivity.
  - destruct (is_idle c' s) eqn:EI; [|reflexivity]. pose proof (idle_other _ _ _ _ EI Hst) as Ec.
    destruct (id_lookup (s_ids s) i) as [x|]; [|reflexivity]. cbv zeta. cbn [fst]. sf.
    rewrite get_put_other by (cbn [c_id]; exact Ec).
    match goal with |- context [mark_finished ?x ?u s] => destruct (mark_fields x u s) as (_&Hc&_) end.
    rewrite Hc. reflexivity.
  - destruct (is_idle c' s) eqn:EI; [|reflexivity]. pose proof (idle_other _ _ _ _ EI Hst) as Ec.
    cbv zeta. cbn [fst]. sf. rewrite get_put_other by (cbn [c_id]; exact Ec).
    destruct (killjobs_ids js s) as (_&_&Hc). rewrite Hc. reflexivity.
  - cbn [fst]. unfold handletimeouts, preenall. sf. rewrite timeouts_conns. reflexivity.
  - destruct (c_st (get_conn (s_conns s) c')); reflexivity.
  - reflexivity.
  - destruct (is_idle c' s) eqn:EI; [|reflexivity]. pose proof (idle_other _ _ _ _ EI Hst) as Ec.
    destruct (id_lookup (s_ids s) i) as [x|]; [|reflexivity].
    destruct (getjob (s_jobs s) x) as [j|]; [|reflexivity].
    destruct (j_done j).
    + destruct (j_drop j && id_is (s_ids s) (j_id j) x); reflexivity.
    + cbn [fst]. sf. apply get_put_other. cbn [c_id]. exact Ec.
  - reflexivity.
  - destruct (id_lookup (s_ids s) i) as [x|]; reflexivity.
  - reflexivity.
  - reflexivity.
  - cbn [fst]. destruct (dropjobs_eqd js s) as (_&_&C). rewrite C. reflexivity.
  - cbn [fst]. unfold dropdead. destruct (dropdead_eqd (map fst (s_ids s)) s) as (_&_&C). rewrite C. reflexivity.
Qed.

(* one op, seen from a connection c blocked on ser: it stays blocked on ser, or the op is a hub turn that
   hands it the FINISHED record of ser, or the op is a hub turn in which the connection dies *)
Lemma step_track : forall s o c ser, GW s -> c_st (get_conn (s_conns s) c) = BWait ser ->
  c_st (get_conn (s_conns (fst (step s o))) c) = BWait ser \/
  (o = RunLoop /\ exists j, getjob (s_jobs s) ser = Some j /\ j_done j = true /\ In (OReleased c j) (snd (step s o))) \/
  (o = RunLoop /\ In (ODied c) (snd (step s o))).
Proof.
  intros s o c ser [(A&K&I) W] Hst.
  assert (DEC : o = RunLoop \/ o <> RunLoop) by (destruct o; try (right; discriminate); left; reflexivity).
  destruct DEC as [E|NR].
  - subst o. destruct (W c ser Hst) as [Ex _].
    destruct (getjob (s_jobs s) ser) as [j|] eqn:Ej; [|congruence]. cbn [step].
    assert (I0 : Inv (set_hub [] s) [] []) by (eapply inv_same; eauto).
    destruct (run_events_track (s_hub s) (set_hub [] s) c ser j I0 K Hst Ej) as [[St _]|[[R Rin]|[Dd _]]].
    + left. exact St.
    + right. left. split; [reflexivity|]. exists j. split; [reflexivity|]. split; [|exact R].
      destruct (K ser Rin) as (j'&Ej'&Dj'). sf. congruence.
    + right. right. split; [reflexivity|exact Dd].
  - left. rewrite (step_conn_blocked s o c ser I Hst NR). exact Hst.
Qed.

(* the outputs of a history *)
Fixpoint outs (h : list op) (s : state) : list out :=
  match h with
  | [] => []
  | o :: r => snd (step s o) ++ outs r (fst (step s o))
  end.

Lemma run_app : forall a b s, run (a ++ b) s = run b (run a s).
Proof. intros a b s. unfold run. apply fold_left_app. Qed.

Lemma outs_app : forall a b s, outs (a ++ b) s = outs a s ++ outs b (run a s).
Proof.
  induction a as [|o r IH]; intros b s; [reflexivity|]. cbn [app outs].
  rewrite IH. rewrite app_assoc. reflexivity.
Qed.

(* a finished job stays finished *)
Lemma done_stays : forall h2 s ser j, Good s -> getjob (s_jobs s) ser = Some j -> j_done j = true ->
  is_done (s_jobs (run h2 s)) ser = true.
Proof.
  intros h2 s ser j G Ej Dj. destruct (run_fin_le h2 s G ser j Ej Dj) as (j'&Ej'&Dj'&_).
  unfold is_done. rewrite Ej'. exact Dj'.
Qed.

(* a wait ends only by a release with the finished record or by the death of the connection *)
Lemma trace_track : forall h2 s c ser, GW s -> c_st (get_conn (s_conns s) c) = BWait ser ->
  c_st (get_conn (s_conns (run h2 s)) c) = BWait ser \/
  (exists j, j_serial j = ser /\ j_done j = true /\ In (OReleased c j) (outs h2 s) /\
             is_done (s_jobs (run h2 s)) ser = true) \/
  In (ODied c) (outs h2 s).
Proof.
  induction h2 as [|o r IH]; intros s c ser G Hst; [left; exact Hst|].
  destruct (step_track s o c ser G Hst) as [St|[(_&j&Ej&Dj&R)|(_&Dd)]].
  - change (run (o :: r) s) with (run r (fst (step s o))). cbn [outs].
    destruct (IH (fst (step s o)) c ser (step_gw s o G) St) as [St'|[(j&Sj&Dj&R&Dn)|Dd]].
    + left. exact St'.
    + right. left. exists j. split; [exact Sj|]. split; [exact Dj|]. split; [|exact Dn]. apply in_or_app. right. exact R.
    + right. right. apply in_or_app. right. exact Dd.
  - right. left. exists j. split; [eapply getjob_serial; eauto|]. split; [exact Dj|].
    split; [cbn [outs]; apply in_or_app; left; exact R|]. eapply done_stays; eauto. apply G.
  - right. right. cbn [outs]. apply in_or_app. left. exact Dd.
Qed.

(* (C) a client blocks on job ser (after any history h); whatever happens next (h2: other clients' requests,
   timers, hub turns, disconnects ...), once the job is finished the hub turn that follows leaves the client
   not waiting for it *)
Lemma wait_released_after_finish : forall h c ser h2, let s := run h init in let s2 := run h2 s in
  c_st (get_conn (s_conns s) c) = BWait ser ->
  is_done (s_jobs s2) ser = true ->
  c_st (get_conn (s_conns (fst (step s2 RunLoop))) c) <> BWait ser.
Proof.
  intros h c ser h2 s s2 _ D. apply runloop_no_waiter_gw; [|exact D].
  apply run_gw. apply reachable_gw.
Qed.

(* ... and over the whole trace from the wait to that hub turn, rpc_qwait of this client returned the
   FINISHED record of the job (exactly the job it blocked on), unless the connection died *)
Lemma wait_ends_by_release_or_death : forall h c ser h2, let s := run h init in let s2 := run h2 s in
  c_st (get_conn (s_conns s) c) = BWait ser ->
  is_done (s_jobs s2) ser = true ->
  let tr := outs (h2 ++ [RunLoop]) s in
  (exists j, j_serial j = ser /\ j_done j = true /\ In (OReleased c j) tr) \/ In (ODied c) tr.
Proof.
  intros h c ser h2 s s2 Hst D tr. subst tr. rewrite outs_app. fold s2. cbn [outs]. rewrite app_nil_r.
  assert (G : GW s) by apply reachable_gw.
  assert (G2 : GW s2) by (apply run_gw; exact G).
  destruct (trace_track h2 s c ser G Hst) as [St|[(j&Sj&Dj&R&_)|Dd]].
  - destruct (runloop_outcome_gw s2 c ser G2 St D) as (j&Ej&Dj&[R|[Dd _]]).
    + left. exists j. split; [eapply getjob_serial; eauto|]. split; [exact Dj|]. apply in_or_app. right. exact R.
    + right. apply in_or_app. right. exact Dd.
  - left. exists j. split; [exact Sj|]. split; [exact Dj|]. apply in_or_app. left. exact R.
  - right. apply in_or_app. left. exact Dd.
Qed.

(* until the job is finished the client stays blocked (it can only die): no early release *)
Lemma wait_blocks_until_finish : forall h c ser h2, let s := run h init in let s2 := run h2 s in
  c_st (get_conn (s_conns s) c) = BWait ser ->
  is_done (s_jobs s2) ser = false ->
  c_st (get_conn (s_conns s2) c) = BWait ser \/ In (ODied c) (outs h2 s).
Proof.
  intros h c ser h2 s s2 Hst D.
  assert (G : GW s) by apply reachable_gw.
  destruct (trace_track h2 s c ser G Hst) as [St|[(j&Sj&Dj&R&Dn)|Dd]]; [left; exact St| |right; exact Dd].
  exfalso. fold s2 in Dn. congruence.
Qed.

(* ------------------------------------------------------------------ non-vacuity *)

Definition live_h : list op := [Add 0 0 None None; Wait 1 (JAuto 1)].
Definition live_fin : op := Finish 2 (JAuto 1) (Some 7) ENone.

(* Add; Wait 1 a1 -> blocked; Finish 2 a1 -> notifier queued, still blocked; RunLoop -> released with the
   finished record *)
Example live_released :
  let s := run live_h init in
  let s2 := run [live_fin] s in
  outs live_h init = [OJid (JAuto 1); OBlocked] /\
  c_st (get_conn (s_conns s) 1) = BWait 1 /\ is_done (s_jobs s) 1 = false /\
  c_st (get_conn (s_conns s2) 1) = BWait 1 /\ is_done (s_jobs s2) 1 = true /\ s_hub s2 = [EvDone 1] /\
  c_st (get_conn (s_conns (fst (step s2 RunLoop))) 1) = Idle /\
  exists j, snd (step s2 RunLoop) = [OReleased 1 j] /\ j_serial j = 1 /\ j_done j = true /\ j_res j = Some 7.
Proof. vm_compute. repeat (split; [reflexivity|]). eexists. repeat split; reflexivity. Qed.

(* the other branch of runloop_outcome: the client's disconnect was queued in front of the notification *)
Example live_died :
  let s := run live_h init in
  let s3 := run [Disconnect 1; live_fin] s in
  c_st (get_conn (s_conns s3) 1) = BWait 1 /\ is_done (s_jobs s3) 1 = true /\ s_hub s3 = [EvKill 1; EvDone 1] /\
  c_st (get_conn (s_conns (fst (step s3 RunLoop))) 1) = Dead /\ snd (step s3 RunLoop) = [ODied 1].
Proof. vm_compute. repeat split; reflexivity. Qed.

(* a client that starts waiting on the finished job while the notifier of the earlier waiter is still pending gets the
   job at once (a8ac510: no wait on the event of a finished job - in gevent that wait could lose its wake-up); the hub
   turn then releases the earlier waiter *)
Example live_late_waiter :
  let s3 := run (live_h ++ [live_fin]) init in
  done_pending 1 (s_hub s3) = true /\
  (exists j, snd (step s3 (Wait 3 (JAuto 1))) = [OReleased 3 j] /\ j_done j = true) /\
  let s4 := fst (step s3 (Wait 3 (JAuto 1))) in
  c_st (get_conn (s_conns s4) 3) = Idle /\
  exists j, snd (step s4 RunLoop) = [OReleased 1 j] /\ j_done j = true.
Proof. vm_compute. split; [reflexivity|]. split; [eexists; split; reflexivity|]. split; [reflexivity|]. eexists. split; reflexivity. Qed.

(* the hypotheses of the general lemmas hold on the example *)
Example live_lemmas_apply :
  c_st (get_conn (s_conns (fst (step (run (live_h ++ [live_fin]) init) RunLoop))) 1) <> BWait 1.
Proof.
  apply (wait_released_after_finish live_h 1 1 [live_fin]); vm_compute; reflexivity.
Qed.
