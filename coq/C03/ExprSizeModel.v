(* C03 — size of the values an #expr evaluation can build (definitions only; lemmas in ExprSizeProofs.v).

   expr.py evaluates an expression with Python numbers: exact integers (unbounded) and machine floats (64 bit).  The work of
   every operator is polynomial in the SIZE of its operands, so "a number written in the wikitext cannot buy unbounded CPU
   time" (C03) holds for #expr as long as the size of every intermediate value stays proportional to the text.  Floats have
   constant size; the question is how large an INTEGER an operator can return.

   Each registered callable (expr.py between `a = addop` and `del a`; the translator vt/gen/c03_magics.py pins its text and
   maps it to one of the classes below, Gen_magics.v `gen_expr_classes`) is specified by a RELATION between operand values and
   result: what Python's arithmetic guarantees about the result, nothing about floats except that converting a finite float
   to int gives an integer below 2^1024 (IEEE double).  An operator may also raise (no result): an exception ends the
   evaluation at once and becomes an error span. *)
From Coq Require Import ZArith List.
Import ListNotations.
Local Open Scope Z_scope.

Inductive val := VI (z : Z) | VF.                 (* Python int | Python float (any value, inf and nan included) *)

Definition FMAX : Z := 1024.                      (* abs(int(x)) < 2^1024 for every finite double x *)

(* classes of callables *)
Inductive ecls :=
  | CNeg | CPos | CAbs                            (* -x, x, abs(x): same magnitude *)
  | CBool1                                        (* int(not bool(x)) *)
  | CFloat1                                       (* math.sin cos asin acos tan atan exp log: float or exception *)
  | CToInt                                        (* int(math.ceil(x)), int(math.floor(x)), int(x) *)
  | CFloat2                                       (* math.pow(x, y), x / y, x * math.pow(10, y): float or exception *)
  | CMul | CAdd | CSub                            (* x * y, x + y, x - y *)
  | CIntMod                                       (* int(x) % int(y) *)
  | CRound                                        (* _myround *)
  | CBool2                                        (* comparisons, and, or: int(...) of a bool *)
  | CPowExact.                                    (* NOT in expr.py: base ** exponent on integers, 0 <= exponent <= 64 (seed C03-4) *)

Definition is_unary (c : ecls) : bool :=
  match c with CNeg | CPos | CAbs | CBool1 | CFloat1 | CToInt => true | _ => false end.

(* int(v): the integer a value converts to (a float: some integer below 2^1024 in magnitude; inf/nan raise) *)
Inductive to_int : val -> Z -> Prop :=
  | TI_int z : to_int (VI z) z
  | TI_float z : Z.abs z < 2 ^ FMAX -> to_int VF z.

Inductive step1 : ecls -> val -> val -> Prop :=
  | S_neg_i z : step1 CNeg (VI z) (VI (- z))
  | S_neg_f : step1 CNeg VF VF
  | S_pos v : step1 CPos v v
  | S_abs_i z : step1 CAbs (VI z) (VI (Z.abs z))
  | S_abs_f : step1 CAbs VF VF
  | S_bool1 v b : step1 CBool1 v (VI (Z.b2z b))
  | S_float1 v : step1 CFloat1 v VF
  | S_toint v z : to_int v z -> step1 CToInt v (VI z).       (* ceil/floor/trunc of an int is that int *)

Inductive step2 : ecls -> val -> val -> val -> Prop :=
  | S_float2 x y : step2 CFloat2 x y VF
  | S_mul_i a b : step2 CMul (VI a) (VI b) (VI (a * b))
  | S_mul_f1 y : step2 CMul VF y VF
  | S_mul_f2 x : step2 CMul x VF VF
  | S_add_i a b : step2 CAdd (VI a) (VI b) (VI (a + b))
  | S_add_f1 y : step2 CAdd VF y VF
  | S_add_f2 x : step2 CAdd x VF VF
  | S_sub_i a b : step2 CSub (VI a) (VI b) (VI (a - b))
  | S_sub_f1 y : step2 CSub VF y VF
  | S_sub_f2 x : step2 CSub x VF VF
  | S_mod x y a b : to_int x a -> to_int y b -> b <> 0 -> step2 CIntMod x y (VI (a mod b))
  (* _myround(n, d): a float, or an integer r that is either produced from a float (below 2^1024), or - for an integer n -
     0 (the guard of expr.py:31-34 and round() itself when 10^-d > 2|n|), n itself (d >= 0), or a multiple of 10^k within
     10^k / 2 of n: then r = 0 or |r| <= 2|n| *)
  | S_round_f x y : step2 CRound x y VF
  | S_round_ff x y r : Z.abs r < 2 ^ FMAX -> step2 CRound x y (VI r)
  | S_round_i n y r k : 0 <= k -> (10 ^ k | r) -> 2 * Z.abs (r - n) <= 10 ^ k -> step2 CRound (VI n) y (VI r)
  | S_round_id n y : step2 CRound (VI n) y (VI n)
  | S_bool2 x y b : step2 CBool2 x y (VI (Z.b2z b))
  | S_pow_exact a b : 0 <= b <= 64 -> step2 CPowExact (VI a) (VI b) (VI (a ^ b))
  | S_pow_float x y : step2 CPowExact x y VF.

(* expression trees as the shunting-yard of expr.py evaluates them; a literal carries a bound on its size in bits
   (a decimal literal of d digits is below 10^d < 2^(4d)) *)
Inductive expr :=
  | Lit (z : Z) (bits : Z)
  | LitF                                            (* a literal with a '.', or the constants e / pi *)
  | Un (c : ecls) (a : expr)
  | Bin (c : ecls) (a b : expr).

Inductive ev : expr -> val -> Prop :=
  | E_lit z n : ev (Lit z n) (VI z)
  | E_litf : ev LitF VF
  | E_un c a x r : ev a x -> step1 c x r -> ev (Un c a) r
  | E_bin c a b x y r : ev a x -> ev b y -> step2 c x y r -> ev (Bin c a b) r.

(* the literals fit their declared sizes *)
Fixpoint wfe (e : expr) : Prop :=
  match e with
  | Lit z n => 0 <= n /\ Z.abs z < 2 ^ n
  | LitF => True
  | Un _ a => wfe a
  | Bin _ a b => wfe a /\ wfe b
  end.

(* every operator is one of the reviewed classes (everything but the exact power) *)
Definition linear_cls (c : ecls) : bool := match c with CPowExact => false | _ => true end.
Fixpoint linear (e : expr) : bool :=
  match e with
  | Lit _ _ | LitF => true
  | Un c a => linear_cls c && linear a
  | Bin c a b => linear_cls c && linear a && linear b
  end.

Fixpoint lit_bits (e : expr) : Z :=
  match e with Lit _ n => n | LitF => 0 | Un _ a => lit_bits a | Bin _ a b => lit_bits a + lit_bits b end.
Fixpoint ops (e : expr) : Z :=
  match e with Lit _ _ | LitF => 0 | Un _ a => 1 + ops a | Bin _ a b => 1 + ops a + ops b end.

(* the bound: bits of the literals + 1025 per operator *)
Definition size_bound (e : expr) : Z := lit_bits e + (FMAX + 1) * ops e.

Definition fits (n : Z) (v : val) : Prop := match v with VI z => Z.abs z < 2 ^ n | VF => True end.

(* the chain of seed C03-4:  9 ^ 64 ^ 64 ... (k links, left-associative) with an exact integer power *)
Fixpoint pow_chain (k : nat) : expr :=
  match k with O => Lit 9 4 | S k' => Bin CPowExact (pow_chain k') (Lit 64 7) end.
