(* C03/C04 — executable model of the template evaluator (no proofs here).
   Sources: /repo/src/mwlib/parser/templ/evaluate.pyx (flatten :15-42, equal_split :49-58, ArgumentList.get :88-147,
   insert_implicit_newlines :150-178, Expander._expand :268-276), nodes.pyx (IfNode :9-30, IfEqNode :33-59,
   maybe_numeric :62-72, SwitchNode :75-167, Variable :170-188, Template :191-279), magics.py
   (maybe_numeric_compare :53-62), optimization.py.
   Nodes are what templ.parser.parse returns (str / eqmark / tuple / Node subclasses).  The recursion counter of
   evaluate.flatten is the structural argument of the Fixpoint (`b` = recursion_limit + 1 - recursion_count). *)
From Coq Require Import List NArith ZArith Bool Lia.
From MW Require Import Common.Str.
Import ListNotations.

(* ------------------------------------------------------------------ strings *)

(* code points for which Python's str.isspace() is true (CPython 3.12) *)
Definition ws_codes : list N :=
  [9;10;11;12;13;28;29;30;31;32;133;160;5760;8192;8193;8194;8195;8196;8197;8198;8199;8200;8201;8202;
   8232;8233;8239;8287;12288]%N.
Definition is_ws (c : N) : bool := existsb (N.eqb c) ws_codes.

Fixpoint lstrip_by (p : N -> bool) (s : str) : str :=
  match s with
  | c :: r => if p c then lstrip_by p r else s
  | [] => []
  end.
Definition strip_by (p : N -> bool) (s : str) : str := rev (lstrip_by p (rev (lstrip_by p s))).
Definition strip (s : str) : str := strip_by is_ws s.                      (* s.strip() *)
Definition strip_ebad (s : str) : str := strip_by (N.eqb 60333) s.         (* s.strip(chr(0xEBAD)) *)

Definition len_N (s : str) : N := fold_left (fun a _ => N.succ a) s 0%N.
Definition too_long (s : str) : bool := (262144 <? len_N s)%N.            (* len(x) > 256 * 1024 *)

Fixpoint contains_char (c : N) (s : str) : bool :=
  match s with [] => false | x :: r => N.eqb x c || contains_char c r end.

(* str(n) for n >= 0 *)
Fixpoint dec_aux (fuel : nat) (n : N) (acc : str) : str :=
  match fuel with
  | O => acc
  | S f => let d := (48 + n mod 10)%N in
           if (n <? 10)%N then d :: acc else dec_aux f (n / 10)%N (d :: acc)
  end.
Definition decimal (n : N) : str := dec_aux (S (N.size_nat n)) n [].

(* ------------------------------------------------------------------ numbers (int()/float() on plain decimals) *)
(* value = mant / 10^frac.  Domain modelled: [+-]? ( digits [. digits*] | . digits ) ( [eE] [+-]? digits )?  - what both
   int()/float() of CPython and PHP's is_numeric accept; the exponent is folded into (mant, frac) by `scale` (1e3 = (1000, 0),
   5e-1 = (5, 1), 2.5E1 = (25, 0)), so `num` stays a decimal fraction and num_eqb compares VALUES.  Faithful for at most ~15
   significant digits and exponents whose value stays far inside the double range (there float() is injective on decimals and
   int/float comparison agrees with the rationals).
   Not modelled (treated as non-numeric): underscores, inf/nan, non-ASCII digits. *)
Definition num := (Z * nat)%type.

Definition is_digit (c : N) : bool := (48 <=? c)%N && (c <=? 57)%N.

Fixpoint digits_val (s : str) (acc : Z) : option (Z * str) :=   (* longest digit prefix *)
  match s with
  | c :: r => if is_digit c then digits_val r (acc * 10 + Z.of_N (c - 48))%Z else Some (acc, s)
  | [] => Some (acc, [])
  end.
Fixpoint count_digits (s : str) : nat :=
  match s with c :: r => if is_digit c then S (count_digits r) else O | [] => O end.

(* exponent part  [eE] [+-]? digits+  (the whole rest of the string) *)
Definition parse_exp (s : str) : option Z :=
  match s with
  | c :: r =>
      if N.eqb c 101 || N.eqb c 69 then
        let '(neg, ds) := match r with
                          | 45 %N :: t => (true, t)
                          | 43 %N :: t => (false, t)
                          | _ => (false, r)
                          end in
        if Nat.eqb (count_digits ds) 0 then None
        else match digits_val ds 0%Z with
             | Some (v, []) => Some (if neg then Z.opp v else v)
             | _ => None
             end
      else None
  | [] => None
  end.

(* (m / 10^f) * 10^e as a decimal fraction again *)
Definition scale (m : Z) (f : nat) (e : Z) : num :=
  if (Z.of_nat f <=? e)%Z then ((m * Z.pow 10 (e - Z.of_nat f))%Z, O)
  else (m, Z.to_nat (Z.of_nat f - e)).

Definition parse_unsigned (s : str) : option num :=
  let n1 := count_digits s in
  match digits_val s 0%Z with
  | Some (ip, rest) =>
      match rest with
      | [] => if Nat.eqb n1 0 then None else Some (ip, O)
      | 46 %N :: fr =>
          let n2 := count_digits fr in
          match digits_val fr ip with
          | Some (m, []) => if Nat.eqb (n1 + n2) 0 then None else Some (m, n2)
          | Some (m, er) => if Nat.eqb (n1 + n2) 0 then None
                            else match parse_exp er with Some e => Some (scale m n2 e) | None => None end
          | None => None
          end
      | _ => if Nat.eqb n1 0 then None
             else match parse_exp rest with Some e => Some (scale ip O e) | None => None end
      end
  | None => None
  end.

Definition parse_num (s0 : str) : option num :=
  let s := strip s0 in
  match s with
  | 45 %N :: r => match parse_unsigned r with Some (m, f) => Some (Z.opp m, f) | None => None end
  | 43 %N :: r => parse_unsigned r
  | _ => parse_unsigned s
  end.

Definition num_eqb (a b : num) : bool :=
  let '(m1, f1) := a in let '(m2, f2) := b in
  Z.eqb (m1 * Z.pow 10 (Z.of_nat f2)) (m2 * Z.pow 10 (Z.of_nat f1)).

(* magics.maybe_numeric_compare *)
Definition maybe_numeric_compare (a b : str) : bool :=
  str_eqb a b ||
  match parse_num a, parse_num b with
  | Some x, Some y => num_eqb x y
  | _, _ => false
  end.

(* ------------------------------------------------------------------ nodes, pieces, environments *)

Inductive node :=
| NStr (s : str)                         (* python str *)
| NEq                                    (* marks.eqmark, a str "=" *)
| NSeq (l : list node)                   (* tuple / list / plain Node *)
| NVar (l : list node)                   (* Variable: [name] or [name; default] *)
| NTpl (name : node) (args : list node)  (* Template((name, args)) *)
| NIf (l : list node)                    (* IfNode(args) *)
| NIfEq (l : list node)                  (* IfEqNode(args) *)
| NSwitch (v : node) (args : list node). (* SwitchNode((value, args)) *)

(* entries of the `res` lists: plain strings and Mark instances (str subclasses with value "") *)
Inductive piece := PS (s : str) | PMaybeNL | PMark.

Definition piece_str (p : piece) : str := match p with PS s => s | _ => [] end.
Definition is_mark (p : piece) : bool := match p with PS _ => false | _ => true end.
Definition pjoin (ps : list piece) : str := concat (map piece_str ps).

(* ArgumentList: the argument nodes of a call + the caller's ArgumentList (variables) *)
Inductive env := ETop | EArgs (args : list node) (parent : env).

Inductive exn := XRec | XMem.            (* TemplateRecursion | MemoryLimitError *)
Inductive res (A : Type) := Ok (a : A) | Err (x : exn).
Arguments Ok {A} a.
Arguments Err {A} x.

(* first error wins, like a for-loop that appends to res *)
Fixpoint seqr (l : list (res (list piece))) : res (list piece) :=
  match l with
  | [] => Ok []
  | Ok ps :: r => match seqr r with Ok qs => Ok (ps ++ qs) | Err x => Err x end
  | Err x :: _ => Err x
  end.

(* ------------------------------------------------------------------ insert_implicit_newlines (evaluate.pyx:150-178) *)

Definition implicit_nl (s : str) : bool :=
  match s with
  | c :: r => N.eqb c 42 || N.eqb c 35 || N.eqb c 58 || N.eqb c 59                         (* * # : ; *)
              || (N.eqb c 123 && match r with d :: _ => N.eqb d 124 | [] => false end)     (* {| *)
  | [] => false
  end.

Definition next1 (rest : list piece) : piece := match rest with x :: _ => x | [] => PMark end.
Definition next2 (rest : list piece) : piece := match rest with _ :: y :: _ => y | _ => PMark end.

Definition nl_decision (rest : list piece) : bool :=
  let s1 := next1 rest in
  if is_mark s1 then false
  else let t := piece_str s1 in
       if (2 <=? length t)%nat then implicit_nl t else implicit_nl (t ++ piece_str (next2 rest)).

(* i0: index 0; prev_nl: res[i-1].endswith("\n") *)
Fixpoint inl (i0 prev_nl : bool) (l : list piece) : list piece :=
  match l with
  | [] => []
  | p :: rest =>
      match p with
      | PMaybeNL =>
          if negb i0 && prev_nl then p :: inl false false rest
          else if nl_decision rest then PS [10%N] :: inl false true rest
          else p :: inl false false rest
      | _ => p :: inl false (ends_with_char 10 (piece_str p)) rest
      end
  end.

Definition join_nl (ps : list piece) : str := pjoin (inl true false ps).

(* ------------------------------------------------------------------ optimize on an already optimized slice *)

Fixpoint merge_strs (l : list node) : list node :=
  match l with
  | NStr a :: r =>
      match merge_strs r with
      | NStr b :: r' => NStr (a ++ b) :: r'
      | r' => NStr a :: r'
      end
  | x :: r => x :: merge_strs r
  | [] => []
  end.

Definition mkseq (l : list node) : node :=
  match l with
  | [x] => x
  | _ => match merge_strs l with [x] => x | l' => NSeq l' end
  end.

Definition reopt (n : node) : node := match n with NSeq l => mkseq l | _ => n end.

Definition is_eq (n : node) : bool := match n with NEq => true | _ => false end.

Fixpoint split_eq (l : list node) : option (list node * list node) :=
  match l with
  | [] => None
  | x :: r => if is_eq x then Some ([], r)
              else match split_eq r with Some (a, b) => Some (x :: a, b) | None => None end
  end.

(* evaluate.equal_split: node.index(eqmark) on a plain tuple of children only.  FIXED behaviour of
   fixes/C04-equal-split-single-node-argument.diff: the unfixed code also searched the children of a single IfNode / IfEqNode /
   Variable argument (tuple subclasses), so that {{t|{{#if:1|=|x}}}} bound 1 = "x"; with the patch an argument that is one
   node has no top-level '='.  The two agree unless a whole argument is one #if/#ifeq with a branch that is exactly "=". *)
Definition equal_split (n : node) : option node * node :=
  match n with
  | NSeq l =>
      match split_eq l with Some (a, b) => (Some (NSeq a), NSeq b) | None => (None, n) end
  | _ => (None, n)
  end.

Definition truthy (n : node) : bool :=
  match n with NStr [] => false | NSeq [] => false | _ => true end.

(* ------------------------------------------------------------------ SwitchNode._init (nodes.pyx:79-121) *)

Inductive skey := KS (s : str) | KN (q : num).
Definition skey_eqb (a b : skey) : bool :=
  match a, b with
  | KS x, KS y => str_eqb x y
  | KN x, KN y => num_eqb x y
  | _, _ => false
  end.
Definition entry := (nat * node)%type.
Definition fast_t := list (skey * entry).

Fixpoint fast_get (k : skey) (f : fast_t) : option entry :=
  match f with
  | [] => None
  | (k', e) :: r => if skey_eqb k k' then Some e else fast_get k r
  end.

Definition sw_state := (fast_t * list (node * node))%type.

Definition node_as_str (n : node) : option str :=
  match n with NStr s => Some s | NEq => Some [61%N] | _ => None end.

Definition store_key (key value : node) (st : sw_state) : sw_state :=
  let '(fast, unres) := st in
  match node_as_str key with
  | Some s0 =>
      let s := strip s0 in
      match fast_get (KS s) fast with
      | Some _ => st
      | None =>
          let ent := (length unres, value) in
          let fast1 := fast ++ [(KS s, ent)] in
          match parse_num s with
          | Some q => match fast_get (KN q) fast1 with
                      | Some _ => (fast1, unres)
                      | None => (fast1 ++ [(KN q, ent)], unres)
                      end
          | None => (fast1, unres)
          end
      end
  | None => (fast, unres ++ [(key, value)])
  end.

Definition default_key : str := [35;100;101;102;97;117;108;116]%N.      (* "#default" *)

Fixpoint sw_loop (args : list node) (nks : list node) (st : sw_state) : sw_state :=
  match args with
  | [] => match rev nks with
          | last :: _ => store_key (NStr default_key) last st
          | [] => st
          end
  | a :: rest =>
      match equal_split a with
      | (None, value) => sw_loop rest (nks ++ [reopt value]) st
      | (Some key, value) =>
          let value' := reopt value in
          let st1 := fold_left (fun s k => store_key k value' s) nks st in
          sw_loop rest [] (store_key (reopt key) value' st1)
      end
  end.

Definition switch_init (args : list node) : sw_state := sw_loop args [] ([], []).

(* ------------------------------------------------------------------ the evaluator *)

(* A magic word / parser function dispatched by MagicResolver.__call__ (magics.py:572-596) receives the
   ArgumentList and fetches its arguments LAZILY (ArgumentList.__getitem__ -> get(i) -> evaluate.flatten,
   evaluate.pyx:82-104).  It is modelled as a strategy: either done with an output, or asking for the value of
   argument i and continuing with that value.  Any behaviour of a (terminating) magic is such a tree. *)
Inductive mreq := MDone (out : str) | MAsk (i : nat) (k : str -> mreq).

Section Flatten.
  (* Expander.get_parsed_template: name checks + wikidb lookup + parser.parse; any function: cyclic universes allowed *)
  Variable tpl : str -> option node.
  (* magic words / parser functions (MagicResolver, magic_nodes.registry, colon functions): abstract strategies over
     their lazily evaluated arguments; `magic_prog name nargs` *)
  Variable is_magic : str -> bool.
  Variable magic_prog : str -> nat -> mreq.
  (* aliasmap.get_aliases("default") or ["#default"] *)
  Variable default_names : list str.

  Definition flat := node -> env -> res (list piece).

  Definition value_of (fl : flat) (do_strip : bool) (val : node) (parent : env) : res str :=
    match node_as_str val with
    | Some s => Ok (if do_strip then strip s else s)
    | None => match fl val parent with
              | Ok ps => let t := join_nl ps in
                         let t' := if do_strip then strip t else t in
                         if too_long t' then Err XMem else Ok t'          (* evaluate.pyx:151-154 (fix 9fac97a) *)
              | Err x => Err x
              end
    end.

  (* ArgumentList.get(n, None) for a str key: scan the arguments in order (evaluate.pyx:108-147) *)
  Fixpoint scan (fl : flat) (args : list node) (parent : env) (vc : N) (n : str) : res (option str) :=
    match args with
    | [] => Ok None
    | a :: rest =>
        match equal_split a with
        | (Some nm, val) =>
            match fl nm parent with
            | Err x => Err x
            | Ok ps =>
                if str_eqb (strip (join_nl ps)) n
                then match value_of fl true val parent with Ok s => Ok (Some s) | Err x => Err x end
                else scan fl rest parent vc n
            end
        | (None, val) =>
            if str_eqb (decimal vc) n
            then match value_of fl false val parent with Ok s => Ok (Some s) | Err x => Err x end
            else scan fl rest parent (vc + 1)%N n
        end
    end.

  Definition get (fl : flat) (e : env) (n : str) : res (option str) :=
    match e with
    | ETop => Ok None
    | EArgs args parent => scan fl args parent 1%N n
    end.

  (* ArgumentList.get(i, None) for an int index (evaluate.pyx:90-104), used by the magics (see run_magic) *)
  Definition arg_int (fl : flat) (e : env) (a : node) : res str :=
    match node_as_str a with
    | Some s => Ok (strip s)
    | None => match fl a e with
              | Ok ps => let t := strip (join_nl ps) in if too_long t then Err XMem else Ok t
              | Err x => Err x
              end
    end.

  Fixpoint args_int (fl : flat) (e : env) (l : list node) : res (list str) :=
    match l with
    | [] => Ok []
    | a :: r => match arg_int fl e a with
                | Err x => Err x
                | Ok s => match args_int fl e r with Ok ss => Ok (s :: ss) | Err x => Err x end
                end
    end.

  (* the magic's run: every argument fetch goes through arg_int; an exception raised while flattening the argument
     (TemplateRecursion, MemoryLimitError) is NOT caught by the magic nor by MagicResolver.__call__ (magics.py:593):
     it passes through the call unchanged.  A missing argument reads as "" (ArgumentList.__getitem__: get(n) or ""). *)
  Fixpoint run_magic (fl : flat) (e : env) (args : list node) (m : mreq) : res str :=
    match m with
    | MDone s => Ok s
    | MAsk i k =>
        match nth_error args i with
        | None => run_magic fl e args (k [])
        | Some a => match arg_int fl e a with
                    | Err x => Err x
                    | Ok s => run_magic fl e args (k s)
                    end
        end
    end.

  Fixpoint sw_unres (fl : flat) (e : env) (val : str) (nv : option num) (l : list (node * node)) : res (option node) :=
    match l with
    | [] => Ok None
    | (k, v) :: rest =>
        match fl k e with
        | Err x => Err x
        | Ok ps =>
            let tmp := strip (pjoin ps) in
            if str_eqb tmp val then Ok (Some v)
            else match nv, parse_num tmp with
                 | Some a, Some b => if num_eqb b a then Ok (Some v) else sw_unres fl e val nv rest
                 | _, _ => sw_unres fl e val nv rest
                 end
        end
    end.

  Fixpoint default_lookup (names : list str) (f : fast_t) : option node :=
    match names with
    | [] => None
    | a :: r => match fast_get (KS a) f with Some (_, v) => Some v | None => default_lookup r f end
    end.

  Definition branch (fl : flat) (e : env) (x : option node) : res (list piece) :=
    match x with
    | None => Ok [PMaybeNL; PS []; PMark]
    | Some n => match fl n e with
                | Ok qs => Ok [PMaybeNL; PS (strip (join_nl qs)); PMark]
                | Err x => Err x
                end
    end.

  (* `for x in node: flatten(x, ...)`: stops at the first exception *)
  Fixpoint flat_list (fl : flat) (e : env) (l : list node) : res (list piece) :=
    match l with
    | [] => Ok []
    | x :: r => match fl x e with
                | Err er => Err er
                | Ok ps => match flat_list fl e r with Ok qs => Ok (ps ++ qs) | Err er => Err er end
                end
    end.

  Definition open3 : str := [123;123;123]%N.
  Definition close3 : str := [125;125;125]%N.

  Definition node_body (fl : flat) (flbody : flat) (n : node) (e : env) : res (list piece) :=
    match n with
    | NStr s => Ok [PS s]
    | NEq => Ok [PS [61%N]]
    | NSeq l => flat_list fl e l
    | NVar l =>                                           (* nodes.pyx:170-188 *)
        match l with
        | [] => Ok []
        | nm :: rest =>
            match fl nm e with
            | Err x => Err x
            | Ok ps =>
                let name := strip (pjoin ps) in
                if too_long name then Err XMem else
                match get fl e name with
                | Err x => Err x
                | Ok (Some v) => Ok [PS v]
                | Ok None => match rest with
                             | d :: _ => fl d e
                             | [] => Ok [PS (open3 ++ name ++ close3)]
                             end
                end
            end
        end
    | NTpl nm args =>                                     (* nodes.pyx:191-279 *)
        match fl nm e with
        | Err x => Err x
        | Ok ps =>
            let name := strip (pjoin ps) in
            if too_long name then Err XMem else
            if is_magic name then
              match run_magic fl e args (magic_prog name (length args)) with
              | Err x => Err x
              | Ok s => Ok [PMaybeNL; PS s; PMark]
              end
            else
              match tpl name with
              | Some p => if truthy p
                          then match flbody p (EArgs args e) with
                               | Ok qs => Ok (PMark :: PMaybeNL :: qs ++ [PMark])
                               | Err x => Err x
                               end
                          else Ok []
              | None => Ok []
              end
        end
    | NIf l =>                                            (* nodes.pyx:9-30 *)
        match l with
        | [] => Ok []
        | c0 :: rest =>
            match fl c0 e with
            | Err x => Err x
            | Ok ps =>
                let cond := strip_ebad (strip (pjoin ps)) in
                match cond with
                | _ :: _ => branch fl e (nth_error rest 0)
                | [] => branch fl e (nth_error rest 1)
                end
            end
        end
    | NIfEq l =>                                          (* nodes.pyx:33-59 *)
        match l with
        | [] => Ok []
        | a0 :: rest =>
            match fl a0 e with
            | Err x => Err x
            | Ok ps =>
                let v1 := strip (pjoin ps) in
                let r2 := match rest with b0 :: _ => fl b0 e | [] => Ok [] end in
                match r2 with
                | Err x => Err x
                | Ok qs =>
                    let v2 := strip (pjoin qs) in
                    if maybe_numeric_compare v1 v2 then branch fl e (nth_error rest 1)
                    else branch fl e (nth_error rest 2)
                end
            end
        end
    | NSwitch v args =>                                   (* nodes.pyx:123-167, with min(t2, t1, key=pos): see fixes/ *)
        let '(fast, unres) := switch_init args in
        match fl v e with
        | Err x => Err x
        | Ok ps =>
            let val := strip (pjoin ps) in
            let nv := parse_num val in
            let t1 := fast_get (KS val) fast in
            let t2 := match nv with Some q => fast_get (KN q) fast | None => None end in
            let '(pos, ret0) :=
              match t2 with
              | Some (p, x) => (p, Some x)
              | None => match t1 with
                        | Some (p, x) => (p, Some x)
                        | None => (S (length unres), None)
                        end
              end in
            match sw_unres fl e val nv (firstn pos unres) with
            | Err x => Err x
            | Ok found =>
                let ret1 := match found with Some x => Some x | None => ret0 end in
                let retv := match ret1 with
                            | Some x => x
                            | None => match default_lookup default_names fast with
                                      | Some x => x
                                      | None => NStr []
                                      end
                            end in
                match fl retv e with
                | Err x => Err x
                | Ok qs => Ok [PMaybeNL; PS (strip (join_nl qs)); PMark]
                end
            end
        end
    end.

  (* evaluate.flatten: b = remaining budget (recursion_limit + 1 - recursion_count), c = recursion_count.
     MemoryLimitError is dropped like TemplateRecursion but at every level (proposed fix, see the fixes directory). *)
  Fixpoint flatten (b c : nat) (n : node) (e : env) {struct b} : res (list piece) :=
    match n with
    | NStr s => Ok [PS s]
    | NEq => Ok [PS [61%N]]
    | _ =>
        match b with
        | O => Err XRec
        | S b' =>
            match node_body (flatten b' (S c)) (flatten b' (S c)) n e with
            | Err XRec => if (2 <? S c)%nat then Err XRec else Ok []
            | Err XMem => Ok []
            | Ok ps => Ok ps
            end
        end
    end.

  (* Expander._expand with recursion_limit = limit *)
  Definition expand (limit : nat) (page : node) : res str :=
    match flatten (S limit) 0 page ETop with
    | Ok ps => Ok (pjoin (tl (inl true false (PS [10%N] :: ps))))
    | Err x => Err x
    end.
End Flatten.
