(* C03 — property theorems about the budgeted flatten model.  Each is closed by `exact <lemma>` and followed by
   Print Assumptions; the check re-compiles this file on every run.  (Dispatch / size bounds: MagicsProperties.v) *)
From Coq Require Import List NArith Bool.
From MW Require Import Common.Str C03.Model C03.Proofs.
Import ListNotations.

(* For EVERY universe (`tpl` is an arbitrary function from names to parsed templates: self-inclusion, mutual
   recursion, missing templates, anything the parser makes of unbalanced braces), every behaviour of the magic
   words (any total functions), every page and every recursion limit, Expander._expand returns a string:
   TemplateRecursion never escapes the top level and MemoryLimitError never escapes a flatten call.  The Fixpoint
   itself is accepted by Coq because the recursion counter is its structural argument (nesting <= limit + 1). *)
Theorem C03_flatten_total :
  forall (tpl : str -> option node) (is_magic : str -> bool) (magic_fn : str -> list str -> str)
         (default_names : list str) (limit : nat) (page : node),
  exists s, expand tpl is_magic magic_fn default_names limit page = Ok s.
Proof. exact expand_total. Qed.
Print Assumptions C03_flatten_total.

(* at recursion_count = recursion_limit + 1 no node is entered any more *)
Theorem C03_nesting_bounded :
  forall tpl is_magic magic_fn default_names c n e,
  node_as_str n = None -> flatten tpl is_magic magic_fn default_names 0 c n e = Err XRec.
Proof. exact flatten_budget_exhausted. Qed.
Print Assumptions C03_nesting_bounded.

(* the outermost calls yield nothing for an element that hits the limit and leave its siblings alone *)
Theorem C03_siblings_survive :
  forall tpl is_magic magic_fn default_names b e l,
  flatten tpl is_magic magic_fn default_names (S (S b)) 0 (NSeq l) e
  = Ok (concat (map (fun x => contrib tpl is_magic magic_fn default_names (S b) x e) l)).
Proof. exact flatten_top_seq. Qed.
Print Assumptions C03_siblings_survive.

(* 256 KiB caps: an over-long template name / parameter name makes the call yield nothing; an argument handed to a
   magic word is never longer than the cap *)
Theorem C03_name_cap_template :
  forall tpl is_magic magic_fn default_names b c nm args e ps,
  flatten tpl is_magic magic_fn default_names b (S c) nm e = Ok ps -> too_long (strip (pjoin ps)) = true ->
  flatten tpl is_magic magic_fn default_names (S b) c (NTpl nm args) e = Ok [].
Proof. exact tpl_name_cap. Qed.
Print Assumptions C03_name_cap_template.

Theorem C03_name_cap_parameter :
  forall tpl is_magic magic_fn default_names b c nm rest e ps,
  flatten tpl is_magic magic_fn default_names b (S c) nm e = Ok ps -> too_long (strip (pjoin ps)) = true ->
  flatten tpl is_magic magic_fn default_names (S b) c (NVar (nm :: rest)) e = Ok [].
Proof. exact var_name_cap. Qed.
Print Assumptions C03_name_cap_parameter.

Theorem C03_magic_argument_cap :
  forall fl e a s, node_as_str a = None -> arg_int fl e a = Ok s -> too_long s = false.
Proof. exact arg_int_cap. Qed.
Print Assumptions C03_magic_argument_cap.

(* non-vacuity: the self-including template a = "x{{a}}" on the page "1{{a}}2{{b}}" (b missing) expands to "12" *)
Example C03_example_cycle :
  expand ex_tpl (fun _ => false) (fun _ _ => []) [default_key] 100 ex_page = Ok [49; 50]%N.
Proof. exact example_cycle. Qed.
Print Assumptions C03_example_cycle.
