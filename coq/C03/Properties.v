(* C03 — property theorems about the budgeted flatten model.  Each is closed by `exact <lemma>` and followed by
   Print Assumptions; the check re-compiles this file on every run.  (Dispatch / size bounds: MagicsProperties.v) *)
From Coq Require Import List NArith Arith Bool.
From MW Require Import Common.Str C03.Model C03.Proofs C03.ProofsLazy C03.ProofsMono C03.Cost.
Import ListNotations.

(* For EVERY universe (`tpl` is an arbitrary function from names to parsed templates: self-inclusion, mutual
   recursion, missing templates, anything the parser makes of unbalanced braces), every behaviour of the magic
   words (any total functions), every page and every recursion limit, Expander._expand returns a string:
   TemplateRecursion never escapes the top level and MemoryLimitError never escapes a flatten call.  The Fixpoint
   itself is accepted by Coq because the recursion counter is its structural argument (nesting <= limit + 1). *)
Theorem C03_flatten_total :
  forall (tpl : str -> option node) (is_magic : str -> bool) (magic_prog : str -> nat -> mreq)
         (default_names : list str) (limit : nat) (page : node),
  exists s, expand tpl is_magic magic_prog default_names limit page = Ok s.
Proof. exact expand_total. Qed.
Print Assumptions C03_flatten_total.

(* at recursion_count = recursion_limit + 1 no node is entered any more *)
Theorem C03_nesting_bounded :
  forall tpl is_magic magic_prog default_names c n e,
  node_as_str n = None -> flatten tpl is_magic magic_prog default_names 0 c n e = Err XRec.
Proof. exact flatten_budget_exhausted. Qed.
Print Assumptions C03_nesting_bounded.

(* the outermost calls yield nothing for an element that hits the limit and leave its siblings alone *)
Theorem C03_siblings_survive :
  forall tpl is_magic magic_prog default_names b e l,
  flatten tpl is_magic magic_prog default_names (S (S b)) 0 (NSeq l) e
  = Ok (concat (map (fun x => contrib tpl is_magic magic_prog default_names (S b) x e) l)).
Proof. exact flatten_top_seq. Qed.
Print Assumptions C03_siblings_survive.

(* 256 KiB caps: an over-long template name / parameter name makes the call yield nothing; an argument handed to a
   magic word is never longer than the cap *)
Theorem C03_name_cap_template :
  forall tpl is_magic magic_prog default_names b c nm args e ps,
  flatten tpl is_magic magic_prog default_names b (S c) nm e = Ok ps -> too_long (strip (pjoin ps)) = true ->
  flatten tpl is_magic magic_prog default_names (S b) c (NTpl nm args) e = Ok [].
Proof. exact tpl_name_cap. Qed.
Print Assumptions C03_name_cap_template.

Theorem C03_name_cap_parameter :
  forall tpl is_magic magic_prog default_names b c nm rest e ps,
  flatten tpl is_magic magic_prog default_names b (S c) nm e = Ok ps -> too_long (strip (pjoin ps)) = true ->
  flatten tpl is_magic magic_prog default_names (S b) c (NVar (nm :: rest)) e = Ok [].
Proof. exact var_name_cap. Qed.
Print Assumptions C03_name_cap_parameter.

Theorem C03_magic_argument_cap :
  forall fl e a s, node_as_str a = None -> arg_int fl e a = Ok s -> too_long s = false.
Proof. exact arg_int_cap. Qed.
Print Assumptions C03_magic_argument_cap.

(* 256 KiB cap on a parameter value fetched by name or position ({{{x}}}): a value that had to be flattened is never longer
   than the cap (beyond it the fetch raises MemoryLimitError, which voids the parameter node: C03_flatten_total still holds).
   This is what stops  A = {{{1}}}{{A|{{{1}}}{{{1}}}}}  from doubling its argument 2^33 times within the recursion limit. *)
Theorem C03_parameter_value_cap :
  forall (fl : flat) ds val parent s,
  node_as_str val = None -> value_of fl ds val parent = Ok s -> too_long s = false.
Proof. exact value_of_cap. Qed.
Print Assumptions C03_parameter_value_cap.

(* EXCEPTION-PROPAGATION DISCIPLINE.  Magic words / parser functions are arbitrary strategies over their lazily fetched
   arguments (`mreq`).  (1) A magic's run raises only what one of its own argument fetches raised: it never turns an exception
   into output.  (2) A magic call at recursion_count >= 2 whose run raises TemplateRecursion raises TemplateRecursion.
   (3) A sequence whose element raises TemplateRecursion raises it whatever follows that element: nothing to the right of the
   failing call is evaluated, at any level below the top.  Hence one dive to the limit per top-level element. *)
Theorem C03_magic_never_swallows :
  forall (fl : flat) e args m x,
  run_magic fl e args m = Err x -> exists a, In a args /\ arg_int fl e a = Err x.
Proof. exact run_magic_err_from_fetch. Qed.
Print Assumptions C03_magic_never_swallows.

Theorem C03_magic_fetch_raises :
  forall (fl : flat) e args i k a x,
  nth_error args i = Some a -> arg_int fl e a = Err x -> run_magic fl e args (MAsk i k) = Err x.
Proof. exact run_magic_fetch_raises. Qed.
Print Assumptions C03_magic_fetch_raises.

Theorem C03_magic_call_propagates :
  forall tpl is_magic magic_prog default_names b c nm args e ps,
  (2 <= c)%nat ->
  flatten tpl is_magic magic_prog default_names b (S c) nm e = Ok ps ->
  too_long (strip (pjoin ps)) = false -> is_magic (strip (pjoin ps)) = true ->
  run_magic (flatten tpl is_magic magic_prog default_names b (S c)) e args (magic_prog (strip (pjoin ps)) (length args)) = Err XRec ->
  flatten tpl is_magic magic_prog default_names (S b) c (NTpl nm args) e = Err XRec.
Proof. exact magic_call_propagates. Qed.
Print Assumptions C03_magic_call_propagates.

Theorem C03_sequence_stops_at_first_error :
  forall tpl is_magic magic_prog default_names b c l1 x l2 e,
  (2 <= c)%nat ->
  (forall y, In y l1 -> exists ps, flatten tpl is_magic magic_prog default_names b (S c) y e = Ok ps) ->
  flatten tpl is_magic magic_prog default_names b (S c) x e = Err XRec ->
  flatten tpl is_magic magic_prog default_names (S b) c (NSeq (l1 ++ x :: l2)) e = Err XRec.
Proof. exact seq_propagates. Qed.
Print Assumptions C03_sequence_stops_at_first_error.

(* non-vacuity of the discipline: Template:A = {{#ifexpr|1|x{{A}}{{A}}}} with a lazy #ifexpr strategy on the page "s {{A}} e"
   expands to "s  e" (limits 100 and 7); with the condition 0 the recursive branch is never fetched and the page is "s n e" *)
Example C03_example_lazy_recursion :
  expand ex_lazy_tpl ex_lazy_is_magic ex_lazy_prog [default_key] 100 ex_lazy_page = Ok [115; 32; 32; 101]%N /\
  expand ex_lazy_tpl ex_lazy_is_magic ex_lazy_prog [default_key] 7 ex_lazy_page = Ok [115; 32; 32; 101]%N.
Proof. exact example_lazy_recursion. Qed.
Print Assumptions C03_example_lazy_recursion.

Example C03_example_lazy_untaken :
  expand (fun name => if str_eqb name [97%N] then Some ex_A0 else None) ex_lazy_is_magic ex_lazy_prog [default_key] 100 ex_lazy_page
  = Ok [115; 32; 110; 32; 101]%N.
Proof. exact example_lazy_untaken. Qed.
Print Assumptions C03_example_lazy_untaken.

(* COST.  FULL STATEMENT ASKED FOR: "the number of node visits of `expand limit page` is bounded by a polynomial in (page size,
   universe size, limit)".  It is FALSE of the model and of the code: the acyclic chain T_i = {{T_(i+1)}}{{T_(i+1)}}, T_12 = "x"
   (13 templates, 24 calls) never reaches the limit and outputs 2^12 characters (2^k for k < limit/3 links).  Refuted here by
   computation; what IS bounded is the nesting (C03_nesting_bounded), the size of every fetched value (the caps) and the number
   of limit hits per top-level element (the discipline above); see C03/Cost.v for the bound these give. *)
Example C03_cost_polynomial_refuted :
  match expand (chain_tpl 12) (fun _ => false) (fun _ _ => MDone []) [default_key] 100 (NTpl (NStr [65%N]) []) with
  | Ok s => length s = 4096
  | Err _ => False
  end.
Proof. exact example_doubling_chain. Qed.
Print Assumptions C03_cost_polynomial_refuted.

(* THE LIMIT IS INVISIBLE TO WHAT DOES NOT HIT IT (full model, every node kind, every universe, every magic strategy): below
   the top level (recursion_count >= 2) a result other than TemplateRecursion - output, or nothing after a swallowed
   MemoryLimitError - is the result for EVERY larger recursion limit.  So the only thing the limit can change is what
   the limit is there for, and raising it never turns output into different output. *)
Theorem C03_limit_invisible_unless_hit :
  forall tpl is_magic magic_prog default_names b k c n e r,
  (2 <= c)%nat ->
  flatten tpl is_magic magic_prog default_names b c n e = r -> r <> Err XRec ->
  flatten tpl is_magic magic_prog default_names (k + b) c n e = r.
Proof. exact flatten_limit_invisible. Qed.
Print Assumptions C03_limit_invisible_unless_hit.

(* every component of the evaluator is monotone in its flatten parameter for  r [= r' := (r = r' \/ r = Err XRec) *)
Theorem C03_node_body_monotone :
  forall tpl is_magic magic_prog default_names (fl fl' : flat), fle fl fl' ->
  forall (flb flb' : flat), fle flb flb' ->
  forall n e, rle (node_body tpl is_magic magic_prog default_names fl flb n e)
                  (node_body tpl is_magic magic_prog default_names fl' flb' n e).
Proof. exact node_body_mono. Qed.
Print Assumptions C03_node_body_monotone.

(* What the discipline buys, on the abstract walk of C03/Cost.v (items = text leaves or calls into an arbitrary, possibly
   cyclic universe `body`; a call uses one unit of the nesting budget b; the first failing child ends its parent): a run that
   hits the recursion limit visits at most (b + 1) * (w * K + 1) items - LINEAR in the limit b - where w bounds the length
   of a body and K the cost of the sub-runs that never reach the limit. *)
Theorem C03_cost_linear_with_discipline :
  forall (body : nat -> list item) (w K : nat),
  (forall f, length (body f) <= w) ->
  (forall b it n, run body b it = (true, n) -> n <= K) ->
  forall b it n, run body b it = (false, n) -> n <= (b + 1) * (w * K + 1).
Proof. exact fail_linear. Qed.
Print Assumptions C03_cost_linear_with_discipline.

(* A = x{{A}}{{A}}: with the discipline exactly 2b + 1 visits; with a handler around each child (run_sw: what a broad
   `except` around the magic call or around an argument fetch amounts to) 3 * 2^b - 2 visits. *)
Theorem C03_cost_self_inclusion_disciplined : forall b, run body_xAA b (Call 0) = (false, 2 * b + 1).
Proof. exact xAA_disciplined. Qed.
Print Assumptions C03_cost_self_inclusion_disciplined.

Theorem C03_cost_self_inclusion_swallowed : forall b, run_sw body_xAA b (Call 0) + 2 = 3 * 2 ^ b.
Proof. exact xAA_swallowing. Qed.
Print Assumptions C03_cost_self_inclusion_swallowed.

(* non-vacuity of the hypotheses of C03_cost_linear_with_discipline: on that universe w = 3, K = 1 *)
Example C03_cost_bound_instance : forall b n, run body_xAA b (Call 0) = (false, n) -> n <= (b + 1) * (3 * 1 + 1).
Proof. exact xAA_bound_instance. Qed.
Print Assumptions C03_cost_bound_instance.

(* non-vacuity: the self-including template a = "x{{a}}" on the page "1{{a}}2{{b}}" (b missing) expands to "12" *)
Example C03_example_cycle :
  expand ex_tpl (fun _ => false) (fun _ _ => MDone []) [default_key] 100 ex_page = Ok [49; 50]%N.
Proof. exact example_cycle. Qed.
Print Assumptions C03_example_cycle.
