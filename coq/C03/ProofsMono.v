(* C03 — the recursion limit is invisible to every evaluation that does not hit it.
   Order on results:  r [= r'  iff  r = r'  or  r = Err XRec  ("ran out of nesting budget": may become anything with more
   budget).  Every piece of the evaluator is monotone in its `flatten` parameter w.r.t. this order, hence below the top level
   (recursion_count >= 2, where TemplateRecursion is re-raised) a result other than TemplateRecursion - output or a swallowed
   MemoryLimitError - is the same for every larger recursion limit. *)
From Coq Require Import List NArith ZArith Bool Lia.
From MW Require Import Common.Str C03.Model C03.Proofs.
Import ListNotations.

Definition rle {A} (r r' : res A) : Prop := r = r' \/ r = Err XRec.
Definition fle (fl fl' : flat) : Prop := forall n e, rle (fl n e) (fl' n e).

Lemma rle_refl {A} (r : res A) : rle r r.
Proof. left. reflexivity. Qed.

(* one evaluation step under the order: either the same result on both sides, or the left one ran out of budget *)
Ltac mstep H a b :=
  let E := fresh "E" in
  destruct (H a b) as [E|E]; rewrite E; [|right; reflexivity].

Section Mono.
  Variable tpl : str -> option node.
  Variable is_magic : str -> bool.
  Variable magic_prog : str -> nat -> mreq.
  Variable default_names : list str.

  Notation flatten := (flatten tpl is_magic magic_prog default_names).
  Notation node_body := (node_body tpl is_magic magic_prog default_names).

  Variables fl fl' : flat.
  Hypothesis H : fle fl fl'.

  Lemma value_of_mono ds v p : rle (value_of fl ds v p) (value_of fl' ds v p).
  Proof.
    unfold value_of. destruct (node_as_str v); [apply rle_refl|].
    mstep H v p. apply rle_refl.
  Qed.

  Lemma scan_mono args parent n : forall vc, rle (scan fl args parent vc n) (scan fl' args parent vc n).
  Proof.
    induction args as [|a rest IH]; intros vc; cbn [scan]; [apply rle_refl|].
    destruct (equal_split a) as [[nm|] val].
    - mstep H nm parent. destruct (fl' nm parent) as [ps|x]; [|apply rle_refl].
      destruct (str_eqb (strip (join_nl ps)) n); [|apply IH].
      destruct (value_of_mono true val parent) as [E1|E1]; rewrite E1; [apply rle_refl|right; reflexivity].
    - destruct (str_eqb (decimal vc) n); [|apply IH].
      destruct (value_of_mono false val parent) as [E1|E1]; rewrite E1; [apply rle_refl|right; reflexivity].
  Qed.

  Lemma get_mono e n : rle (get fl e n) (get fl' e n).
  Proof. destruct e as [|args parent]; cbn [get]; [apply rle_refl|apply scan_mono]. Qed.

  Lemma arg_int_mono e a : rle (arg_int fl e a) (arg_int fl' e a).
  Proof.
    unfold arg_int. destruct (node_as_str a); [apply rle_refl|].
    mstep H a e. apply rle_refl.
  Qed.

  Lemma run_magic_mono e args m : rle (run_magic fl e args m) (run_magic fl' e args m).
  Proof.
    induction m as [out|i k IH]; cbn [run_magic]; [apply rle_refl|].
    destruct (nth_error args i) as [a|]; [|apply IH].
    destruct (arg_int_mono e a) as [E|E]; rewrite E; [|right; reflexivity].
    destruct (arg_int fl' e a) as [s|x]; [apply IH|apply rle_refl].
  Qed.

  Lemma sw_unres_mono e val nv l : rle (sw_unres fl e val nv l) (sw_unres fl' e val nv l).
  Proof.
    induction l as [|[k v] rest IH]; cbn [sw_unres]; [apply rle_refl|].
    mstep H k e. destruct (fl' k e) as [ps|x]; [|apply rle_refl].
    destruct (str_eqb (strip (pjoin ps)) val); [apply rle_refl|].
    destruct nv as [a|]; [|apply IH].
    destruct (parse_num (strip (pjoin ps))) as [b|]; [|apply IH].
    destruct (num_eqb b a); [apply rle_refl|apply IH].
  Qed.

  Lemma branch_mono e x : rle (branch fl e x) (branch fl' e x).
  Proof.
    destruct x as [n|]; cbn [branch]; [|apply rle_refl].
    mstep H n e. apply rle_refl.
  Qed.

  Lemma flat_list_mono e l : rle (flat_list fl e l) (flat_list fl' e l).
  Proof.
    induction l as [|x r IH]; cbn [flat_list]; [apply rle_refl|].
    mstep H x e. destruct (fl' x e) as [ps|er]; [|apply rle_refl].
    destruct IH as [E1|E1]; rewrite E1; [apply rle_refl|right; reflexivity].
  Qed.

  Variables flb flb' : flat.
  Hypothesis Hb : fle flb flb'.

  Lemma node_body_mono n e : rle (node_body fl flb n e) (node_body fl' flb' n e).
  Proof.
    destruct n as [s| |l|l|nm args|l|l|v args]; cbn [Model.node_body]; try apply rle_refl.
    - (* NSeq *) apply flat_list_mono.
    - (* NVar *)
      destruct l as [|nm rest]; [apply rle_refl|].
      mstep H nm e. destruct (fl' nm e) as [ps|x]; [|apply rle_refl].
      destruct (too_long (strip (pjoin ps))); [apply rle_refl|].
      destruct (get_mono e (strip (pjoin ps))) as [E1|E1]; rewrite E1; [|right; reflexivity].
      destruct (get fl' e (strip (pjoin ps))) as [[v|]|x]; try apply rle_refl.
      destruct rest as [|d rest']; [apply rle_refl|]. apply H.
    - (* NTpl *)
      mstep H nm e. destruct (fl' nm e) as [ps|x]; [|apply rle_refl].
      destruct (too_long (strip (pjoin ps))); [apply rle_refl|].
      destruct (is_magic (strip (pjoin ps))).
      + destruct (run_magic_mono e args (magic_prog (strip (pjoin ps)) (length args))) as [E1|E1]; rewrite E1;
          [apply rle_refl|right; reflexivity].
      + destruct (tpl (strip (pjoin ps))) as [p|]; [|apply rle_refl].
        destruct (truthy p); [|apply rle_refl].
        destruct (Hb p (EArgs args e)) as [E1|E1]; rewrite E1; [apply rle_refl|right; reflexivity].
    - (* NIf *)
      destruct l as [|c0 rest]; [apply rle_refl|].
      mstep H c0 e. destruct (fl' c0 e) as [ps|x]; [|apply rle_refl].
      destruct (strip_ebad (strip (pjoin ps))); apply branch_mono.
    - (* NIfEq *)
      destruct l as [|a0 rest]; [apply rle_refl|].
      mstep H a0 e. destruct (fl' a0 e) as [ps|x]; [|apply rle_refl].
      assert (Hr : rle (match rest with b0 :: _ => fl b0 e | [] => Ok [] end)
                       (match rest with b0 :: _ => fl' b0 e | [] => Ok [] end))
        by (destruct rest as [|b0 r]; [apply rle_refl|apply H]).
      destruct Hr as [E1|E1]; rewrite E1; [|right; reflexivity].
      destruct (match rest with b0 :: _ => fl' b0 e | [] => Ok [] end) as [qs|x]; [|apply rle_refl].
      destruct (maybe_numeric_compare (strip (pjoin ps)) (strip (pjoin qs))); apply branch_mono.
    - (* NSwitch *)
      destruct (switch_init args) as [fast unres].
      mstep H v e. destruct (fl' v e) as [ps|x]; [|apply rle_refl].
      cbv zeta.
      match goal with |- context [let '(a, b) := ?X in _] => destruct X as [pos ret0] end.
      destruct (sw_unres_mono e (strip (pjoin ps)) (parse_num (strip (pjoin ps))) (firstn pos unres)) as [E1|E1];
        rewrite E1; [|right; reflexivity].
      destruct (sw_unres fl' e (strip (pjoin ps)) (parse_num (strip (pjoin ps))) (firstn pos unres)) as [found|x];
        [|apply rle_refl].
      match goal with |- context [fl ?R e] => destruct (H R e) as [E2|E2]; rewrite E2; [apply rle_refl|right; reflexivity] end.
  Qed.
End Mono.

Section MonoFlatten.
  Variable tpl : str -> option node.
  Variable is_magic : str -> bool.
  Variable magic_prog : str -> nat -> mreq.
  Variable default_names : list str.

  Notation flatten := (flatten tpl is_magic magic_prog default_names).

  (* one more unit of nesting budget, below the top level *)
  Lemma flatten_mono_step b : forall c, (2 <= c)%nat -> fle (flatten b c) (flatten (S b) c).
  Proof.
    induction b as [|b IH]; intros c Hc n e.
    - destruct (node_as_str n) as [s|] eqn:Hs.
      + rewrite !(flatten_str _ _ _ _ _ _ _ _ s Hs). apply rle_refl.
      + right. apply flatten_budget_exhausted. exact Hs.
    - destruct (node_as_str n) as [s|] eqn:Hs.
      + rewrite !(flatten_str _ _ _ _ _ _ _ _ s Hs). apply rle_refl.
      + rewrite (flatten_step _ _ _ _ (S b)) by exact Hs. rewrite (flatten_step _ _ _ _ b) by exact Hs.
        assert (Hf : fle (flatten b (S c)) (flatten (S b) (S c))) by (apply IH; lia).
        destruct (node_body_mono tpl is_magic magic_prog default_names _ _ Hf _ _ Hf n e) as [E|E]; rewrite E.
        * apply rle_refl.
        * right. destruct (Nat.ltb_spec 2 (S c)) as [_|Hlt]; [reflexivity|lia].
  Qed.

  Lemma flatten_mono b k : forall c, (2 <= c)%nat -> fle (flatten b c) (flatten (k + b) c).
  Proof.
    induction k as [|k IH]; intros c Hc n e; [apply rle_refl|].
    destruct (IH c Hc n e) as [E|E]; [|right; exact E].
    rewrite E. apply (flatten_mono_step (k + b) c Hc).
  Qed.

  (* a result other than TemplateRecursion does not depend on the recursion limit any more *)
  Lemma flatten_limit_invisible b k c n e r :
    (2 <= c)%nat -> flatten b c n e = r -> r <> Err XRec -> flatten (k + b) c n e = r.
  Proof.
    intros Hc Hr Hne. destruct (flatten_mono b k c Hc n e) as [E|E].
    - rewrite <- E. exact Hr.
    - congruence.
  Qed.

  Lemma flatten_ok_any_larger_limit b k c n e ps :
    (2 <= c)%nat -> flatten b c n e = Ok ps -> flatten (k + b) c n e = Ok ps.
  Proof. intros Hc Hr. apply flatten_limit_invisible; [exact Hc|exact Hr|discriminate]. Qed.
End MonoFlatten.
