(* C03 — property theorems about the SIZE of the values an #expr / #ifexpr evaluation builds ("a number written in the
   wikitext cannot buy unbounded CPU time": every operator of expr.py works in time polynomial in the size of its operands,
   so it suffices that no intermediate value is larger than the text allows).  Each theorem is closed by `exact <lemma>` and
   followed by Print Assumptions. *)
From Coq Require Import ZArith List Bool.
From MW Require Import Common.Str C03.ExprSizeModel C03.ExprSizeProofs C03.Magics C03.Gen_magics C03.MagicsProofs.
Import ListNotations.
Local Open Scope Z_scope.

(* For every expression tree (any shape, any depth, any chain) whose operators belong to the reviewed size classes and
   whose integer literals fit their declared sizes, EVERY value the evaluation can produce - under the relational
   specification of Python's arithmetic in ExprSizeModel.v: exact integers, floats of constant size, int(float) below
   2^1024, |a mod b| < |b|, round to a multiple of 10^k within 10^k/2 - fits in
        (bits of the literals) + 1025 * (number of operators)
   bits: linear in the length of the text.  (Sub-expressions are expressions: the bound holds for every intermediate value.) *)
Theorem C03_expr_value_size_linear :
  forall e v, ev e v -> wfe e -> linear e = true ->
  0 <= size_bound e /\ fits (size_bound e) v /\ size_bound e = lit_bits e + 1025 * ops e.
Proof. intros e v H1 H2 H3. destruct (size_linear e v H1 H2 H3) as [A B]. split; [exact A|]. split; [exact B|reflexivity]. Qed.
Print Assumptions C03_expr_value_size_linear.

(* The callables registered in /repo's expr.py (Gen_magics.v, regenerated on every run; texts pinned by the translator) all
   belong to those classes: one class per registered operator, none of them the exact integer power. *)
Theorem C03_expr_registered_operators_are_size_linear :
  length gen_expr_classes = gen_expr_operators /\
  forallb (fun p : str * ecls => linear_cls (snd p)) gen_expr_classes = true.
Proof. exact expr_classes_generated. Qed.
Print Assumptions C03_expr_registered_operators_are_size_linear.

(* REFUTED for an exact integer power (`base ** exponent` for integers with 0 <= exponent <= 64, seeded regression C03-4):
   the left-associative chain 9^64^64...^64 with k >= 2 links is well-formed, evaluates to 9^(64^k), its linear bound is
   4 + 1032 k bits, and the value does not fit: it has more than 3 * 64^k bits (k = 5, a 26-character #expr: > 3.2e9 bits). *)
Theorem C03_expr_exact_power_refuted :
  forall k : nat, (2 <= k)%nat ->
  ev (pow_chain k) (VI (9 ^ (64 ^ Z.of_nat k))) /\ wfe (pow_chain k) /\
  size_bound (pow_chain k) = 4 + 1032 * Z.of_nat k /\
  ~ fits (size_bound (pow_chain k)) (VI (9 ^ (64 ^ Z.of_nat k))) /\
  2 ^ (3 * 64 ^ Z.of_nat k) <= 9 ^ (64 ^ Z.of_nat k).
Proof. exact pow_exact_refuted. Qed.
Print Assumptions C03_expr_exact_power_refuted.

(* non-vacuity: (2 * 3 + 4) mod 7 evaluates to 3, is well-formed and linear; its bound is 3085 bits *)
Example C03_expr_size_example :
  ev ex_expr (VI 3) /\ wfe ex_expr /\ linear ex_expr = true /\ size_bound ex_expr = 3085.
Proof. exact size_example. Qed.
Print Assumptions C03_expr_size_example.
