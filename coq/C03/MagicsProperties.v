(* C03 — property theorems about the magic-word dispatch table (Gen_magics.v, regenerated from /repo on
   every run) and the output-size models.  Each is closed by `exact <lemma>` and followed by
   Print Assumptions; the check re-compiles this file on every run. *)
From Coq Require Import List NArith ZArith Bool.
From MW Require Import Common.Str C03.Magics C03.Gen_magics C03.MagicsProofs.
Import ListNotations.

(* Every attribute MagicResolver.__call__ can reach (every upper-case public name of the mixins after the
   '#' renaming of ParserFunctions, plus every dummy installed by _populate_dummy) accepts the call
   `method_to_invoke(args)` - one positional argument on a bound method - without TypeError, through
   its whole decorator chain. *)
Theorem C03_dispatch_total : forall m, In m all_magics -> accepts_args_call m = true.
Proof. exact dispatch_total. Qed.
Print Assumptions C03_dispatch_total.

(* getattr finds exactly one entry per name: no name is listed twice in the table. *)
Theorem C03_dispatch_names_unique : NoDup (map m_name all_magics).
Proof. exact dispatch_names_unique. Qed.
Print Assumptions C03_dispatch_names_unique.

(* The dummies are entries of the table, i.e. C03_dispatch_total speaks about them. *)
Theorem C03_dispatch_covers_dummies : forall n, In n dummy_names -> exists m, In m all_magics /\ m_name m = n.
Proof. exact dummies_in_table. Qed.
Print Assumptions C03_dispatch_covers_dummies.

(* Every magic_nodes.registry entry can be built from the children tuple (one argument) and its
   flatten (own or inherited) takes (self, expander, variables, res). *)
Theorem C03_registry_total : forall r, In r magic_registry -> reg_ok r = true.
Proof. exact registry_total. Qed.
Print Assumptions C03_registry_total.

(* padleft / padright: whatever width is written in the wikitext, the output is at most 500 characters
   longer than the first argument (in fact at most max(len, 500) characters long). *)
Theorem C03_output_bounded_padleft : forall s w fill, length (padleft s w fill) <= 500 + length s.
Proof. exact padleft_bounded. Qed.
Print Assumptions C03_output_bounded_padleft.

Theorem C03_output_bounded_padright : forall s w fill, length (padright s w fill) <= 500 + length s.
Proof. exact padright_bounded. Qed.
Print Assumptions C03_output_bounded_padright.

Theorem C03_output_max_padleft : forall s w fill, length (padleft s w fill) <= Nat.max (length s) 500.
Proof. exact padleft_length_max. Qed.
Print Assumptions C03_output_max_padleft.

(* The cap of the model is the cap of the source: Gen_magics.v records min(int(args[1]), CAP) of both functions; the
   translator fails if the body of PADLEFT/PADRIGHT is anything but the modelled one (e.g. a second conversion path). *)
Theorem C03_pad_cap_is_source_cap : gen_pad_cap_left = pad_cap /\ gen_pad_cap_right = pad_cap.
Proof. exact pad_cap_generated. Qed.
Print Assumptions C03_pad_cap_is_source_cap.

(* MagicResolver.__call__ and the magics keep the exception-propagation discipline that C03/Model.v `run_magic` models
   (an exception raised while a lazily expanded argument is flattened passes through the call): the translator counted
   no try statement around method_to_invoke(args) and no argument fetch under a handler for Exception. *)
Theorem C03_magic_calls_do_not_catch : gen_discipline_violations = 0.
Proof. exact discipline_generated. Qed.
Print Assumptions C03_magic_calls_do_not_catch.

(* #expr / #ifexpr: each of the 34 registered operators (expr.py, between `a = addop` and `del a`) is implemented by the
   callable the cost review pinned (vt/gen/c03_magics.py EXPR_IMPL_PINNED): in particular `^` is math.pow, which on machine
   floats returns a float or raises at once, and never an exact integer power (whose size is multiplied by the exponent at
   every link of a left-associative chain 9^64^64^64^64).  `math`, abs, int, round, bool are not rebound; _myround and
   addop are pinned by the hash of their AST; `functions` is written by addop only. *)
Theorem C03_expr_operators_pinned : gen_expr_impl_violations = 0 /\ gen_expr_operators = 34.
Proof. exact expr_impl_generated. Qed.
Print Assumptions C03_expr_operators_pinned.

(* GENERATED from /repo on every run (vt/gen/c03_static.py analyse_pp): the regular expressions pp.preprocess runs over every page
   and template text (noinclude / includeonly / onlyinclude handling) are the four reviewed patterns (plus, once the proposed fix is in, the plain closing tag) - one OPTIONAL
   attribute group `(?:\s[^<>]STAR)?` and a lazy `.STAR?` up to the closing tag or the end - and none contains an unbounded
   repetition nested inside an unbounded repetition whose characters overlap the rest of the repeated group (the shape
   `(?:\s+[^<>/]+)STAR` backtracks exponentially on `<noinclude a b c ...` without a closing bracket). *)
Theorem C03_preprocessor_regexes_pinned : gen_pp_regex_violations = 0 /\ Nat.leb 4 gen_pp_patterns = true.
Proof. exact pp_regex_generated. Qed.
Print Assumptions C03_preprocessor_regexes_pinned.

(* GENERATED from /repo on every run (vt/gen/c03_static.py analyse_regexes): every OTHER regular expression the expansion path applies to
   author-controlled text - magics.if_error_rx (the #iferror test on its first argument), the #time format splitter and year test,
   the #expr tokenizer, the template scanner's split pattern, the parser's #if/#switch name matchers - is one of the seven reviewed
   patterns (file + sha256 + flags; patterns built at run time only by the pinned statement joining re.escape()d aliases), re is
   only used as re.<function>(<static pattern>), and none contains an unbounded repetition nested in an unbounded repetition over
   overlapping characters (the shape `(?:[^Q\s<>]STAR\s+)STAR?error`, Q the double quote, splits a run of N blanks inside a class attribute in 2^(N-1) ways). *)
Theorem C03_expansion_regexes_pinned : gen_regex_violations = 0 /\ Nat.leb 7 gen_regex_patterns = true.
Proof. exact regexes_generated. Qed.
Print Assumptions C03_expansion_regexes_pinned.

(* GENERATED (analyse_arg_reads): along every control path of every magic of magics.py (decorator wrappers included) each
   positional argument args[i] is read at most once, and never through a run-time index (allow-list: the open #ifexist
   defect).  ArgumentList.get(int) expands the argument's node on every read and caches nothing. *)
Theorem C03_magics_read_each_argument_once : gen_arg_reread_violations = 0.
Proof. exact arg_reads_generated. Qed.
Print Assumptions C03_magics_read_each_argument_once.

(* Why that matters: k self-nested calls whose levels each expand the next level r times cost nest_cost r k expansions -
   k + 1 for r = 1 (linear in the text), at least 2^(k+1) - 1 for every r >= 2. *)
Theorem C03_nesting_cost_linear_when_read_once : forall k, nest_cost 1 k = k + 1.
Proof. exact nest_cost_once. Qed.
Print Assumptions C03_nesting_cost_linear_when_read_once.

Theorem C03_nesting_cost_exponential_when_read_twice : forall r k, 2 <= r -> 2 ^ (k + 1) <= nest_cost r k + 1.
Proof. exact nest_cost_exponential. Qed.
Print Assumptions C03_nesting_cost_exponential_when_read_twice.

(* #titleparts never outputs more than its first argument, for all integers numseg and start. *)
Theorem C03_output_bounded_titleparts : forall title numseg start,
  length (titleparts title numseg start) <= length title.
Proof. exact titleparts_bounded. Qed.
Print Assumptions C03_output_bounded_titleparts.

(* Non-vacuity: the binding rule rejects the two defect shapes (def f(self) without @no_arg, the
   parameterless dummy resolve()) and accepts their fixed forms; concrete runs of the size models. *)
Example C03_accepts_examples :
  accepts [] (mkSig 2 2 false) 2 = true /\
  accepts [] (mkSig 1 1 false) 2 = false /\
  accepts [mkDeco (mkSig 1 1 true) (Fixed 1)] (mkSig 1 1 false) 2 = true /\
  accepts [] (mkSig 0 0 false) 2 = false /\
  accepts [] (mkSig 0 0 true) 2 = true.
Proof. exact accepts_examples. Qed.
Print Assumptions C03_accepts_examples.

Example C03_size_examples :
  padleft [120]%N (Some 5%Z) [97; 98]%N = [97; 98; 97; 98; 120]%N /\
  length (padright [120]%N (Some 3000000%Z) []) = 500 /\
  padleft [120; 121; 122]%N (Some (-3)%Z) [] = [120; 121; 122]%N /\
  titleparts [97; 47; 98; 47; 99]%N 1 2 = [98]%N /\
  titleparts [97; 47; 98; 47; 99]%N (-1) 0 = [97; 47; 98]%N /\
  titleparts [97; 47; 98; 47; 99]%N 0 (-1) = [99]%N.
Proof. exact size_examples. Qed.
Print Assumptions C03_size_examples.
