(* C03 — lemmas about the budgeted flatten model (C03/Model.v). *)
From Coq Require Import List NArith ZArith Bool Lia.
From MW Require Import Common.Str C03.Model.
Import ListNotations.

Section FlattenProofs.
  Variable tpl : str -> option node.
  Variable is_magic : str -> bool.
  Variable magic_prog : str -> nat -> mreq.
  Variable default_names : list str.

  Notation flatten := (flatten tpl is_magic magic_prog default_names).
  Notation expand := (expand tpl is_magic magic_prog default_names).
  Notation node_body := (node_body tpl is_magic magic_prog default_names).

  (* one unfolding step of the Fixpoint for a non-string node *)
  Lemma flatten_step b c n e :
    node_as_str n = None ->
    flatten (S b) c n e =
      match node_body (flatten b (S c)) (flatten b (S c)) n e with
      | Err XRec => if (2 <? S c)%nat then Err XRec else Ok []
      | Err XMem => Ok []
      | Ok ps => Ok ps
      end.
  Proof. destruct n; cbn [node_as_str]; intros H; try discriminate; reflexivity. Qed.

  Lemma flatten_str b c n e s : node_as_str n = Some s -> flatten b c n e = Ok [PS s].
  Proof. destruct n; cbn [node_as_str]; intros H; inversion H; subst; destruct b; reflexivity. Qed.

  (* recursion_count > recursion_limit: no node.flatten is entered any more *)
  Lemma flatten_budget_exhausted c n e : node_as_str n = None -> flatten 0 c n e = Err XRec.
  Proof. destruct n; cbn [node_as_str]; intros H; try discriminate; reflexivity. Qed.

  (* MemoryLimitError never leaves a flatten call (with the proposed fix) *)
  Lemma flatten_never_mem b c n e : flatten b c n e <> Err XMem.
  Proof.
    destruct (node_as_str n) as [s|] eqn:Hs.
    - rewrite (flatten_str b c n e s Hs). discriminate.
    - destruct b as [|b].
      + rewrite flatten_budget_exhausted by exact Hs. discriminate.
      + rewrite flatten_step by exact Hs.
        destruct (node_body _ _ n e) as [ps|[|]]; try discriminate.
        destruct (2 <? S c)%nat; discriminate.
  Qed.

  (* TemplateRecursion is swallowed by the calls with recursion_count <= 2 after the increment *)
  Lemma flatten_top_ok b c n e : (c <= 1)%nat -> exists ps, flatten b c n e = Ok ps \/ (b = 0%nat /\ flatten b c n e = Err XRec).
  Proof.
    intros Hc.
    destruct (node_as_str n) as [s|] eqn:Hs.
    - exists [PS s]. left. apply flatten_str. exact Hs.
    - destruct b as [|b].
      + exists []. right. split; [reflexivity|]. apply flatten_budget_exhausted. exact Hs.
      + rewrite flatten_step by exact Hs.
        destruct (node_body _ _ n e) as [ps|[|]].
        * exists ps. left. reflexivity.
        * exists []. left. destruct (Nat.ltb_spec 2 (S c)) as [H|H]; [lia|reflexivity].
        * exists []. left. reflexivity.
  Qed.

  Lemma flatten_top_ok' b c n e : (c <= 1)%nat -> exists ps, flatten (S b) c n e = Ok ps.
  Proof.
    intros Hc. destruct (flatten_top_ok (S b) c n e Hc) as [ps [H|[H _]]]; [exists ps; exact H|discriminate].
  Qed.

  (* Expander._expand always returns a string, for every universe (cycles included), every magic
     behaviour, every page and every recursion limit *)
  Lemma expand_total limit page : exists s, expand limit page = Ok s.
  Proof.
    unfold Model.expand.
    destruct (flatten_top_ok' limit 0 page ETop) as [ps H]; [lia|].
    rewrite H. eexists. reflexivity.
  Qed.

  (* a page that is a sequence: every top-level element contributes its own output or nothing; an element that
     runs into the recursion limit does not disturb its siblings *)
  Definition contrib (b : nat) (x : node) (e : env) : list piece :=
    match flatten b 1 x e with Ok ps => ps | Err _ => [] end.

  Lemma flat_list_top b e l :
    flat_list (flatten (S b) 1) e l = Ok (concat (map (fun x => contrib (S b) x e) l)).
  Proof.
    induction l as [|x l IH]; cbn [flat_list map concat]; [reflexivity|].
    unfold contrib at 1.
    destruct (flatten_top_ok' b 1 x e) as [ps H]; [lia|].
    rewrite H, IH. reflexivity.
  Qed.

  Lemma flatten_top_seq b e l :
    flatten (S (S b)) 0 (NSeq l) e = Ok (concat (map (fun x => contrib (S b) x e) l)).
  Proof.
    rewrite flatten_step by reflexivity. cbn [Model.node_body].
    rewrite flat_list_top. reflexivity.
  Qed.

  (* 256 KiB cap on template / parameter names: the call yields nothing *)
  Lemma tpl_name_cap b c nm args e ps :
    flatten b (S c) nm e = Ok ps -> too_long (strip (pjoin ps)) = true ->
    flatten (S b) c (NTpl nm args) e = Ok [].
  Proof.
    intros H1 H2. rewrite flatten_step by reflexivity. cbn [Model.node_body]. rewrite H1, H2. reflexivity.
  Qed.

  Lemma var_name_cap b c nm rest e ps :
    flatten b (S c) nm e = Ok ps -> too_long (strip (pjoin ps)) = true ->
    flatten (S b) c (NVar (nm :: rest)) e = Ok [].
  Proof.
    intros H1 H2. rewrite flatten_step by reflexivity. cbn [Model.node_body]. rewrite H1, H2. reflexivity.
  Qed.

  (* 256 KiB cap on an argument handed to a magic word *)
  Lemma arg_int_cap fl e a s :
    node_as_str a = None -> arg_int fl e a = Ok s -> too_long s = false.
  Proof.
    unfold arg_int. intros Ha. rewrite Ha.
    destruct (fl a e) as [ps|x]; [|discriminate].
    destruct (too_long (strip (join_nl ps))) eqn:Ht; [discriminate|].
    intros H. inversion H; subst. exact Ht.
  Qed.
End FlattenProofs.

(* non-vacuity / sanity: a self-recursive universe a = "x{{a}}", page "1{{a}}2{{b}}" with b missing *)
Definition ex_tpl (name : str) : option node :=
  if str_eqb name [97%N] then Some (NSeq [NStr [120%N]; NTpl (NStr [97%N]) []]) else None.
Definition ex_page : node := NSeq [NStr [49%N]; NTpl (NStr [97%N]) []; NStr [50%N]; NTpl (NStr [98%N]) []].

Lemma example_cycle :
  expand ex_tpl (fun _ => false) (fun _ _ => MDone []) [default_key] 100 ex_page = Ok [49; 50]%N.
Proof. vm_compute. reflexivity. Qed.
