(* C03 — lemmas for ExprSizeModel.v: with the reviewed operator classes every value an #expr evaluation builds has at most
   (bits of the literals) + 1025 * (number of operators) bits; with an exact integer power this fails on 9^64^64^64^64^64. *)
From Coq Require Import ZArith List Lia Bool.
From MW Require Import C03.ExprSizeModel.
Import ListNotations.
Local Open Scope Z_scope.

Lemma pow2_pos n : 0 < 2 ^ n \/ n < 0.
Proof. destruct (Z_lt_le_dec n 0) as [H|H]; [right; exact H|left; apply Z.pow_pos_nonneg; lia]. Qed.

Lemma pow2_ge1 n : 0 <= n -> 1 <= 2 ^ n.
Proof. intros H. pose proof (Z.pow_pos_nonneg 2 n ltac:(lia) H). lia. Qed.

Lemma pow2_mono n m : 0 <= n <= m -> 2 ^ n <= 2 ^ m.
Proof. intros H. apply Z.pow_le_mono_r; lia. Qed.

Lemma fits_mono n m v : 0 <= n <= m -> fits n v -> fits m v.
Proof. intros H. destruct v as [z|]; cbn [fits]; [|trivial]. intros Hz. pose proof (pow2_mono n m H). lia. Qed.

Lemma fits_small n z : 1 <= n -> Z.abs z <= 1 -> fits n (VI z).
Proof. intros Hn Hz. cbn [fits]. pose proof (pow2_mono 1 n ltac:(lia)). change (2 ^ 1) with 2 in H. lia. Qed.

Lemma b2z_small b : Z.abs (Z.b2z b) <= 1.
Proof. destruct b; cbn; lia. Qed.

Lemma to_int_fits n x z : 0 <= n -> fits n x -> to_int x z -> Z.abs z < 2 ^ (n + FMAX).
Proof.
  intros Hn Hf H. assert (HF : 0 <= FMAX) by (unfold FMAX; lia).
  inversion H; subst.
  - cbn [fits] in Hf. pose proof (pow2_mono n (n + FMAX) ltac:(lia)). lia.
  - pose proof (pow2_mono FMAX (n + FMAX) ltac:(lia)). lia.
Qed.

(* the result of rounding an integer to a multiple of 10^k within 10^k/2 is 0 or at most twice as large *)
Lemma round_int_bound n r k : 0 <= k -> (10 ^ k | r) -> 2 * Z.abs (r - n) <= 10 ^ k -> Z.abs r <= 2 * Z.abs n.
Proof.
  intros Hk [q Hq] Hd. pose proof (Z.pow_pos_nonneg 10 k ltac:(lia) Hk) as Hp.
  destruct (Z.eq_dec q 0) as [->|Hq0]; [subst r; lia|].
  assert (Hr : 10 ^ k <= Z.abs r).
  { subst r. rewrite Z.abs_mul. rewrite (Z.abs_eq (10 ^ k)) by lia. assert (1 <= Z.abs q) by lia. nia. }
  lia.
Qed.

Lemma size_bound_un c a : size_bound (Un c a) = size_bound a + (FMAX + 1).
Proof. unfold size_bound. cbn [lit_bits ops]. ring. Qed.

Lemma size_bound_bin c a b : size_bound (Bin c a b) = size_bound a + size_bound b + (FMAX + 1).
Proof. unfold size_bound. cbn [lit_bits ops]. ring. Qed.

Lemma size_linear e v :
  ev e v -> wfe e -> linear e = true -> 0 <= size_bound e /\ fits (size_bound e) v.
Proof.
  assert (HF : FMAX = 1024) by reflexivity.
  induction 1 as [z n| |c a x r Ha IHa Hs|c a b x y r Ha IHa Hb IHb Hs]; intros Hw Hl.
  - cbn [wfe] in Hw. unfold size_bound. cbn [lit_bits ops fits]. rewrite Z.mul_0_r, Z.add_0_r. tauto.
  - unfold size_bound. cbn. split; [lia|trivial].
  - cbn [wfe] in Hw. cbn [linear] in Hl. apply andb_true_iff in Hl as [Hc Hla].
    destruct (IHa Hw Hla) as [H0 Hx]. rewrite size_bound_un. set (B := size_bound a) in *.
    split; [lia|].
    inversion Hs; subst; cbn [fits]; trivial.
    + cbn [fits] in Hx. rewrite Z.abs_opp. pose proof (pow2_mono B (B + (FMAX + 1)) ltac:(lia)). lia.
    + apply (fits_mono B); [lia|exact Hx].
    + cbn [fits] in Hx. rewrite Z.abs_involutive. pose proof (pow2_mono B (B + (FMAX + 1)) ltac:(lia)). lia.
    + apply fits_small; [lia|apply b2z_small].
    + match goal with Hty : to_int x ?z |- _ => pose proof (to_int_fits B x z H0 Hx Hty) as Hz end. pose proof (pow2_mono (B + FMAX) (B + (FMAX + 1)) ltac:(lia)). lia.
  - cbn [wfe] in Hw. destruct Hw as [Hwa Hwb]. cbn [linear] in Hl. apply andb_true_iff in Hl as [Hl Hlb].
    apply andb_true_iff in Hl as [Hc Hla].
    destruct (IHa Hwa Hla) as [H0a Hx]. destruct (IHb Hwb Hlb) as [H0b Hy]. rewrite size_bound_bin.
    set (A := size_bound a) in *. set (B := size_bound b) in *.
    split; [lia|].
    assert (HAB : 2 ^ A * 2 ^ B = 2 ^ (A + B)) by (rewrite Z.pow_add_r by lia; reflexivity).
    pose proof (pow2_ge1 A H0a) as HA1. pose proof (pow2_ge1 B H0b) as HB1.
    pose proof (pow2_mono (A + B) (A + B + (FMAX + 1)) ltac:(lia)) as Hup.
    assert (Hup1 : 2 * 2 ^ (A + B) <= 2 ^ (A + B + (FMAX + 1))).
    { replace (2 * 2 ^ (A + B)) with (2 ^ (A + B + 1)) by (rewrite (Z.pow_add_r 2 (A + B) 1) by lia; change (2 ^ 1) with 2; ring).
      apply pow2_mono. lia. }
    inversion Hs; subst; cbn [fits]; trivial; cbn [fits] in Hx, Hy.
    + (* mul *) rewrite Z.abs_mul. assert (Z.abs a0 * Z.abs b0 < 2 ^ A * 2 ^ B) by nia. lia.
    + (* add *) assert (Z.abs (a0 + b0) <= Z.abs a0 + Z.abs b0) by lia.
      assert (2 ^ A <= 2 ^ (A + B)) by (apply pow2_mono; lia). assert (2 ^ B <= 2 ^ (A + B)) by (apply pow2_mono; lia). lia.
    + (* sub *) assert (Z.abs (a0 - b0) <= Z.abs a0 + Z.abs b0) by lia.
      assert (2 ^ A <= 2 ^ (A + B)) by (apply pow2_mono; lia). assert (2 ^ B <= 2 ^ (A + B)) by (apply pow2_mono; lia). lia.
    + (* mod *)
      match goal with Hty : to_int y ?b0 |- _ => pose proof (to_int_fits B y b0 H0b Hy Hty) as Hb0 end.
      assert (Z.abs (a0 mod b0) < Z.abs b0).
      { destruct (Z_lt_le_dec 0 b0) as [Hp|Hn].
        - pose proof (Z.mod_pos_bound a0 b0 Hp). lia.
        - pose proof (Z.mod_neg_bound a0 b0 ltac:(lia)). lia. }
      pose proof (pow2_mono (B + FMAX) (A + B + (FMAX + 1)) ltac:(lia)). lia.
    + (* round: from a float *) pose proof (pow2_mono FMAX (A + B + (FMAX + 1)) ltac:(lia)). lia.
    + (* round: an integer to a multiple of 10^k *)
      match goal with Hk : 0 <= ?k, Hdiv : (10 ^ ?k | ?r), Hd : 2 * Z.abs (?r - ?n) <= 10 ^ ?k |- _ =>
        pose proof (round_int_bound n r k Hk Hdiv Hd) as Hr end.
      assert (2 ^ A <= 2 ^ (A + B)) by (apply pow2_mono; lia). lia.
    + (* round: unchanged *) assert (2 ^ A <= 2 ^ (A + B)) by (apply pow2_mono; lia). lia.
    + (* comparisons, and, or *) apply fits_small; [lia|apply b2z_small].
    + (* exact power: not a reviewed class *) discriminate.
Qed.

Lemma size_bound_is_linear e : size_bound e = lit_bits e + 1025 * ops e.
Proof. reflexivity. Qed.

(* ------------------------------------------------------------------ the exact integer power breaks the bound *)

Lemma pow_chain_value k : ev (pow_chain k) (VI (9 ^ (64 ^ Z.of_nat k))).
Proof.
  induction k as [|k IH].
  - cbn [pow_chain]. change (9 ^ 64 ^ Z.of_nat 0) with 9. constructor.
  - cbn [pow_chain]. replace (9 ^ 64 ^ Z.of_nat (S k)) with ((9 ^ 64 ^ Z.of_nat k) ^ 64).
    + eapply E_bin; [exact IH|constructor|]. apply S_pow_exact. lia.
    + rewrite <- Z.pow_mul_r by (try apply Z.pow_nonneg; lia). f_equal.
      rewrite Nat2Z.inj_succ, Z.pow_succ_r by lia. ring.
Qed.

Lemma pow_chain_wfe k : wfe (pow_chain k).
Proof. induction k as [|k IH]; cbn [pow_chain wfe]; [split; [lia|reflexivity]|]. split; [exact IH|]. split; [lia|reflexivity]. Qed.

Lemma pow_chain_bound k : size_bound (pow_chain k) = 4 + 1032 * Z.of_nat k.
Proof.
  induction k as [|k IH]; [reflexivity|]. cbn [pow_chain]. rewrite size_bound_bin, IH. unfold size_bound. cbn [lit_bits ops].
  rewrite Nat2Z.inj_succ. unfold FMAX. lia.
Qed.

(* no closed astronomically large term may be handed to lia / cbn below: everything is stated with a variable k *)
Lemma pow2_le_pow9 m : 0 <= m -> 2 ^ (3 * m) <= 9 ^ m.
Proof. intros H. rewrite Z.pow_mul_r by lia. change (2 ^ 3) with 8. apply Z.pow_le_mono_l. lia. Qed.

Lemma chain_exp_bound (k : nat) : (2 <= k)%nat -> 4 + 1032 * Z.of_nat k <= 3 * 64 ^ Z.of_nat k.
Proof.
  induction k as [|k IH]; intros H; [lia|].
  destruct (Nat.eq_dec k 1) as [->|Hk]; [simpl; lia|].
  assert (H2 : (2 <= k)%nat) by lia. specialize (IH H2).
  rewrite Nat2Z.inj_succ, Z.pow_succ_r by lia. set (p := 64 ^ Z.of_nat k) in *. lia.
Qed.

(* 9^64^64 ... with k >= 2 links (the seed's demonstration has k = 5: 9^64^64^64^64^64): the value 9^(64^k) does not fit the
   linear bound of 4 + 1032 k bits - it has more than 3 * 64^k bits *)
Lemma pow_exact_refuted (k : nat) : (2 <= k)%nat ->
  ev (pow_chain k) (VI (9 ^ (64 ^ Z.of_nat k))) /\ wfe (pow_chain k) /\
  size_bound (pow_chain k) = 4 + 1032 * Z.of_nat k /\
  ~ fits (size_bound (pow_chain k)) (VI (9 ^ (64 ^ Z.of_nat k))) /\
  2 ^ (3 * 64 ^ Z.of_nat k) <= 9 ^ (64 ^ Z.of_nat k).
Proof.
  intros Hk. pose proof (chain_exp_bound k Hk) as Hb.
  assert (Hm : 0 <= 64 ^ Z.of_nat k) by (apply Z.pow_nonneg; lia).
  set (m := 64 ^ Z.of_nat k) in *.
  pose proof (pow2_le_pow9 m Hm) as Hbig.
  split; [exact (pow_chain_value k)|]. split; [apply pow_chain_wfe|]. split; [apply pow_chain_bound|].
  split; [|exact Hbig].
  rewrite pow_chain_bound. cbn [fits]. intros Hlt.
  assert (Hle : 2 ^ (4 + 1032 * Z.of_nat k) <= 2 ^ (3 * m)) by (apply Z.pow_le_mono_r; lia).
  assert (Hnn : 0 <= 9 ^ m) by (apply Z.pow_nonneg; lia).
  rewrite Z.abs_eq in Hlt by exact Hnn.
  set (P := 2 ^ (4 + 1032 * Z.of_nat k)) in *. set (Q := 2 ^ (3 * m)) in *. set (R := 9 ^ m) in *. lia.
Qed.

(* non-vacuity of size_linear: (2 * 3 + 4) mod 7 over integer literals evaluates to 3 and fits its bound *)
Definition ex_expr : expr := Bin CIntMod (Bin CAdd (Bin CMul (Lit 2 2) (Lit 3 2)) (Lit 4 3)) (Lit 7 3).
Lemma size_example : ev ex_expr (VI 3) /\ wfe ex_expr /\ linear ex_expr = true /\ size_bound ex_expr = 3085.
Proof.
  split.
  - unfold ex_expr. eapply E_bin; [eapply E_bin; [eapply E_bin; [constructor|constructor|apply S_mul_i]|constructor|apply S_add_i]|constructor|].
    change (VI 3) with (VI ((2 * 3 + 4) mod 7)). apply S_mod; [constructor|constructor|lia].
  - split; [cbn; repeat split; lia|]. split; reflexivity.
Qed.
