From Coq Require Import Extraction ExtrOcamlBasic.
From MW Require Import Common.Str C03.Model.
Extraction "../ocaml/c03/c03_model.ml" expand flatten switch_init parse_num maybe_numeric_compare strip decimal.
