(* C03 — lemmas about the generated dispatch table and the output-size models. *)
From Coq Require Import List NArith ZArith Bool Lia Arith.
From MW Require Import Common.Str C03.Magics C03.Gen_magics.
Import ListNotations.

(* ------------------------------------------------------------------ finite dispatch obligations *)

Lemma forallb_In {A} (f : A -> bool) (l : list A) :
  forallb f l = true -> forall x, In x l -> f x = true.
Proof. intros H x Hx. rewrite forallb_forall in H. apply H. exact Hx. Qed.

(* every entry of the generated table accepts method_to_invoke(args) *)
Lemma dispatch_total_b : forallb accepts_args_call all_magics = true.
Proof. vm_compute. reflexivity. Qed.

Lemma dispatch_total : forall m, In m all_magics -> accepts_args_call m = true.
Proof. exact (forallb_In _ _ dispatch_total_b). Qed.

Lemma names_distinct_NoDup (l : list str) : names_distinct l = true -> NoDup l.
Proof.
  induction l as [|x r IH]; cbn; intros H; [constructor|].
  apply andb_true_iff in H. destruct H as [Hx Hr].
  constructor; [|apply IH; exact Hr].
  intros Hin. apply negb_true_iff in Hx.
  assert (existsb (str_eqb x) r = true) as E.
  { apply existsb_exists. exists x. split; [exact Hin|apply str_eqb_refl]. }
  congruence.
Qed.

Lemma dispatch_names_unique : NoDup (map m_name all_magics).
Proof. apply names_distinct_NoDup. vm_compute. reflexivity. Qed.

Lemma registry_total_b : forallb reg_ok magic_registry = true.
Proof. vm_compute. reflexivity. Qed.

Lemma registry_total : forall r, In r magic_registry -> reg_ok r = true.
Proof. exact (forallb_In _ _ registry_total_b). Qed.

Lemma registry_names_unique : NoDup (map r_name magic_registry).
Proof. apply names_distinct_NoDup. vm_compute. reflexivity. Qed.

(* every dummy name is an entry of the table (so dispatch_total covers the dummies) *)
Lemma dummies_in_table_b :
  forallb (fun n => existsb (fun m => str_eqb n (m_name m)) all_magics) dummy_names = true.
Proof. vm_compute. reflexivity. Qed.

Lemma dummies_in_table : forall n, In n dummy_names -> exists m, In m all_magics /\ m_name m = n.
Proof.
  intros n Hn. pose proof (forallb_In _ _ dummies_in_table_b n Hn) as H.
  apply existsb_exists in H. destruct H as [m [Hm E]].
  exists m. split; [exact Hm|]. symmetry. apply str_eqb_spec. exact E.
Qed.

(* the cap the pad model uses is the cap written in the source (Gen_magics.v: whole PADLEFT/PADRIGHT bodies pinned by the
   translator, so min(int(args[1]), cap) is the only path from the written width to the fill count) *)
Lemma pad_cap_generated : gen_pad_cap_left = pad_cap /\ gen_pad_cap_right = pad_cap.
Proof. split; vm_compute; reflexivity. Qed.

(* no broad exception handler around the dispatch or around an argument fetch of a magic (generated count) *)
Lemma discipline_generated : gen_discipline_violations = 0.
Proof. vm_compute. reflexivity. Qed.

(* pp.py: the four preprocessor regexes are the reviewed ones, none has an unbounded repetition nested in an unbounded
   repetition over overlapping character classes (generated counts, vt/gen/c03_static.py) *)
Lemma pp_regex_generated : gen_pp_regex_violations = 0 /\ Nat.leb 4 gen_pp_patterns = true.
Proof. split; vm_compute; reflexivity. Qed.

(* the other regular expressions of the expansion path (#iferror detector, #time splitter, #expr tokenizer, scanner, parser name
   matchers): all seven are the reviewed ones, none nests overlapping unbounded repetitions (generated counts) *)
Lemma regexes_generated : gen_regex_violations = 0 /\ Nat.leb 7 gen_regex_patterns = true.
Proof. split; vm_compute; reflexivity. Qed.

(* no magic reads a lazily expanded positional argument more than once on one control path beyond the allow-list *)
Lemma arg_reads_generated : gen_arg_reread_violations = 0.
Proof. vm_compute. reflexivity. Qed.

(* Cost of k self-nested calls {{f:a|{{f:a|...}}}} when every level reads (= re-expands, ArgumentList.get caches nothing) the
   argument holding the next level r times: expansions(r, k). *)
Fixpoint nest_cost (r k : nat) : nat :=
  match k with
  | O => 1
  | S k' => 1 + r * nest_cost r k'
  end.

Lemma nest_cost_once k : nest_cost 1 k = k + 1.
Proof. induction k as [|k IH]; cbn [nest_cost]; [reflexivity|]. rewrite IH. lia. Qed.

Lemma nest_cost_twice k : nest_cost 2 k + 1 = 2 ^ (k + 1).
Proof.
  induction k as [|k IH]; cbn [nest_cost]; [reflexivity|].
  replace (S k + 1) with (S (k + 1)) by lia. rewrite Nat.pow_succ_r'. lia.
Qed.

Lemma nest_cost_mono r r' k : r <= r' -> nest_cost r k <= nest_cost r' k.
Proof.
  intros H. induction k as [|k IH]; cbn [nest_cost]; [lia|].
  apply le_n_S. apply Nat.mul_le_mono; assumption.
Qed.

Lemma nest_cost_exponential r k : 2 <= r -> 2 ^ (k + 1) <= nest_cost r k + 1.
Proof. intros H. rewrite <- nest_cost_twice. pose proof (nest_cost_mono 2 r k H). lia. Qed.

(* every #expr operator is implemented by the pinned callable (generated count; `^` is math.pow, never an exact integer power) *)
Lemma expr_impl_generated : gen_expr_impl_violations = 0 /\ gen_expr_operators = 34.
Proof. split; vm_compute; reflexivity. Qed.

(* every registered #expr callable belongs to a size class for which ExprSizeProofs.size_linear holds (none is the exact power) *)
Lemma expr_classes_generated :
  length gen_expr_classes = gen_expr_operators /\
  forallb (fun p : str * ExprSizeModel.ecls => ExprSizeModel.linear_cls (snd p)) gen_expr_classes = true.
Proof. split; vm_compute; reflexivity. Qed.

(* the generic binding rule is what one expects (non-vacuity of `accepts`) *)
Lemma accepts_examples :
  (* a plain def f(self, args) called bound with one argument *)
  accepts [] (mkSig 2 2 false) 2 = true /\
  (* a def f(self) without @no_arg called bound with one argument: TypeError (the defect fixed by a8599e6) *)
  accepts [] (mkSig 1 1 false) 2 = false /\
  (* the same def under @no_arg *)
  accepts [mkDeco (mkSig 1 1 true) (Fixed 1)] (mkSig 1 1 false) 2 = true /\
  (* def resolve() installed on the class and called bound with one argument: TypeError *)
  accepts [] (mkSig 0 0 false) 2 = false /\
  (* def resolve( *args ) *)
  accepts [] (mkSig 0 0 true) 2 = true.
Proof. vm_compute. repeat split. Qed.

(* ------------------------------------------------------------------ pad* bounds *)

Lemma cycle_fill_length fill k : length (cycle_fill fill k) = k.
Proof. unfold cycle_fill. rewrite map_length, seq_length. reflexivity. Qed.

Lemma pad_count_bound w len : pad_count w len + len <= Nat.max len 500.
Proof. unfold pad_count, pad_cap. lia. Qed.

Lemma padleft_length_max s w fill : length (padleft s w fill) <= Nat.max (length s) 500.
Proof.
  destruct w as [w|]; cbn [padleft]; [|lia].
  rewrite app_length, cycle_fill_length. apply pad_count_bound.
Qed.

Lemma padright_length_max s w fill : length (padright s w fill) <= Nat.max (length s) 500.
Proof.
  destruct w as [w|]; cbn [padright]; [|lia].
  rewrite app_length, cycle_fill_length. pose proof (pad_count_bound w (length s)). lia.
Qed.

Lemma padleft_bounded s w fill : length (padleft s w fill) <= 500 + length s.
Proof. pose proof (padleft_length_max s w fill). lia. Qed.

Lemma padright_bounded s w fill : length (padright s w fill) <= 500 + length s.
Proof. pose proof (padright_length_max s w fill). lia. Qed.

(* exact length when a width is given: max(len(s), min(w, 500)) *)
Lemma padleft_length_exact s w fill :
  Z.of_nat (length (padleft s (Some w) fill)) = Z.max (Z.of_nat (length s)) (Z.min w 500).
Proof. cbn [padleft]. rewrite app_length, cycle_fill_length. unfold pad_count, pad_cap. lia. Qed.

(* the original string is kept: padleft ends with s, padright starts with s *)
Lemma padleft_keeps s w fill : exists p, padleft s w fill = p ++ s.
Proof. destruct w; cbn [padleft]; [eexists; reflexivity|exists []; reflexivity]. Qed.

(* ------------------------------------------------------------------ #titleparts bound *)

Lemma join_cons_length c x l : length (join c l) <= length (join c (x :: l)).
Proof.
  destruct l as [|y l]; [cbn; lia|].
  change (join c (x :: y :: l)) with (x ++ c :: join c (y :: l)).
  rewrite app_length. cbn [length]. lia.
Qed.

Lemma join_skipn_length c k l : length (join c (skipn k l)) <= length (join c l).
Proof.
  revert l. induction k as [|k IH]; intros l; [cbn; lia|].
  destruct l as [|x l]; [cbn; lia|].
  cbn [skipn]. etransitivity; [apply IH|apply join_cons_length].
Qed.

Lemma join_firstn_length c k l : length (join c (firstn k l)) <= length (join c l).
Proof.
  revert l. induction k as [|k IH]; intros l; [cbn; lia|].
  destruct l as [|x l]; [cbn; lia|].
  cbn [firstn]. specialize (IH l).
  destruct l as [|y l].
  - rewrite firstn_nil. cbn. lia.
  - destruct k as [|k].
    + cbn [firstn]. change (join c (x :: y :: l)) with (x ++ c :: join c (y :: l)).
      cbn [join]. rewrite app_length. lia.
    + cbn [firstn] in *.
      change (join c (x :: y :: firstn k l)) with (x ++ c :: join c (y :: firstn k l)).
      change (join c (x :: y :: l)) with (x ++ c :: join c (y :: l)).
      rewrite !app_length. cbn [length]. lia.
Qed.

Lemma py_from_join_length c a l : length (join c (py_from a l)) <= length (join c l).
Proof. unfold py_from. destruct (0 <=? a)%Z; apply join_skipn_length. Qed.

Lemma py_upto_join_length c b l : length (join c (py_upto b l)) <= length (join c l).
Proof. unfold py_upto. destruct (0 <=? b)%Z; apply join_firstn_length. Qed.

Lemma titleparts_bounded title numseg start :
  length (titleparts title numseg start) <= length title.
Proof.
  unfold titleparts.
  assert (length (join slash (split_on slash title)) = length title) as E
    by (rewrite join_split_on; reflexivity).
  rewrite <- E. clear E.
  set (st := if (0 <? start)%Z then (start - 1)%Z else start).
  destruct (numseg =? 0)%Z.
  - apply py_from_join_length.
  - etransitivity; [apply py_upto_join_length|apply py_from_join_length].
Qed.

(* non-vacuity: concrete runs of the models *)
Lemma size_examples :
  (* {{padleft:x|5|ab}} = "ababx" ; {{padright:x|3000000}} has length 500 ; {{padleft:xyz|-3}} = "xyz" *)
  padleft [120]%N (Some 5%Z) [97; 98]%N = [97; 98; 97; 98; 120]%N /\
  length (padright [120]%N (Some 3000000%Z) []) = 500 /\
  padleft [120; 121; 122]%N (Some (-3)%Z) [] = [120; 121; 122]%N /\
  (* {{#titleparts:a/b/c|1|2}} = "b" ; {{#titleparts:a/b/c|-1|0}} = "a/b" ; {{#titleparts:a/b/c|0|-1}} = "c" *)
  titleparts [97; 47; 98; 47; 99]%N 1 2 = [98]%N /\
  titleparts [97; 47; 98; 47; 99]%N (-1) 0 = [97; 47; 98]%N /\
  titleparts [97; 47; 98; 47; 99]%N 0 (-1) = [99]%N.
Proof. vm_compute. repeat split. Qed.
