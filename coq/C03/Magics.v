(* C03 — magic-word dispatch: executable model only (no proofs here).

   Python call semantics needed by MagicResolver.__call__ (magics.py:572-596):
       method_to_invoke = getattr(self, upper, None)       -- a BOUND method of the resolver instance
       res = method_to_invoke(args)                         -- exactly one explicit positional argument
   A call binds without TypeError iff the number of positional arguments received by the function
   object (self included for bound methods) fits its signature.  Decorated magics are chains of
   wrappers (functools.wraps keeps the chain visible as __wrapped__, which the search cross-checks):
       no_arg          wrap(self, *args)       -> fun(self)
       single_arg      wrap(self, args)        -> fun(self, arg)
       _wrap_pagename  wrapper(self, args)     -> foo(self, pagename)
       _quoted         wrapper( *args, **kw )  -> foo( *args, **kw )
   The concrete signatures and chains are GENERATED from the source into Gen_magics.v. *)
From Coq Require Import List NArith ZArith Bool.
From MW Require Import Common.Str.
Import ListNotations.

(* positional signature of a Python function object: parameters without default, all positional
   parameters, has *args.  (keyword-only parameters without default are rejected by the translator) *)
Record sig := mkSig { s_min : nat; s_max : nat; s_var : bool }.

(* does a call with n positional arguments bind? *)
Definition binds (s : sig) (n : nat) : bool :=
  (s_min s <=? n) && ((n <=? s_max s) || s_var s).

(* how a wrapper calls the function it wraps: with a fixed number of positionals, or forwarding *args *)
Inductive inner_call := Fixed (k : nat) | Forward.
Record deco := mkDeco { d_sig : sig; d_inner : inner_call }.

(* wrappers outermost first, then the undecorated def *)
Fixpoint accepts (ws : list deco) (s : sig) (n : nat) : bool :=
  match ws with
  | [] => binds s n
  | w :: r => binds (d_sig w) n &&
              accepts r s (match d_inner w with Fixed k => k | Forward => n end)
  end.

Record magic := mkMagic {
  m_name : str;              (* attribute name looked up by __call__ (upper case, '#' prefix for parser functions) *)
  m_layers : list deco;
  m_sig : sig;               (* signature of the undecorated def *)
  m_bound : bool;            (* found on the class => bound method => self is passed *)
  m_strconst : bool          (* a str attribute is returned as is (magics.py:590) *)
}.

(* method_to_invoke(<nargs explicit positionals>) *)
Definition accepts_call (nargs : nat) (m : magic) : bool :=
  m_strconst m || accepts (m_layers m) (m_sig m) ((if m_bound m then 1 else 0) + nargs).

(* magic_nodes.registry: klass(children).flatten(expander, variables, res)  (nodes.pyx:221-226) *)
Record regentry := mkReg { r_name : str; r_ctor : sig; r_flatten : sig }.
Definition reg_ok (r : regentry) : bool := binds (r_ctor r) 1 && binds (r_flatten r) 4.

Fixpoint names_distinct (l : list str) : bool :=
  match l with
  | [] => true
  | x :: r => negb (existsb (str_eqb x) r) && names_distinct r
  end.

(* ------------------------------------------------------------------ output-size models *)

(* [fill[i % len(fill)] for i in range(k)]   (magics.py:426-431, 443-445) *)
Definition cycle_fill (fill : str) (k : nat) : str :=
  map (fun i => nth (i mod length fill) fill 48%N) (seq 0 k).

(* args[2] or "0" *)
Definition fill_or_zero (fill : str) : str := match fill with [] => [48%N] | _ => fill end.

(* range(min(int(args[1]), 500) - len(original_string)) : empty when negative *)
Definition pad_cap : Z := 500.
Definition pad_count (w : Z) (len : nat) : nat := Z.to_nat (Z.min w pad_cap - Z.of_nat len).

(* PADLEFT / PADRIGHT (magics.py:417-445); w = None models the ValueError branch of int(args[1]) *)
Definition padleft (s : str) (w : option Z) (fill : str) : str :=
  match w with
  | None => s
  | Some w => cycle_fill (fill_or_zero fill) (pad_count w (length s)) ++ s
  end.

Definition padright (s : str) (w : option Z) (fill : str) : str :=
  match w with
  | None => s
  | Some w => s ++ cycle_fill (fill_or_zero fill) (pad_count w (length s))
  end.

(* Python list slicing l[a:] and l[:b] for arbitrary integers *)
Definition py_from {A} (a : Z) (l : list A) : list A :=
  if (0 <=? a)%Z then skipn (Z.to_nat a) l else skipn (length l - Z.to_nat (- a)) l.
Definition py_upto {A} (b : Z) (l : list A) : list A :=
  if (0 <=? b)%Z then firstn (Z.to_nat b) l else firstn (length l - Z.to_nat (- b)) l.

(* #titleparts (magics.py:516-534); numseg/start already parsed (ValueError -> 0 / 1) *)
Definition slash : N := 47%N.
Definition titleparts (title : str) (numseg start : Z) : str :=
  let start' := if (0 <? start)%Z then (start - 1)%Z else start in
  let parts := py_from start' (split_on slash title) in
  let parts := if (numseg =? 0)%Z then parts else py_upto numseg parts in
  join slash parts.
