(* C03 — the exception-propagation discipline of the evaluator: TemplateRecursion (and MemoryLimitError) raised while a
   lazily expanded argument of a magic word / parser function is flattened passes through the magic call unchanged, and
   through every enclosing flatten call with recursion_count > 2.  That is what makes one "dive" to the recursion limit
   the LAST thing a top-level element does: nothing to the right of the failing call is evaluated any more, at any level.
   (With a handler that swallows the exception at the magic call, every level would go on with its next sibling and dive
   again: work 2^(limit/3) for  A = {{#ifexpr: 1 | x{{A}}{{A}} }}.) *)
From Coq Require Import List NArith ZArith Bool Lia.
From MW Require Import Common.Str C03.Model C03.Proofs.
Import ListNotations.

Section Lazy.
  Variable tpl : str -> option node.
  Variable is_magic : str -> bool.
  Variable magic_prog : str -> nat -> mreq.
  Variable default_names : list str.

  Notation flatten := (flatten tpl is_magic magic_prog default_names).
  Notation node_body := (node_body tpl is_magic magic_prog default_names).

  (* ---- the magic's run *)

  (* an argument fetch that raises makes the run raise the same exception: the continuation is never consulted *)
  Lemma run_magic_fetch_raises (fl : flat) e args i k a x :
    nth_error args i = Some a -> arg_int fl e a = Err x -> run_magic fl e args (MAsk i k) = Err x.
  Proof. intros Ha Hx. cbn [run_magic]. rewrite Ha, Hx. reflexivity. Qed.

  Lemma run_magic_fetch_ok (fl : flat) e args i k a s :
    nth_error args i = Some a -> arg_int fl e a = Ok s -> run_magic fl e args (MAsk i k) = run_magic fl e args (k s).
  Proof. intros Ha Hs. cbn [run_magic]. rewrite Ha, Hs. reflexivity. Qed.

  Lemma run_magic_fetch_missing (fl : flat) e args i k :
    nth_error args i = None -> run_magic fl e args (MAsk i k) = run_magic fl e args (k []).
  Proof. intros Ha. cbn [run_magic]. rewrite Ha. reflexivity. Qed.

  (* a run either ends with the output of the strategy, or with the exception of one of ITS OWN argument fetches: a
     magic never invents an exception and never turns one into output *)
  Lemma run_magic_err_from_fetch (fl : flat) e args m x :
    run_magic fl e args m = Err x -> exists a, In a args /\ arg_int fl e a = Err x.
  Proof.
    induction m as [out|i k IH]; cbn [run_magic]; intros H; [discriminate|].
    destruct (nth_error args i) as [a|] eqn:Ha.
    - destruct (arg_int fl e a) as [s|y] eqn:Hs.
      + apply (IH s). exact H.
      + inversion H; subst. exists a. split; [eapply nth_error_In; exact Ha|exact Hs].
    - apply (IH []). exact H.
  Qed.

  (* an argument that is fetched by flattening raises exactly what its flatten raises *)
  Lemma arg_int_raises (fl : flat) e a x :
    node_as_str a = None -> fl a e = Err x -> arg_int fl e a = Err x.
  Proof. intros Ha Hx. unfold arg_int. rewrite Ha, Hx. reflexivity. Qed.

  (* 256 KiB cap on a parameter value fetched by name / position (ArgumentList.get, evaluate.pyx:139-154): a value that
     had to be flattened is never longer than the cap; beyond it MemoryLimitError voids the {{{parameter}}} node *)
  Lemma value_of_cap (fl : flat) (ds : bool) val parent s :
    node_as_str val = None -> value_of fl ds val parent = Ok s -> too_long s = false.
  Proof.
    unfold value_of. intros Hv. rewrite Hv.
    destruct (fl val parent) as [ps|x]; [|discriminate].
    destruct (too_long (if ds then strip (join_nl ps) else join_nl ps)) eqn:Ht; [discriminate|].
    intros H. inversion H; subst. exact Ht.
  Qed.

  Lemma value_of_too_long (fl : flat) (ds : bool) val parent ps :
    node_as_str val = None -> fl val parent = Ok ps ->
    too_long (if ds then strip (join_nl ps) else join_nl ps) = true ->
    value_of fl ds val parent = Err XMem.
  Proof. unfold value_of. intros Hv Hf Ht. rewrite Hv, Hf, Ht. reflexivity. Qed.

  (* ---- through flatten *)

  (* evaluate.flatten re-raises TemplateRecursion whenever recursion_count > 2 after the increment (evaluate.pyx:34-36) *)
  Lemma flatten_reraises b c n e :
    (2 <= c)%nat -> node_as_str n = None ->
    node_body (flatten b (S c)) (flatten b (S c)) n e = Err XRec ->
    flatten (S b) c n e = Err XRec.
  Proof.
    intros Hc Hn H. rewrite flatten_step by exact Hn. rewrite H.
    destruct (Nat.ltb_spec 2 (S c)) as [_|Hlt]; [reflexivity|lia].
  Qed.

  (* a magic call whose run raises TemplateRecursion raises it (Template._flatten -> expander.resolver(name, var),
     nodes.pyx:262, magics.py:593: no handler on the way) *)
  Lemma magic_call_body_propagates (fl flb : flat) nm args e ps x :
    fl nm e = Ok ps ->
    too_long (strip (pjoin ps)) = false -> is_magic (strip (pjoin ps)) = true ->
    run_magic fl e args (magic_prog (strip (pjoin ps)) (length args)) = Err x ->
    node_body fl flb (NTpl nm args) e = Err x.
  Proof.
    intros H1 H2 H3 H4. cbn [Model.node_body]. rewrite H1, H2, H3, H4. reflexivity.
  Qed.

  Lemma magic_call_propagates b c nm args e ps :
    (2 <= c)%nat ->
    flatten b (S c) nm e = Ok ps ->
    too_long (strip (pjoin ps)) = false -> is_magic (strip (pjoin ps)) = true ->
    run_magic (flatten b (S c)) e args (magic_prog (strip (pjoin ps)) (length args)) = Err XRec ->
    flatten (S b) c (NTpl nm args) e = Err XRec.
  Proof.
    intros Hc H1 H2 H3 H4. apply flatten_reraises; [exact Hc|reflexivity|].
    eapply magic_call_body_propagates; eassumption.
  Qed.

  (* ---- nothing to the right of the failing element is evaluated: `for x in node: flatten(x, ...)` *)

  Lemma flat_list_stops (fl : flat) e l1 x l2 l2' er :
    fl x e = Err er -> flat_list fl e (l1 ++ x :: l2) = flat_list fl e (l1 ++ x :: l2').
  Proof.
    intros Hx. induction l1 as [|y l1 IH]; cbn [app flat_list].
    - rewrite Hx. reflexivity.
    - destruct (fl y e) as [ps|er']; [rewrite IH; reflexivity|reflexivity].
  Qed.

  Lemma flat_list_first_error (fl : flat) e l1 x l2 er :
    (forall y, In y l1 -> exists ps, fl y e = Ok ps) -> fl x e = Err er ->
    flat_list fl e (l1 ++ x :: l2) = Err er.
  Proof.
    intros Hok Hx. induction l1 as [|y l1 IH]; cbn [app flat_list].
    - rewrite Hx. reflexivity.
    - destruct (Hok y (or_introl eq_refl)) as [ps Hy]. rewrite Hy.
      rewrite IH; [reflexivity|]. intros z Hz. apply Hok. right. exact Hz.
  Qed.

  (* a sequence at recursion_count >= 2 whose element x raises TemplateRecursion raises it, whatever follows x *)
  Lemma seq_propagates b c l1 x l2 e :
    (2 <= c)%nat ->
    (forall y, In y l1 -> exists ps, flatten b (S c) y e = Ok ps) ->
    flatten b (S c) x e = Err XRec ->
    flatten (S b) c (NSeq (l1 ++ x :: l2)) e = Err XRec.
  Proof.
    intros Hc Hok Hx. apply flatten_reraises; [exact Hc|reflexivity|].
    cbn [Model.node_body]. apply flat_list_first_error; assumption.
  Qed.
End Lazy.

(* ------------------------------------------------------------------ examples (vm_compute) *)

(* #ifexpr-like strategy: fetch argument 0; if it is "1" fetch and return argument 1 else argument 2 *)
Definition ex_ifexpr : mreq :=
  MAsk 0 (fun c => if str_eqb c [49%N] then MAsk 1 (fun s => MDone s) else MAsk 2 (fun s => MDone s)).
Definition ex_lazy_is_magic (name : str) : bool := str_eqb name [35; 105; 102; 101; 120; 112; 114]%N.     (* "#ifexpr" *)
Definition ex_lazy_prog (_ : str) (_ : nat) : mreq := ex_ifexpr.
(* Template:A = {{#ifexpr|1|x{{A}}{{A}}}} (as parsed: name "#ifexpr", arguments "1" and the sequence x {{A}} {{A}}) *)
Definition ex_A : node :=
  NTpl (NStr [35; 105; 102; 101; 120; 112; 114]%N)
       [NStr [49%N]; NSeq [NStr [120%N]; NTpl (NStr [97%N]) []; NTpl (NStr [97%N]) []]].
Definition ex_lazy_tpl (name : str) : option node := if str_eqb name [97%N] then Some ex_A else None.
(* page "s {{A}} e" *)
Definition ex_lazy_page : node := NSeq [NStr [115; 32]%N; NTpl (NStr [97%N]) []; NStr [32; 101]%N].

(* the whole call yields nothing ("s  e"), for the default limit and for small ones *)
Lemma example_lazy_recursion :
  expand ex_lazy_tpl ex_lazy_is_magic ex_lazy_prog [default_key] 100 ex_lazy_page = Ok [115; 32; 32; 101]%N /\
  expand ex_lazy_tpl ex_lazy_is_magic ex_lazy_prog [default_key] 7 ex_lazy_page = Ok [115; 32; 32; 101]%N.
Proof. vm_compute. split; reflexivity. Qed.

(* the untaken branch is never flattened: {{#ifexpr|0|x{{A}}{{A}}|n}} inside A terminates with output *)
Definition ex_A0 : node :=
  NTpl (NStr [35; 105; 102; 101; 120; 112; 114]%N)
       [NStr [48%N]; NSeq [NStr [120%N]; NTpl (NStr [97%N]) []; NTpl (NStr [97%N]) []]; NStr [110%N]].
Lemma example_lazy_untaken :
  expand (fun name => if str_eqb name [97%N] then Some ex_A0 else None) ex_lazy_is_magic ex_lazy_prog [default_key] 100 ex_lazy_page
  = Ok [115; 32; 110; 32; 101]%N.
Proof. vm_compute. reflexivity. Qed.

(* ------------------------------------------------------------------ total work is NOT polynomial in the limit *)

(* An ACYCLIC chain T_i = {{T_(i+1)}}{{T_(i+1)}} (i < k), T_k = "x": k+1 templates of two calls each never reach the
   recursion limit (3k+2 nested flatten calls) and produce 2^k characters.  So no bound on the number of node visits that is
   polynomial in (page size, universe size, limit) holds for the model - nor for the code: the bounded quantity is the
   NESTING (C03_nesting_bounded), and the number of limit hits per top-level element (one: the theorems above). *)
Definition chain_tpl (k : N) (name : str) : option node :=
  match name with
  | [c] => if (c <? 65 + k)%N && (65 <=? c)%N
           then Some (NSeq [NTpl (NStr [(c + 1)%N]) []; NTpl (NStr [(c + 1)%N]) []])
           else if (c =? 65 + k)%N then Some (NStr [120%N]) else None
  | _ => None
  end.

Lemma example_doubling_chain :
  match expand (chain_tpl 12) (fun _ => false) (fun _ _ => MDone []) [default_key] 100 (NTpl (NStr [65%N]) []) with
  | Ok s => length s = 4096
  | Err _ => False
  end.
Proof. vm_compute. reflexivity. Qed.
