(* C03 — what the exception-propagation discipline buys in WORK: an abstract cost argument.

   Abstraction of evaluate.flatten (evaluate.pyx:15-47) + `for x in node: flatten(x, ..)`: an evaluation is a tree walk
   in which an item is a leaf (text) or a call whose body is looked up in the universe (`body`, any function: cycles
   allowed); a call costs one unit of the nesting budget `b` (the recursion limit); at budget 0 a call raises
   TemplateRecursion.  `run` is the discipline proved of the model in ProofsLazy.v (C03_sequence_stops_at_first_error,
   C03_magic_call_propagates): the first failing child ends its parent.  `run_sw` is the evaluator with a handler
   around each child (what `try: method_to_invoke(args) except Exception` in MagicResolver.__call__ amounts to, or an
   argument fetch inside `try .. except Exception` in a magic): a failing child yields nothing and the next sibling is
   evaluated.  Cost = number of items visited.

   THEOREMS.  (1) `fail_linear`: with the discipline, a run that hits the limit visits at most
   (b + 1) * (w * K + 1) items, where w bounds the length of a body and K the cost of the SUCCESSFUL sub-runs (those
   that never reach the limit): linear in the recursion limit.  (2) On the universe A = x{{A}}{{A}} the disciplined run
   visits exactly 2b + 1 items, the swallowing one 3 * 2^b - 2: exponential in the limit.
   No bound polynomial in the limit holds for the successful runs themselves (Properties.v
   C03_cost_polynomial_refuted: an acyclic doubling chain), which is why K appears in (1). *)
From Coq Require Import List Arith Lia Bool.
Import ListNotations.

Inductive item := Leaf | Call (f : nat).

Section Abstract.
  Variable body : nat -> list item.

  (* children in order; the first failure ends the loop (first component: did every child succeed?) *)
  Fixpoint run_list (ev : item -> bool * nat) (l : list item) : bool * nat :=
    match l with
    | [] => (true, 0)
    | x :: r => let '(ok, n) := ev x in
                if ok then let '(ok', m) := run_list ev r in (ok', n + m) else (false, n)
    end.

  Fixpoint run (b : nat) (it : item) : bool * nat :=
    match it with
    | Leaf => (true, 1)
    | Call f => match b with
                | O => (false, 1)
                | S b' => let '(ok, n) := run_list (run b') (body f) in (ok, S n)
                end
    end.

  (* the same with a handler around every child: failures are swallowed, all siblings are evaluated *)
  Fixpoint sum_list (ev : item -> nat) (l : list item) : nat :=
    match l with [] => 0 | x :: r => ev x + sum_list ev r end.

  Fixpoint run_sw (b : nat) (it : item) : nat :=
    match it with
    | Leaf => 1
    | Call f => match b with
                | O => 1
                | S b' => S (sum_list (run_sw b') (body f))
                end
    end.

  Section Bound.
    Variables w K : nat.
    Hypothesis Hw : forall f, length (body f) <= w.
    (* every run that does not reach the limit costs at most K *)
    Hypothesis HK : forall b it n, run b it = (true, n) -> n <= K.

    Lemma run_list_fail_bound (ev : item -> bool * nat) (F : nat) (l : list item) (m : nat) :
      (forall x n, ev x = (true, n) -> n <= K) ->
      (forall x n, ev x = (false, n) -> n <= F) ->
      run_list ev l = (false, m) -> m <= length l * K + F.
    Proof.
      intros Hok Hfail. revert m. induction l as [|x r IH]; intros m H; cbn [run_list] in H; [discriminate|].
      destruct (ev x) as [ok n] eqn:Ex. destruct ok.
      - destruct (run_list ev r) as [ok' m'] eqn:Er. inversion H; subst.
        specialize (IH m' eq_refl). pose proof (Hok x n Ex). cbn [length]. lia.
      - inversion H; subst. pose proof (Hfail x m Ex). cbn [length]. lia.
    Qed.

    Lemma fail_linear b : forall it n, run b it = (false, n) -> n <= (b + 1) * (w * K + 1).
    Proof.
      induction b as [|b IH]; intros it n H.
      - destruct it as [|f]; cbn [run] in H; [discriminate|]. inversion H; subst. lia.
      - destruct it as [|f]; cbn [run] in H; [discriminate|].
        destruct (run_list (run b) (body f)) as [ok m] eqn:El. inversion H; subst.
        pose proof (run_list_fail_bound (run b) ((b + 1) * (w * K + 1)) (body f) m (HK b) IH El) as Hm.
        pose proof (Hw f) as Hlen.
        assert (length (body f) * K <= w * K) by (apply Nat.mul_le_mono_r; exact Hlen).
        replace ((S b + 1) * (w * K + 1)) with ((b + 1) * (w * K + 1) + (w * K + 1)) by lia.
        lia.
    Qed.
  End Bound.
End Abstract.

(* ------------------------------------------------------------------ the universe A = x{{A}}{{A}} *)

Definition body_xAA (_ : nat) : list item := [Leaf; Call 0; Call 0].

Lemma run_leaf body b : run body b Leaf = (true, 1).
Proof. destruct b; reflexivity. Qed.

Lemma run_call_S body b f :
  run body (S b) (Call f) = let '(ok, n) := run_list (run body b) (body f) in (ok, S n).
Proof. reflexivity. Qed.

Lemma run_sw_leaf body b : run_sw body b Leaf = 1.
Proof. destruct b; reflexivity. Qed.

Lemma run_sw_call_S body b f : run_sw body (S b) (Call f) = S (sum_list (run_sw body b) (body f)).
Proof. reflexivity. Qed.

(* with the discipline: one dive, 2b + 1 visits, and the run fails (the top level then yields nothing) *)
Lemma xAA_disciplined b : run body_xAA b (Call 0) = (false, 2 * b + 1).
Proof.
  induction b as [|b IH]; [reflexivity|].
  rewrite run_call_S. unfold body_xAA at 2. cbn [run_list]. rewrite run_leaf, IH. f_equal. lia.
Qed.

(* with a handler around each child: 3 * 2^b - 2 visits *)
Lemma xAA_swallowing b : run_sw body_xAA b (Call 0) + 2 = 3 * 2 ^ b.
Proof.
  induction b as [|b IH]; [reflexivity|].
  rewrite run_sw_call_S. unfold body_xAA at 2. cbn [sum_list]. rewrite run_sw_leaf, Nat.pow_succ_r'. lia.
Qed.

(* the general bound is not vacuous: on this universe w = 3 and K = 1 (only leaves succeed) *)
Lemma xAA_success_is_leaf b : forall it n, run body_xAA b it = (true, n) -> n <= 1.
Proof.
  intros it n H. destruct it as [|f]; [rewrite run_leaf in H; inversion H; lia|].
  destruct b as [|b]; [discriminate|].
  rewrite run_call_S in H. unfold body_xAA at 2 in H. cbn [run_list] in H.
  rewrite run_leaf, xAA_disciplined in H. discriminate.
Qed.

Lemma xAA_bound_instance b n : run body_xAA b (Call 0) = (false, n) -> n <= (b + 1) * (3 * 1 + 1).
Proof.
  apply (fail_linear body_xAA 3 1).
  - intros f. cbn. lia.
  - exact xAA_success_is_leaf.
Qed.
