(* C04 / M2 (#expr) — the property theorems that depend on the operator table GENERATED from
   /repo/src/mwlib/parser/expr.py (Gen_ops.v, rewritten by vt/gen/c04_ops.py on every run).  Closed by
   conversion (`exact eq_refl`-style terms): this file stops compiling as soon as expr.py registers a
   precedence, arity, constant or function other than the documented one. *)
From Coq Require Import List ZArith Bool.
From MW Require Import Common.Str C04.ExprModel C04.ExprProofs C04.Gen_ops.
Import ListNotations.

(* The table registered by expr.py (generated on every run) IS the documented one: precedences, numargs,
   parenthesis precedence, the constants, and the function registered for each operator.  Closed by
   conversion; fails whenever expr.py registers anything else. *)
Theorem C04_gen_table_documented :
  gen_table = documented_table /\ gen_constants = documented_constants /\ gen_sem = documented_sem.
Proof. exact (conj (eq_refl documented_table) (conj (eq_refl documented_constants) (eq_refl documented_sem))). Qed.
Print Assumptions C04_gen_table_documented.

(* hence the parser of expr.py with ITS table is correct for every tree *)
Theorem C04_shunting_yard_correct_gen :
  forall (V : Type) (num : lit -> V) (cst : const -> V) (fun1 : opname -> V -> V) (fun2 : opname -> V -> V -> V)
         (t : expr),
    parse_expr V num cst fun1 fun2 gen_table (ser_min documented_table t) = PVal (eval V num cst fun1 fun2 t) /\
    parse_expr V num cst fun1 fun2 gen_table (ser_full t) = PVal (eval V num cst fun1 fun2 t) /\
    parse_expr V num cst fun1 fun2 gen_table (ser_double documented_table t) = PVal (eval V num cst fun1 fun2 t).
Proof. exact (fun V num cst fun1 fun2 => shunting_yard_correct V num cst fun1 fun2 documented_table (eq_refl true)). Qed.
Print Assumptions C04_shunting_yard_correct_gen.
