(* C04 — equals signs inside TEXT.  `compile_r` (Model.v) is the parse templ.parser really produces when a text leaf
   contains '=': Parser._parse_args turns every top-level '=' of an argument of a template call / #if / #ifeq / #switch into
   marks.eqmark, i.e. the text "a = b" of a branch arrives as the three children "a ", eqmark, " b".
   This file proves
     (1) compile_r_noeq : on programs whose text leaves contain no '=' compile_r is compile, so C04_eval_correct speaks about
         the real parse of the whole old grammar;
     (2) main_r / eval_correct_r : the flatten model on compile_r computes the reference semantics for the grammar
           Text (any '=')  |  Param with default (texts with '=')  |  #if  |  #ifeq  (conditions, operands, branches with '=')
           |  Call with positional arguments (no top-level '=': that would be a named one) and named arguments `` k = v ``
              (blanks around the name, further '=' in the value are text), the argument bodies again of this grammar
           |  any '='-free program of the old grammar (#switch, ...) in any of these positions,
         to any nesting depth, templates of the universe '='-free.  *)
From Coq Require Import List NArith ZArith Bool Lia Arith.
From MW Require Import Common.Str C03.Model C03.Proofs C04.Model C04.ProofsSwitch C04.Proofs.
Import ListNotations.

(* ------------------------------------------------------------------ a structural induction principle for ast *)

Section AstInd.
  Variable P : ast -> Prop.
  Definition Po (o : option (list ast)) : Prop := match o with Some l => Forall P l | None => True end.
  Definition Pcase (c : list (list ast) * list ast * list ast) : Prop :=
    Forall (Forall P) (fst (fst c)) /\ Forall P (snd (fst c)) /\ Forall P (snd c).
  Hypothesis HText : forall s, P (Text s).
  Hypothesis HParam : forall nm d, Po d -> P (Param nm d).
  Hypothesis HCall : forall nm args, Forall (fun a : option str * list ast => Forall P (snd a)) args -> P (Call nm args).
  Hypothesis HIf : forall c t e, Forall P c -> Forall P t -> Po e -> P (If c t e).
  Hypothesis HIfEq : forall a b t e, Forall P a -> Forall P b -> Forall P t -> Po e -> P (IfEq a b t e).
  Definition Pd (d : option (bool * list ast)) : Prop := match d with Some bv => Forall P (snd bv) | None => True end.
  Hypothesis HSwitch : forall sc cases d, Forall P sc -> Forall Pcase cases -> Pd d -> P (Switch sc cases d).

  Fixpoint ast_ind2 (p : ast) : P p :=
    let fl := fix fl (l : list ast) : Forall P l :=
                match l with [] => Forall_nil _ | x :: r => Forall_cons x (ast_ind2 x) (fl r) end in
    let fo := fun (o : option (list ast)) => match o as o0 return Po o0 with Some l => fl l | None => I end in
    match p with
    | Text s => HText s
    | Param nm d => HParam nm d (fo d)
    | Call nm args =>
        HCall nm args
          ((fix fa (a : list (option str * list ast)) : Forall (fun a : option str * list ast => Forall P (snd a)) a :=
              match a with
              | [] => Forall_nil _
              | x :: r => Forall_cons x (match x as x0 return Forall P (snd x0) with (k, v) => fl v end) (fa r)
              end) args)
    | If c t e => HIf c t e (fl c) (fl t) (fo e)
    | IfEq a b t e => HIfEq a b t e (fl a) (fl b) (fl t) (fo e)
    | Switch sc cases d =>
        HSwitch sc cases d (fl sc)
          ((fix fc (cs : list (list (list ast) * list ast * list ast)) : Forall Pcase cs :=
              match cs with
              | [] => Forall_nil _
              | c :: r =>
                  Forall_cons c
                    (match c as c0 return Pcase c0 with
                     | (keys, k, v) =>
                         conj ((fix fk (ks : list (list ast)) : Forall (Forall P) ks :=
                                  match ks with [] => Forall_nil _ | k0 :: r0 => Forall_cons k0 (fl k0) (fk r0) end) keys)
                              (conj (fl k) (fl v))
                     end) (fc r)
              end) cases)
          (match d as d0 return Pd d0 with
           | Some bv => match bv as b0 return Forall P (snd b0) with (b, v) => fl v end
           | None => I
           end)
    end.
End AstInd.

(* ------------------------------------------------------------------ argument bodies of compile_r *)

Definition arg_item (x : ast) : list node := match x with Text s => text_pieces s | _ => [compile_r x] end.
Definition ab (l : list ast) : list node := flat_map arg_item l.

Lemma ab_cons x l : ab (x :: l) = arg_item x ++ ab l.
Proof. reflexivity. Qed.

Lemma compile_r_if c t e :
  compile_r (If c t e) = NIf (strip_ws_node (mkseq (first_r (ab c))) :: mkseq (ab t) ::
                              match e with Some el => [mkseq (ab el)] | None => [] end).
Proof. reflexivity. Qed.

Lemma compile_r_ifeq a b t e :
  compile_r (IfEq a b t e) = NIfEq (mkseq (first_r (ab a)) :: mkseq (ab b) :: mkseq (ab t) ::
                                    match e with Some el => [mkseq (ab el)] | None => [] end).
Proof. reflexivity. Qed.

Definition cons_char (c : N) (l : list node) : list node :=
  match l with NStr t :: q => NStr (c :: t) :: q | q => NStr [c] :: q end.

Lemma text_pieces_cons c r :
  text_pieces (c :: r) = if N.eqb c 61 then NEq :: text_pieces r else cons_char c (text_pieces r).
Proof.
  cbn [text_pieces]. unfold cons_char. destruct (N.eqb c 61); [reflexivity|].
  destruct (text_pieces r) as [|[] q]; reflexivity.
Qed.

(* --- texts without '=' are one piece *)
Definition noeq_str (s : str) : bool := negb (existsb (N.eqb 61) s).

Lemma text_pieces_noeq s : noeq_str s = true -> s <> [] -> text_pieces s = [NStr s].
Proof.
  induction s as [|c r IH]; intros H Hne; [congruence|].
  unfold noeq_str in H. cbn [existsb] in H. apply negb_true_iff in H. apply orb_false_iff in H as [Hc Hr].
  rewrite text_pieces_cons. rewrite N.eqb_sym in Hc. rewrite Hc.
  destruct r as [|c' r']; [reflexivity|].
  rewrite IH; [reflexivity| |discriminate]. unfold noeq_str. rewrite Hr. reflexivity.
Qed.

(* --- no two adjacent strings: merge_strs is the identity *)
Definition hd_nstr (l : list node) : bool := match l with NStr _ :: _ => true | _ => false end.
Fixpoint nadjb (l : list node) : bool :=
  match l with
  | [] => true
  | x :: r => negb (hd_nstr [x] && hd_nstr r) && nadjb r
  end.

Lemma merge_nadj l : nadjb l = true -> merge_strs l = l.
Proof.
  induction l as [|x r IH]; intros H; [reflexivity|].
  cbn [nadjb] in H. apply andb_true_iff in H as [H1 H2]. specialize (IH H2).
  destruct x; cbn [merge_strs]; rewrite ?IH; try reflexivity.
  cbn [hd_nstr andb] in H1. apply negb_true_iff in H1.
  destruct r as [|y r']; [reflexivity|]. destruct y; try reflexivity. discriminate.
Qed.

Lemma nadj_app a b : nadjb a = true -> nadjb b = true -> hd_nstr b = false -> nadjb (a ++ b) = true.
Proof.
  intros Ha Hb Hh. induction a as [|x r IH]; [exact Hb|].
  cbn [nadjb app] in *. apply andb_true_iff in Ha as [H1 H2]. rewrite (IH H2), andb_true_r.
  destruct r as [|y r']; cbn [app].
  - rewrite Hh, andb_false_r. reflexivity.
  - exact H1.
Qed.

Lemma nadj_cons_char c l : nadjb l = true -> nadjb (cons_char c l) = true.
Proof.
  intros H. destruct l as [|x q]; [reflexivity|]. destruct x; cbn [cons_char nadjb hd_nstr andb negb] in *; try exact H.
Qed.

Lemma nadj_text_pieces s : nadjb (text_pieces s) = true.
Proof.
  induction s as [|c r IH]; [reflexivity|]. rewrite text_pieces_cons. destruct (N.eqb c 61).
  - cbn [nadjb hd_nstr andb negb]. exact IH.
  - apply nadj_cons_char. exact IH.
Qed.

Lemma compile_r_not_str x : is_text x = false -> hd_nstr [compile_r x] = false.
Proof. destruct x as [s|nm [d|]|nm args|c t e|a b t e|sc cs d]; intros H; try discriminate; reflexivity. Qed.

Lemma hd_ab l : match l with Text _ :: _ => False | _ => True end -> hd_nstr (ab l) = false.
Proof.
  destruct l as [|x r]; [reflexivity|]. intros H. rewrite ab_cons.
  destruct x as [s|nm [d|]|nm args|c t e|a b t e|sc cs d]; try contradiction; reflexivity.
Qed.

Lemma nadj_ab l : no_adj l = true -> nadjb (ab l) = true.
Proof.
  induction l as [|x r IH]; intros H; [reflexivity|].
  assert (Hr : no_adj r = true).
  { cbn [no_adj] in H. destruct r as [|y r']; [reflexivity|]. apply andb_true_iff in H. apply H. }
  rewrite ab_cons. destruct (is_text x) eqn:Ex.
  - destruct x; try discriminate. cbn [arg_item]. apply nadj_app; [apply nadj_text_pieces|apply IH; exact Hr|].
    apply hd_ab. destruct r as [|y r']; [exact I|]. cbn [no_adj is_text andb] in H.
    destruct y; try exact I. discriminate.
  - assert (Hi : arg_item x = [compile_r x]) by (destruct x; try discriminate; reflexivity).
    rewrite Hi. cbn [app nadjb]. rewrite (IH Hr), andb_true_r.
    pose proof (compile_r_not_str x Ex) as Hc. cbn [hd_nstr] in Hc |- *. destruct (compile_r x); try reflexivity. discriminate.
Qed.

Lemma nadj_first_r ps : nadjb ps = true -> nadjb (first_r ps) = true.
Proof.
  intros H. unfold first_r. destruct ps as [|x q]; [reflexivity|]. destruct x; try exact H.
  all: cbn [nadjb hd_nstr andb negb] in *; exact H.
Qed.

Definition notseq (x : node) : Prop := match x with NSeq _ => False | _ => True end.

Lemma notseq_text_pieces s : Forall notseq (text_pieces s).
Proof.
  induction s as [|c r IH]; [constructor|]. rewrite text_pieces_cons. destruct (N.eqb c 61).
  - constructor; [exact I|exact IH].
  - unfold cons_char. destruct (text_pieces r) as [|x q]; [repeat constructor|].
    inversion IH; subst. destruct x; constructor; try exact I; try assumption; try (constructor; assumption).
Qed.

Lemma compile_r_not_seq x : notseq (compile_r x).
Proof. destruct x as [s|nm [d|]|nm args|c t e|a b t e|sc cs d]; exact I. Qed.

Lemma notseq_ab l : Forall notseq (ab l).
Proof.
  induction l as [|x r IH]; [constructor|]. rewrite ab_cons. apply Forall_app. split; [|exact IH].
  destruct x; cbn [arg_item]; try (constructor; [apply compile_r_not_seq|constructor]). apply notseq_text_pieces.
Qed.

Lemma notseq_first_r ps : Forall notseq ps -> Forall notseq (first_r ps).
Proof. intros H. unfold first_r. destruct ps as [|x q]; [repeat constructor|]. destruct x; try exact H; constructor; try exact I; exact H. Qed.

(* ------------------------------------------------------------------ (1) compile_r = compile without '=' *)

Fixpoint noeqb (p : ast) : bool :=
  let nl := fun l : list ast => forallb noeqb l in
  let no := fun o : option (list ast) => match o with Some l => nl l | None => true end in
  match p with
  | Text s => noeq_str s && negb (is_nil s)
  | Param _ d => no d
  | Call _ args => forallb (fun a : option str * list ast => nl (snd a)) args
  | If c t e => nl c && nl t && no e
  | IfEq a b t e => nl a && nl b && nl t && no e
  | Switch sc cases d =>
      nl sc &&
      forallb (fun c : list (list ast) * list ast * list ast =>
                 forallb nl (fst (fst c)) && nl (snd (fst c)) && nl (snd c)) cases &&
      match d with Some (_, v) => nl v | None => true end
  end.
Definition noeql (l : list ast) : bool := forallb noeqb l.

Ltac rw_ab H := let Hv := fresh "Hv" in pose proof H as Hv; unfold ab, arg_item in Hv; rewrite Hv; clear Hv.

Definition T1 (p : ast) : Prop := noeqb p = true -> compile_r p = compile p.

Lemma map_T1 l : Forall T1 l -> noeql l = true -> map compile_r l = map compile l.
Proof.
  induction 1 as [|x r Hx Hr IH]; intros H; [reflexivity|].
  cbn [noeql forallb] in H. apply andb_true_iff in H as [H1 H2]. cbn [map]. rewrite (Hx H1), (IH H2). reflexivity.
Qed.

Lemma ab_T1 l : Forall T1 l -> noeql l = true -> ab l = map compile l.
Proof.
  induction 1 as [|x r Hx Hr IH]; intros H; [reflexivity|].
  cbn [noeql forallb] in H. apply andb_true_iff in H as [H1 H2]. rewrite ab_cons. cbn [map]. rewrite (IH H2).
  destruct x as [s|nm d|nm args|c t e|a b t e|sc cs d]; cbn [arg_item app]; try (rewrite (Hx H1); reflexivity).
  cbn [noeqb] in H1. apply andb_true_iff in H1 as [Ha Hb].
  rewrite text_pieces_noeq; [reflexivity|exact Ha|]. destruct s; [discriminate|discriminate].
Qed.

Lemma first_r_first_of l : first_r (map compile l) = first_of l.
Proof.
  destruct l as [|x r]; [reflexivity|].
  destruct x as [s|nm [d|]|nm args|c t e|a b t e|sc cs d]; reflexivity.
Qed.

Lemma compile_r_noeq p : T1 p.
Proof.
  induction p as [s|nm d Hd|nm args Hargs|c t e Hc Ht He|a b t e Ha Hb Ht He|sc cases d Hsc Hcs Hd] using ast_ind2;
    unfold T1; intros H.
  - reflexivity.
  - destruct d as [l|]; [|reflexivity]. cbn [noeqb] in H. cbn [compile_r compile]. cbn [Po] in Hd.
    rewrite (map_T1 l Hd H). reflexivity.
  - cbn [noeqb] in H. cbn [compile_r compile]. f_equal.
    induction Hargs as [|[k v] r Hx Hr IH]; [reflexivity|].
    cbn [forallb snd] in H. apply andb_true_iff in H as [H1 H2]. cbn [map]. rewrite (IH H2). f_equal.
    cbn [snd] in Hx. rw_ab (ab_T1 v Hx H1). destruct k; reflexivity.
  - cbn [noeqb] in H. apply andb_true_iff in H as [H He']. apply andb_true_iff in H as [H1 H2].
    rewrite compile_r_if, compile_if. rewrite (ab_T1 c Hc H1), (ab_T1 t Ht H2), first_r_first_of.
    destruct e as [el|]; [|reflexivity]. cbn [Po] in He. rewrite (ab_T1 el He He'). reflexivity.
  - cbn [noeqb] in H. apply andb_true_iff in H as [H He']. apply andb_true_iff in H as [H H3]. apply andb_true_iff in H as [H1 H2].
    rewrite compile_r_ifeq, compile_ifeq. rewrite (ab_T1 a Ha H1), (ab_T1 b Hb H2), (ab_T1 t Ht H3), first_r_first_of.
    destruct e as [el|]; [|reflexivity]. cbn [Po] in He. rewrite (ab_T1 el He He'). reflexivity.
  - cbn [noeqb] in H. apply andb_true_iff in H as [H Hd']. apply andb_true_iff in H as [H1 H2].
    cbn [compile_r compile]. rw_ab (ab_T1 sc Hsc H1). rewrite first_r_first_of. f_equal. f_equal.
    + induction Hcs as [|[[keys k] v] r Hx Hr IH]; [reflexivity|].
      cbn [forallb fst snd] in H2. apply andb_true_iff in H2 as [Hx2 Hr2]. apply andb_true_iff in Hx2 as [Hx2 Hv2].
      apply andb_true_iff in Hx2 as [Hks2 Hk2].
      cbn [flat_map]. rewrite (IH Hr2). f_equal. destruct Hx as (Hks & Hk & Hv). cbn [fst snd] in *.
      rw_ab (ab_T1 k Hk Hk2). rw_ab (ab_T1 v Hv Hv2). f_equal.
      clear - Hks Hks2. induction Hks as [|k0 r0 Hk0 Hr0 IH0]; [reflexivity|].
      cbn [forallb] in Hks2. apply andb_true_iff in Hks2 as [G1 G2]. cbn [map].
      rw_ab (ab_T1 k0 Hk0 G1). rewrite (IH0 G2). reflexivity.
    + destruct d as [[[|] v]|]; [| |reflexivity]; cbn [Pd snd] in Hd; rw_ab (ab_T1 v Hd Hd'); reflexivity.
Qed.

Lemma compile_body_r_noeq l : noeql l = true -> compile_body_r l = compile_body l.
Proof.
  intros H. unfold compile_body_r, compile_body. rewrite map_T1; [reflexivity| |exact H].
  apply Forall_forall. intros x _. apply compile_r_noeq.
Qed.

Definition noequ (u : universe) : Prop := forall name b, ulookup u name = Some b -> noeql b = true.

Lemma tpl_of_r_noeq u : noequ u -> forall name, tpl_of_r u name = tpl_of u name.
Proof.
  intros Hu name. unfold tpl_of_r, tpl_of. destruct name; [reflexivity|].
  destruct (ulookup u (n :: name)) as [b|] eqn:E; [|reflexivity]. rewrite (compile_body_r_noeq b (Hu _ _ E)). reflexivity.
Qed.

(* ------------------------------------------------------------------ (2) the flatten model on compile_r *)

Definition noeq_top (l : list ast) : bool :=
  forallb (fun x : ast => match x with Text s => noeq_str s | _ => true end) l.

(* the names the arguments of a call bind: positions, and the TRIMMED names of the named ones *)
Fixpoint eff_names_r (args : list (option str * list ast)) (i : N) : list str :=
  match args with
  | [] => []
  | (None, _) :: r => decimal i :: eff_names_r r (i + 1)%N
  | (Some k, _) :: r => trim k :: eff_names_r r i
  end.

(* the grammar of (2) *)
Fixpoint wfq (p : ast) : bool :=
  let wl := fun l : list ast => no_adj l && forallb wfq l in
  let wo := fun o : option (list ast) => match o with Some l => wl l | None => true end in
  match p with
  | Text s => okstr s && negb (is_nil s)
  | Param nm d => name_okb nm && wo d
  | If c t e => wl c && wl t && wo e
  | IfEq a b t e => wl a && wl b && wl t && wo e
  | Call nm args =>
      (wf p && noeqb p) ||
      (name_okb nm && negb (is_nil nm) &&
       forallb (fun a : option str * list ast =>
                  match a with
                  | (None, v) => wl v && noeq_top v         (* a top-level '=' would make it a named argument *)
                  | (Some k, v) => okstr k && name_okb (trim k) && wl v
                      (* {{t| k = a = b }}: blanks around the name allowed; after the first '=' further ones are text of the value *)
                  end) args &&
       nodupb (eff_names_r args 1%N))
  | Switch _ _ _ => wf p && noeqb p
  end.
Definition wql (l : list ast) : bool := no_adj l && forallb wfq l.
Definition wqo (o : option (list ast)) : bool := match o with Some l => wql l | None => true end.

Lemma wqo_spec (o : option (list ast)) :
  match o with Some l => no_adj l && forallb wfq l | None => true end = wqo o.
Proof. destruct o; reflexivity. Qed.

Definition carg_r (a : option str * list ast) : node :=
  match a with
  | (None, v) => mkseq (ab v)
  | (Some k, v) => mkseq (NStr k :: NEq :: ab v)
  end.

Lemma compile_r_call nm args : compile_r (Call nm args) = NTpl (NStr nm) (map carg_r args).
Proof. reflexivity. Qed.

Lemma carg_r_named k v : no_adj v = true -> carg_r (Some k, v) = NSeq (NStr k :: NEq :: ab v).
Proof.
  intros H. unfold carg_r, mkseq. cbn [merge_strs]. rewrite (merge_nadj _ (nadj_ab v H)). reflexivity.
Qed.

Lemma compile_r_noteq x : is_eq (compile_r x) = false.
Proof. destruct x as [s|nm [d|]|nm args|c t e|a b t e|sc cs d]; reflexivity. Qed.

Lemma ab_noeq_top v : noeq_top v = true -> Forall (fun n => is_eq n = false) (ab v).
Proof.
  induction v as [|x r IH]; intros H; [constructor|].
  cbn [noeq_top forallb] in H. apply andb_true_iff in H as [Hx Hr]. rewrite ab_cons. apply Forall_app. split; [|apply IH; exact Hr].
  destruct x as [s|nm d|nm args|c t e|a b t e|sc cs d]; cbn [arg_item];
    try (constructor; [apply compile_r_noteq|constructor]).
  destruct s as [|c0 s']; [constructor|]. rewrite text_pieces_noeq; [repeat constructor|exact Hx|discriminate].
Qed.

Lemma equal_split_notseq x : notseq x -> equal_split x = (None, x).
Proof. destruct x; intros H; try reflexivity. contradiction. Qed.

Lemma equal_split_ab v : no_adj v = true -> noeq_top v = true -> equal_split (mkseq (ab v)) = (None, mkseq (ab v)).
Proof.
  intros Hn Hq. pose proof (ab_noeq_top v Hq) as Hne. pose proof (notseq_ab v) as Hns. pose proof (merge_nadj _ (nadj_ab v Hn)) as Hm.
  unfold mkseq. rewrite Hm. destruct (ab v) as [|x [|y r]].
  - reflexivity.
  - inversion Hns; subst. apply equal_split_notseq. assumption.
  - unfold equal_split. rewrite split_eq_noeq by exact Hne. reflexivity.
Qed.

Section MainR.
  Variable u : universe.
  Variable dn : list str.
  Hypothesis Hu : wfu u.
  Hypothesis Hdn : dn_ok dn.
  Notation FL := (impl_flatten u dn).
  Notation flat_to := (flat_to u dn).
  Notation flats := (flats u dn).

  Lemma flat_to_eq e : flat_to NEq e [61%N].
  Proof.
    exists 0%nat. intros b c _. exists [PS [61%N]]. split; [apply FL_str; reflexivity|].
    split; [reflexivity|]. constructor; [reflexivity|constructor].
  Qed.

  Lemma cons_char_flats c l e ss :
    okc c = true -> flats l e ss -> exists ss', flats (cons_char c l) e ss' /\ concat ss' = c :: concat ss.
  Proof.
    intros Hc H. unfold cons_char.
    assert (Hgen : exists ss', flats (NStr [c] :: l) e ss' /\ concat ss' = c :: concat ss).
    { exists ([c] :: ss). split; [|reflexivity]. constructor; [|exact H]. apply flat_to_str. cbn. rewrite Hc. reflexivity. }
    destruct l as [|x q]; [exact Hgen|]. destruct x; try exact Hgen.
    inversion H as [|? sx ? ss' Hx Hr]; subst.
    destruct (flat_to_str_inv u dn (NStr s) s e sx eq_refl Hx) as [-> Hok].
    exists ((c :: s) :: ss'). split; [|reflexivity]. constructor; [|exact Hr].
    apply flat_to_str. cbn [okstr forallb]. fold (okstr s). rewrite Hc, Hok. reflexivity.
  Qed.

  Lemma text_pieces_flats s e : okstr s = true -> exists ss, flats (text_pieces s) e ss /\ concat ss = s.
  Proof.
    induction s as [|c r IH]; intros H.
    - exists []. split; [constructor|reflexivity].
    - cbn [okstr forallb] in H. apply andb_true_iff in H as [Hc Hr]. destruct (IH Hr) as (ss & Hs & Hcat).
      rewrite text_pieces_cons. destruct (N.eqb c 61) eqn:Ec.
      + apply N.eqb_eq in Ec. subst c. exists ([61%N] :: ss). split; [constructor; [apply flat_to_eq|exact Hs]|].
        cbn [concat app]. rewrite Hcat. reflexivity.
      + destruct (cons_char_flats c _ e ss Hc Hs) as (ss' & H1 & H2). exists ss'. split; [exact H1|]. rewrite H2, Hcat. reflexivity.
  Qed.

  Lemma first_r_flats ps e ss : flats ps e ss -> exists ss', flats (first_r ps) e ss' /\ concat ss' = concat ss.
  Proof.
    intros H. unfold first_r.
    assert (Hgen : exists ss', flats (NStr [] :: ps) e ss' /\ concat ss' = concat ss).
    { exists ([] :: ss). split; [|reflexivity]. constructor; [apply flat_to_str; reflexivity|exact H]. }
    destruct ps as [|x q]; [exact Hgen|]. destruct x; try exact Hgen. exists ss. split; [exact H|reflexivity].
  Qed.

  Definition body_IH_r (n : nat) : Prop :=
    forall E e l s, env_rel u dn E e -> env_ok E -> wql l = true -> evals n u E l = Some s ->
    (exists ss, flats (ab l) e ss /\ concat ss = s) /\ (exists ss, flats (map compile_r l) e ss /\ concat ss = s).

  Lemma flats_of_evals_r n
    (IHn : forall E e p s, env_rel u dn E e -> env_ok E -> wfq p = true -> eval n u E p = Some s -> flat_to (compile_r p) e s) :
    body_IH_r n.
  Proof.
    intros E e l s H1 H2 H3 H4. unfold evals in H4. apply ocat_forall2 in H4 as (ss & H5 & H6). subst s.
    unfold wql in H3. apply andb_true_iff in H3 as [_ H3].
    split.
    - revert H3. induction H5 as [|x sx l ss Hx Hl IH]; intros H3; [exists []; split; [constructor|reflexivity]|].
      cbn [forallb] in H3. apply andb_true_iff in H3 as [Hwx Hwl]. destruct (IH Hwl) as (ss' & Hs' & Hc').
      rewrite ab_cons. pose proof (IHn E e x sx H1 H2 Hwx Hx) as Hfx.
      destruct (is_text x) eqn:Ex.
      + destruct x as [t| | | | |]; try discriminate. cbn [arg_item].
        cbn [wfq] in Hwx. apply andb_true_iff in Hwx as [Hok _].
        destruct (flat_to_str_inv u dn (NStr t) t e sx eq_refl Hfx) as [-> _].
        destruct (text_pieces_flats t e Hok) as (st & Hst & Hct).
        exists (st ++ ss'). split; [apply Forall2_app; assumption|]. rewrite concat_app, Hct, Hc'. reflexivity.
      + assert (Hi : arg_item x = [compile_r x]) by (destruct x; try discriminate; reflexivity).
        rewrite Hi. exists (sx :: ss'). split; [constructor; assumption|]. cbn [concat]. rewrite Hc'. reflexivity.
    - exists ss. split; [|reflexivity]. revert H3. induction H5 as [|x sx l ss Hx Hl IH]; intros H3; [constructor|].
      cbn [forallb] in H3. apply andb_true_iff in H3 as [Hwx Hwl]. cbn [map]. constructor.
      + apply (IHn E e x sx H1 H2 Hwx Hx).
      + apply IH. exact Hwl.
  Qed.

  Lemma okstr_of_flat_to n e s : flat_to n e s -> okstr s = true.
  Proof. intros [b0 Hq]. destruct (Hq b0 0%nat (le_n _)) as (ps & _ & Hj & Hp). rewrite <- Hj. apply okp_join. exact Hp. Qed.

  Lemma body_mk_r n (IH : body_IH_r n) E e l s :
    env_rel u dn E e -> env_ok E -> wql l = true -> evals n u E l = Some s ->
    flat_to (mkseq (ab l)) e s /\ okstr s = true.
  Proof.
    intros H1 H2 H3 H4. destruct (IH E e l s H1 H2 H3 H4) as ((ss & Hs & <-) & _).
    assert (Hn : no_adj l = true) by (unfold wql in H3; apply andb_true_iff in H3; apply H3).
    assert (Hm : flat_to (mkseq (ab l)) e (concat ss)).
    { apply flat_to_mkseq; [apply merge_nadj, nadj_ab; exact Hn|exact Hs]. }
    split; [exact Hm|]. eapply okstr_of_flat_to. exact Hm.
  Qed.

  Lemma nadj_map_compile_r l : no_adj l = true -> nadjb (map compile_r l) = true.
  Proof.
    induction l as [|x r IH]; intros H; [reflexivity|].
    assert (Hr : no_adj r = true).
    { cbn [no_adj] in H. destruct r as [|y r']; [reflexivity|]. apply andb_true_iff in H. apply H. }
    cbn [map nadjb]. rewrite (IH Hr), andb_true_r.
    destruct r as [|y r']; [cbn [map hd_nstr]; rewrite andb_false_r; reflexivity|].
    cbn [no_adj] in H. apply andb_true_iff in H as [H _]. apply negb_true_iff in H.
    cbn [map]. destruct (is_text x) eqn:Ex.
    - cbn [andb] in H. pose proof (compile_r_not_str y H) as Hy. cbn [hd_nstr] in Hy |- *.
      destruct (compile_r y); try (rewrite andb_false_r; reflexivity). discriminate.
    - pose proof (compile_r_not_str x Ex) as Hx. cbn [hd_nstr] in Hx |- *. destruct (compile_r x); try reflexivity. discriminate.
  Qed.

  Lemma body_mk_top n (IH : body_IH_r n) E e l s :
    env_rel u dn E e -> env_ok E -> wql l = true -> evals n u E l = Some s ->
    flat_to (mkseq (map compile_r l)) e s.
  Proof.
    intros H1 H2 H3 H4. destruct (IH E e l s H1 H2 H3 H4) as (_ & (ss & Hs & <-)).
    assert (Hn : no_adj l = true) by (unfold wql in H3; apply andb_true_iff in H3; apply H3).
    apply flat_to_mkseq; [apply merge_nadj, nadj_map_compile_r; exact Hn|exact Hs].
  Qed.

  Lemma cond_r n (IH : body_IH_r n) E e c cs :
    env_rel u dn E e -> env_ok E -> wql c = true -> evals n u E c = Some cs ->
    okstr cs = true /\
    exists bc, forall b c0, (bc <= b)%nat -> exists ps,
      FL b c0 (strip_ws_node (mkseq (first_r (ab c)))) e = Ok ps /\ strip_ebad (strip (pjoin ps)) = trim cs.
  Proof.
    intros HE HEok Hwc Ec.
    destruct (IH E e c cs HE HEok Hwc Ec) as ((ssc & Hfc & Hcc) & _).
    destruct (body_mk_r n IH E e c cs HE HEok Hwc Ec) as (_ & Hcsok).
    assert (Hnc : no_adj c = true) by (unfold wql in Hwc; apply andb_true_iff in Hwc; apply Hwc).
    destruct (first_r_flats (ab c) e ssc Hfc) as (ss' & Hf' & Hc').
    destruct (cond_flat u dn (first_r (ab c)) e ss' (merge_nadj _ (nadj_first_r _ (nadj_ab c Hnc)))
                (notseq_first_r _ (notseq_ab c)) Hf') as (s' & [bc Hcond] & Hs').
    rewrite Hc', Hcc in Hs'. split; [exact Hcsok|].
    exists bc. intros b c0 Hb. destruct (Hcond b c0 Hb) as (ps & P1 & P2 & P3). exists ps. split; [exact P1|].
    rewrite P2, Hs'. rewrite strip_ebad_id by (apply strip_by_ok; exact Hcsok). apply strip_trim. exact Hcsok.
  Qed.

  Lemma body_seq_r n (IH : body_IH_r n) E e l s :
    env_rel u dn E e -> env_ok E -> wql l = true -> evals n u E l = Some s -> flat_to (NSeq (ab l)) e s.
  Proof.
    intros H1 H2 H3 H4. destruct (IH E e l s H1 H2 H3 H4) as ((ss & Hs & <-) & _). apply (flat_to_seq u dn). exact Hs.
  Qed.

  Definition argwq (a : option str * list ast) : bool :=
    match a with (None, v) => wql v && noeq_top v | (Some k, v) => okstr k && name_okb (trim k) && wql v end.

  (* ArgumentList.get over the real parse of the arguments: the first eqmark of `k = a = b` separates name and value, the
     later ones are flattened as text of the value *)
  Lemma scan_ok_r n (IH : body_IH_r n) E e (HE : env_rel u dn E e) (HEok : env_ok E) :
    forall args i E', forallb argwq args = true -> nodupb (eff_names_r args i) = true ->
      bind_args (evals n u E) args i = Some E' ->
      map fst E' = eff_names_r args i /\ env_ok E' /\
      forall name, exists b0, forall b c, (b0 <= b)%nat ->
        scan (FL b c) (map carg_r args) e i name = Ok (rlookup E' name).
  Proof.
    induction args as [|[[k|] v] r IHr]; intros i E' Hwf Hnd Hb.
    - cbn in Hb. inversion Hb; subst. split; [reflexivity|]. split; [intros name v H; discriminate|].
      intros name. exists 0%nat. intros; reflexivity.
    - (* named *)
      cbn [forallb argwq] in Hwf. apply andb_true_iff in Hwf as [Hw Hwr]. apply andb_true_iff in Hw as [Hk Hv].
      apply andb_true_iff in Hk as [Hk1 Hk].
      cbn [eff_names_r nodupb] in Hnd. apply andb_true_iff in Hnd as [Hnk Hndr]. apply negb_true_iff in Hnk.
      cbn [bind_args] in Hb. destruct (evals n u E v) as [s|] eqn:Ev; [|discriminate].
      destruct (bind_args (evals n u E) r i) as [Er|] eqn:Ebr; [|discriminate].
      destruct (too_long (trim s)) eqn:Hcap; [discriminate|]. inversion Hb; subst E'. clear Hb.
      destruct (IHr i Er Hwr Hndr Ebr) as (Hf & Hok & Hs).
      pose proof (strip_trim k Hk1) as Hk2.
      pose proof (body_seq_r n IH E e v s HE HEok Hv Ev) as Hq.
      destruct (body_mk_r n IH E e v s HE HEok Hv Ev) as (_ & Hsok).
      destruct (value_of_flat u dn _ _ _ true Hq Hcap) as (_ & bv & Hval).
      assert (Hnv : no_adj v = true) by (unfold wql in Hv; apply andb_true_iff in Hv; apply Hv).
      split; [cbn [map fst eff_names_r]; rewrite Hf; reflexivity|]. split.
      { intros name x. cbn [rlookup]. destruct (rlookup Er name) eqn:El.
        - intros Hx. inversion Hx; subst. eapply Hok. exact El.
        - destruct (str_eqb (trim k) name); [|discriminate]. intros Hx. inversion Hx; subst.
          rewrite <- strip_trim by exact Hsok. apply strip_by_ok. exact Hsok. }
      intros name. destruct (Hs name) as [br Hscan].
      exists (S (Nat.max bv br)). intros b c Hbb. destruct b as [|b]; [lia|].
      cbn [map scan]. rewrite carg_r_named by exact Hnv. unfold equal_split. cbn [split_eq is_eq].
      assert (Hname : FL (S b) c (NSeq [NStr k]) e = Ok [PS k]).
      { apply FL_step; [reflexivity|]. cbn [node_body flat_list]. rewrite (FL_str u dn b (S c) (NStr k) e k eq_refl). reflexivity. }
      rewrite Hname. rewrite join_nl_ok by (constructor; [exact Hk1|constructor]).
      cbn [pjoin map piece_str concat]. rewrite app_nil_r, Hk2.
      cbn [rlookup].
      destruct (str_eqb (trim k) name) eqn:Ekn.
      + apply str_eqb_spec in Ekn. subst name.
        rewrite (rlookup_none' Er (trim k)) by (rewrite Hf; exact Hnk).
        rewrite Hval by lia. reflexivity.
      + rewrite Hscan by lia. destruct (rlookup Er name); reflexivity.
    - (* positional *)
      cbn [forallb argwq] in Hwf. apply andb_true_iff in Hwf as [Hv Hwr]. apply andb_true_iff in Hv as [Hv Hvq].
      cbn [eff_names_r nodupb] in Hnd. apply andb_true_iff in Hnd as [Hnk Hndr]. apply negb_true_iff in Hnk.
      cbn [bind_args] in Hb. destruct (evals n u E v) as [s|] eqn:Ev; [|discriminate].
      destruct (bind_args (evals n u E) r (i + 1)%N) as [Er|] eqn:Ebr; [|discriminate].
      destruct (too_long s) eqn:Hcap; [discriminate|]. inversion Hb; subst E'. clear Hb.
      destruct (IHr (i + 1)%N Er Hwr Hndr Ebr) as (Hf & Hok & Hs).
      destruct (body_mk_r n IH E e v s HE HEok Hv Ev) as (Hm & Hsok).
      destruct (value_of_flat u dn _ _ _ false Hm Hcap) as (_ & bv & Hval).
      assert (Hnv : no_adj v = true) by (unfold wql in Hv; apply andb_true_iff in Hv; apply Hv).
      split; [cbn [map fst eff_names_r]; rewrite Hf; reflexivity|]. split.
      { intros name x. cbn [rlookup]. destruct (rlookup Er name) eqn:El.
        - intros Hx. inversion Hx; subst. eapply Hok. exact El.
        - destruct (str_eqb (decimal i) name); [|discriminate]. intros Hx. inversion Hx; subst. exact Hsok. }
      intros name. destruct (Hs name) as [br Hscan].
      exists (Nat.max bv br). intros b c Hbb.
      cbn [map scan carg_r]. rewrite equal_split_ab by assumption.
      cbn [rlookup].
      destruct (str_eqb (decimal i) name) eqn:Ekn.
      + apply str_eqb_spec in Ekn. subst name.
        rewrite (rlookup_none' Er (decimal i)) by (rewrite Hf; exact Hnk).
        rewrite Hval by lia. reflexivity.
      + rewrite Hscan by lia. destruct (rlookup Er name); reflexivity.
  Qed.

  Lemma main_r n : forall E e p s,
    env_rel u dn E e -> env_ok E -> wfq p = true -> eval n u E p = Some s -> flat_to (compile_r p) e s.
  Proof.
    induction n as [|n IHn]; intros E e p s HE HEok Hwf Hev; [discriminate|].
    pose proof (flats_of_evals_r n IHn) as IHb.
    destruct p as [t|nm d|nm args|c t el|a b2 t el|sc cs d].
    - (* Text *)
      rewrite eval_S in Hev. inversion Hev; subst. cbn [wfq] in Hwf. apply andb_true_iff in Hwf as [Hok _].
      apply (flat_to_str u dn). exact Hok.
    - (* Param: the default is not an argument of _parse_args, its '=' stay inside the strings *)
      rewrite eval_S in Hev.
      cbn [wfq] in Hwf. rewrite wqo_spec in Hwf. apply andb_true_iff in Hwf as [Hnm Hd].
      destruct (name_okb_spec nm Hnm) as (Hn1 & Hn2 & Hn3).
      destruct (HE nm) as [bE HgetE].
      assert (Hgoal : forall rest, (match d with Some dl => rest = [mkseq (map compile_r dl)] | None => rest = [] end) ->
                flat_to (NVar (NStr nm :: rest)) e s).
      { intros rest Hrest. apply (flat_to_step u dn); [reflexivity|].
        destruct (rlookup E nm) as [v|] eqn:Hl.
        - inversion Hev; subst v. exists bE. intros b c Hb. exists [PS s].
          cbn [node_body]. rewrite (FL_str u dn b (S c) (NStr nm) e nm eq_refl).
          rewrite pjoin_single, Hn2, Hn3, HgetE by lia.
          split; [reflexivity|]. split; [apply pjoin_single|]. constructor; [|constructor]. apply (HEok nm s Hl).
        - destruct d as [dl|].
          + subst rest. cbn [wqo] in Hd. destruct (body_mk_top n IHb E e dl s HE HEok Hd Hev) as [bd Hd'].
            exists (Nat.max bE bd). intros b c Hb. destruct (Hd' b (S c) ltac:(lia)) as (ps & P1 & P2 & P3).
            exists ps. cbn [node_body]. rewrite (FL_str u dn b (S c) (NStr nm) e nm eq_refl).
            rewrite pjoin_single, Hn2, Hn3, HgetE by lia.
            split; [exact P1|]. split; assumption.
          + subst rest. inversion Hev; subst s. exists bE. intros b c Hb. exists [PS (open3 ++ nm ++ close3)].
            cbn [node_body]. rewrite (FL_str u dn b (S c) (NStr nm) e nm eq_refl).
            rewrite pjoin_single, Hn2, Hn3, HgetE by lia.
            split; [reflexivity|]. split; [apply pjoin_single|]. constructor; [|constructor].
            unfold okp. cbn [piece_str]. rewrite !okstr_app, Hn1. reflexivity. }
      destruct d as [dl|]; cbn [compile_r]; apply Hgoal; reflexivity.
    - (* Call *)
      cbn [wfq] in Hwf. apply orb_true_iff in Hwf as [Hwf|Hwf].
      { (* without '=': the old theorem *)
        apply andb_true_iff in Hwf as [Hw Hne]. rewrite (compile_r_noeq _ Hne).
        apply (main u dn Hu Hdn (S n) E e _ s HE HEok Hw Hev). }
      (* arguments with '=' in their texts; the called template is '='-free and parsed by compile *)
      rewrite eval_S in Hev.
      apply andb_true_iff in Hwf as [Hwf Hnd]. apply andb_true_iff in Hwf as [Hwf Hargs].
      apply andb_true_iff in Hwf as [Hnm Hne].
      destruct (name_okb_spec nm Hnm) as (Hn1 & Hn2 & Hn3).
      destruct (ulookup u nm) as [body|] eqn:Hul; [|discriminate].
      destruct (bind_args (evals n u E) args 1%N) as [E'|] eqn:Hb; [|discriminate].
      destruct (scan_ok_r n IHb E e HE HEok args 1%N E' Hargs Hnd Hb) as (_ & HEok' & Hscan).
      set (e' := EArgs (map carg_r args) e).
      assert (HE' : env_rel u dn E' e') by (intros name; apply Hscan).
      pose proof (Hu nm body Hul) as Hwb.
      pose proof (flats_of_evals u dn n (main u dn Hu Hdn n)) as IHold.
      rewrite compile_r_call. apply (flat_to_step u dn); [reflexivity|].
      assert (Htpl : tpl_of u nm = Some (compile_body body)).
      { unfold tpl_of. destruct nm; [discriminate|]. rewrite Hul. reflexivity. }
      destruct (truthy (compile_body body)) eqn:Htr.
      + destruct (body_mk u dn n IHold E' e' body s HE' HEok' Hwb Hev) as ([bb Hbody] & _ & _).
        exists bb. intros b c Hbb. destruct (Hbody b (S c) Hbb) as (qs & Q1 & Q2 & Q3).
        exists (PMark :: PMaybeNL :: qs ++ [PMark]).
        cbn [node_body]. rewrite (FL_str u dn b (S c) (NStr nm) e nm eq_refl).
        rewrite pjoin_single, Hn2, Hn3, Htpl, Htr.
        fold e'. unfold compile_body in Q1. unfold compile_body. rewrite Q1.
        split; [reflexivity|]. split.
        * rewrite pjoin_wrap. exact Q2.
        * constructor; [apply okp_mark|]. constructor; [apply okp_mnl|]. apply Forall_app. split; [exact Q3|].
          constructor; [apply okp_mark|constructor].
      + pose proof (truthy_false body Hwb Htr) as ->. cbn in Hev. inversion Hev; subst s.
        exists 0%nat. intros b c _. exists [].
        cbn [node_body]. rewrite (FL_str u dn b (S c) (NStr nm) e nm eq_refl).
        rewrite pjoin_single, Hn2, Hn3, Htpl, Htr.
        split; [reflexivity|]. split; [reflexivity|constructor].
    - (* If *)
      rewrite eval_S in Hev.
      cbn [wfq] in Hwf. rewrite wqo_spec in Hwf. apply andb_true_iff in Hwf as [Hwf Hwe]. apply andb_true_iff in Hwf as [Hwc Hwt].
      destruct (evals n u E c) as [cs|] eqn:Ec; [|discriminate].
      destruct (cond_r n IHb E e c cs HE HEok Hwc Ec) as (Hcsok & bc & Hcondv).
      rewrite compile_r_if. apply (flat_to_step u dn); [reflexivity|].
      destruct (trim cs) as [|ch tl] eqn:Etr.
      + destruct el as [el|].
        * destruct (evals n u E el) as [se|] eqn:Ee; [|discriminate]. cbn [otrim] in Hev. inversion Hev; subst s.
          cbn [wqo] in Hwe.
          destruct (body_mk_r n IHb E e el se HE HEok Hwe Ee) as (Hme & _).
          destruct (branch_some u dn _ _ _ Hme) as [bb Hbr].
          exists (Nat.max bc bb). intros b c0 Hb. exists [PMaybeNL; PS (trim se); PMark].
          destruct (Hcondv b (S c0) ltac:(lia)) as (ps & P1 & P2).
          destruct (Hbr b (S c0) ltac:(lia)) as [B1 B2].
          cbn [node_body]. rewrite P1, P2. cbn [nth_error]. rewrite B1.
          split; [reflexivity|]. split; [apply pjoin3|apply okp3; exact B2].
        * inversion Hev; subst s. exists bc. intros b c0 Hb. exists [PMaybeNL; PS []; PMark].
          destruct (Hcondv b (S c0) ltac:(lia)) as (ps & P1 & P2).
          cbn [node_body]. rewrite P1, P2. cbn [nth_error branch].
          split; [reflexivity|]. split; [reflexivity|apply okp3; reflexivity].
      + destruct (evals n u E t) as [st|] eqn:Et; [|discriminate]. cbn [otrim] in Hev. inversion Hev; subst s.
        destruct (body_mk_r n IHb E e t st HE HEok Hwt Et) as (Hmt & _).
        destruct (branch_some u dn _ _ _ Hmt) as [bb Hbr].
        exists (Nat.max bc bb). intros b c0 Hb. exists [PMaybeNL; PS (trim st); PMark].
        destruct (Hcondv b (S c0) ltac:(lia)) as (ps & P1 & P2).
        destruct (Hbr b (S c0) ltac:(lia)) as [B1 B2].
        cbn [node_body]. rewrite P1, P2. cbn [nth_error]. rewrite B1.
        split; [reflexivity|]. split; [apply pjoin3|apply okp3; exact B2].
    - (* IfEq *)
      rewrite eval_S in Hev.
      cbn [wfq] in Hwf. rewrite wqo_spec in Hwf. apply andb_true_iff in Hwf as [Hwf Hwe]. apply andb_true_iff in Hwf as [Hwf Hwt].
      apply andb_true_iff in Hwf as [Hwa Hwb].
      destruct (evals n u E a) as [sa|] eqn:Ea; [|discriminate].
      destruct (evals n u E b2) as [sb|] eqn:Eb; [|discriminate].
      destruct (IHb E e a sa HE HEok Hwa Ea) as ((ssa & Hfa & Hca) & _).
      destruct (body_mk_r n IHb E e a sa HE HEok Hwa Ea) as (_ & Hsaok).
      destruct (body_mk_r n IHb E e b2 sb HE HEok Hwb Eb) as ([bbv Hmb] & Hsbok).
      assert (Hna : no_adj a = true) by (unfold wql in Hwa; apply andb_true_iff in Hwa; apply Hwa).
      destruct (first_r_flats (ab a) e ssa Hfa) as (ss' & Hf' & Hc').
      pose proof (flat_to_mkseq u dn (first_r (ab a)) e ss' (merge_nadj _ (nadj_first_r _ (nadj_ab a Hna))) Hf') as [ba Hma].
      rewrite Hc', Hca in Hma.
      rewrite compile_r_ifeq. apply (flat_to_step u dn); [reflexivity|].
      assert (Hhead : forall b c0, (Nat.max ba bbv <= b)%nat -> exists ps qs,
                 FL b c0 (mkseq (first_r (ab a))) e = Ok ps /\ FL b c0 (mkseq (ab b2)) e = Ok qs /\
                 maybe_numeric_compare (strip (pjoin ps)) (strip (pjoin qs)) = num_aware_eq (trim sa) (trim sb)).
      { intros b0 c0 Hb. destruct (Hma b0 c0 ltac:(lia)) as (ps & P1 & P2 & _).
        destruct (Hmb b0 c0 ltac:(lia)) as (qs & Q1 & Q2 & _). exists ps, qs. split; [exact P1|]. split; [exact Q1|].
        rewrite P2, Q2, num_aware_eq_impl, !strip_trim by assumption. reflexivity. }
      destruct (num_aware_eq (trim sa) (trim sb)) eqn:Ecmp.
      + destruct (evals n u E t) as [st|] eqn:Et; [|discriminate]. cbn [otrim] in Hev. inversion Hev; subst s.
        destruct (body_mk_r n IHb E e t st HE HEok Hwt Et) as (Hmt & _).
        destruct (branch_some u dn _ _ _ Hmt) as [bb Hbr].
        exists (Nat.max (Nat.max ba bbv) bb). intros b0 c0 Hb. exists [PMaybeNL; PS (trim st); PMark].
        destruct (Hhead b0 (S c0) ltac:(lia)) as (ps & qs & P1 & Q1 & Hc).
        destruct (Hbr b0 (S c0) ltac:(lia)) as [B1 B2].
        cbn [node_body]. rewrite P1, Q1, Hc. cbn [nth_error]. rewrite B1.
        split; [reflexivity|]. split; [apply pjoin3|apply okp3; exact B2].
      + destruct el as [el|].
        * destruct (evals n u E el) as [se|] eqn:Ee; [|discriminate]. cbn [otrim] in Hev. inversion Hev; subst s.
          cbn [wqo] in Hwe.
          destruct (body_mk_r n IHb E e el se HE HEok Hwe Ee) as (Hme & _).
          destruct (branch_some u dn _ _ _ Hme) as [bb Hbr].
          exists (Nat.max (Nat.max ba bbv) bb). intros b0 c0 Hb. exists [PMaybeNL; PS (trim se); PMark].
          destruct (Hhead b0 (S c0) ltac:(lia)) as (ps & qs & P1 & Q1 & Hc).
          destruct (Hbr b0 (S c0) ltac:(lia)) as [B1 B2].
          cbn [node_body]. rewrite P1, Q1, Hc. cbn [nth_error]. rewrite B1.
          split; [reflexivity|]. split; [apply pjoin3|apply okp3; exact B2].
        * inversion Hev; subst s. exists (Nat.max ba bbv). intros b0 c0 Hb. exists [PMaybeNL; PS []; PMark].
          destruct (Hhead b0 (S c0) ltac:(lia)) as (ps & qs & P1 & Q1 & Hc).
          cbn [node_body]. rewrite P1, Q1, Hc. cbn [nth_error branch].
          split; [reflexivity|]. split; [reflexivity|apply okp3; reflexivity].
    - (* Switch without '=': the old theorem *)
      cbn [wfq] in Hwf. apply andb_true_iff in Hwf as [Hw Hne]. rewrite (compile_r_noeq _ Hne).
      apply (main u dn Hu Hdn (S n) E e _ s HE HEok Hw Hev).
  Qed.
End MainR.

(* the page is parsed for real (compile_r); the templates of the universe contain no '=' (for them tpl_of_r = tpl_of) *)
Definition impl_expand_rp (u : universe) (dn : list str) (limit : nat) (page : body) : res str :=
  expand (tpl_of u) (fun _ => false) (fun _ _ => MDone []) dn limit (compile_body_r page).

Lemma eval_correct_r u dn :
  wfu u -> dn_ok dn -> forall n page s, wql page = true -> evals n u [] page = Some s ->
  exists L0, forall limit, (L0 <= limit)%nat -> impl_expand_rp u dn limit page = Ok s.
Proof.
  intros Hu Hdn n page s Hw Hev.
  destruct (body_mk_top u dn n (flats_of_evals_r u dn n (main_r u dn Hu Hdn n)) [] ETop page s
              (env_rel_top u dn) env_ok_nil Hw Hev) as [b0 H].
  exists b0. intros limit Hl. unfold impl_expand_rp, expand.
  destruct (H (S limit) 0%nat ltac:(lia)) as (ps & H1 & H2 & H3).
  unfold impl_flatten, compile_body_r in H1. unfold compile_body_r. rewrite H1.
  rewrite inl_ok by (constructor; [reflexivity|exact H3]). cbn [tl]. rewrite H2. reflexivity.
Qed.

(* non-vacuity: "x{{#if: 1 | a = b | no }}{{#ifeq: p=q | p =q | same | l != r }}{{{zz| d = e }}}" *)
Definition A (s : list N) : str := s.
Definition exq_page : list ast :=
  [ Text [120]%N;
    If [Text [32;49;32]%N] [Text [32;97;32;61;32;98;32]%N] (Some [Text [32;110;111;32]%N]);
    IfEq [Text [32;112;61;113;32]%N] [Text [32;112;32;61;113;32]%N] [Text [32;115;97;109;101;32]%N]
         (Some [Text [32;108;32;33;61;32;114;32]%N]);
    Param [122;122]%N (Some [Text [32;100;32;61;32;101;32]%N]) ].
Definition exq_out : str := [120; 97;32;61;32;98; 108;32;33;61;32;114; 32;100;32;61;32;101;32]%N.   (* "xa = bl != r d = e " *)

Lemma example_eq_program :
  wql exq_page = true /\ noeql exq_page = false /\
  evals 10 [] [] exq_page = Some exq_out /\
  impl_expand_rp [] [default_key] 100 exq_page = Ok exq_out /\
  compile_body_r exq_page <> compile_body exq_page.
Proof. vm_compute. repeat split; try reflexivity. discriminate. Qed.

(* non-vacuity of the Call case: t1 = "[{{{1}}}/{{{k}}}]" and the page "{{t1|{{#if:1| a = b }}| k = c = d }}": the positional
   argument is one #if whose branch contains '=', the named argument has blanks around its name and a '=' inside its value;
   both sides compute "[a = b/c = d]" *)
Definition exq2_u : universe :=
  [([116;49]%N, [Text [91]%N; Param [49]%N None; Text [47]%N; Param [107]%N None; Text [93]%N])].
Definition exq2_page : list ast :=
  [Call [116;49]%N [(None, [If [Text [49]%N] [Text [32;97;32;61;32;98;32]%N] None]);
                    (Some [32;107;32]%N, [Text [32;99;32;61;32;100;32]%N])]].
Definition exq2_out : str := [91; 97;32;61;32;98; 47; 99;32;61;32;100; 93]%N.

Lemma example_eq_call_program :
  wql exq2_page = true /\ noeql exq2_page = false /\ wfl (snd (hd ([], []) exq2_u)) = true /\
  evals 10 exq2_u [] exq2_page = Some exq2_out /\
  impl_expand_rp exq2_u [default_key] 100 exq2_page = Ok exq2_out /\
  impl_expand_r exq2_u [default_key] 100 exq2_page = Ok exq2_out.
Proof. vm_compute. repeat split; reflexivity. Qed.
