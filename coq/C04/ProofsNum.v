(* C04 — numbers by value: the exponent part of a number ([eE][+-]?digits, C03/Model.v parse_exp / scale) is folded into the
   decimal fraction (mantissa, fraction digits) such that the VALUE is mantissa * 10^exponent / 10^fraction-digits; num_eqb (the
   comparison used by the reference num_aware_eq and by the model of maybe_numeric_compare / SwitchNode) is equality of values.
   Everything in Z (cross-multiplied), no rationals needed. *)
From Coq Require Import List NArith ZArith Bool Lia Arith.
From MW Require Import Common.Str C03.Model C04.Model.
Import ListNotations.
Open Scope Z_scope.

(* (m1, f1) and (m2, f2) denote m1 / 10^f1 and m2 / 10^f2: equal iff the cross products are *)
Lemma num_eqb_iff m1 f1 m2 f2 :
  num_eqb (m1, f1) (m2, f2) = true <-> m1 * 10 ^ Z.of_nat f2 = m2 * 10 ^ Z.of_nat f1.
Proof. unfold num_eqb. apply Z.eqb_eq. Qed.

(* scale m f e  =  (m / 10^f) * 10^e   for e >= 0 *)
Lemma scale_value_nonneg m f e : 0 <= e -> num_eqb (scale m f e) (m * 10 ^ e, f) = true.
Proof.
  intros He. unfold scale. destruct (Z.of_nat f <=? e) eqn:E.
  - apply Z.leb_le in E. apply num_eqb_iff. cbn [Z.of_nat]. rewrite Z.pow_0_r, Z.mul_1_r.
    replace (10 ^ e) with (10 ^ (e - Z.of_nat f) * 10 ^ Z.of_nat f).
    + ring.
    + rewrite <- Z.pow_add_r by lia. f_equal. lia.
  - apply Z.leb_gt in E. apply num_eqb_iff. rewrite Z2Nat.id by lia.
    replace (10 ^ Z.of_nat f) with (10 ^ e * 10 ^ (Z.of_nat f - e)).
    + ring.
    + rewrite <- Z.pow_add_r by lia. f_equal. lia.
Qed.

(* scale m f e  =  (m / 10^f) / 10^|e|   for e < 0 *)
Lemma scale_value_neg m f e : e < 0 -> scale m f e = (m, (f + Z.to_nat (- e))%nat).
Proof.
  intros He. unfold scale. destruct (Z.of_nat f <=? e) eqn:E.
  - apply Z.leb_le in E. lia.
  - f_equal. lia.
Qed.

(* multiplying mantissa and denominator by the same power of ten does not change the value *)
Lemma num_eqb_shift m f k : num_eqb (m, f) (m * 10 ^ Z.of_nat k, (f + k)%nat) = true.
Proof.
  apply num_eqb_iff. rewrite Nat2Z.inj_add, Z.pow_add_r by lia. ring.
Qed.

(* longest digit prefix: for a string of digits followed by a non-digit (or nothing) *)
Definition all_digits (s : str) : bool := forallb is_digit s.
Definition starts_nondigit (s : str) : bool := match s with [] => true | c :: _ => negb (is_digit c) end.

Fixpoint dval (s : str) (acc : Z) : Z :=
  match s with c :: r => dval r (acc * 10 + Z.of_N (c - 48)) | [] => acc end.

Lemma digits_val_app ds rest acc :
  all_digits ds = true -> starts_nondigit rest = true -> digits_val (ds ++ rest) acc = Some (dval ds acc, rest).
Proof.
  revert acc. induction ds as [|c r IH]; intros acc Hd Hn.
  - cbn [app dval]. destruct rest as [|x t]; [reflexivity|]. cbn [digits_val]. cbn [starts_nondigit] in Hn.
    destruct (is_digit x); [discriminate|reflexivity].
  - cbn [all_digits forallb] in Hd. apply andb_true_iff in Hd. destruct Hd as [Hc Hr].
    cbn [app digits_val dval]. rewrite Hc. apply IH; assumption.
Qed.

Lemma count_digits_app ds rest :
  all_digits ds = true -> starts_nondigit rest = true -> count_digits (ds ++ rest) = length ds.
Proof.
  induction ds as [|c r IH]; intros Hd Hn.
  - cbn [app length]. destruct rest as [|x t]; [reflexivity|]. cbn [count_digits]. cbn [starts_nondigit] in Hn.
    destruct (is_digit x); [discriminate|reflexivity].
  - cbn [all_digits forallb] in Hd. apply andb_true_iff in Hd. destruct Hd as [Hc Hr].
    cbn [app count_digits length]. rewrite Hc. f_equal. apply IH; assumption.
Qed.

(* the exponent part e<digits> / E<digits> / e-<digits> / e+<digits> *)
Lemma parse_exp_plain c es : (c = 101 \/ c = 69)%N -> all_digits es = true -> es <> [] ->
  starts_nondigit es = false -> parse_exp (c :: es) = Some (dval es 0).
Proof.
  intros Hc Hd Hne Hs. unfold parse_exp.
  assert (Hce : N.eqb c 101 || N.eqb c 69 = true).
  { destruct Hc as [-> | ->]; reflexivity. }
  rewrite Hce.
  destruct es as [|x t]; [contradiction|].
  cbn [starts_nondigit] in Hs. apply negb_false_iff in Hs.
  assert (Hx45 : x <> 45%N) by (intros ->; discriminate).
  assert (Hx43 : x <> 43%N) by (intros ->; discriminate).
  assert (Hsplit : match x :: t with 45%N :: t0 => (true, t0) | 43%N :: t0 => (false, t0) | _ => (false, x :: t) end = (false, x :: t)).
  { destruct x as [|p]; [reflexivity|].
    do 6 (destruct p as [p|p|]; try reflexivity); try (exfalso; apply Hx45; reflexivity); try (exfalso; apply Hx43; reflexivity). }
  rewrite Hsplit.
  pose proof (count_digits_app (x :: t) [] Hd eq_refl) as Hcnt. rewrite app_nil_r in Hcnt. rewrite Hcnt.
  cbn [length Nat.eqb].
  pose proof (digits_val_app (x :: t) [] 0 Hd eq_refl) as Hdv. rewrite app_nil_r in Hdv. rewrite Hdv. reflexivity.
Qed.

(* ------------------------------------------------------------------ d..d e d..d  is a number, with the value of the exponent form *)

Lemma is_digit_not_ws c : is_digit c = true -> is_ws c = false.
Proof.
  unfold is_digit. intros H. apply andb_true_iff in H. destruct H as [H1 H2].
  apply N.leb_le in H1. apply N.leb_le in H2.
  unfold is_ws, ws_codes. cbn [existsb].
  repeat match goal with |- (N.eqb c ?k || _) = false => replace (N.eqb c k) with false by (symmetry; apply N.eqb_neq; lia); cbn [orb] end.
  reflexivity.
Qed.

Lemma lstrip_head_keeps (p : N -> bool) c r : p c = false -> lstrip_by p (c :: r) = c :: r.
Proof. intros H. cbn [lstrip_by]. rewrite H. reflexivity. Qed.

Lemma strip_digit_ends c mid d : is_digit c = true -> is_digit d = true -> strip (c :: mid ++ [d]) = c :: mid ++ [d].
Proof.
  intros Hc Hd. unfold strip, strip_by.
  rewrite (lstrip_head_keeps is_ws c _ (is_digit_not_ws c Hc)).
  change (c :: mid ++ [d]) with ((c :: mid) ++ [d]). rewrite rev_app_distr. cbn [rev app].
  rewrite (lstrip_head_keeps is_ws d _ (is_digit_not_ws d Hd)).
  change (d :: rev mid ++ [c]) with ([d] ++ rev (c :: mid)).
  rewrite rev_app_distr, rev_involutive. reflexivity.
Qed.

Lemma dval_app a b acc : dval (a ++ b) acc = dval b (dval a acc).
Proof. revert acc. induction a as [|c r IH]; intros acc; [reflexivity|]. cbn [app dval]. apply IH. Qed.

Lemma dval_zeros n acc : dval (repeat 48%N n) acc = acc * 10 ^ Z.of_nat n.
Proof.
  revert acc. induction n as [|n IH]; intros acc.
  - cbn [repeat dval Z.of_nat]. rewrite Z.pow_0_r. ring.
  - cbn [repeat dval]. rewrite IH. rewrite Nat2Z.inj_succ, Z.pow_succ_r by lia.
    change (Z.of_N (48 - 48)) with 0. ring.
Qed.

Lemma all_digits_zeros n : all_digits (repeat 48%N n) = true.
Proof. induction n as [|n IH]; [reflexivity|]. cbn [repeat all_digits forallb]. exact IH. Qed.

Lemma all_digits_app a b : all_digits a = true -> all_digits b = true -> all_digits (a ++ b) = true.
Proof. intros Ha Hb. unfold all_digits. rewrite forallb_app. unfold all_digits in Ha, Hb. rewrite Ha, Hb. reflexivity. Qed.

Lemma dval_nonneg s acc : 0 <= acc -> 0 <= dval s acc.
Proof.
  revert acc. induction s as [|c r IH]; intros acc H; [exact H|]. cbn [dval]. apply IH.
  pose proof (N2Z.is_nonneg (c - 48)). lia.
Qed.

(* a digit string is the integer it spells *)
Lemma parse_unsigned_digits ds : all_digits ds = true -> ds <> [] -> parse_unsigned ds = Some (dval ds 0, O).
Proof.
  intros Hd Hne. unfold parse_unsigned.
  pose proof (count_digits_app ds [] Hd eq_refl) as Hc. rewrite app_nil_r in Hc. rewrite Hc.
  pose proof (digits_val_app ds [] 0 Hd eq_refl) as Hv. rewrite app_nil_r in Hv. rewrite Hv.
  destruct ds as [|x t]; [contradiction|]. reflexivity.
Qed.

(* digits e digits (no fraction, no sign): the shape int() rejects and float() / PHP is_numeric accept *)
Lemma parse_unsigned_int_exp ds c es :
  all_digits ds = true -> ds <> [] -> (c = 101 \/ c = 69)%N -> all_digits es = true -> es <> [] ->
  parse_unsigned (ds ++ c :: es) = Some (scale (dval ds 0) O (dval es 0)).
Proof.
  intros Hd Hne Hc He Hene. unfold parse_unsigned.
  assert (Hnd : starts_nondigit (c :: es) = true) by (destruct Hc as [-> | ->]; reflexivity).
  rewrite (count_digits_app ds (c :: es) Hd Hnd), (digits_val_app ds (c :: es) 0 Hd Hnd).
  assert (Hs : starts_nondigit es = false).
  { destruct es as [|x t]; [contradiction|]. cbn [starts_nondigit]. cbn [all_digits forallb] in He.
    apply andb_true_iff in He. destruct He as [Hx _]. rewrite Hx. reflexivity. }
  rewrite (parse_exp_plain c es Hc He Hene Hs).
  destruct ds as [|x t]; [contradiction|]. cbn [length Nat.eqb].
  destruct Hc as [-> | ->]; reflexivity.
Qed.

Lemma digits_shape ds tail d : all_digits ds = true -> ds <> [] ->
  exists c mid, ds ++ tail ++ [d] = c :: mid ++ [d] /\ is_digit c = true.
Proof.
  intros Hd Hne. destruct ds as [|c r]; [contradiction|].
  cbn [all_digits forallb] in Hd. apply andb_true_iff in Hd. destruct Hd as [Hc _].
  exists c, (r ++ tail). split; [|exact Hc]. cbn [app]. rewrite app_assoc. reflexivity.
Qed.

Lemma parse_num_unsigned s c mid d :
  s = c :: mid ++ [d] -> is_digit c = true -> is_digit d = true -> parse_num s = parse_unsigned s.
Proof.
  intros -> Hc Hd. unfold parse_num. rewrite (strip_digit_ends c mid d Hc Hd).
  assert (H45 : c <> 45%N) by (intros ->; discriminate).
  assert (H43 : c <> 43%N) by (intros ->; discriminate).
  destruct c as [|p]; [reflexivity|].
  do 6 (destruct p as [p|p|]; try reflexivity); try (exfalso; apply H45; reflexivity); try (exfalso; apply H43; reflexivity).
Qed.

Lemma last_digit es : all_digits es = true -> es <> [] -> exists es' d, es = es' ++ [d] /\ is_digit d = true.
Proof.
  intros He Hne. destruct (exists_last Hne) as [es' [d ->]]. exists es', d. split; [reflexivity|].
  unfold all_digits in He. rewrite forallb_app in He. apply andb_true_iff in He. destruct He as [_ H].
  cbn [forallb] in H. rewrite andb_true_r in H. exact H.
Qed.

(* THE REFERENCE COMPARES EXPONENT NUMBERS BY VALUE:  d..d e N  =  d..d followed by N zeros   (1e3 = 1000, 25E2 = 2500, 7e0 = 7),
   for every digit string d..d, every exponent digit string, e or E *)
Lemma exponent_number_by_value ds c es :
  all_digits ds = true -> ds <> [] -> (c = 101 \/ c = 69)%N -> all_digits es = true -> es <> [] ->
  num_aware_eq (ds ++ c :: es) (ds ++ repeat 48%N (Z.to_nat (dval es 0))) = true /\
  maybe_numeric_compare (ds ++ c :: es) (ds ++ repeat 48%N (Z.to_nat (dval es 0))) = true.
Proof.
  intros Hd Hne Hc He Hene.
  destruct (last_digit es He Hene) as [es' [d [-> Hdd]]].
  set (E := dval (es' ++ [d]) 0).
  assert (HE : 0 <= E) by (apply dval_nonneg; lia).
  (* left operand *)
  destruct (digits_shape ds (c :: es') d Hd Hne) as [c1 [mid1 [Hsh1 Hc1]]].
  assert (Hl : parse_num (ds ++ c :: es' ++ [d]) = Some (scale (dval ds 0) O E)).
  { change (c :: es' ++ [d]) with ((c :: es') ++ [d]). rewrite (parse_num_unsigned _ c1 mid1 d Hsh1 Hc1 Hdd).
    change ((c :: es') ++ [d]) with (c :: es' ++ [d]). apply parse_unsigned_int_exp; assumption. }
  (* right operand: a digit string *)
  set (zs := repeat 48%N (Z.to_nat E)).
  assert (Hrd : all_digits (ds ++ zs) = true) by (apply all_digits_app; [exact Hd|apply all_digits_zeros]).
  assert (Hrne : ds ++ zs <> []) by (destruct ds; [contradiction|discriminate]).
  destruct (last_digit (ds ++ zs) Hrd Hrne) as [r' [d2 [Hr Hd2]]].
  assert (Hc2 : exists c2 mid2, ds ++ zs = c2 :: mid2 /\ is_digit c2 = true).
  { destruct ds as [|x t]; [contradiction|]. exists x, (t ++ zs). split; [reflexivity|].
    cbn [all_digits forallb] in Hd. apply andb_true_iff in Hd. tauto. }
  destruct Hc2 as [c2 [mid2 [Hr2 Hcd2]]].
  assert (Hrv : parse_num (ds ++ zs) = Some (dval ds 0 * 10 ^ E, O)).
  { destruct (list_eq_dec N.eq_dec mid2 []) as [Hm | Hm].
    - (* a single digit: strip of [c2] *)
      subst mid2. rewrite Hr2. unfold parse_num, strip, strip_by.
      rewrite (lstrip_head_keeps is_ws c2 [] (is_digit_not_ws c2 Hcd2)). cbn [rev app].
      rewrite (lstrip_head_keeps is_ws c2 [] (is_digit_not_ws c2 Hcd2)). cbn [rev app].
      assert (H45 : c2 <> 45%N) by (intros ->; discriminate).
      assert (H43 : c2 <> 43%N) by (intros ->; discriminate).
      assert (Hpu : parse_unsigned [c2] = Some (dval ds 0 * 10 ^ E, O)).
      { rewrite <- Hr2. rewrite (parse_unsigned_digits (ds ++ zs) Hrd Hrne). unfold zs. rewrite dval_app, dval_zeros.
        rewrite Z2Nat.id by lia. reflexivity. }
      destruct c2 as [|p]; [exact Hpu|].
      do 6 (destruct p as [p|p|]; try exact Hpu); try (exfalso; apply H45; reflexivity); try (exfalso; apply H43; reflexivity).
    - destruct (exists_last Hm) as [mid3 [d3 Hm3]].
      assert (Hshape : ds ++ zs = c2 :: mid3 ++ [d3]) by (rewrite Hr2, Hm3; reflexivity).
      assert (Hd3 : is_digit d3 = true).
      { unfold all_digits in Hrd. rewrite Hshape in Hrd. change (c2 :: mid3 ++ [d3]) with ((c2 :: mid3) ++ [d3]) in Hrd.
        rewrite forallb_app in Hrd. apply andb_true_iff in Hrd. destruct Hrd as [_ H]. cbn [forallb] in H.
        rewrite andb_true_r in H. exact H. }
      rewrite (parse_num_unsigned _ c2 mid3 d3 Hshape Hcd2 Hd3).
      rewrite (parse_unsigned_digits (ds ++ zs) Hrd Hrne). unfold zs. rewrite dval_app, dval_zeros.
      rewrite Z2Nat.id by lia. reflexivity. }
  assert (Heq : num_eqb (scale (dval ds 0) O E) (dval ds 0 * 10 ^ E, O) = true) by (apply scale_value_nonneg; exact HE).
  split.
  - unfold num_aware_eq. fold E. fold zs. rewrite Hl, Hrv. exact Heq.
  - unfold maybe_numeric_compare. fold E. fold zs. rewrite Hl, Hrv, Heq. apply orb_true_r.
Qed.

(* ------------------------------------------------------------------ the whole unsigned grammar
   digits | digits . digits* | . digits+   each optionally followed by  [eE] [+-]? digits+ :  parse_unsigned returns the
   mantissa (all digits read as one integer), the number of fraction digits and the exponent folded in by `scale`. *)

Definition sign_str (sg : option bool) : str :=
  match sg with None => [] | Some true => [45%N] | Some false => [43%N] end.
Definition exp_str (c : N) (sg : option bool) (es : str) : str := c :: sign_str sg ++ es.
Definition exp_val (sg : option bool) (es : str) : Z :=
  match sg with Some true => - dval es 0 | _ => dval es 0 end.

Lemma parse_exp_gen c sg es : (c = 101 \/ c = 69)%N -> all_digits es = true -> es <> [] ->
  parse_exp (exp_str c sg es) = Some (exp_val sg es).
Proof.
  intros Hc Hd Hne.
  assert (Hs : starts_nondigit es = false).
  { destruct es as [|x t]; [contradiction|]. cbn [starts_nondigit]. cbn [all_digits forallb] in Hd.
    apply andb_true_iff in Hd. destruct Hd as [Hx _]. rewrite Hx. reflexivity. }
  destruct sg as [[|]|]; unfold exp_str, sign_str, exp_val; cbn [app].
  - (* minus *)
    unfold parse_exp.
    assert (Hce : N.eqb c 101 || N.eqb c 69 = true) by (destruct Hc as [-> | ->]; reflexivity).
    rewrite Hce.
    pose proof (count_digits_app es [] Hd eq_refl) as Hcnt. rewrite app_nil_r in Hcnt. rewrite Hcnt.
    pose proof (digits_val_app es [] 0 Hd eq_refl) as Hdv. rewrite app_nil_r in Hdv. rewrite Hdv.
    destruct es as [|x t]; [contradiction|]. reflexivity.
  - (* plus *)
    unfold parse_exp.
    assert (Hce : N.eqb c 101 || N.eqb c 69 = true) by (destruct Hc as [-> | ->]; reflexivity).
    rewrite Hce.
    pose proof (count_digits_app es [] Hd eq_refl) as Hcnt. rewrite app_nil_r in Hcnt. rewrite Hcnt.
    pose proof (digits_val_app es [] 0 Hd eq_refl) as Hdv. rewrite app_nil_r in Hdv. rewrite Hdv.
    destruct es as [|x t]; [contradiction|]. reflexivity.
  - apply parse_exp_plain; assumption.
Qed.

Lemma exp_str_nondigit c sg es : (c = 101 \/ c = 69)%N -> starts_nondigit (exp_str c sg es) = true.
Proof. intros [-> | ->]; reflexivity. Qed.

Lemma exp_str_not_dot c sg es : (c = 101 \/ c = 69)%N -> exists t, exp_str c sg es = c :: t /\ c <> 46%N.
Proof. intros Hc. exists (sign_str sg ++ es). split; [reflexivity|]. destruct Hc as [-> | ->]; discriminate. Qed.

(* digits [eE][+-]?digits *)
Lemma parse_unsigned_int_exp_gen ip c sg es :
  all_digits ip = true -> ip <> [] -> (c = 101 \/ c = 69)%N -> all_digits es = true -> es <> [] ->
  parse_unsigned (ip ++ exp_str c sg es) = Some (scale (dval ip 0) O (exp_val sg es)).
Proof.
  intros Hd Hne Hc He Hene. unfold parse_unsigned.
  rewrite (count_digits_app ip _ Hd (exp_str_nondigit c sg es Hc)), (digits_val_app ip _ 0 Hd (exp_str_nondigit c sg es Hc)).
  rewrite (parse_exp_gen c sg es Hc He Hene).
  destruct ip as [|x t]; [contradiction|]. cbn [length Nat.eqb].
  unfold exp_str. destruct Hc as [-> | ->]; reflexivity.
Qed.

(* digits* . digits*   (at least one digit in total) *)
Lemma parse_unsigned_frac ip fr :
  all_digits ip = true -> all_digits fr = true -> ip ++ fr <> [] ->
  parse_unsigned (ip ++ 46%N :: fr) = Some (dval fr (dval ip 0), length fr).
Proof.
  intros Hi Hf Hne. unfold parse_unsigned.
  rewrite (count_digits_app ip (46%N :: fr) Hi eq_refl), (digits_val_app ip (46%N :: fr) 0 Hi eq_refl).
  pose proof (count_digits_app fr [] Hf eq_refl) as Hc. rewrite app_nil_r in Hc. rewrite Hc.
  pose proof (digits_val_app fr [] (dval ip 0) Hf eq_refl) as Hv. rewrite app_nil_r in Hv. rewrite Hv.
  destruct (Nat.eqb (length ip + length fr) 0) eqn:E; [|reflexivity].
  apply Nat.eqb_eq in E. destruct ip; destruct fr; cbn [length] in E; try lia. contradiction Hne. reflexivity.
Qed.

(* digits* . digits* [eE][+-]?digits *)
Lemma parse_unsigned_frac_exp ip fr c sg es :
  all_digits ip = true -> all_digits fr = true -> ip ++ fr <> [] ->
  (c = 101 \/ c = 69)%N -> all_digits es = true -> es <> [] ->
  parse_unsigned (ip ++ 46%N :: fr ++ exp_str c sg es) = Some (scale (dval fr (dval ip 0)) (length fr) (exp_val sg es)).
Proof.
  intros Hi Hf Hne Hc He Hene. unfold parse_unsigned.
  rewrite (count_digits_app ip (46%N :: fr ++ exp_str c sg es) Hi eq_refl),
          (digits_val_app ip (46%N :: fr ++ exp_str c sg es) 0 Hi eq_refl).
  rewrite (count_digits_app fr _ Hf (exp_str_nondigit c sg es Hc)), (digits_val_app fr _ (dval ip 0) Hf (exp_str_nondigit c sg es Hc)).
  rewrite (parse_exp_gen c sg es Hc He Hene).
  assert (E : Nat.eqb (length ip + length fr) 0 = false).
  { apply Nat.eqb_neq. destruct ip; destruct fr; cbn [length]; try lia. contradiction Hne. reflexivity. }
  rewrite E. unfold exp_str. reflexivity.
Qed.

(* concrete spellings (code points): the forms of the numeric grammar at work, incl. negative and signed exponents *)
Definition s_1e3 : str := [49; 101; 51]%N.            (* 1e3 *)
Definition s_1000 : str := [49; 48; 48; 48]%N.        (* 1000 *)
Definition s_5em1 : str := [53; 101; 45; 49]%N.       (* 5e-1 *)
Definition s_p5 : str := [46; 53]%N.                  (* .5 *)
Definition s_25E1 : str := [50; 46; 53; 69; 43; 49]%N. (* 2.5E+1 *)
Definition s_025 : str := [32; 48; 50; 53; 46; 32]%N.  (* " 025. " *)
Definition s_1e : str := [49; 101]%N.                 (* 1e  - not a number *)
Definition s_e3 : str := [101; 51]%N.                 (* e3  - not a number *)

Lemma exponent_examples :
  num_aware_eq s_1e3 s_1000 = true /\ num_aware_eq s_5em1 s_p5 = true /\ num_aware_eq s_25E1 s_025 = true /\
  num_aware_eq s_1e3 s_5em1 = false /\ parse_num s_1e = None /\ parse_num s_e3 = None /\
  num_aware_eq s_1e s_1e = true /\ num_aware_eq s_1e s_e3 = false /\
  maybe_numeric_compare s_5em1 s_p5 = true /\ maybe_numeric_compare s_1e3 s_5em1 = false.
Proof. vm_compute. repeat split; reflexivity. Qed.
