(* C04 / M2 — correctness of the shunting-yard parser of expr.py (model: ExprModel.v) with respect to the
   evaluation of expression trees, for every operator table satisfying [table_ok]. *)
From Coq Require Import List ZArith Bool Lia.
From MW Require Import Common.Str C04.ExprModel.
Import ListNotations.
Local Open Scope Z_scope.

Lemma all_uops_complete u : In u all_uops.
Proof. destruct u; cbn; tauto. Qed.
Lemma all_bops_complete b : In b all_bops.
Proof. destruct b; cbn; tauto. Qed.

Lemma wrapn_nonempty n toks : toks <> [] -> wrapn n toks <> [].
Proof. destruct n; cbn; [tauto | discriminate]. Qed.

Section Correct.
  Variable V : Type.
  Variable num : lit -> V.
  Variable cst : const -> V.
  Variable fun1 : opname -> V -> V.
  Variable fun2 : opname -> V -> V -> V.
  Variable tbl : table.
  Hypothesis Hok : table_ok tbl = true.

  Notation apply_op := (apply_op V fun1 fun2 tbl).
  Notation pop_while := (pop_while V fun1 fun2 tbl).
  Notation close := (close V fun1 fun2 tbl).
  Notation drain := (drain V fun1 fun2 tbl).
  Notation step := (step V num cst fun1 fun2 tbl).
  Notation run := (run V num cst fun1 fun2 tbl).
  Notation push_operator := (push_operator V fun1 fun2 tbl).
  Notation eval := (eval V num cst fun1 fun2).
  Notation state := (state V).
  Notation mkst := (mkst V).
  Notation bprec := (bprec tbl).
  Notation uprec := (uprec tbl).
  Notation prec_item := (prec_item tbl).

  (* ---------------- what table_ok gives *)
  Lemma ok_u u : exists p, lookup (OU u) (t_ops tbl) = Some (p, 1%nat).
  Proof.
    unfold table_ok in Hok. apply andb_true_iff in Hok as [H _].
    rewrite forallb_forall in H. specialize (H u (all_uops_complete u)).
    destruct (lookup (OU u) (t_ops tbl)) as [[p [|[|n]]]|]; try discriminate. eauto.
  Qed.

  Lemma ok_b b : exists p, lookup (OB b) (t_ops tbl) = Some (p, 2%nat) /\ t_paren tbl < p /\ forall u, p <= uprec u.
  Proof.
    unfold table_ok in Hok. apply andb_true_iff in Hok as [_ H].
    rewrite forallb_forall in H. specialize (H b (all_bops_complete b)).
    destruct (lookup (OB b) (t_ops tbl)) as [[p [|[|[|n]]]]|]; try discriminate.
    apply andb_true_iff in H as [H1 H2]. exists p. split; [reflexivity|]. split; [apply Z.ltb_lt; exact H1|].
    intros u. rewrite forallb_forall in H2. apply Z.leb_le. apply H2. apply all_uops_complete.
  Qed.

  Lemma prec_u u : prec_of tbl (OU u) = Some (uprec u).
  Proof. unfold uprec, prec_of. destruct (ok_u u) as [p ->]. reflexivity. Qed.
  Lemma arity_u u : arity_of tbl (OU u) = Some 1%nat.
  Proof. unfold arity_of. destruct (ok_u u) as [p ->]. reflexivity. Qed.
  Lemma prec_b b : prec_of tbl (OB b) = Some (bprec b).
  Proof. unfold bprec, prec_of. destruct (ok_b b) as [p [-> _]]. reflexivity. Qed.
  Lemma arity_b b : arity_of tbl (OB b) = Some 2%nat.
  Proof. unfold arity_of. destruct (ok_b b) as [p [-> _]]. reflexivity. Qed.
  Lemma bprec_paren b : t_paren tbl < bprec b.
  Proof. unfold bprec, prec_of. destruct (ok_b b) as [p [-> [H _]]]. exact H. Qed.
  Lemma bprec_le_uprec b u : bprec b <= uprec u.
  Proof. unfold bprec at 1. unfold prec_of. destruct (ok_b b) as [p [-> [_ H]]]. cbn. apply H. Qed.

  (* threshold just above the parenthesis entries: popping with it reduces everything down to "(" *)
  Definition p0 : Z := t_paren tbl + 1.
  Lemma p0_le_b b : p0 <= bprec b.
  Proof. unfold p0. pose proof (bprec_paren b). lia. Qed.
  Lemma p0_le_u u : p0 <= uprec u.
  Proof. pose proof (p0_le_b BAdd). pose proof (bprec_le_uprec BAdd u). lia. Qed.

  (* ---------------- generic facts about the loops *)
  Lemma run_app a b st :
    run (a ++ b) st = match run a st with Ok st' => run b st' | Err e => Err e end.
  Proof.
    revert st; induction a as [|t a IH]; intros st; cbn; [reflexivity|].
    destruct (step st t); [apply IH | reflexivity].
  Qed.

  Lemma run_cons tk r st :
    run (tk :: r) st = match step st tk with Ok st' => run r st' | Err e => Err e end.
  Proof. reflexivity. Qed.

  Lemma step_lparen vs os d l : step (mkst vs os d l) TLParen = Ok (mkst vs (SParen :: os) false LTruthy).
  Proof. reflexivity. Qed.

  Lemma step_rparen vs os d l :
    step (mkst vs os d l) TRParen
    = match close vs os with Ok (vs', os') => Ok (mkst vs' os' false LRParen) | Err e => Err e end.
  Proof. reflexivity. Qed.

  Lemma close_of_pop p vs os vs' os' :
    pop_while p vs os = Ok (vs', SParen :: os') -> close vs os = Ok (vs', os').
  Proof.
    revert vs; induction os as [|top os IH]; intros vs H; cbn in H; [discriminate|].
    destruct (prec_item top) as [q|] eqn:Eq; [|discriminate].
    destruct (p <=? q).
    - destruct top as [|o]; cbn in H; [discriminate|].
      cbn. destruct (apply_op o vs) as [vs1|e]; [|discriminate]. apply IH. exact H.
    - inversion H; subst. reflexivity.
  Qed.

  Lemma drain_of_pop p vs os vs' :
    pop_while p vs os = Ok (vs', []) -> drain vs os = Ok vs'.
  Proof.
    revert vs; induction os as [|top os IH]; intros vs H; cbn in H.
    - inversion H; subst. reflexivity.
    - destruct (prec_item top) as [q|] eqn:Eq; [|discriminate].
      destruct (p <=? q).
      + destruct top as [|o]; cbn in H; [discriminate|].
        cbn. destruct (apply_op o vs) as [vs1|e]; [|discriminate]. apply IH. exact H.
      + discriminate.
  Qed.

  Lemma pop_paren p vs os : p0 <= p -> pop_while p vs (SParen :: os) = Ok (vs, SParen :: os).
  Proof.
    intros H. cbn. destruct (p <=? t_paren tbl) eqn:E; [|reflexivity].
    apply Z.leb_le in E. unfold p0 in H. lia.
  Qed.

  Lemma pop_bin p b x y vs os :
    p <= bprec b -> pop_while p (y :: x :: vs) (SOp (OB b) :: os) = pop_while p (fun2 (OB b) x y :: vs) os.
  Proof.
    intros H. cbn. rewrite prec_b. destruct (p <=? bprec b) eqn:E; [|apply Z.leb_gt in E; lia].
    unfold ExprModel.apply_op. rewrite arity_b. reflexivity.
  Qed.

  Lemma pop_un p u x vs os :
    p <= uprec u -> pop_while p (x :: vs) (SOp (OU u) :: os) = pop_while p (fun1 (OU u) x :: vs) os.
  Proof.
    intros H. cbn. rewrite prec_u. destruct (p <=? uprec u) eqn:E; [|apply Z.leb_gt in E; lia].
    unfold ExprModel.apply_op. rewrite arity_u. reflexivity.
  Qed.

  (* ---------------- the invariant *)
  (* thresholds with which the pending part of a just-read sub-expression must reduce completely *)
  Definition thr (t : expr) (p : Z) : Prop :=
    match t with
    | Bin b _ _ => p <= bprec b
    | _ => forall u, p <= uprec u
    end.

  (* nothing below a binary node that starts here may be popped by its operator *)
  Definition guard (t : expr) (os : list sitem) : Prop :=
    match t with
    | Bin b _ _ => match os with [] => True | it :: _ => exists q, prec_item it = Some q /\ q < bprec b end
    | _ => True
    end.

  Lemma thr_p0 t : thr t p0.
  Proof. destruct t; cbn; intros; try apply p0_le_u. apply p0_le_b. Qed.

  Lemma pop_guard b v vs os :
    guard (Bin b (Num []) (Num [])) os -> pop_while (bprec b) (v :: vs) os = Ok (v :: vs, os).
  Proof.
    destruct os as [|it os]; cbn; [reflexivity|].
    intros [q [-> Hq]]. destruct (bprec b <=? q) eqn:E; [apply Z.leb_le in E; lia | reflexivity].
  Qed.

  Section WithRho.
    Variable rho : expr -> nat.
    Notation ser := (ser_gen tbl rho).

    (* reading [ser t] in operand position: afterwards the stacks are, for every admissible threshold,
       pop-equivalent to (eval t :: vs, os) *)
    Definition reads (toks : list token) (t : expr) (exact : bool) : Prop :=
      forall vs os, (exact = false -> guard t os) ->
        exists vs' os' d' l',
          run toks (mkst vs os false LTruthy) = Ok (mkst vs' os' d' l') /\ l' <> LTruthy /\
          forall p, (exact = false -> thr t p) -> pop_while p vs' os' = pop_while p (eval t :: vs) os.

    Lemma reads_wrap t :
      reads (ser t) t false ->
      forall n, reads (wrapn n (ser t)) t (negb (Nat.eqb n 0)).
    Proof.
      intros Ht n. destruct n as [|n]; [exact Ht|].
      cbn [Nat.eqb negb].
      (* n+1 pairs: exact result, context LRParen *)
      assert (Hex : forall vs os,
                 run (wrapn (S n) (ser t)) (mkst vs os false LTruthy) = Ok (mkst (eval t :: vs) os false LRParen)).
      { induction n as [|n IH]; intros vs os.
        - change (wrapn 1 (ser t)) with (TLParen :: ser t ++ [TRParen]).
          rewrite run_cons, step_lparen, run_app.
          destruct (Ht vs (SParen :: os)) as (vs' & os' & d' & l' & Hr & Hl & Hp).
          { intros _. destruct t; cbn; try exact I. exists (t_paren tbl). split; [reflexivity | apply bprec_paren]. }
          rewrite Hr. rewrite run_cons, step_rparen.
          specialize (Hp p0 (fun _ => thr_p0 t)). rewrite pop_paren in Hp by lia.
          apply close_of_pop in Hp. rewrite Hp. reflexivity.
        - change (wrapn (S (S n)) (ser t)) with (TLParen :: wrapn (S n) (ser t) ++ [TRParen]).
          rewrite run_cons, step_lparen, run_app. rewrite IH.
          rewrite run_cons, step_rparen. reflexivity. }
      intros vs os _. exists (eval t :: vs), os, false, LRParen. split; [apply Hex|]. split; [discriminate|].
      intros p _. reflexivity.
    Qed.

    Lemma nmax0 a b : Nat.max a (b2n b) = 0%nat -> b = false.
    Proof. destruct b; cbn; [|reflexivity]. destruct a; cbn; discriminate. Qed.

    Lemma neqb0 n : negb (Nat.eqb n 0) = false -> n = 0%nat.
    Proof. destruct n; cbn; [reflexivity | discriminate]. Qed.

    Lemma reads_ser t : reads (ser t) t false.
    Proof.
      induction t as [n | c | u x IHx | b l IHl r IHr]; intros vs os Hg.
      - (* number *)
        exists (num n :: vs), os, true, LEmpty. cbn. split; [reflexivity|]. split; [discriminate|]. reflexivity.
      - (* constant: no e-swap in operand position *)
        exists (cst c :: vs), os, true, LEmpty. split; [destruct c; reflexivity|]. split; [discriminate|]. reflexivity.
      - (* prefix operator *)
        cbn [ser_gen]. set (nx := Nat.max (rho x) (b2n (need_u x))).
        pose proof (reads_wrap x IHx nx) as Hx.
        assert (Hstep : step (mkst vs os false LTruthy) (TOp (tok_of_uop u))
                        = Ok (mkst vs (SOp (OU u) :: os) false LTruthy)).
        { assert (Hc : ExprModel.convert_to_unary LTruthy (tok_of_uop u) = OU u) by (destruct u; reflexivity).
          assert (Hk : exists q, prec_of tbl (tok_of_uop u) = Some q).
          { destruct u; cbn [tok_of_uop]; try (rewrite prec_u; eauto); rewrite prec_b; eauto. }
          destruct Hk as [q Hq].
          unfold ExprModel.step. cbn [s_lopd s_lop s_opnd s_ops].
          unfold ExprModel.push_operator. cbn [s_lopd s_lop s_opnd s_ops].
          rewrite Hq, Hc, arity_u, prec_u. reflexivity. }
        cbn [ExprModel.run]. rewrite Hstep.
        destruct (Hx vs (SOp (OU u) :: os)) as (vs' & os' & d' & l' & Hr & Hl & Hp).
        { intros E. apply neqb0 in E. unfold nx in E. apply nmax0 in E. destruct x; cbn in E; try discriminate; exact I. }
        exists vs', os', d', l'. split; [exact Hr|]. split; [exact Hl|].
        intros p Hthr. specialize (Hthr eq_refl). cbn [thr] in Hthr.
        rewrite Hp.
        + cbn [ExprModel.eval]. apply pop_un. apply Hthr.
        + intros E. apply neqb0 in E. unfold nx in E. apply nmax0 in E.
          destruct x; cbn in E; try discriminate; cbn; exact Hthr.
      - (* binary operator *)
        cbn [ser_gen].
        set (nl := Nat.max (rho l) (b2n (need_l tbl b l))). set (nr := Nat.max (rho r) (b2n (need_r tbl b r))).
        pose proof (reads_wrap l IHl nl) as Hl. pose proof (reads_wrap r IHr nr) as Hr.
        specialize (Hg eq_refl). cbn [guard] in Hg.
        rewrite run_app.
        destruct (Hl vs os) as (vs1 & os1 & d1 & l1 & Hr1 & Hl1 & Hp1).
        { intros E. apply neqb0 in E. unfold nl in E. apply nmax0 in E.
          destruct l as [| | |b' l1' l2']; cbn; try exact I.
          cbn [need_l] in E. apply Z.ltb_ge in E.
          destruct os as [|it os]; [exact I|]. destruct Hg as [q [Hq1 Hq2]]. exists q. split; [exact Hq1 | lia]. }
        rewrite Hr1.
        (* the operator token *)
        assert (Hthr_l : negb (Nat.eqb nl 0) = false -> thr l (bprec b)).
        { intros E. apply neqb0 in E. unfold nl in E. apply nmax0 in E.
          destruct l as [| | |b' l1' l2']; cbn; try (intros; apply bprec_le_uprec).
          cbn [need_l] in E. apply Z.ltb_ge in E. exact E. }
        assert (Hstep : step (mkst vs1 os1 d1 l1) (TOp (OB b))
                        = Ok (mkst (eval l :: vs) (SOp (OB b) :: os) false LTruthy)).
        { unfold ExprModel.step. cbn [s_lopd s_lop s_opnd s_ops].
          unfold ExprModel.push_operator. cbn [s_lopd s_lop s_opnd s_ops].
          rewrite prec_b.
          assert (Hc : ExprModel.convert_to_unary l1 (OB b) = OB b) by (destruct l1; [congruence | reflexivity | reflexivity]).
          rewrite Hc, arity_b, prec_b. rewrite (Hp1 _ Hthr_l).
          rewrite pop_guard; [reflexivity|]. exact Hg. }
        cbn [ExprModel.run]. rewrite Hstep.
        destruct (Hr (eval l :: vs) (SOp (OB b) :: os)) as (vs2 & os2 & d2 & l2 & Hr2 & Hl2 & Hp2).
        { intros E. apply neqb0 in E. unfold nr in E. apply nmax0 in E.
          destruct r as [| | |b' r1' r2']; cbn; try exact I.
          cbn [need_r] in E. apply Z.leb_gt in E.
          exists (bprec b). split; [apply prec_b | exact E]. }
        exists vs2, os2, d2, l2. split; [exact Hr2|]. split; [exact Hl2|].
        intros p Hthr. specialize (Hthr eq_refl). cbn [thr] in Hthr.
        rewrite Hp2.
        + cbn [ExprModel.eval]. apply pop_bin. exact Hthr.
        + intros E. apply neqb0 in E. unfold nr in E. apply nmax0 in E.
          destruct r as [| | |b' r1' r2']; cbn [thr]; try (intros uu; pose proof (bprec_le_uprec b uu); lia).
          cbn [need_r] in E. apply Z.leb_gt in E. lia.
    Qed.

    Lemma ser_gen_nonempty t : ser t <> [].
    Proof.
      destruct t; cbn; try discriminate.
      intros H. apply app_eq_nil in H as [_ H]. discriminate.
    Qed.

    Theorem parse_ser_top t :
      parse_expr V num cst fun1 fun2 tbl (ser_top tbl rho t) = PVal (eval t).
    Proof.
      unfold ser_top, parse_expr.
      destruct (wrapn (rho t) (ser t)) eqn:E.
      { exfalso. eapply wrapn_nonempty; [apply ser_gen_nonempty | exact E]. }
      rewrite <- E. clear E.
      destruct (reads_wrap t (reads_ser t) (rho t) [] []) as (vs' & os' & d' & l' & Hr & _ & Hp).
      { intros _. destruct t; exact I. }
      unfold init. rewrite Hr. unfold finish. cbn [s_opnd s_ops].
      specialize (Hp p0 (fun _ => thr_p0 t)). cbn in Hp.
      apply drain_of_pop in Hp. rewrite Hp. reflexivity.
    Qed.
  End WithRho.

  Lemma ser_full_is_ser_top t :
    ser_full t = ser_top tbl (fun c => match c with Num _ | Cst _ => 0%nat | _ => 1%nat end) t.
  Proof.
    unfold ser_top.
    induction t as [n | c | u x IHx | b l IHl r IHr]; cbn [ser_full ser_gen wrapn]; try reflexivity.
    - f_equal. rewrite IHx. destruct x; cbn; try reflexivity.
    - f_equal. rewrite IHl, IHr.
      assert (A : forall c : expr, Nat.max match c with Num _ | Cst _ => 0%nat | _ => 1%nat end
                                     (b2n (need_l tbl b c)) = match c with Num _ | Cst _ => 0%nat | _ => 1%nat end).
      { intros c. destruct c; cbn; try reflexivity. destruct (_ <? _); reflexivity. }
      assert (B : forall c : expr, Nat.max match c with Num _ | Cst _ => 0%nat | _ => 1%nat end
                                     (b2n (need_r tbl b c)) = match c with Num _ | Cst _ => 0%nat | _ => 1%nat end).
      { intros c. destruct c; cbn; try reflexivity. destruct (_ <=? _); reflexivity. }
      rewrite A, B. rewrite <- app_assoc. reflexivity.
  Qed.

  Theorem shunting_yard_correct t :
    parse_expr V num cst fun1 fun2 tbl (ser_min tbl t) = PVal (eval t) /\
    parse_expr V num cst fun1 fun2 tbl (ser_full t) = PVal (eval t) /\
    parse_expr V num cst fun1 fun2 tbl (ser_double tbl t) = PVal (eval t).
  Proof.
    split; [apply parse_ser_top|]. split; [rewrite ser_full_is_ser_top; apply parse_ser_top | apply parse_ser_top].
  Qed.

  Theorem shunting_yard_correct_any_redundancy (rho : expr -> nat) t :
    parse_expr V num cst fun1 fun2 tbl (ser_top tbl rho t) = PVal (eval t).
  Proof. apply parse_ser_top. Qed.
End Correct.

(* ------------------------------------------------------------------ the free term algebra *)
Lemma eval_free t : eval expr Num Cst free1 free2 t = t.
Proof. induction t as [n | c | u x IHx | b l IHl r IHr]; cbn; congruence. Qed.

Theorem parse_returns_tree tbl : table_ok tbl = true -> forall rho t, parse_tree tbl (ser_top tbl rho t) = PVal t.
Proof.
  intros Hok rho t. unfold parse_tree. rewrite (parse_ser_top expr Num Cst free1 free2 tbl Hok rho t).
  rewrite eval_free. reflexivity.
Qed.

Lemma documented_table_ok : table_ok documented_table = true.
Proof. vm_compute. reflexivity. Qed.

(* The table of today's expr.py ("^" at 10, above the prefix functions at 9) is not ok, and the minimally
   parenthesised text of Pow(Floor x, y), `floor x ^ y`, is parsed as Floor(Pow(x, y));
   likewise `not x ^ y`. *)
Lemma current_table_deviates :
  table_ok table_2024 = false /\
  forall u x y, In u [UNot; UAbs; UCeil; UFloor; UTrunc] ->
    ser_min documented_table (Bin BPow (Un u (Num x)) (Num y)) = [TOp (OU u); TNum x; TOp (OB BPow); TNum y] /\
    parse_tree table_2024 [TOp (OU u); TNum x; TOp (OB BPow); TNum y] = PVal (Un u (Bin BPow (Num x) (Num y))) /\
    parse_tree documented_table [TOp (OU u); TNum x; TOp (OB BPow); TNum y] = PVal (Bin BPow (Un u (Num x)) (Num y)).
Proof.
  split; [vm_compute; reflexivity|].
  intros u x y Hu. cbn in Hu.
  destruct Hu as [<-|[<-|[<-|[<-|[<-|[]]]]]]; repeat split; reflexivity.
Qed.

(* Non-vacuity: a tree of depth 4 using prefix, binary, left/right nesting and a comparison:
     ((1 - (2 - 3)) * -4 ^ 2 < abs (5 + 6)) or not 0        (numbers stand for their one-character literals) *)
Definition ex_tree : expr :=
  Bin BOr
    (Bin BLt
       (Bin BMul (Bin BSub (Num [49%N]) (Bin BSub (Num [50%N]) (Num [51%N])))
                 (Bin BPow (Un UMinus (Num [52%N])) (Num [50%N])))
       (Un UAbs (Bin BAdd (Num [53%N]) (Num [54%N]))))
    (Un UNot (Num [48%N])).

Lemma example_parse :
  ser_min documented_table ex_tree
  = [TLParen; TNum [49%N]; TOp (OB BSub); TLParen; TNum [50%N]; TOp (OB BSub); TNum [51%N]; TRParen; TRParen;
     TOp (OB BMul); TOp (OB BSub); TNum [52%N]; TOp (OB BPow); TNum [50%N];
     TOp (OB BLt); TOp (OU UAbs); TLParen; TNum [53%N]; TOp (OB BAdd); TNum [54%N]; TRParen;
     TOp (OB BOr); TOp (OU UNot); TNum [48%N]]
  /\ parse_tree documented_table (ser_min documented_table ex_tree) = PVal ex_tree
  /\ parse_tree documented_table (ser_full ex_tree) = PVal ex_tree
  /\ parse_tree documented_table (ser_double documented_table ex_tree) = PVal ex_tree
  /\ length (ser_full ex_tree) = 38%nat.
Proof. vm_compute. repeat split. Qed.
