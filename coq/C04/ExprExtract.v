From Coq Require Import Extraction ExtrOcamlBasic.
From MW Require Import Common.Str C04.ExprModel C04.Gen_ops.
Extraction "../ocaml/c04e/c04e_model.ml" parse_expr ser_min ser_full ser_double documented_table table_2024 gen_table.
