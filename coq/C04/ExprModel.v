(* C04 / M2 — executable model of the #expr parser, /repo/src/mwlib/parser/expr.py.
   Definitions only (the lemmas are in ExprProofs.v, the property theorems in ExprProperties.v).

   What is modelled, line by line:
     expr.py:73-92   precedence / unary_ops / functions tables filled by addop   -> [table] (generated: Gen_ops.v)
     expr.py:86-90   wrap(stack): assert len(stack) >= numargs; pop numargs; push fun applied to them   -> [apply_op]
     expr.py:162-169 _handle_closing_parenthesis                                  -> [close]
     expr.py:171-177 _convert_to_unary_operator                                   -> [convert_to_unary]
     expr.py:179-204 _process_expression_elements (e-swap, operand, "(", ")", operator, unknown) -> [step]
     expr.py:196-198 while not is_unary and operator_stack and prec <= precedence[operator_stack[-1]] -> [pop_while]
     expr.py:206-229 parse_expr (empty token list, main loop, final drain, len(operand_stack) != 1) -> [parse_expr]
   The regular expression of tokenize (expr.py:40-62) is NOT modelled: the token type below is the
   abstraction of its (operand, operator) pairs and the correspondence run compares expr.tokenize(text)
   with the model's token list for every generated expression.
   The parser is generic in the value type V and in the meaning of literals, constants and operators
   (Section variables): the theorems hold for every numeric instance. *)
From Coq Require Import List ZArith Bool.
From MW Require Import Common.Str.
Import ListNotations.
Local Open Scope Z_scope.

(* ------------------------------------------------------------------ operator names *)
(* prefix operators (documented arity 1).  UMinus/UPlus are the classes expr.py:65-70; they never occur in
   a token, "-" / "+" are converted by context. *)
Inductive uop := UMinus | UPlus | UNot | UAbs | USin | UCos | UAsin | UAcos | UTan | UAtan | UExp | ULn
               | UCeil | UFloor | UTrunc.
(* binary operators of the expression trees: "^" "*" "/" "div" "mod" "+" "-" "round" "<" ">" "<=" ">=" "!=" "<>" "=" "and" "or" *)
Inductive bop := BPow | BMul | BDiv | BDivW | BMod | BAdd | BSub | BRound | BLt | BGt | BLe | BGe | BNe | BNe2
               | BEq | BAnd | BOr.
(* every key of expr.precedence except "(" ")" ; OSci is the binary operator "e" (scientific notation), which
   only ever arises from the e-swap *)
Inductive opname := OU (u : uop) | OB (b : bop) | OSci.

Scheme Equality for uop.
Scheme Equality for bop.
Definition opname_eqb (a b : opname) : bool :=
  match a, b with
  | OU x, OU y => uop_beq x y
  | OB x, OB y => bop_beq x y
  | OSci, OSci => true
  | _, _ => false
  end.

Definition all_uops : list uop :=
  [UMinus; UPlus; UNot; UAbs; USin; UCos; UAsin; UAcos; UTan; UAtan; UExp; ULn; UCeil; UFloor; UTrunc].
Definition all_bops : list bop :=
  [BPow; BMul; BDiv; BDivW; BMod; BAdd; BSub; BRound; BLt; BGt; BLe; BGe; BNe; BNe2; BEq; BAnd; BOr].

Inductive const := CE | CPi.                   (* Expr.constants, expr.py:141 *)

(* ------------------------------------------------------------------ the operator table *)
(* t_ops : operator -> (precedence, numargs)   [precedence / unary_ops of expr.py:73-92]
   t_paren : precedence["("] = precedence[")"]  [expr.py:73] *)
Record table := mktable { t_ops : list (opname * (Z * nat)); t_paren : Z }.

Fixpoint lookup (o : opname) (l : list (opname * (Z * nat))) : option (Z * nat) :=
  match l with
  | [] => None
  | (o', d) :: l' => if opname_eqb o o' then Some d else lookup o l'
  end.

Definition prec_of (tbl : table) (o : opname) : option Z := option_map fst (lookup o (t_ops tbl)).
Definition arity_of (tbl : table) (o : opname) : option nat := option_map snd (lookup o (t_ops tbl)).

(* MediaWiki's documented table (Help:Extension:ParserFunctions ##expr, the page the docstring of expr.py
   cites; numbers as in ExprParser.php): highest first
     unary + -                                      10   (binary "e" is in the same documented group; expr.py
                                                          numbers it 11, which gives -2e3 = -(2e3) instead of
                                                          (-2)e3: the same value; e-notation is outside the
                                                          property's grammar, so the number is kept)
     not ceil trunc floor abs exp ln sin cos tan acos asin atan   9
     ^                                               8
     * / div mod                                     7
     + -                                             6
     round                                           5
     = != <> > < >= <=                               4
     and                                             3
     or                                              2
     ( )                                            -1 *)
Definition documented_table : table :=
  mktable
    [ (OU UMinus, (10, 1%nat)); (OU UPlus, (10, 1%nat));
      (OB BPow, (8, 2%nat));
      (OU UNot, (9, 1%nat)); (OU UAbs, (9, 1%nat)); (OU USin, (9, 1%nat)); (OU UCos, (9, 1%nat));
      (OU UAsin, (9, 1%nat)); (OU UAcos, (9, 1%nat)); (OU UTan, (9, 1%nat)); (OU UAtan, (9, 1%nat));
      (OU UExp, (9, 1%nat)); (OU ULn, (9, 1%nat)); (OU UCeil, (9, 1%nat)); (OU UFloor, (9, 1%nat));
      (OU UTrunc, (9, 1%nat));
      (OSci, (11, 2%nat));
      (OB BMul, (7, 2%nat)); (OB BDiv, (7, 2%nat)); (OB BDivW, (7, 2%nat)); (OB BMod, (7, 2%nat));
      (OB BAdd, (6, 2%nat)); (OB BSub, (6, 2%nat));
      (OB BRound, (5, 2%nat));
      (OB BLt, (4, 2%nat)); (OB BGt, (4, 2%nat)); (OB BLe, (4, 2%nat)); (OB BGe, (4, 2%nat));
      (OB BNe, (4, 2%nat)); (OB BNe2, (4, 2%nat)); (OB BEq, (4, 2%nat));
      (OB BAnd, (3, 2%nat)); (OB BOr, (2, 2%nat)) ]
    (-1).
Definition documented_constants : list const := [CE; CPi].

(* the semantic function registered for each operator, by name; the numeric instance of the correspondence
   run (ocaml/c04e/driver.ml) implements exactly these *)
Inductive sem :=
  | SNeg          (* lambda x: -x *)
  | SPos          (* lambda x: x *)
  | SMathPow      (* math.pow *)
  | SNot          (* lambda x: int(not bool(x)) *)
  | SAbs          (* abs *)
  | SMath1 (u : uop)  (* math.sin cos asin acos tan atan exp, math.log for ln *)
  | SCeil         (* lambda x: int(math.ceil(x)) *)
  | SFloor        (* lambda x: int(math.floor(x)) *)
  | SInt          (* int *)
  | SSci          (* lambda x, y: x * math.pow(10, y) *)
  | SMul | STrueDiv   (* x * y, x / y *)
  | SIntMod       (* lambda x, y: int(x) % int(y) *)
  | SAdd | SSub
  | SMyRound      (* _myround *)
  | SCmpLt | SCmpGt | SCmpLe | SCmpGe | SCmpNe | SCmpEq    (* int(x < y) ... *)
  | SAnd | SOr.   (* int(bool(x) and bool(y)), int(bool(x) or bool(y)) *)

Definition documented_sem : list (opname * sem) :=
  [ (OU UMinus, SNeg); (OU UPlus, SPos); (OB BPow, SMathPow);
    (OU UNot, SNot); (OU UAbs, SAbs); (OU USin, SMath1 USin); (OU UCos, SMath1 UCos);
    (OU UAsin, SMath1 UAsin); (OU UAcos, SMath1 UAcos); (OU UTan, SMath1 UTan); (OU UAtan, SMath1 UAtan);
    (OU UExp, SMath1 UExp); (OU ULn, SMath1 ULn); (OU UCeil, SCeil); (OU UFloor, SFloor); (OU UTrunc, SInt);
    (OSci, SSci);
    (OB BMul, SMul); (OB BDiv, STrueDiv); (OB BDivW, STrueDiv); (OB BMod, SIntMod);
    (OB BAdd, SAdd); (OB BSub, SSub); (OB BRound, SMyRound);
    (OB BLt, SCmpLt); (OB BGt, SCmpGt); (OB BLe, SCmpLe); (OB BGe, SCmpGe); (OB BNe, SCmpNe);
    (OB BNe2, SCmpNe); (OB BEq, SCmpEq); (OB BAnd, SAnd); (OB BOr, SOr) ].

(* ------------------------------------------------------------------ tokens *)
Definition lit := str.   (* the text of a number: digits, optionally '.' digits (or '.' digits) *)

(* abstraction of the (operand, operator) pairs returned by tokenize (expr.py:52-62):
     (number, "")        -> TNum number
     ("e"|"pi", "")      -> TConst         (the constants branch, expr.py:58-59: lower-cased, operator "")
     ("", "(") ("", ")") -> TLParen TRParen
     ("", op)            -> TOp o  if op is one of the spellings of opname, else TUnknown op *)
Inductive token := TNum (n : lit) | TConst (c : const) | TOp (o : opname) | TLParen | TRParen | TUnknown (s : str).

Inductive error :=
  | EExpectedOperator   (* ExprError("expected operator"), expr.py:186 *)
  | EUnbalanced         (* ExprError("unbalanced parenthesis"), expr.py:165, :223 *)
  | EUnknownOperator    (* ExprError("unknown operator: ..."), expr.py:201 *)
  | EBadStack           (* ExprError("bad stack: ..."), expr.py:227 *)
  | EAssert             (* AssertionError of wrap, expr.py:87 *)
  | EKeyError           (* functions["("] / precedence[UMinus] missing: not reachable with a generated table *)
  | EArity.             (* numargs other than 1 or 2: the translator refuses such tables *)

Inductive result (A : Type) := Ok (a : A) | Err (e : error).
Arguments Ok {A} a.
Arguments Err {A} e.

Inductive presult (V : Type) := PEmpty (* parse_expr returns "" for an empty token list *) | PVal (v : V) | PErr (e : error).
Arguments PEmpty {V}.
Arguments PVal {V} v.
Arguments PErr {V} e.

(* operator stack entries: "(" or an operator (after the unary conversion) *)
Inductive sitem := SParen | SOp (o : opname).

(* last_operator (expr.py:203, :214) only matters through truthiness, == ")" *)
Inductive lastop :=
  | LTruthy   (* True initially; any operator, "(" *)
  | LEmpty    (* "" : the previous token was an operand *)
  | LRParen.  (* ")" *)

(* ------------------------------------------------------------------ expression trees *)
Inductive expr := Num (n : lit) | Cst (c : const) | Un (u : uop) (x : expr) | Bin (b : bop) (l r : expr).

(* the token spelling a prefix operator: unary minus/plus are written "-" "+" *)
Definition tok_of_uop (u : uop) : opname :=
  match u with UMinus => OB BSub | UPlus => OB BAdd | _ => OU u end.

Fixpoint wrapn (n : nat) (toks : list token) : list token :=
  match n with O => toks | S k => TLParen :: wrapn k toks ++ [TRParen] end.

Definition b2n (b : bool) : nat := if b then 1%nat else 0%nat.

Section Parser.
  Variable V : Type.
  Variable num : lit -> V.                      (* Expr.as_float_or_int on a number, expr.py:152-154 *)
  Variable cst : const -> V.                    (* Expr.constants[...] *)
  Variable fun1 : opname -> V -> V.             (* the registered fun of an operator with numargs = 1 *)
  Variable fun2 : opname -> V -> V -> V.        (* ... with numargs = 2, called fun(x, y) with y = top of stack *)
  Variable tbl : table.

  (* functions[operator](operand_stack), expr.py:86-90, :156-157.  Head of the list = top of the stack. *)
  Definition apply_op (o : opname) (vs : list V) : result (list V) :=
    match arity_of tbl o with
    | None => Err EKeyError
    | Some 1%nat => match vs with x :: vs' => Ok (fun1 o x :: vs') | _ => Err EAssert end
    | Some 2%nat => match vs with y :: x :: vs' => Ok (fun2 o x y :: vs') | _ => Err EAssert end
    | Some _ => Err EArity
    end.

  Definition apply_item (it : sitem) (vs : list V) : result (list V) :=
    match it with SParen => Err EKeyError | SOp o => apply_op o vs end.

  Definition prec_item (it : sitem) : option Z :=
    match it with SParen => Some (t_paren tbl) | SOp o => prec_of tbl o end.

  (* expr.py:196-198   while operator_stack and prec <= precedence[operator_stack[-1]]: pop, output *)
  Fixpoint pop_while (p : Z) (vs : list V) (os : list sitem) : result (list V * list sitem) :=
    match os with
    | [] => Ok (vs, [])
    | top :: os' =>
        match prec_item top with
        | None => Err EKeyError
        | Some q =>
            if p <=? q then
              match apply_item top vs with
              | Ok vs' => pop_while p vs' os'
              | Err e => Err e
              end
            else Ok (vs, os)
        end
    end.

  (* expr.py:162-169 *)
  Fixpoint close (vs : list V) (os : list sitem) : result (list V * list sitem) :=
    match os with
    | [] => Err EUnbalanced
    | SParen :: os' => Ok (vs, os')
    | SOp o :: os' => match apply_op o vs with Ok vs' => close vs' os' | Err e => Err e end
    end.

  (* expr.py:220-224 *)
  Fixpoint drain (vs : list V) (os : list sitem) : result (list V) :=
    match os with
    | [] => Ok vs
    | SParen :: _ => Err EUnbalanced
    | SOp o :: os' => match apply_op o vs with Ok vs' => drain vs' os' | Err e => Err e end
    end.

  Record state := mkst { s_opnd : list V; s_ops : list sitem; s_lopd : bool (* bool(last_operand) *); s_lop : lastop }.

  (* expr.py:171-177: if last_operator and last_operator != ")": "-" -> UMinus, "+" -> UPlus *)
  Definition convert_to_unary (l : lastop) (o : opname) : opname :=
    match l with
    | LTruthy => match o with OB BSub => OU UMinus | OB BAdd => OU UPlus | _ => o end
    | _ => o
    end.

  (* expr.py:192-199 (and :201 when the operator is not a key of precedence) *)
  Definition push_operator (st : state) (o : opname) : result state :=
    match prec_of tbl o with
    | None => Err EUnknownOperator
    | Some _ =>
        let o' := convert_to_unary (s_lop st) o in
        let is_unary := match arity_of tbl o' with Some 1%nat => true | _ => false end in
        match prec_of tbl o' with
        | None => Err EKeyError
        | Some p =>
            match (if is_unary then Ok (s_opnd st, s_ops st) else pop_while p (s_opnd st) (s_ops st)) with
            | Err e => Err e
            | Ok (vs, os) => Ok (mkst vs (SOp o' :: os) false LTruthy)
            end
        end
    end.

  Definition push_operand (st : state) (v : V) : result state :=
    if s_lopd st then Err EExpectedOperator                                  (* expr.py:185-186 *)
    else Ok (mkst (v :: s_opnd st) (s_ops st) true LEmpty).                   (* expr.py:187, :203 *)

  Definition is_rparen (l : lastop) : bool := match l with LRParen => true | _ => false end.

  (* expr.py:179-204 *)
  Definition step (st : state) (tok : token) : result state :=
    (* :180-182  operand in ("e","E") and (last_operand or last_operator == ")") : swap -> operator "e" *)
    let swap := match tok with TConst CE => s_lopd st || is_rparen (s_lop st) | _ => false end in
    if swap then push_operator st OSci
    else match tok with
         | TNum n => push_operand st (num n)
         | TConst c => push_operand st (cst c)
         | TLParen => Ok (mkst (s_opnd st) (SParen :: s_ops st) false LTruthy)                  (* :188-189 *)
         | TRParen => match close (s_opnd st) (s_ops st) with                                   (* :190-191 *)
                      | Ok (vs, os) => Ok (mkst vs os false LRParen)
                      | Err e => Err e
                      end
         | TOp o => push_operator st o
         | TUnknown _ => Err EUnknownOperator                                                    (* :200-201 *)
         end.

  Fixpoint run (toks : list token) (st : state) : result state :=
    match toks with
    | [] => Ok st
    | t :: r => match step st t with Ok st' => run r st' | Err e => Err e end
    end.

  Definition init : state := mkst [] [] false LTruthy.      (* expr.py:211-214 *)

  Definition finish (st : state) : presult V :=            (* expr.py:220-229 *)
    match drain (s_opnd st) (s_ops st) with
    | Err e => PErr e
    | Ok [v] => PVal v
    | Ok _ => PErr EBadStack
    end.

  Definition parse_expr (toks : list token) : presult V :=
    match toks with
    | [] => PEmpty                                           (* expr.py:208-209 *)
    | _ => match run toks init with Ok st => finish st | Err e => PErr e end
    end.

  (* ---------------------------------------------------------------- specification side *)
  Fixpoint eval (t : expr) : V :=
    match t with
    | Num n => num n
    | Cst c => cst c
    | Un u x => fun1 (OU u) (eval x)
    | Bin b l r => fun2 (OB b) (eval l) (eval r)
    end.

  Definition bprec (b : bop) : Z := match prec_of tbl (OB b) with Some p => p | None => 0 end.
  Definition uprec (u : uop) : Z := match prec_of tbl (OU u) with Some p => p | None => 0 end.

  (* minimal parentheses w.r.t. the table: the operand of a prefix operator iff it is a Bin node; the left
     child of a Bin iff it is a Bin of lower precedence; the right child iff it is a Bin of lower or equal
     precedence (left association); prefix nodes and leaves never *)
  Definition need_u (x : expr) : bool := match x with Bin _ _ _ => true | _ => false end.
  Definition need_l (b : bop) (l : expr) : bool := match l with Bin b' _ _ => bprec b' <? bprec b | _ => false end.
  Definition need_r (b : bop) (r : expr) : bool := match r with Bin b' _ _ => bprec b' <=? bprec b | _ => false end.

  (* general serialiser: every sub-tree c gets max (rho c) (needed ? 1 : 0) pairs of parentheses *)
  Section Ser.
    Variable rho : expr -> nat.
    Fixpoint ser_gen (t : expr) : list token :=
      match t with
      | Num n => [TNum n]
      | Cst c => [TConst c]
      | Un u x => TOp (tok_of_uop u) :: wrapn (Nat.max (rho x) (b2n (need_u x))) (ser_gen x)
      | Bin b l r => wrapn (Nat.max (rho l) (b2n (need_l b l))) (ser_gen l)
                     ++ TOp (OB b) :: wrapn (Nat.max (rho r) (b2n (need_r b r))) (ser_gen r)
      end.
    Definition ser_top (t : expr) : list token := wrapn (rho t) (ser_gen t).
  End Ser.

  Definition ser_min (t : expr) : list token := ser_top (fun _ => 0%nat) t.
  (* two redundant pairs around every non-leaf sub-tree, one around every leaf *)
  Definition ser_double (t : expr) : list token :=
    ser_top (fun c => match c with Num _ | Cst _ => 1%nat | _ => 2%nat end) t.
End Parser.

(* parentheses around every non-leaf sub-tree (independent of any table) *)
Fixpoint ser_full (t : expr) : list token :=
  match t with
  | Num n => [TNum n]
  | Cst c => [TConst c]
  | Un u x => TLParen :: TOp (tok_of_uop u) :: ser_full x ++ [TRParen]
  | Bin b l r => TLParen :: ser_full l ++ TOp (OB b) :: ser_full r ++ [TRParen]
  end.

(* ------------------------------------------------------------------ what the correctness proof needs of a table:
   every prefix operator is registered with numargs 1, every binary tree operator with numargs 2, and for
   every binary b and prefix u:   precedence["("] < precedence[b] <= precedence[u].
   (Nothing is required of the "e" operator, which does not occur in the trees.) *)
Definition table_ok (tbl : table) : bool :=
  forallb (fun u => match lookup (OU u) (t_ops tbl) with Some (_, 1%nat) => true | _ => false end) all_uops
  && forallb (fun b => match lookup (OB b) (t_ops tbl) with
                       | Some (p, 2%nat) => (t_paren tbl <? p) && forallb (fun u => p <=? uprec tbl u) all_uops
                       | _ => false
                       end) all_bops.

(* The table of expr.py as it stands today ("^" registered at 10, "* / div mod" at 8): kept as a literal for
   the sanity example C04_current_table_deviates. *)
Definition table_2024 : table :=
  mktable
    [ (OU UMinus, (10, 1%nat)); (OU UPlus, (10, 1%nat));
      (OB BPow, (10, 2%nat));
      (OU UNot, (9, 1%nat)); (OU UAbs, (9, 1%nat)); (OU USin, (9, 1%nat)); (OU UCos, (9, 1%nat));
      (OU UAsin, (9, 1%nat)); (OU UAcos, (9, 1%nat)); (OU UTan, (9, 1%nat)); (OU UAtan, (9, 1%nat));
      (OU UExp, (9, 1%nat)); (OU ULn, (9, 1%nat)); (OU UCeil, (9, 1%nat)); (OU UFloor, (9, 1%nat));
      (OU UTrunc, (9, 1%nat));
      (OSci, (11, 2%nat));
      (OB BMul, (8, 2%nat)); (OB BDiv, (8, 2%nat)); (OB BDivW, (8, 2%nat)); (OB BMod, (8, 2%nat));
      (OB BAdd, (6, 2%nat)); (OB BSub, (6, 2%nat));
      (OB BRound, (5, 2%nat));
      (OB BLt, (4, 2%nat)); (OB BGt, (4, 2%nat)); (OB BLe, (4, 2%nat)); (OB BGe, (4, 2%nat));
      (OB BNe, (4, 2%nat)); (OB BNe2, (4, 2%nat)); (OB BEq, (4, 2%nat));
      (OB BAnd, (3, 2%nat)); (OB BOr, (2, 2%nat)) ]
    (-1).

(* the free term algebra as value type: the parser then returns the tree it recognised *)
Definition free1 (o : opname) (x : expr) : expr := match o with OU u => Un u x | _ => x end.
Definition free2 (o : opname) (x y : expr) : expr := match o with OB b => Bin b x y | _ => x end.
Definition parse_tree (tbl : table) (toks : list token) : presult expr := parse_expr expr Num Cst free1 free2 tbl toks.
