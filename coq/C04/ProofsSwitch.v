(* C04 — SwitchNode tables (C03/Model.v switch_init / store_key: nodes.pyx:79-121) against "first matching key".
   Pure facts about the tables; no evaluation here.  Used by the Switch case of Proofs.v `main`. *)
From Coq Require Import List NArith ZArith Bool Lia Arith.
From MW Require Import Common.Str C03.Model C04.Model.
Import ListNotations.

(* ------------------------------------------------------------------ num_eqb is an equivalence *)

Lemma num_eqb_refl a : num_eqb a a = true.
Proof. destruct a as [m f]. unfold num_eqb. apply Z.eqb_refl. Qed.

Lemma num_eqb_sym a b : num_eqb a b = num_eqb b a.
Proof. destruct a as [m1 f1], b as [m2 f2]. unfold num_eqb. apply Z.eqb_sym. Qed.

Lemma pow10_pos f : (0 < 10 ^ Z.of_nat f)%Z.
Proof. apply Z.pow_pos_nonneg; lia. Qed.

Lemma num_eqb_trans a b c : num_eqb a b = true -> num_eqb b c = true -> num_eqb a c = true.
Proof.
  destruct a as [m1 f1], b as [m2 f2], c as [m3 f3]. unfold num_eqb. rewrite !Z.eqb_eq.
  pose proof (pow10_pos f1) as P1. pose proof (pow10_pos f2) as P2. pose proof (pow10_pos f3) as P3.
  set (p1 := (10 ^ Z.of_nat f1)%Z) in *. set (p2 := (10 ^ Z.of_nat f2)%Z) in *. set (p3 := (10 ^ Z.of_nat f3)%Z) in *.
  intros H12 H23.
  apply (Z.mul_reg_r _ _ p2); [lia|].
  transitivity (m1 * p2 * p3)%Z; [ring|]. rewrite H12.
  transitivity (m2 * p3 * p1)%Z; [ring|]. rewrite H23. ring.
Qed.

Lemma num_eqb_congr a b c : num_eqb a b = true -> num_eqb a c = num_eqb b c.
Proof.
  intros H. destruct (num_eqb b c) eqn:E.
  - eapply num_eqb_trans; eassumption.
  - destruct (num_eqb a c) eqn:E2; [|reflexivity].
    rewrite num_eqb_sym in H. rewrite (num_eqb_trans _ _ _ H E2) in E. discriminate.
Qed.

(* ------------------------------------------------------------------ the match test of the reference and of sw_unres *)

Lemma num_aware_eq_refl a : num_aware_eq a a = true.
Proof. unfold num_aware_eq. destruct (parse_num a); [apply num_eqb_refl|apply str_eqb_refl]. Qed.

Lemma str_eqb_sym a b : str_eqb a b = str_eqb b a.
Proof.
  destruct (str_eqb b a) eqn:E.
  - apply str_eqb_spec in E. subst. apply str_eqb_refl.
  - apply str_eqb_false. apply str_eqb_false in E. congruence.
Qed.

Lemma sw_unres_cons (fl : flat) e val k v rest :
  sw_unres fl e val (parse_num val) ((k, v) :: rest) =
  match fl k e with
  | Err x => Err x
  | Ok ps => if num_aware_eq (strip (pjoin ps)) val then Ok (Some v)
             else sw_unres fl e val (parse_num val) rest
  end.
Proof.
  cbn [sw_unres]. destruct (fl k e) as [ps|x]; [|reflexivity].
  set (tmp := strip (pjoin ps)). unfold num_aware_eq.
  destruct (str_eqb tmp val) eqn:E.
  - apply str_eqb_spec in E. rewrite E. destruct (parse_num val); [rewrite num_eqb_refl|]; reflexivity.
  - destruct (parse_num val) as [a|]; destruct (parse_num tmp) as [b|]; try rewrite E; reflexivity.
Qed.

(* ------------------------------------------------------------------ fast table lookups *)

Lemma fast_get_app k f g :
  fast_get k (f ++ g) = match fast_get k f with Some e => Some e | None => fast_get k g end.
Proof.
  induction f as [|[k' e] f IH]; [reflexivity|]. cbn [app fast_get]. destruct (skey_eqb k k'); [reflexivity|exact IH].
Qed.

Lemma fast_get_KN_congr q q' f : num_eqb q q' = true -> fast_get (KN q) f = fast_get (KN q') f.
Proof.
  intros H. induction f as [|[k' e] f IH]; [reflexivity|]. cbn [fast_get].
  destruct k' as [s|q2]; cbn [skey_eqb]; [exact IH|]. rewrite (num_eqb_congr _ _ _ H), IH. reflexivity.
Qed.

(* every numeric string key has its numeric entry *)
Definition fast_inv (f : fast_t) : Prop :=
  forall t e q, fast_get (KS t) f = Some e -> parse_num t = Some q -> fast_get (KN q) f <> None.

Lemma fast_inv_nil : fast_inv [].
Proof. intros t e q H. discriminate. Qed.

Definition or_else {A} (a b : option A) : option A := match a with Some x => Some x | None => b end.

Lemma or_else_assoc {A} (a b c : option A) : or_else (or_else a b) c = or_else a (or_else b c).
Proof. destruct a; reflexivity. Qed.

(* one literal key *)
Lemma store_key_lit k v fast unres s0 :
  node_as_str k = Some s0 -> fast_inv fast ->
  exists fast',
    store_key k v (fast, unres) = (fast', unres) /\ fast_inv fast' /\
    (forall t, fast_get (KS t) fast' =
               or_else (fast_get (KS t) fast) (if str_eqb t (strip s0) then Some (length unres, v) else None)) /\
    (forall q, fast_get (KN q) fast' =
               or_else (fast_get (KN q) fast)
                       (match parse_num (strip s0) with
                        | Some q0 => if num_eqb q q0 then Some (length unres, v) else None
                        | None => None
                        end)).
Proof.
  intros Hk Hinv. set (t0 := strip s0). set (ent := (length unres, v)).
  assert (Hmain : exists fast',
    store_key k v (fast, unres) = (fast', unres) /\
    (forall t, fast_get (KS t) fast' = or_else (fast_get (KS t) fast) (if str_eqb t t0 then Some ent else None)) /\
    (forall q, fast_get (KN q) fast' =
               or_else (fast_get (KN q) fast)
                       (match parse_num t0 with Some q0 => if num_eqb q q0 then Some ent else None | None => None end))).
  { unfold store_key. rewrite Hk. fold t0.
    destruct (fast_get (KS t0) fast) as [e0|] eqn:E0.
    - (* duplicate key: first wins *)
      exists fast. split; [reflexivity|]. split.
      + intros t. destruct (fast_get (KS t) fast) eqn:Et; [reflexivity|]. cbn [or_else].
        destruct (str_eqb t t0) eqn:Ett; [|reflexivity]. apply str_eqb_spec in Ett. subst t. congruence.
      + intros q. destruct (fast_get (KN q) fast) eqn:Eq; [reflexivity|]. cbn [or_else].
        destruct (parse_num t0) as [q0|] eqn:Ep; [|reflexivity].
        destruct (num_eqb q q0) eqn:Eqq; [|reflexivity].
        exfalso. apply (Hinv t0 e0 q0 E0 Ep). rewrite <- (fast_get_KN_congr q q0 fast Eqq). exact Eq.
    - fold ent. set (fast1 := fast ++ [(KS t0, ent)]).
      assert (HS1 : forall t, fast_get (KS t) fast1 = or_else (fast_get (KS t) fast) (if str_eqb t t0 then Some ent else None)).
      { intros t. unfold fast1. rewrite fast_get_app. cbn [fast_get skey_eqb]. reflexivity. }
      assert (HN1 : forall q, fast_get (KN q) fast1 = fast_get (KN q) fast).
      { intros q. unfold fast1. rewrite fast_get_app. cbn [fast_get skey_eqb]. destruct (fast_get (KN q) fast); reflexivity. }
      destruct (parse_num t0) as [q0|] eqn:Ep.
      + destruct (fast_get (KN q0) fast1) as [e1|] eqn:E1.
        * exists fast1. split; [reflexivity|]. split; [exact HS1|].
          intros q. rewrite HN1. destruct (fast_get (KN q) fast) eqn:Eq; [reflexivity|]. cbn [or_else].
          destruct (num_eqb q q0) eqn:Eqq; [|reflexivity].
          rewrite HN1 in E1. rewrite <- (fast_get_KN_congr q q0 fast Eqq) in E1. congruence.
        * exists (fast1 ++ [(KN q0, ent)]). split; [reflexivity|]. split.
          -- intros t. rewrite fast_get_app, HS1. cbn [fast_get skey_eqb].
             destruct (or_else (fast_get (KS t) fast) (if str_eqb t t0 then Some ent else None)); reflexivity.
          -- intros q. rewrite fast_get_app, HN1. cbn [fast_get skey_eqb]. reflexivity.
      + exists fast1. split; [reflexivity|]. split; [exact HS1|].
        intros q. rewrite HN1. destruct (fast_get (KN q) fast); reflexivity. }
  destruct Hmain as (fast' & H1 & HS & HN). exists fast'. split; [exact H1|]. split; [|split; assumption].
  intros t e q Ht Hp. rewrite HN. rewrite HS in Ht.
  destruct (fast_get (KS t) fast) as [e1|] eqn:Et.
  - pose proof (Hinv t e1 q Et Hp) as Hq. destruct (fast_get (KN q) fast); [discriminate|contradiction].
  - cbn [or_else] in Ht. destruct (str_eqb t t0) eqn:Ett; [|discriminate]. apply str_eqb_spec in Ett. subst t.
    rewrite Hp, num_eqb_refl. destruct (fast_get (KN q) fast); discriminate.
Qed.

Lemma store_key_unres k v fast unres :
  node_as_str k = None -> store_key k v (fast, unres) = (fast, unres ++ [(k, v)]).
Proof. intros Hk. unfold store_key. rewrite Hk. reflexivity. Qed.

(* ------------------------------------------------------------------ a list of (key, value) pairs stored in order *)

Definition store_all (kvs : list (node * node)) (st : sw_state) : sw_state :=
  fold_left (fun s kv => store_key (fst kv) (snd kv) s) kvs st.

Lemma store_all_app a b st : store_all (a ++ b) st = store_all b (store_all a st).
Proof. apply fold_left_app. Qed.

Fixpoint unres_of (kvs : list (node * node)) : list (node * node) :=
  match kvs with
  | [] => []
  | (k, v) :: r => match node_as_str k with Some _ => unres_of r | None => (k, v) :: unres_of r end
  end.

Lemma unres_of_app a b : unres_of (a ++ b) = unres_of a ++ unres_of b.
Proof.
  induction a as [|[k v] a IH]; [reflexivity|]. cbn [app unres_of]. destruct (node_as_str k); [exact IH|].
  rewrite IH. reflexivity.
Qed.

(* first literal key with text t / with a value numerically equal to q; u = unresolved keys seen so far *)
Fixpoint find_ks (t : str) (kvs : list (node * node)) (u : nat) : option entry :=
  match kvs with
  | [] => None
  | (k, v) :: r => match node_as_str k with
                   | Some s0 => if str_eqb t (strip s0) then Some (u, v) else find_ks t r u
                   | None => find_ks t r (S u)
                   end
  end.

Fixpoint find_kn (q : num) (kvs : list (node * node)) (u : nat) : option entry :=
  match kvs with
  | [] => None
  | (k, v) :: r => match node_as_str k with
                   | Some s0 => match parse_num (strip s0) with
                                | Some q0 => if num_eqb q q0 then Some (u, v) else find_kn q r u
                                | None => find_kn q r u
                                end
                   | None => find_kn q r (S u)
                   end
  end.

Lemma store_all_spec kvs : forall fast unres,
  fast_inv fast ->
  exists fast',
    store_all kvs (fast, unres) = (fast', unres ++ unres_of kvs) /\ fast_inv fast' /\
    (forall t, fast_get (KS t) fast' = or_else (fast_get (KS t) fast) (find_ks t kvs (length unres))) /\
    (forall q, fast_get (KN q) fast' = or_else (fast_get (KN q) fast) (find_kn q kvs (length unres))).
Proof.
  induction kvs as [|[k v] r IH]; intros fast unres Hinv.
  - exists fast. cbn [store_all fold_left unres_of find_ks find_kn]. rewrite app_nil_r.
    split; [reflexivity|]. split; [exact Hinv|].
    split; intros x; [destruct (fast_get (KS x) fast)|destruct (fast_get (KN x) fast)]; reflexivity.
  - unfold store_all. cbn [fold_left fst snd]. fold (store_all r).
    destruct (node_as_str k) as [s0|] eqn:Hk.
    + destruct (store_key_lit k v fast unres s0 Hk Hinv) as (f1 & E1 & I1 & S1 & N1). rewrite E1.
      destruct (IH f1 unres I1) as (f2 & E2 & I2 & S2 & N2). exists f2.
      cbn [unres_of find_ks find_kn]. rewrite Hk. split; [exact E2|]. split; [exact I2|]. split.
      * intros t. rewrite S2, S1, or_else_assoc. f_equal. destruct (str_eqb t (strip s0)); reflexivity.
      * intros q. rewrite N2, N1, or_else_assoc. f_equal.
        destruct (parse_num (strip s0)) as [q0|]; [|reflexivity]. destruct (num_eqb q q0); reflexivity.
    + rewrite (store_key_unres k v fast unres Hk).
      destruct (IH fast (unres ++ [(k, v)]) Hinv) as (f2 & E2 & I2 & S2 & N2). exists f2.
      cbn [unres_of find_ks find_kn]. rewrite Hk.
      rewrite app_length, Nat.add_1_r in S2, N2. rewrite <- app_assoc in E2.
      split; [exact E2|]. split; [exact I2|]. split; assumption.
Qed.

(* switch_init as a whole *)
Lemma store_all_init kvs :
  exists fast,
    store_all kvs ([], []) = (fast, unres_of kvs) /\
    (forall t, fast_get (KS t) fast = find_ks t kvs 0) /\
    (forall q, fast_get (KN q) fast = find_kn q kvs 0).
Proof.
  destruct (store_all_spec kvs [] [] fast_inv_nil) as (f & E & _ & S & N). exists f.
  split; [exact E|]. split; [exact S|exact N].
Qed.

(* ------------------------------------------------------------------ the earliest literal match *)

(* (number of unresolved keys before the first literal key that matches val, its value); sentinel past the end *)
Fixpoint look (val : str) (kvs : list (node * node)) : nat * option node :=
  match kvs with
  | [] => (1%nat, None)
  | (k, v) :: r => match node_as_str k with
                   | Some s0 => if num_aware_eq (strip s0) val then (0%nat, Some v) else look val r
                   | None => let '(p, x) := look val r in (S p, x)
                   end
  end.

Definition pick (t2 t1 : option entry) (sentinel : nat) : nat * option node :=
  match t2 with
  | Some (p, x) => (p, Some x)
  | None => match t1 with
            | Some (p, x) => (p, Some x)
            | None => (sentinel, None)
            end
  end.

Lemma look_spec val kvs : forall u,
  pick (match parse_num val with Some q => find_kn q kvs u | None => None end)
       (find_ks val kvs u)
       (u + S (length (unres_of kvs)))%nat
  = ((u + fst (look val kvs))%nat, snd (look val kvs)).
Proof.
  induction kvs as [|[k v] r IH]; intros u.
  - cbn [find_kn find_ks unres_of look length fst snd]. destruct (parse_num val); reflexivity.
  - cbn [find_kn find_ks unres_of look]. destruct (node_as_str k) as [s0|] eqn:Hk.
    + set (t0 := strip s0). unfold num_aware_eq.
      destruct (parse_num val) as [q|] eqn:Ev.
      * destruct (parse_num t0) as [q0|] eqn:E0.
        -- rewrite (num_eqb_sym q0 q). destruct (num_eqb q q0) eqn:Eq.
           ++ cbn [pick fst snd]. rewrite Nat.add_0_r. reflexivity.
           ++ destruct (str_eqb val t0) eqn:Es.
              { apply str_eqb_spec in Es. subst t0. rewrite <- Es in E0. rewrite Ev in E0. inversion E0; subst q0.
                rewrite num_eqb_refl in Eq. discriminate. }
              exact (IH u).
        -- destruct (str_eqb val t0) eqn:Es.
           { apply str_eqb_spec in Es. rewrite <- Es in E0. congruence. }
           rewrite (str_eqb_sym t0 val), Es. exact (IH u).
      * assert (Hm : (match parse_num t0 with Some _ => str_eqb t0 val | None => str_eqb t0 val end) = str_eqb t0 val)
          by (destruct (parse_num t0); reflexivity).
        rewrite Hm, (str_eqb_sym t0 val). destruct (str_eqb val t0) eqn:Es.
        -- cbn [pick fst snd]. rewrite Nat.add_0_r. reflexivity.
        -- exact (IH u).
    + specialize (IH (S u)). cbn [length]. destruct (look val r) as [p x]. cbn [fst snd] in *.
      replace (u + S (S (length (unres_of r))))%nat with (S u + S (length (unres_of r)))%nat by lia.
      rewrite IH. f_equal. lia.
Qed.

Lemma look_app_nomatch val a k v s0 :
  node_as_str k = Some s0 -> num_aware_eq (strip s0) val = false -> look val (a ++ [(k, v)]) = look val a.
Proof.
  intros Hk Hm. induction a as [|[k1 v1] a IH].
  - cbn [app look]. rewrite Hk, Hm. reflexivity.
  - cbn [app look]. rewrite IH. reflexivity.
Qed.

Lemma find_ks_app t a b : forall u,
  find_ks t (a ++ b) u = or_else (find_ks t a u) (find_ks t b (u + length (unres_of a))).
Proof.
  induction a as [|[k v] a IH]; intros u.
  - cbn [app find_ks unres_of length or_else]. rewrite Nat.add_0_r. reflexivity.
  - cbn [app find_ks unres_of]. destruct (node_as_str k) as [s0|].
    + destruct (str_eqb t (strip s0)); [reflexivity|apply IH].
    + rewrite IH. cbn [length]. rewrite Nat.add_succ_comm. reflexivity.
Qed.

Lemma find_ks_none t kvs :
  (forall k v s0, In (k, v) kvs -> node_as_str k = Some s0 -> strip s0 <> t) -> forall u, find_ks t kvs u = None.
Proof.
  induction kvs as [|[k v] r IH]; intros H u; [reflexivity|]. cbn [find_ks].
  destruct (node_as_str k) as [s0|] eqn:Hk.
  - destruct (str_eqb t (strip s0)) eqn:E.
    + apply str_eqb_spec in E. exfalso. apply (H k v s0 (or_introl eq_refl) Hk). congruence.
    + apply IH. intros k1 v1 s1 Hin. apply (H k1 v1 s1). right. exact Hin.
  - apply IH. intros k1 v1 s1 Hin. apply (H k1 v1 s1). right. exact Hin.
Qed.

(* what NSwitch computes from the tables built from kvs: (pos, ret0) = look val kvs *)
Lemma switch_tables kvs :
  exists fast,
    store_all kvs ([], []) = (fast, unres_of kvs) /\
    (forall t, fast_get (KS t) fast = find_ks t kvs 0) /\
    forall val,
      pick (match parse_num val with Some q => fast_get (KN q) fast | None => None end)
           (fast_get (KS val) fast) (S (length (unres_of kvs))) = look val kvs.
Proof.
  destruct (store_all_init kvs) as (fast & E & S & N). exists fast. split; [exact E|]. split; [exact S|].
  intros val. rewrite S.
  assert (Hn : match parse_num val with Some q => fast_get (KN q) fast | None => None end =
               match parse_num val with Some q => find_kn q kvs 0 | None => None end)
    by (destruct (parse_num val); [apply N|reflexivity]).
  rewrite Hn. pose proof (look_spec val kvs 0%nat) as H. cbn [Nat.add] in H. rewrite H.
  destruct (look val kvs); reflexivity.
Qed.
