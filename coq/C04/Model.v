(* C04 — template language: AST, reference semantics (`eval`, the MediaWiki semantics named by the property) and
   `compile` = the parse that templ.parser.parse is expected to produce for the canonical serialisation.
   The model of the implementation on parsed nodes is C03/Model.v (flatten).  No proofs here. *)
From Coq Require Import List NArith ZArith Bool Lia.
From MW Require Import Common.Str C03.Model.
Import ListNotations.

(* ------------------------------------------------------------------ AST of the property's grammar *)

Inductive ast :=
| Text (s : str)
| Param (name : str) (dflt : option (list ast))                  (* {{{name}}}  {{{name|default}}} *)
| Call (name : str) (args : list (option str * list ast))        (* {{name|v|k=v}}: None = positional *)
| If (c t : list ast) (e : option (list ast))                    (* {{#if:c|t}}  {{#if:c|t|e}} *)
| IfEq (a b t : list ast) (e : option (list ast))                (* {{#ifeq:a|b|t}}  {{#ifeq:a|b|t|e}} *)
| Switch (scrut : list ast)
         (cases : list (list (list ast) * list ast * list ast))  (* (k1..kn-1, kn, value):  k1|..|kn=value *)
         (dflt : option (bool * list ast)).                      (* (true, v): |#default=v ; (false, v): |v *)

Definition body := list ast.
Definition universe := list (str * body).

Fixpoint ulookup (u : universe) (name : str) : option body :=
  match u with
  | [] => None
  | (n, b) :: r => if str_eqb n name then Some b else ulookup r name
  end.

(* ------------------------------------------------------------------ reference semantics *)

(* PHP trim(): " \t\n\r\0\x0B" *)
Definition php_ws (c : N) : bool := existsb (N.eqb c) [32;9;10;13;0;11]%N.
Definition trim (s : str) : str := strip_by php_ws s.

(* "numeric comparison is by value": both numeric -> compare values, else compare text *)
Definition num_aware_eq (a b : str) : bool :=
  match parse_num a, parse_num b with
  | Some x, Some y => num_eqb x y
  | _, _ => str_eqb a b
  end.

Definition renv := list (str * str).
(* later bindings override earlier ones (MediaWiki) *)
Fixpoint rlookup (E : renv) (name : str) : option str :=
  match E with
  | [] => None
  | (n, v) :: r => match rlookup r name with
                   | Some x => Some x
                   | None => if str_eqb n name then Some v else None
                   end
  end.

Fixpoint ocat (l : list (option str)) : option str :=
  match l with
  | [] => Some []
  | Some s :: r => match ocat r with Some t => Some (s ++ t) | None => None end
  | None :: _ => None
  end.

Definition otrim (o : option str) : option str := match o with Some s => Some (trim s) | None => None end.

(* Domain of the reference semantics: MediaWiki has its own size limits for argument values; mwlib caps a computed
   argument value fetched for {{{x}}} at 256 KiB (evaluate.pyx:151-154: MemoryLimitError, the node is dropped).
   An argument whose value as bound (trimmed if named) is longer than that is outside the property's domain:
   `bind_args` returns None there, so `eval` is undefined on such a call. *)
Fixpoint bind_args (ev : list ast -> option str) (args : list (option str * list ast)) (i : N) : option renv :=
  match args with
  | [] => Some []
  | (None, v) :: r =>
      match ev v, bind_args ev r (i + 1)%N with
      | Some s, Some E => if too_long s then None
                          else Some ((decimal i, s) :: E)         (* positional: bound untrimmed *)
      | _, _ => None
      end
  | (Some k, v) :: r =>
      match ev v, bind_args ev r i with
      | Some s, Some E => if too_long (trim s) then None
                          else Some ((trim k, trim s) :: E)       (* named: name and value trimmed *)
      | _, _ => None
      end
  end.

(* first key of the group that matches (keys are evaluated in order, lazily) *)
Fixpoint any_key (ev : list ast -> option str) (s : str) (keys : list (list ast)) : option bool :=
  match keys with
  | [] => Some false
  | k :: r => match ev k with
              | None => None
              | Some ks => if num_aware_eq (trim ks) s then Some true else any_key ev s r
              end
  end.

Fixpoint first_case (ev : list ast -> option str) (s : str) (cases : list (list (list ast) * list ast * list ast))
  : option (option (list ast)) :=
  match cases with
  | [] => Some None
  | (keys, k, v) :: r => match any_key ev s (keys ++ [k]) with
                      | None => None
                      | Some true => Some (Some v)
                      | Some false => first_case ev s r
                      end
  end.

Fixpoint eval (n : nat) (u : universe) (E : renv) (p : ast) {struct n} : option str :=
  match n with
  | O => None
  | S n' =>
      let evals := fun (E0 : renv) (l : list ast) => ocat (map (eval n' u E0) l) in
      match p with
      | Text s => Some s
      | Param nm d =>
          match rlookup E nm with
          | Some v => Some v
          | None => match d with
                    | Some dl => evals E dl
                    | None => Some (open3 ++ nm ++ close3)         (* unbound, no default: stays literal *)
                    end
          end
      | Call nm args =>
          match ulookup u nm with
          | None => None                                            (* outside the grammar *)
          | Some b => match bind_args (evals E) args 1%N with
                      | None => None
                      | Some E' => evals E' b
                      end
          end
      | If c t e =>
          match evals E c with
          | None => None
          | Some cs => match trim cs with
                       | _ :: _ => otrim (evals E t)
                       | [] => match e with Some el => otrim (evals E el) | None => Some [] end
                       end
          end
      | IfEq a b t e =>
          match evals E a, evals E b with
          | Some sa, Some sb =>
              if num_aware_eq (trim sa) (trim sb) then otrim (evals E t)
              else match e with Some el => otrim (evals E el) | None => Some [] end
          | _, _ => None
          end
      | Switch sc cases d =>
          match evals E sc with
          | None => None
          | Some s0 =>
              match first_case (evals E) (trim s0) cases with
              | None => None
              | Some (Some v) => otrim (evals E v)
              | Some None => match d with Some (_, v) => otrim (evals E v) | None => Some [] end
              end
          end
      end
  end.

Definition evals (n : nat) (u : universe) (E : renv) (l : list ast) : option str := ocat (map (eval n u E) l).

(* ------------------------------------------------------------------ compile: the expected parse *)

Definition is_blank (s : str) : bool := match strip s with [] => true | _ => false end.

(* Parser._strip_ws (parser.py:105-117) *)
Definition strip_ws_node (n : node) : node :=
  match n with
  | NStr s => NStr (strip s)
  | NSeq l =>
      let l1 := match l with NStr s :: r => if is_blank s then r else l | _ => l end in
      let l2 := match rev l1 with NStr s :: r => if is_blank s then rev r else l1 | _ => l1 end in
      NSeq l2
  | _ => n
  end.

Definition hash_default : str := default_key.

Fixpoint compile (p : ast) : node :=
  let cs := fun (l : list ast) => map compile l in
  (* first argument of a parser function: the text after "#if:" is glued to the name token *)
  let first := fun (l : list ast) =>
                 match l with
                 | Text s :: r => NStr s :: map compile r
                 | _ => NStr [] :: map compile l
                 end in
  match p with
  | Text s => NStr s
  | Param nm None => NVar [NStr nm]
  | Param nm (Some d) => NVar [NStr nm; mkseq (cs d)]
  | Call nm args =>
      NTpl (NStr nm)
           (map (fun a : option str * list ast =>
                   match a with
                   | (None, v) => mkseq (map compile v)
                   | (Some k, v) => mkseq (NStr k :: NEq :: map compile v)
                   end) args)
  | If c t e =>
      NIf (strip_ws_node (mkseq (first c)) :: mkseq (cs t) ::
           match e with Some el => [mkseq (cs el)] | None => [] end)
  | IfEq a b t e =>
      NIfEq (mkseq (first a) :: mkseq (cs b) :: mkseq (cs t) ::
             match e with Some el => [mkseq (cs el)] | None => [] end)
  | Switch sc cases d =>
      NSwitch (strip_ws_node (mkseq (first sc)))
              (flat_map (fun kc : list (list ast) * list ast * list ast =>
                           match kc with
                           | (keys, lastk, v) =>
                               map (fun k => mkseq (map compile k)) keys ++
                               [mkseq (map compile lastk ++ NEq :: map compile v)]
                           end) cases
               ++ match d with
                  | Some (true, v) => [mkseq (NStr hash_default :: NEq :: map compile v)]
                  | Some (false, v) => [mkseq (map compile v)]
                  | None => []
                  end)
  end.

Definition compile_body (b : body) : node := mkseq (map compile b).

(* Expander.get_parsed_template for plain lower-case names (no '/', '[[', '|'; DictDB normalisation is the identity) *)
Definition tpl_of (u : universe) (name : str) : option node :=
  match name with
  | [] => None
  | _ => match ulookup u name with Some b => Some (compile_body b) | None => None end
  end.

(* ------------------------------------------------------------------ compile_r: the expected parse when text leaves contain '='
   templ/scanner.py makes every '=' a token of its own; Parser._parse_args (parser.py:137-162), which splits the arguments of
   template calls, #if, #switch and the registered magic nodes (#ifeq), turns EVERY top-level '=' of an argument into
   marks.eqmark.  Elsewhere (page/template top level, parameter defaults: variable_from_children) the token stays an ordinary
   string and optimize() glues it to its neighbours.  `compile_r` differs from `compile` only in that the text leaves at the
   top level of an argument are cut at each '=':  "a = b"  ->  "a " eqmark " b".   (compile_r p = compile p when no argument
   text contains '=': Proofs, compile_r_noeq.) *)
Fixpoint text_pieces (s : str) : list node :=
  match s with
  | [] => []
  | c :: r => if N.eqb c 61 then NEq :: text_pieces r
              else match text_pieces r with
                   | NStr t :: q => NStr (c :: t) :: q
                   | q => NStr [c] :: q
                   end
  end.

(* first argument of a parser function: the text up to the first token after "#if:" is glued to the name token; it is ""
   when the argument starts with '=' or with a brace *)
Definition first_r (ps : list node) : list node :=
  match ps with
  | NStr _ :: _ => ps
  | _ => NStr [] :: ps
  end.

Fixpoint compile_r (p : ast) : node :=
  let cs := fun (l : list ast) => map compile_r l in
  let ab := fun (l : list ast) =>
              flat_map (fun x : ast => match x with Text s => text_pieces s | _ => [compile_r x] end) l in
  match p with
  | Text s => NStr s
  | Param nm None => NVar [NStr nm]
  | Param nm (Some d) => NVar [NStr nm; mkseq (cs d)]
  | Call nm args =>
      NTpl (NStr nm)
           (map (fun a : option str * list ast =>
                   match a with
                   | (None, v) => mkseq (ab v)
                   | (Some k, v) => mkseq (NStr k :: NEq :: ab v)
                   end) args)
  | If c t e =>
      NIf (strip_ws_node (mkseq (first_r (ab c))) :: mkseq (ab t) ::
           match e with Some el => [mkseq (ab el)] | None => [] end)
  | IfEq a b t e =>
      NIfEq (mkseq (first_r (ab a)) :: mkseq (ab b) :: mkseq (ab t) ::
             match e with Some el => [mkseq (ab el)] | None => [] end)
  | Switch sc cases d =>
      NSwitch (strip_ws_node (mkseq (first_r (ab sc))))
              (flat_map (fun kc : list (list ast) * list ast * list ast =>
                           match kc with
                           | (keys, lastk, v) =>
                               map (fun k => mkseq (ab k)) keys ++
                               [mkseq (ab lastk ++ NEq :: ab v)]
                           end) cases
               ++ match d with
                  | Some (true, v) => [mkseq (NStr hash_default :: NEq :: ab v)]
                  | Some (false, v) => [mkseq (ab v)]
                  | None => []
                  end)
  end.

Definition compile_body_r (b : body) : node := mkseq (map compile_r b).

Definition tpl_of_r (u : universe) (name : str) : option node :=
  match name with
  | [] => None
  | _ => match ulookup u name with Some b => Some (compile_body_r b) | None => None end
  end.

Definition impl_expand_r (u : universe) (dn : list str) (limit : nat) (page : body) : res str :=
  expand (tpl_of_r u) (fun _ => false) (fun _ _ => MDone []) dn limit (compile_body_r page).

(* the implementation model instantiated for a universe without magic names *)
Definition impl_flatten (u : universe) (dn : list str) := flatten (tpl_of u) (fun _ => false) (fun _ _ => MDone []) dn.
Definition impl_expand (u : universe) (dn : list str) (limit : nat) (page : body) : res str :=
  expand (tpl_of u) (fun _ => false) (fun _ _ => MDone []) dn limit (compile_body page).
