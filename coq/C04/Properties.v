(* C04 — property theorems for the template language (M1).  The #expr theorems are in ExprProperties.v and
   ExprGenProperties.v.  Each theorem is closed by `exact <lemma>` and followed by Print Assumptions. *)
From Coq Require Import List NArith Bool.
From MW Require Import Common.Str C03.Model C04.Model C04.Proofs.
Import ListNotations.

(* FULL STATEMENT (DESIGN.md C04_eval_correct): for every acyclic universe and every program of the grammar
   Text | Param | Call | #if | #ifeq | #switch, flatten_model (compile p) = eval p.
   PROVED HERE (partial): the same for every universe (cyclic or not) on which the reference semantics is defined
   (`evals n u [] page = Some s` for some fuel n: on acyclic universes that is always the case), for programs WITHOUT
   #switch (`wf` rejects Switch nodes), of any nesting depth: for every recursion limit above a bound L0 the
   model of Expander.expandTemplates on the expected parse `compile_body page` returns exactly the reference value:
   positional arguments untrimmed, named ones trimmed, conditional results trimmed, unbound parameters literal,
   defaults, numeric-aware #ifeq, lazily evaluated arguments bound by position/name.
   MISSING for the full statement: the SwitchNode case (the fast/unresolved tables of nodes.pyx:79-167 against the
   first-matching-case semantics); it is covered by the differential runs C04(a), (b), (b') only.
   `wfl`: grammar characters (no * # : ; | U+EBAD; blanks on which Python strip and PHP trim agree), non-empty
   text leaves with no two adjacent, stripped names of at most 256 KiB, pairwise distinct argument names per call. *)
Theorem C04_eval_correct_partial :
  forall (u : universe) (dn : list str),
  wfu u ->
  forall (n : nat) (page : list ast) (s : str),
  wfl page = true ->
  evals n u [] page = Some s ->
  exists L0, forall limit, (L0 <= limit)%nat -> impl_expand u dn limit page = Ok s.
Proof. exact eval_correct. Qed.
Print Assumptions C04_eval_correct_partial.

(* The same for any sub-program in any environment: `e` binds what `E` binds => compile p flattens to eval p
   (for every large enough budget, at every recursion count), with implicit newlines never firing. *)
Theorem C04_eval_correct_node :
  forall (u : universe) (dn : list str), wfu u ->
  forall n E e p s, env_rel u dn E e -> env_ok E -> wf p = true -> eval n u E p = Some s ->
  flat_to u dn (compile p) e s.
Proof. exact main. Qed.
Print Assumptions C04_eval_correct_node.

(* Text containing no template syntax is returned unchanged — for every string, any universe, any limit *)
Theorem C04_plain_text_identity :
  forall (u : universe) (dn : list str) (limit : nat) (s : str),
  impl_expand u dn limit [Text s] = Ok s /\ forall n E, eval (S n) u E (Text s) = Some s.
Proof. intros u dn limit s. split; [apply plain_text_identity|intros; apply plain_text_reference]. Qed.
Print Assumptions C04_plain_text_identity.

(* "numeric comparison is by value": the reference equality and magics.maybe_numeric_compare coincide *)
Theorem C04_numeric_equality :
  forall a b, num_aware_eq a b = maybe_numeric_compare a b.
Proof. exact num_aware_eq_impl. Qed.
Print Assumptions C04_numeric_equality.

(* non-vacuity: a concrete well-formed universe and page satisfy all hypotheses; both sides compute " a -b{{{y}}}ne" *)
Example C04_example_program :
  wfl ex_page = true /\ wfl (snd (hd ([], []) ex_u)) = true /\
  evals 10 ex_u [] ex_page = Some ex_out /\
  impl_expand ex_u [default_key] 100 ex_page = Ok ex_out.
Proof. exact example_program. Qed.
Print Assumptions C04_example_program.
