(* C04 — property theorems for the template language (M1).  The #expr theorems are in ExprProperties.v and
   ExprGenProperties.v.  Each theorem is closed by `exact <lemma>` and followed by Print Assumptions. *)
From Coq Require Import List NArith Bool.
From Coq Require Import ZArith.
From MW Require Import Common.Str C03.Model C04.Model C04.Proofs C04.ProofsEq C04.ProofsNum C04.ProofsWs.
Import ListNotations.

(* C04_eval_correct (DESIGN.md): for every universe (cyclic or not) on which the reference semantics is defined
   (`evals n u [] page = Some s` for some fuel n) and every program of the grammar
   Text | Param | Call | #if | #ifeq | #switch, of any nesting depth: for every recursion limit above a bound L0 the
   model of Expander.expandTemplates on the expected parse `compile_body page` returns exactly the reference value:
   positional arguments untrimmed, named ones trimmed, conditional results trimmed, unbound parameters literal,
   defaults, numeric-aware #ifeq, lazily evaluated arguments bound by position/name, and #switch: the first case (in
   source order, keys of a fall-through group k1|k2|k3=v included) whose key equals the scrutinee (numeric-aware,
   1.0 = 1), literal keys (SwitchNode.fast, string and numeric entries, first duplicate wins) and computed keys
   (SwitchNode.unresolved, evaluated in order only up to the earliest literal match) alike, else #default in both
   forms (|#default=v and a bare last |v), else "".
   DOMAIN of the reference semantics (`eval` = None outside): template names of the universe only; an argument whose
   value as bound (trimmed if named) exceeds 256 KiB is outside (mwlib raises MemoryLimitError and drops the node,
   evaluate.pyx:151-154; MediaWiki has its own limits).
   `dn_ok dn`: the site's alias list of the magic word "default" contains "#default" and every alias contains '#'.
   `wfl`: grammar characters (no * # : ; | U+EBAD; blanks on which Python strip and PHP trim agree), non-empty
   text leaves with no two adjacent, stripped names of at most 256 KiB, pairwise distinct argument names per call;
   for #switch every key, value, the scrutinee and the default are such bodies (keys may be empty, literal,
   computed, duplicated, numeric), with ONE shape excluded: a case "|=|" whose last key AND value are both empty.
   There the statement is false of the code (C04_switch_empty_case_refuted below). *)
Theorem C04_eval_correct :
  forall (u : universe) (dn : list str),
  wfu u -> dn_ok dn ->
  forall (n : nat) (page : list ast) (s : str),
  wfl page = true ->
  evals n u [] page = Some s ->
  exists L0, forall limit, (L0 <= limit)%nat -> impl_expand u dn limit page = Ok s.
Proof. exact eval_correct. Qed.
Print Assumptions C04_eval_correct.

(* The same for any sub-program in any environment: `e` binds what `E` binds => compile p flattens to eval p
   (for every large enough budget, at every recursion count), with implicit newlines never firing. *)
Theorem C04_eval_correct_node :
  forall (u : universe) (dn : list str), wfu u -> dn_ok dn ->
  forall n E e p s, env_rel u dn E e -> env_ok E -> wf p = true -> eval n u E p = Some s ->
  flat_to u dn (compile p) e s.
Proof. exact main. Qed.
Print Assumptions C04_eval_correct_node.

(* what `wf` asks of a #switch node, spelled out *)
Theorem C04_wf_switch :
  forall sc cases d,
  wf (Switch sc cases d) =
  wfl sc &&
  forallb (fun c : list (list ast) * list ast * list ast =>
             match c with
             | (keys, k, v) => forallb wfl keys && wfl k && wfl v && negb (is_nil k && is_nil v)
             end) cases &&
  match d with Some (_, v) => wfl v | None => true end.
Proof. exact wf_switch. Qed.
Print Assumptions C04_wf_switch.

(* REFUTED for the excluded shape: "{{#switch:=|=|x=Y}}" — the case "|=|" parses to the bare eqmark, which
   evaluate.equal_split (:49-51, a str) returns as a value without key; SwitchNode._init then files it as a
   fall-through key "=" of the next case.  Reference: "" (no key equals "="); mwlib: "Y" at every limit >= 1
   (the real code returns 'Y' too). *)
Theorem C04_switch_empty_case_refuted :
  wfl ex3_page = false /\
  evals 10 [] [] ex3_page = Some [] /\
  forall limit, impl_expand [] [default_key] (S limit) ex3_page = Ok [89%N].
Proof. exact switch_empty_case_refuted. Qed.
Print Assumptions C04_switch_empty_case_refuted.

(* Text containing no template syntax is returned unchanged — for every string, any universe, any limit *)
Theorem C04_plain_text_identity :
  forall (u : universe) (dn : list str) (limit : nat) (s : str),
  impl_expand u dn limit [Text s] = Ok s /\ forall n E, eval (S n) u E (Text s) = Some s.
Proof. exact plain_text_both. Qed.
Print Assumptions C04_plain_text_identity.

(* "numeric comparison is by value": the reference equality and magics.maybe_numeric_compare coincide *)
Theorem C04_numeric_equality :
  forall a b, num_aware_eq a b = maybe_numeric_compare a b.
Proof. exact num_aware_eq_impl. Qed.
Print Assumptions C04_numeric_equality.

(* non-vacuity: a concrete well-formed universe and page satisfy all hypotheses; both sides compute " a -b{{{y}}}ne" *)
Example C04_example_program :
  wfl ex_page = true /\ wfl (snd (hd ([], []) ex_u)) = true /\
  evals 10 ex_u [] ex_page = Some ex_out /\
  impl_expand ex_u [default_key] 100 ex_page = Ok ex_out.
Proof. exact example_program. Qed.
Print Assumptions C04_example_program.

(* non-vacuity with #switch: t2 = "{{#switch:{{{1}}}|a|b=AB|1=one|{{{k}}}=c|#default=D}}" and the page
   "{{t2|a}}{{t2|1.0}}{{t2|zz}}{{t2|q|k=q}}{{#switch:x|y=n| d }}" satisfy all hypotheses; both sides compute
   "ABoneDcd": fall-through group, numeric match 1.0 = 1, #default, computed key, bare last value as default *)
Example C04_example_switch_program :
  wfl ex2_page = true /\ wfl (snd (hd ([], []) ex2_u)) = true /\ dn_ok [default_key] /\
  evals 10 ex2_u [] ex2_page = Some ex2_out /\
  impl_expand ex2_u [default_key] 100 ex2_page = Ok ex2_out.
Proof. exact example_switch_program. Qed.
Print Assumptions C04_example_switch_program.

(* ------------------------------------------------------------------ equals signs inside text (the real parse)
   templ/scanner.py makes every '=' a token; Parser._parse_args turns each top-level '=' of an argument of a template
   call, #if, #ifeq (magic node) and #switch into marks.eqmark.  Model.v `compile_r` is that parse: `compile` with the text
   leaves at the top level of an argument cut at every '=' ("a = b" -> "a ", eqmark, " b"); tie (a) of the check compares
   it with templ.parser.parse on every generated program. *)

(* (1) without '=' in text leaves compile_r is compile: C04_eval_correct is a statement about the real parse for the
   whole grammar of the property. *)
Theorem C04_compile_r_is_compile_without_eq :
  forall p, noeqb p = true -> compile_r p = compile p.
Proof. exact compile_r_noeq. Qed.
Print Assumptions C04_compile_r_is_compile_without_eq.

Theorem C04_templates_without_eq_parse_alike :
  forall u, noequ u -> forall name, tpl_of_r u name = tpl_of u name.
Proof. exact tpl_of_r_noeq. Qed.
Print Assumptions C04_templates_without_eq_parse_alike.

(* (2) C04_eval_correct_eq_text_partial.  FULL STATEMENT (not yet proved):
     forall u dn, wfu' u -> dn_ok dn -> forall n page s, wfl' page = true -> evals n u [] page = Some s ->
     exists L0, forall limit, L0 <= limit -> impl_expand_r u dn limit page = Ok s
   where wfl' is wfl with '=' allowed in every text leaf except at the top level of a positional argument, of a #switch key
   and of a bare #switch default (there '=' is syntax, not text), and the templates of u are parsed by compile_r too.
   PROVED HERE: the same for pages of the grammar `wfq`
       Text (any '=')  |  {{{p|default}}} (default: wfq bodies, '=' allowed)  |  #if  |  #ifeq  (condition, operands and
       branches: wfq bodies, '=' allowed)
       |  {{name| v | k = w }}: positional arguments = wfq bodies without a top-level '=' (with one it IS a named argument),
          named arguments with blanks allowed around the name (bound under the trimmed name, pairwise distinct) and wfq
          bodies as values, whose further '=' are text ("k= b = c" binds k to "b = c")
       |  #switch (and calls) of the old grammar without '=' (wf && noeqb),
   nested to any depth, over a universe of '='-free templates (for which tpl_of_r = tpl_of, theorem above): the model of
   expandTemplates on the real parse returns the reference value - in particular a branch " a = b " of #if/#ifeq comes out as
   "a = b" (trimmed at its two ends only), which is what seeded regression C04-4 breaks.
   The model's evaluate.equal_split is the FIXED one of fixes/C04-equal-split-single-node-argument.diff (an argument that is
   one single #if/#ifeq node is never split; the unfixed code binds 1 = "x" for {{t|{{#if:1|=|x}}}}).
   MISSING for the full statement: '=' in #switch values/scrutinee/#default and inside template bodies (needs the lemmas of
   Proofs.v over tpl_of_r instead of tpl_of). *)
Theorem C04_eval_correct_eq_text_partial :
  forall (u : universe) (dn : list str),
  wfu u -> dn_ok dn ->
  forall (n : nat) (page : list ast) (s : str),
  wql page = true ->
  evals n u [] page = Some s ->
  exists L0, forall limit, (L0 <= limit)%nat -> impl_expand_rp u dn limit page = Ok s.
Proof. exact eval_correct_r. Qed.
Print Assumptions C04_eval_correct_eq_text_partial.

Theorem C04_eval_correct_eq_text_node_partial :
  forall (u : universe) (dn : list str), wfu u -> dn_ok dn ->
  forall n E e p s, env_rel u dn E e -> env_ok E -> wfq p = true -> eval n u E p = Some s ->
  flat_to u dn (compile_r p) e s.
Proof. exact main_r. Qed.
Print Assumptions C04_eval_correct_eq_text_node_partial.

(* non-vacuity: the page  x{{#if: 1 | a = b | no }}{{#ifeq: p=q | p =q | same | l != r }}{{{zz| d = e }}}  is in wfq, contains
   '=' (so compile_r differs from compile on it), and both sides compute "xa = bl != r d = e " *)
Example C04_example_eq_text_program :
  wql exq_page = true /\ noeql exq_page = false /\
  evals 10 [] [] exq_page = Some exq_out /\
  impl_expand_rp [] [default_key] 100 exq_page = Ok exq_out /\
  compile_body_r exq_page <> compile_body exq_page.
Proof. exact example_eq_program. Qed.
Print Assumptions C04_example_eq_text_program.

(* non-vacuity of the Call case: t1 = "[{{{1}}}/{{{k}}}]", page "{{t1|{{#if:1| a = b }}| k = c = d }}" -> "[a = b/c = d]",
   also with the template parsed by compile_r (impl_expand_r) *)
Example C04_example_eq_call_program :
  wql exq2_page = true /\ noeql exq2_page = false /\ wfl (snd (hd ([], []) exq2_u)) = true /\
  evals 10 exq2_u [] exq2_page = Some exq2_out /\
  impl_expand_rp exq2_u [default_key] 100 exq2_page = Ok exq2_out /\
  impl_expand_r exq2_u [default_key] 100 exq2_page = Ok exq2_out.
Proof. exact example_eq_call_program. Qed.
Print Assumptions C04_example_eq_call_program.

(* ------------------------------------------------------------------ numbers by value, exponent notation included *)

(* "numeric comparison is by value" for the spelling int() rejects and float() / PHP is_numeric accept: for EVERY non-empty digit
   string D, every non-empty digit string N and both letters e / E, the reference equality num_aware_eq (used by `eval` for
   #ifeq and #switch) and the model of magics.maybe_numeric_compare both say that  D e N  equals  D followed by (value of N)
   zeros:  1e3 = 1000, 25E2 = 2500, 7e0 = 7, 007e01 = 0070.  (dval s 0 = the integer spelled by the digit string s.) *)
Theorem C04_exponent_numbers_compare_by_value :
  forall (ds : str) (c : N) (es : str),
  all_digits ds = true -> ds <> [] -> (c = 101 \/ c = 69)%N -> all_digits es = true -> es <> [] ->
  num_aware_eq (ds ++ c :: es) (ds ++ repeat 48%N (Z.to_nat (dval es 0))) = true /\
  maybe_numeric_compare (ds ++ c :: es) (ds ++ repeat 48%N (Z.to_nat (dval es 0))) = true.
Proof. exact exponent_number_by_value. Qed.
Print Assumptions C04_exponent_numbers_compare_by_value.

(* the fold of an exponent into (mantissa, fraction digits) preserves the value: scale m f e denotes (m / 10^f) * 10^e
   (num_eqb = equality of the denoted decimal fractions, cross-multiplied) *)
Theorem C04_scale_value_nonneg : forall m f e, (0 <= e)%Z -> num_eqb (scale m f e) ((m * 10 ^ e)%Z, f) = true.
Proof. exact scale_value_nonneg. Qed.
Print Assumptions C04_scale_value_nonneg.

Theorem C04_scale_value_neg : forall m f e, (e < 0)%Z -> scale m f e = (m, (f + Z.to_nat (- e))%nat).
Proof. exact scale_value_neg. Qed.
Print Assumptions C04_scale_value_neg.

(* THE NUMBER GRAMMAR, shape by shape (unsigned part; parse_num strips blanks and handles one leading sign): for all digit
   strings ip, fr, es (dval = the integer spelled), e or E, exponent sign absent / + / -:
     ip                      ->  (dval ip, 0)
     ip . fr   (ip, fr not both empty: "5.", ".5", "2.50")            ->  (all digits as one integer, |fr|)
     ip [eE][+-]?es          ->  scale (dval ip) 0 (+-dval es)          ("1e3", "2E0", "5e-1": rejected by int(), taken by float())
     ip . fr [eE][+-]?es     ->  scale (all digits) |fr| (+-dval es)    ("2.5E+1", ".25e2", "1.e3")
   with C04_scale_value_* giving the denoted value (m / 10^f) * 10^e. *)
Theorem C04_number_grammar_digits : forall ds,
  all_digits ds = true -> ds <> [] -> parse_unsigned ds = Some (dval ds 0, O).
Proof. exact parse_unsigned_digits. Qed.
Print Assumptions C04_number_grammar_digits.

Theorem C04_number_grammar_fraction : forall ip fr,
  all_digits ip = true -> all_digits fr = true -> ip ++ fr <> [] ->
  parse_unsigned (ip ++ 46%N :: fr) = Some (dval fr (dval ip 0), length fr).
Proof. exact parse_unsigned_frac. Qed.
Print Assumptions C04_number_grammar_fraction.

Theorem C04_number_grammar_exponent : forall ip c sg es,
  all_digits ip = true -> ip <> [] -> (c = 101 \/ c = 69)%N -> all_digits es = true -> es <> [] ->
  parse_unsigned (ip ++ exp_str c sg es) = Some (scale (dval ip 0) O (exp_val sg es)).
Proof. exact parse_unsigned_int_exp_gen. Qed.
Print Assumptions C04_number_grammar_exponent.

Theorem C04_number_grammar_fraction_exponent : forall ip fr c sg es,
  all_digits ip = true -> all_digits fr = true -> ip ++ fr <> [] ->
  (c = 101 \/ c = 69)%N -> all_digits es = true -> es <> [] ->
  parse_unsigned (ip ++ 46%N :: fr ++ exp_str c sg es) = Some (scale (dval fr (dval ip 0)) (length fr) (exp_val sg es)).
Proof. exact parse_unsigned_frac_exp. Qed.
Print Assumptions C04_number_grammar_fraction_exponent.

(* non-vacuity / the other shapes of the numeric grammar by computation: 1e3 = 1000, 5e-1 = .5, 2.5E+1 = " 025. ",
   1e3 <> 5e-1; "1e" and "e3" are not numbers (compared as text) *)
Example C04_example_exponent_numbers :
  num_aware_eq s_1e3 s_1000 = true /\ num_aware_eq s_5em1 s_p5 = true /\ num_aware_eq s_25E1 s_025 = true /\
  num_aware_eq s_1e3 s_5em1 = false /\ parse_num s_1e = None /\ parse_num s_e3 = None /\
  num_aware_eq s_1e s_1e = true /\ num_aware_eq s_1e s_e3 = false /\
  maybe_numeric_compare s_5em1 s_p5 = true /\ maybe_numeric_compare s_1e3 s_5em1 = false.
Proof. exact exponent_examples. Qed.
Print Assumptions C04_example_exponent_numbers.

(* ------------------------------------------------------------------ interior white space of compared values (ProofsWs.v)
   Parser._strip_ws (parser.py:105-117, Model.v strip_ws_node) builds the comparison value of #switch and the condition of #if
   from the parsed tuple.  Whatever the tuple is, it returns pre ++ middle ++ post where the middle - every element strictly
   between the first and the last - is kept verbatim and in order, and only the first / the last element may be dropped (when
   it is a white-space-only string): the blank or newline BETWEEN two parameters or calls ({{{1}}} {{{2}}}) is never removed at
   parse time, so C04_eval_correct's trim-at-both-ends semantics is what the parse feeds. *)
Theorem C04_strip_ws_keeps_interior : forall a m z,
  exists pre post,
    strip_ws_node (NSeq (a :: m ++ [z])) = NSeq (pre ++ m ++ post) /\
    (pre = [a] \/ pre = []) /\ (post = [z] \/ post = []).
Proof. exact strip_ws_front_back. Qed.
Print Assumptions C04_strip_ws_keeps_interior.

(* and a tuple whose ends are not white-space-only strings comes back unchanged *)
Theorem C04_strip_ws_identity_without_blank_ends : forall l,
  (match l with NStr s :: _ => is_blank s = false | _ => True end) ->
  (match rev l with NStr s :: _ => is_blank s = false | _ => True end) ->
  strip_ws_node (NSeq l) = NSeq l.
Proof. exact strip_ws_identity. Qed.
Print Assumptions C04_strip_ws_identity_without_blank_ends.

(* non-vacuity on both sides: t2 = "{{#switch: {{{1}}} {{{2}}} |a b=spaced|ab=joined|#default=other}}", t3 = "x", t4 = "y",
   t5 = "{{#switch:{{t3}}<newline>{{t4}}|xy=glued|x<newline>y=apart}}", t6 = "{{#ifeq:{{{1}}} {{{2}}}|a b|same|different}}";
   the page "{{t2|a|b}}/{{t2|ab|}}/{{t2|x|y}}/{{t5}}/{{t6|a|b}}/{{t6|ab|}}" satisfies the hypotheses of C04_eval_correct and both
   the reference semantics and the model of the implementation compute "spaced/joined/other/apart/same/different". *)
Example C04_example_interior_white_space :
  wfl exw_page = true /\ forallb (fun t => wfl (snd t)) exw_u = true /\ dn_ok [default_key] /\
  evals 10 exw_u [] exw_page = Some exw_out /\
  impl_expand exw_u [default_key] 100 exw_page = Ok exw_out.
Proof. exact example_interior_ws_program. Qed.
Print Assumptions C04_example_interior_white_space.

(* Why the interior matters (refutation of the simplification "delete every white-space-only string of the tuple"): for
   t5 = {{#switch:{{t3}}<newline>{{t4}}|xy=glued|x<newline>y=apart}} (t3 = x, t4 = y) the parse with the real helper is what `compile`
   says, the reference semantics and the model of the implementation return "apart", and the same model on the parse with the
   simplified helper returns "glued": a parser that drops interior white space violates C04 (found concretely by the check's
   ws_family / gen_seq programs on the real code). *)
Theorem C04_strip_every_blank_string_refuted :
  swap_value strip_ws_node (compile exw_switch) = compile exw_switch /\
  evals 10 exw_u [] [exw_switch] = Some [97;112;97;114;116]%N /\
  expand (tpl_of exw_u) (fun _ => false) (fun _ _ => MDone []) [default_key] 100 (compile exw_switch) = Ok [97;112;97;114;116]%N /\
  expand (tpl_of exw_u) (fun _ => false) (fun _ _ => MDone []) [default_key] 100 (swap_value strip_ws_all_node (compile exw_switch))
    = Ok [103;108;117;101;100]%N.
Proof. exact strip_all_blank_strings_refuted. Qed.
Print Assumptions C04_strip_every_blank_string_refuted.
