From Coq Require Import Extraction ExtrOcamlBasic.
From MW Require Import Common.Str C03.Model C04.Model.
Extraction "../ocaml/c04/c04_model.ml" evals compile_body impl_expand compile_body_r impl_expand_r num_aware_eq trim.
