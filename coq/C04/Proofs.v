(* C04 — the implementation model (C03/Model.v flatten on `compile p`) computes the reference semantics `eval`. *)
From Coq Require Import List NArith ZArith Bool Lia Arith.
From MW Require Import Common.Str C03.Model C03.Proofs C04.Model C04.ProofsSwitch.
Import ListNotations.

(* ------------------------------------------------------------------ characters and strings of the grammar *)

Definition badc (c : N) : bool := existsb (N.eqb c) [42;35;58;59;124;60333]%N.
(* a grammar character: not one of * # : ; | U+EBAD, and whitespace for Python iff whitespace for PHP trim *)
Definition okc (c : N) : bool := negb (badc c) && Bool.eqb (is_ws c) (php_ws c).
Definition okstr (s : str) : bool := forallb okc s.
Definition okp (p : piece) : Prop := okstr (piece_str p) = true.

Lemma okstr_app a b : okstr (a ++ b) = okstr a && okstr b.
Proof. unfold okstr. apply forallb_app. Qed.

Lemma okstr_rev a : okstr (rev a) = okstr a.
Proof.
  induction a as [|x a IH]; [reflexivity|]. cbn [rev]. rewrite okstr_app, IH. cbn [okstr forallb].
  rewrite andb_true_r. apply andb_comm.
Qed.

Lemma lstrip_by_ok p s : okstr s = true -> okstr (lstrip_by p s) = true.
Proof.
  induction s as [|x s IH]; intros H; cbn [lstrip_by]; [reflexivity|].
  destruct (p x); [|exact H]. apply IH. cbn [okstr forallb] in H. apply andb_true_iff in H. apply H.
Qed.

Lemma strip_by_ok p s : okstr s = true -> okstr (strip_by p s) = true.
Proof.
  intros H. unfold strip_by. rewrite okstr_rev. apply lstrip_by_ok. rewrite okstr_rev. apply lstrip_by_ok. exact H.
Qed.

Lemma lstrip_by_ext p q s : (forall c, In c s -> p c = q c) -> lstrip_by p s = lstrip_by q s.
Proof.
  induction s as [|x s IH]; intros H; cbn [lstrip_by]; [reflexivity|].
  rewrite <- (H x) by (left; reflexivity). destruct (p x); [|reflexivity].
  apply IH. intros c Hc. apply H. right. exact Hc.
Qed.

Lemma lstrip_by_incl p s c : In c (lstrip_by p s) -> In c s.
Proof.
  induction s as [|x s IH]; cbn [lstrip_by]; [tauto|]. destruct (p x); [|tauto]. intros H. right. apply IH. exact H.
Qed.

Lemma strip_by_ext p q s : (forall c, In c s -> p c = q c) -> strip_by p s = strip_by q s.
Proof.
  intros H. unfold strip_by. rewrite (lstrip_by_ext p q s H). f_equal.
  apply lstrip_by_ext. intros c Hc. apply H. apply in_rev in Hc. eapply lstrip_by_incl. exact Hc.
Qed.

Lemma okstr_ws_agree s : okstr s = true -> forall c, In c s -> is_ws c = php_ws c.
Proof.
  unfold okstr. rewrite forallb_forall. intros H c Hc. specialize (H c Hc). unfold okc in H.
  apply andb_true_iff in H as [_ H]. apply eqb_prop in H. exact H.
Qed.

(* on grammar strings Python's strip() and PHP's trim() coincide *)
Lemma strip_trim s : okstr s = true -> strip s = trim s.
Proof. intros H. apply strip_by_ext. apply okstr_ws_agree. exact H. Qed.

Lemma okstr_not_ebad s : okstr s = true -> forall c, In c s -> N.eqb 60333 c = false.
Proof.
  unfold okstr. rewrite forallb_forall. intros H c Hc. specialize (H c Hc). unfold okc in H.
  apply andb_true_iff in H as [H _]. apply negb_true_iff in H. unfold badc in H. cbn [existsb] in H.
  repeat (apply orb_false_iff in H as [? H]).
  destruct (N.eqb_spec 60333 c) as [<-|]; [|reflexivity]. discriminate.
Qed.

Lemma lstrip_none p s : (forall c, In c s -> p c = false) -> lstrip_by p s = s.
Proof. destruct s as [|x s]; intros H; cbn [lstrip_by]; [reflexivity|]. rewrite H by (left; reflexivity). reflexivity. Qed.

Lemma strip_ebad_id s : okstr s = true -> strip_ebad s = s.
Proof.
  intros H. unfold strip_ebad, strip_by.
  rewrite (lstrip_none _ s) by (apply okstr_not_ebad; exact H).
  rewrite lstrip_none; [apply rev_involutive|].
  intros c Hc. apply in_rev in Hc. revert c Hc. apply okstr_not_ebad. exact H.
Qed.

(* ------------------------------------------------------------------ stripping and blank edges *)

Lemma lstrip_all p s : forallb p s = true -> lstrip_by p s = [].
Proof. induction s as [|x s IH]; cbn; [reflexivity|]. destruct (p x); [exact IH|discriminate]. Qed.

Lemma lstrip_app_all p a x : forallb p a = true -> lstrip_by p (a ++ x) = lstrip_by p x.
Proof. induction a as [|c a IH]; cbn; [reflexivity|]. destruct (p c); [exact IH|discriminate]. Qed.

Lemma lstrip_nil_all p s : lstrip_by p s = [] -> forallb p s = true.
Proof. induction s as [|x s IH]; cbn; [reflexivity|]. destruct (p x); [exact IH|discriminate]. Qed.

Lemma forallb_rev {A} (p : A -> bool) l : forallb p (rev l) = forallb p l.
Proof.
  induction l as [|x l IH]; [reflexivity|]. cbn [rev]. rewrite forallb_app, IH. cbn. rewrite andb_true_r. apply andb_comm.
Qed.

Lemma lstrip_split p s : exists a, s = a ++ lstrip_by p s /\ forallb p a = true.
Proof.
  induction s as [|x s [a [IH1 IH2]]]; [exists []; split; reflexivity|]. cbn [lstrip_by].
  destruct (p x) eqn:E; [|exists []; split; reflexivity].
  exists (x :: a). split; [cbn; congruence|]. cbn. rewrite E. exact IH2.
Qed.

Lemma strip_nil_all p s : strip_by p s = [] -> forallb p s = true.
Proof.
  unfold strip_by. intros H. assert (H1 : lstrip_by p (rev (lstrip_by p s)) = []).
  { destruct (lstrip_by p (rev (lstrip_by p s))) as [|y l]; [reflexivity|]. cbn [rev] in H.
    apply app_eq_nil in H as [_ H]. discriminate. }
  apply lstrip_nil_all in H1. rewrite forallb_rev in H1.
  destruct (lstrip_split p s) as [a [Ha1 Ha2]]. rewrite Ha1, forallb_app, Ha2, H1. reflexivity.
Qed.

Lemma strip_blank_prefix p a x : forallb p a = true -> strip_by p (a ++ x) = strip_by p x.
Proof. intros H. unfold strip_by. rewrite lstrip_app_all by exact H. reflexivity. Qed.

Lemma lstrip_app_some p x a : lstrip_by p x <> [] -> lstrip_by p (x ++ a) = lstrip_by p x ++ a.
Proof.
  induction x as [|c x IH]; cbn; [congruence|]. destruct (p c); [exact IH|reflexivity].
Qed.

Lemma strip_blank_suffix p x a : forallb p a = true -> strip_by p (x ++ a) = strip_by p x.
Proof.
  intros H. unfold strip_by.
  destruct (lstrip_by p x) eqn:E.
  - apply lstrip_nil_all in E. rewrite (lstrip_all p (x ++ a)) by (rewrite forallb_app, E, H; reflexivity). reflexivity.
  - rewrite lstrip_app_some by (rewrite E; discriminate). rewrite E.
    rewrite rev_app_distr. rewrite lstrip_app_all by (rewrite forallb_rev; exact H). reflexivity.
Qed.

Lemma strip_by_idem p s : strip_by p (strip_by p s) = strip_by p s.
Proof.
  unfold strip_by at 1.
  assert (H1 : lstrip_by p (strip_by p s) = strip_by p s).
  { unfold strip_by. set (t := lstrip_by p s).
    assert (Ht : t = [] \/ exists c r, t = c :: r /\ p c = false).
    { subst t. induction s as [|c s IH]; cbn; [left; reflexivity|]. destruct (p c) eqn:E; [exact IH|right; eauto]. }
    destruct Ht as [->|(c & r & -> & Hc)]; [reflexivity|].
    cbn [rev]. set (w := lstrip_by p (rev r ++ [c])).
    assert (Hw : exists r', w = r' ++ [c]).
    { subst w. induction (rev r) as [|y l IH]; cbn; [rewrite Hc; exists []; reflexivity|].
      destruct (p y); [exact IH|]. exists (y :: l). reflexivity. }
    destruct Hw as [r' ->]. rewrite rev_app_distr. cbn. rewrite Hc. reflexivity. }
  rewrite H1. unfold strip_by at 2.
  set (t := lstrip_by p s). set (w := lstrip_by p (rev t)).
  assert (Hw : lstrip_by p w = w).
  { subst w. induction (rev t) as [|y l IH]; cbn; [reflexivity|]. destruct (p y) eqn:E; [exact IH|]. cbn. rewrite E. reflexivity. }
  unfold strip_by. fold t. fold w. rewrite rev_involutive, Hw. reflexivity.
Qed.

(* ------------------------------------------------------------------ pieces: implicit newlines never fire on grammar text *)

Lemma okc_not c : okc c = true ->
  N.eqb c 42 = false /\ N.eqb c 35 = false /\ N.eqb c 58 = false /\ N.eqb c 59 = false /\ N.eqb c 124 = false.
Proof.
  unfold okc, badc. cbn [existsb]. intros H. apply andb_true_iff in H as [H _]. apply negb_true_iff in H.
  repeat (apply orb_false_iff in H as [? H]). repeat split; assumption.
Qed.

Lemma implicit_nl_ok t : okstr t = true -> implicit_nl t = false.
Proof.
  destruct t as [|c r]; [reflexivity|]. cbn [okstr forallb implicit_nl]. intros H.
  apply andb_true_iff in H as [Hc Hr]. destruct (okc_not c Hc) as (-> & -> & -> & -> & _). cbn [orb].
  destruct r as [|d r]; [apply andb_false_r|]. cbn [forallb] in Hr. apply andb_true_iff in Hr as [Hd _].
  destruct (okc_not d Hd) as (_ & _ & _ & _ & ->). apply andb_false_r.
Qed.

Lemma okp_mark : okp PMark. Proof. reflexivity. Qed.
Lemma okp_mnl : okp PMaybeNL. Proof. reflexivity. Qed.

Lemma nl_decision_ok rest : Forall okp rest -> nl_decision rest = false.
Proof.
  intros H. unfold nl_decision.
  assert (H1 : okp (next1 rest)) by (destruct H; [apply okp_mark|assumption]).
  assert (H2 : okp (next2 rest)).
  { destruct H as [|x l Hx Hl]; [apply okp_mark|]. destruct Hl; [apply okp_mark|assumption]. }
  destruct (is_mark (next1 rest)); [reflexivity|].
  destruct (2 <=? length (piece_str (next1 rest)))%nat.
  - apply implicit_nl_ok. exact H1.
  - apply implicit_nl_ok. rewrite okstr_app. unfold okp in H1, H2. rewrite H1, H2. reflexivity.
Qed.

Lemma inl_ok ps : Forall okp ps -> forall i0 p, inl i0 p ps = ps.
Proof.
  induction 1 as [|x l Hx Hl IH]; intros i0 p; cbn [inl]; [reflexivity|].
  destruct x; try (rewrite IH; reflexivity).
  destruct (negb i0 && p); [rewrite IH; reflexivity|].
  rewrite nl_decision_ok by exact Hl. rewrite IH. reflexivity.
Qed.

Lemma join_nl_ok ps : Forall okp ps -> join_nl ps = pjoin ps.
Proof. intros H. unfold join_nl. rewrite inl_ok by exact H. reflexivity. Qed.

Lemma pjoin_app a b : pjoin (a ++ b) = pjoin a ++ pjoin b.
Proof. unfold pjoin. rewrite map_app, concat_app. reflexivity. Qed.

Lemma okp_join ps : Forall okp ps -> okstr (pjoin ps) = true.
Proof.
  induction 1 as [|x l Hx Hl IH]; [reflexivity|]. change (pjoin (x :: l)) with (piece_str x ++ pjoin l).
  rewrite okstr_app, IH. unfold okp in Hx. rewrite Hx. reflexivity.
Qed.

(* ------------------------------------------------------------------ the implementation model on a universe *)

Section Impl.
  Variable u : universe.
  Variable dn : list str.
  Notation FL := (impl_flatten u dn).

  Lemma FL_str b c n e s : node_as_str n = Some s -> FL b c n e = Ok [PS s].
  Proof. apply flatten_str. Qed.

  Lemma FL_step b c n e ps :
    node_as_str n = None ->
    node_body (tpl_of u) (fun _ => false) (fun _ _ => MDone []) dn (FL b (S c)) (FL b (S c)) n e = Ok ps ->
    FL (S b) c n e = Ok ps.
  Proof. intros Hn H. unfold impl_flatten. rewrite flatten_step by exact Hn. unfold impl_flatten in H. rewrite H. reflexivity. Qed.

  (* `n` flattens (for every large enough budget, at every recursion count) to grammar pieces whose join is s *)
  Definition flat_to (n : node) (e : env) (s : str) : Prop :=
    exists b0, forall b c, (b0 <= b)%nat -> exists ps, FL b c n e = Ok ps /\ pjoin ps = s /\ Forall okp ps.

  Lemma flat_to_str s e : okstr s = true -> flat_to (NStr s) e s.
  Proof.
    intros H. exists 0%nat. intros b c _. exists [PS s]. split; [apply FL_str; reflexivity|].
    split; [apply app_nil_r|]. constructor; [exact H|constructor].
  Qed.

  Lemma flat_to_str_inv n s0 e s : node_as_str n = Some s0 -> flat_to n e s -> s = s0 /\ okstr s0 = true.
  Proof.
    intros Hn [b0 H]. destruct (H b0 0%nat (le_n _)) as (ps & H1 & H2 & H3).
    rewrite (FL_str _ _ _ _ _ Hn) in H1. inversion H1; subst ps. cbn in H2. rewrite app_nil_r in H2.
    split; [symmetry; exact H2|]. inversion H3; assumption.
  Qed.

  Lemma flat_to_step n e s :
    node_as_str n = None ->
    (exists b0, forall b c, (b0 <= b)%nat -> exists ps,
        node_body (tpl_of u) (fun _ => false) (fun _ _ => MDone []) dn (FL b (S c)) (FL b (S c)) n e = Ok ps
        /\ pjoin ps = s /\ Forall okp ps) ->
    flat_to n e s.
  Proof.
    intros Hn [b0 H]. exists (S b0). intros b c Hb. destruct b as [|b]; [lia|].
    destruct (H b c ltac:(lia)) as (ps & H1 & H2 & H3). exists ps. split; [|split; assumption].
    apply FL_step; assumption.
  Qed.

  Definition flats (xs : list node) (e : env) (ss : list str) : Prop := Forall2 (fun x s => flat_to x e s) xs ss.

  Lemma flat_list_ok xs e ss :
    flats xs e ss ->
    exists b0, forall b c, (b0 <= b)%nat -> exists ps,
      flat_list (FL b c) e xs = Ok ps /\ pjoin ps = concat ss /\ Forall okp ps.
  Proof.
    induction 1 as [|x s xs ss [bx Hx] Hl [bl IH]].
    - exists 0%nat. intros b c _. exists []. repeat split. constructor.
    - exists (Nat.max bx bl). intros b c Hb. cbn [flat_list].
      destruct (Hx b c ltac:(lia)) as (ps & H1 & H2 & H3).
      destruct (IH b c ltac:(lia)) as (qs & G1 & G2 & G3).
      rewrite H1, G1. exists (ps ++ qs). split; [reflexivity|]. split.
      + rewrite pjoin_app, H2, G2. reflexivity.
      + apply Forall_app. split; assumption.
  Qed.

  Lemma flat_to_seq xs e ss : flats xs e ss -> flat_to (NSeq xs) e (concat ss).
  Proof.
    intros H. apply flat_to_step; [reflexivity|]. destruct (flat_list_ok _ _ _ H) as [b0 H0].
    exists b0. intros b c Hb. cbn [node_body]. apply H0. exact Hb.
  Qed.

  Lemma flat_to_mkseq xs e ss : merge_strs xs = xs -> flats xs e ss -> flat_to (mkseq xs) e (concat ss).
  Proof.
    intros Hm H. unfold mkseq. rewrite Hm.
    destruct xs as [|x [|y xs]].
    - apply flat_to_seq. exact H.
    - inversion H as [|? s ? ss' Hx Hn]; subst. inversion Hn; subst. cbn [concat]. rewrite app_nil_r. exact Hx.
    - apply flat_to_seq. exact H.
  Qed.
End Impl.

(* ------------------------------------------------------------------ well-formed programs of the grammar *)

Definition name_okb (s : str) : bool := okstr s && str_eqb (strip s) s && negb (too_long s).
Definition is_text (p : ast) : bool := match p with Text _ => true | _ => false end.
Definition is_nil {A} (l : list A) : bool := match l with [] => true | _ => false end.

Fixpoint no_adj (l : list ast) : bool :=
  match l with
  | x :: r => match r with
              | y :: _ => negb (is_text x && is_text y) && no_adj r
              | [] => true
              end
  | [] => true
  end.

Fixpoint eff_names (args : list (option str * list ast)) (i : N) : list str :=
  match args with
  | [] => []
  | (None, _) :: r => decimal i :: eff_names r (i + 1)%N
  | (Some k, _) :: r => k :: eff_names r i
  end.

Fixpoint nodupb (l : list str) : bool :=
  match l with [] => true | x :: r => negb (existsb (str_eqb x) r) && nodupb r end.

(* the fragment covered by the proof: the property's grammar.  #switch: every key, value and the scrutinee are
   well-formed bodies; a case `k1|..|kn=v` with BOTH kn and v empty ("|=|") is excluded: its expected parse is the bare
   eqmark, which evaluate.equal_split (a str) treats as a value without key. *)
Fixpoint wf (p : ast) : bool :=
  let wfl := fun l : list ast => no_adj l && forallb wf l in
  let wfo := fun o : option (list ast) => match o with Some l => wfl l | None => true end in
  match p with
  | Text s => okstr s && negb (is_nil s)
  | Param nm d => name_okb nm && wfo d
  | Call nm args =>
      name_okb nm && negb (is_nil nm) &&
      forallb (fun a : option str * list ast =>
                 match a with
                 | (None, v) => wfl v
                 | (Some k, v) => name_okb k && wfl v
                 end) args &&
      nodupb (eff_names args 1%N)
  | If c t e => wfl c && wfl t && wfo e
  | IfEq a b t e => wfl a && wfl b && wfl t && wfo e
  | Switch sc cases d =>
      wfl sc &&
      forallb (fun c : list (list ast) * list ast * list ast =>
                 match c with
                 | (keys, k, v) => forallb wfl keys && wfl k && wfl v && negb (is_nil k && is_nil v)
                 end) cases &&
      match d with Some (_, v) => wfl v | None => true end
  end.
Definition wfl (l : list ast) : bool := no_adj l && forallb wf l.
Definition wfo (o : option (list ast)) : bool := match o with Some l => wfl l | None => true end.
Definition wfu (u : universe) : Prop := forall name b, ulookup u name = Some b -> wfl b = true.

Definition sw_case := (list (list ast) * list ast * list ast)%type.
Definition wf_case (c : sw_case) : bool :=
  match c with (keys, k, v) => forallb wfl keys && wfl k && wfl v && negb (is_nil k && is_nil v) end.
Definition wfd (d : option (bool * list ast)) : bool := match d with Some (_, v) => wfl v | None => true end.

Lemma wf_switch sc cases d : wf (Switch sc cases d) = wfl sc && forallb wf_case cases && wfd d.
Proof. reflexivity. Qed.

(* the site's aliases of the magic word "default" (aliasmap.get_aliases("default") or ["#default"]): "#default" is one
   of them and every alias contains '#' (as all of MediaWiki's localised names of #default do) *)
Definition dn_ok (dn : list str) : Prop := In default_key dn /\ forall a, In a dn -> In 35%N a.

Lemma hash_not_ok a : In 35%N a -> okstr a = false.
Proof.
  induction a as [|c a IH]; intros H; [destruct H|]. cbn [okstr forallb]. destruct H as [->|H]; [reflexivity|].
  fold (okstr a). rewrite IH by exact H. apply andb_false_r.
Qed.

Lemma name_okb_spec s : name_okb s = true -> okstr s = true /\ strip s = s /\ too_long s = false.
Proof.
  unfold name_okb. intros H. apply andb_true_iff in H as [H H3]. apply andb_true_iff in H as [H1 H2].
  apply str_eqb_spec in H2. apply negb_true_iff in H3. auto.
Qed.

(* ------------------------------------------------------------------ facts about compile *)

Lemma compile_text s : compile (Text s) = NStr s. Proof. reflexivity. Qed.

Lemma compile_nonstr x : is_text x = false -> node_as_str (compile x) = None /\ is_eq (compile x) = false.
Proof. destruct x as [s|nm [d|]|nm args|c t e|a b t e|sc cs d]; cbn; intros H; try discriminate; split; reflexivity. Qed.

Lemma compile_noeq x : is_eq (compile x) = false.
Proof. destruct x as [s|nm [d|]|nm args|c t e|a b t e|sc cs d]; reflexivity. Qed.

Lemma merge_cons_nonstr n r : node_as_str n = None -> merge_strs (n :: r) = n :: merge_strs r.
Proof. destruct n; cbn [node_as_str]; intros H; try discriminate; reflexivity. Qed.

Lemma merge_compile l : no_adj l = true -> merge_strs (map compile l) = map compile l.
Proof.
  induction l as [|x r IH]; intros H; [reflexivity|].
  assert (Hr : no_adj r = true).
  { cbn [no_adj] in H. destruct r; [reflexivity|]. apply andb_true_iff in H. apply H. }
  specialize (IH Hr). cbn [map].
  destruct (is_text x) eqn:Ex.
  - destruct x; try discriminate. cbn [compile merge_strs]. fold (map compile r). rewrite IH.
    destruct r as [|y r']; [reflexivity|]. cbn [no_adj] in H. apply andb_true_iff in H as [H _].
    cbn [is_text andb] in H. apply negb_true_iff in H. cbn [map].
    destruct (compile_nonstr y H) as [Hy _]. destruct (compile y); cbn [node_as_str] in Hy; try discriminate; reflexivity.
  - rewrite merge_cons_nonstr by (apply compile_nonstr; exact Ex). rewrite IH. reflexivity.
Qed.

Lemma split_eq_compile l : split_eq (map compile l) = None.
Proof. induction l as [|x l IH]; [reflexivity|]. cbn [map split_eq]. rewrite compile_noeq, IH. reflexivity. Qed.

Definition first_of (l : list ast) : list node :=
  match l with
  | Text s :: r => NStr s :: map compile r
  | _ => NStr [] :: map compile l
  end.

Lemma merge_first_of l : no_adj l = true -> merge_strs (first_of l) = first_of l.
Proof.
  intros H. destruct l as [|x r]; [reflexivity|].
  destruct (is_text x) eqn:Ex.
  - destruct x; try discriminate. change (first_of (Text s :: r)) with (map compile (Text s :: r)). apply merge_compile. exact H.
  - assert (Hf : first_of (x :: r) = NStr [] :: map compile (x :: r)) by (destruct x; try discriminate; reflexivity).
    rewrite Hf. cbn [merge_strs]. rewrite merge_compile by exact H. cbn [map].
    destruct (compile_nonstr x Ex) as [Hx _]. destruct (compile x); cbn [node_as_str] in Hx; try discriminate; reflexivity.
Qed.

(* ------------------------------------------------------------------ reference-side helpers *)

Lemma ocat_forall2 {A} (f : A -> option str) (l : list A) s :
  ocat (map f l) = Some s -> exists ss, Forall2 (fun x sx => f x = Some sx) l ss /\ concat ss = s.
Proof.
  revert s. induction l as [|x l IH]; intros s H; cbn [map ocat] in H.
  - inversion H. exists []. split; [constructor|reflexivity].
  - destruct (f x) as [sx|] eqn:Ex; [|discriminate]. destruct (ocat (map f l)) as [t|] eqn:El; [|discriminate].
    inversion H; subst. destruct (IH t eq_refl) as (ss & H1 & H2). exists (sx :: ss). split; [constructor; assumption|].
    cbn [concat]. rewrite H2. reflexivity.
Qed.

Lemma num_aware_eq_impl a b : num_aware_eq a b = maybe_numeric_compare a b.
Proof.
  unfold num_aware_eq, maybe_numeric_compare.
  destruct (parse_num a) as [x|] eqn:Ea; destruct (parse_num b) as [y|] eqn:Eb; try (rewrite orb_false_r; reflexivity).
  destruct (str_eqb a b) eqn:E; [|reflexivity]. apply str_eqb_spec in E. subst b. rewrite Ea in Eb. inversion Eb; subst y.
  cbn [orb]. unfold num_eqb. destruct x as [m f]. apply Z.eqb_refl.
Qed.

Lemma rlookup_none E name : (forall v : str, In (name, v) E -> True) -> existsb (str_eqb name) (map fst E) = false -> rlookup E name = None.
Proof.
  intros _. induction E as [|[n v] E IH]; [reflexivity|]. cbn [map fst existsb rlookup]. intros H.
  apply orb_false_iff in H as [H1 H2]. rewrite IH by exact H2.
  destruct (str_eqb n name) eqn:E1; [|reflexivity]. apply str_eqb_spec in E1. subst n. rewrite str_eqb_refl in H1. discriminate.
Qed.

Lemma rlookup_none' E name : existsb (str_eqb name) (map fst E) = false -> rlookup E name = None.
Proof. apply rlookup_none. intros v H. exact I. Qed.

Lemma eval_S n u E p :
  eval (S n) u E p =
  match p with
  | Text s => Some s
  | Param nm d =>
      match rlookup E nm with
      | Some v => Some v
      | None => match d with Some dl => evals n u E dl | None => Some (open3 ++ nm ++ close3) end
      end
  | Call nm args =>
      match ulookup u nm with
      | None => None
      | Some b => match bind_args (evals n u E) args 1%N with
                  | None => None
                  | Some E' => evals n u E' b
                  end
      end
  | If c t e =>
      match evals n u E c with
      | None => None
      | Some cs => match trim cs with
                   | _ :: _ => otrim (evals n u E t)
                   | [] => match e with Some el => otrim (evals n u E el) | None => Some [] end
                   end
      end
  | IfEq a b t e =>
      match evals n u E a, evals n u E b with
      | Some sa, Some sb =>
          if num_aware_eq (trim sa) (trim sb) then otrim (evals n u E t)
          else match e with Some el => otrim (evals n u E el) | None => Some [] end
      | _, _ => None
      end
  | Switch sc cases d =>
      match evals n u E sc with
      | None => None
      | Some s0 =>
          match first_case (evals n u E) (trim s0) cases with
          | None => None
          | Some (Some v) => otrim (evals n u E v)
          | Some None => match d with Some (_, v) => otrim (evals n u E v) | None => Some [] end
          end
      end
  end.
Proof. destruct p; reflexivity. Qed.

Definition carg (a : option str * list ast) : node :=
  match a with
  | (None, v) => mkseq (map compile v)
  | (Some k, v) => mkseq (NStr k :: NEq :: map compile v)
  end.

Lemma compile_call nm args : compile (Call nm args) = NTpl (NStr nm) (map carg args).
Proof. reflexivity. Qed.

Lemma compile_if c t e :
  compile (If c t e) = NIf (strip_ws_node (mkseq (first_of c)) :: mkseq (map compile t) ::
                            match e with Some el => [mkseq (map compile el)] | None => [] end).
Proof. destruct c as [|[] ?]; reflexivity. Qed.

Lemma compile_ifeq a b t e :
  compile (IfEq a b t e) = NIfEq (mkseq (first_of a) :: mkseq (map compile b) :: mkseq (map compile t) ::
                                  match e with Some el => [mkseq (map compile el)] | None => [] end).
Proof. destruct a as [|[] ?]; reflexivity. Qed.

Lemma carg_named k v : no_adj v = true -> carg (Some k, v) = NSeq (NStr k :: NEq :: map compile v).
Proof.
  intros H. unfold carg, mkseq. cbn [merge_strs]. rewrite merge_compile by exact H. reflexivity.
Qed.

Lemma merge_noeq l : Forall (fun n => is_eq n = false) l -> Forall (fun n => is_eq n = false) (merge_strs l).
Proof.
  induction 1 as [|x l Hx Hl IH]; [constructor|].
  destruct x; cbn [merge_strs]; try (constructor; assumption).
  destruct (merge_strs l) as [|[] r]; try (constructor; [reflexivity|assumption]).
  inversion IH; subst. constructor; [reflexivity|assumption].
Qed.

Lemma mkseq_noeq l : Forall (fun n => is_eq n = false) l -> is_eq (mkseq l) = false.
Proof.
  intros H. unfold mkseq. destruct l as [|x [|y r]].
  - reflexivity.
  - inversion H; assumption.
  - apply merge_noeq in H. destruct (merge_strs (x :: y :: r)) as [|a [|b r']]; try reflexivity. inversion H; assumption.
Qed.

Lemma map_compile_noeq l : Forall (fun n => is_eq n = false) (map compile l).
Proof. induction l; cbn [map]; constructor; [apply compile_noeq|assumption]. Qed.

Lemma first_of_noeq l : Forall (fun n => is_eq n = false) (first_of l).
Proof.
  destruct l as [|x r]; [repeat constructor|].
  destruct x; cbn [first_of]; constructor; try reflexivity; try apply map_compile_noeq.
  all: change (Forall (fun n => is_eq n = false) (map compile (_ :: r))); apply map_compile_noeq.
Qed.

Lemma strip_ws_noeq n : is_eq n = false -> is_eq (strip_ws_node n) = false.
Proof. destruct n; cbn; intros H; try reflexivity; try exact H. Qed.

Lemma split_eq_noeq l : Forall (fun n => is_eq n = false) l -> split_eq l = None.
Proof. induction 1 as [|x l Hx Hl IH]; [reflexivity|]. cbn [split_eq]. rewrite Hx, IH. reflexivity. Qed.

Lemma equal_split_compile x : equal_split (compile x) = (None, compile x).
Proof.
  (* equal_split only looks inside a plain sequence (NSeq); compile x is a single node, never an NSeq *)
  destruct x as [s|nm [d|]|nm args|c t e|a b t e|sc cs d]; reflexivity.
Qed.

Lemma equal_split_body v : no_adj v = true -> equal_split (mkseq (map compile v)) = (None, mkseq (map compile v)).
Proof.
  intros H. unfold mkseq. rewrite merge_compile by exact H.
  destruct v as [|x [|y r]].
  - reflexivity.
  - cbn [map]. apply equal_split_compile.
  - cbn [map]. unfold equal_split. change (compile x :: compile y :: map compile r) with (map compile (x :: y :: r)).
    rewrite split_eq_compile. reflexivity.
Qed.

(* ------------------------------------------------------------------ #switch: the expected parse and SwitchNode._init *)

Definition case_args (c : sw_case) : list node :=
  match c with
  | (keys, lastk, v) => map compile_body keys ++ [mkseq (map compile lastk ++ NEq :: map compile v)]
  end.
Definition dflt_args (d : option (bool * list ast)) : list node :=
  match d with
  | Some (true, v) => [mkseq (NStr hash_default :: NEq :: map compile v)]
  | Some (false, v) => [compile_body v]
  | None => []
  end.

Lemma compile_switch sc cases d :
  compile (Switch sc cases d) = NSwitch (strip_ws_node (mkseq (first_of sc))) (flat_map case_args cases ++ dflt_args d).
Proof. destruct sc as [|[] ?]; reflexivity. Qed.

(* the cases as one list of (key, value) in source order; fall-through keys get the value of their group *)
Definition case_kvs (c : sw_case) : list (list ast * list ast) :=
  match c with (keys, k, v) => map (fun k' => (k', v)) (keys ++ [k]) end.
Definition kvs_ast (cases : list sw_case) : list (list ast * list ast) := flat_map case_kvs cases.
Definition KVn (kvs : list (list ast * list ast)) : list (node * node) :=
  map (fun kv => (compile_body (fst kv), compile_body (snd kv))) kvs.
Definition dflt_kv (d : option (bool * list ast)) : list (node * node) :=
  match d with Some (_, v) => [(NStr default_key, compile_body v)] | None => [] end.

Fixpoint first_kv (ev : list ast -> option str) (s : str) (kvs : list (list ast * list ast)) : option (option (list ast)) :=
  match kvs with
  | [] => Some None
  | (k, v) :: r => match ev k with
                   | None => None
                   | Some ks => if num_aware_eq (trim ks) s then Some (Some v) else first_kv ev s r
                   end
  end.

Lemma first_kv_group ev s v keys R :
  first_kv ev s (map (fun k' => (k', v)) keys ++ R) =
  match any_key ev s keys with
  | None => None
  | Some true => Some (Some v)
  | Some false => first_kv ev s R
  end.
Proof.
  induction keys as [|k keys IH]; [reflexivity|]. cbn [map app first_kv any_key].
  destruct (ev k) as [ks|]; [|reflexivity]. destruct (num_aware_eq (trim ks) s); [reflexivity|exact IH].
Qed.

Lemma first_case_flat ev s cases : first_case ev s cases = first_kv ev s (kvs_ast cases).
Proof.
  induction cases as [|[[keys k] v] r IH]; [reflexivity|].
  unfold kvs_ast. cbn [flat_map case_kvs first_case]. rewrite first_kv_group. fold (kvs_ast r). rewrite <- IH. reflexivity.
Qed.

Lemma first_kv_in ev s kvs v : first_kv ev s kvs = Some (Some v) -> exists k, In (k, v) kvs.
Proof.
  induction kvs as [|[k1 v1] r IH]; cbn [first_kv]; [discriminate|].
  destruct (ev k1) as [ks|]; [|discriminate]. destruct (num_aware_eq (trim ks) s).
  - intros H. inversion H; subst. exists k1. left. reflexivity.
  - intros H. destruct (IH H) as [k Hk]. exists k. right. exact Hk.
Qed.

Lemma kvs_ast_wf cases : forallb wf_case cases = true ->
  forall k v, In (k, v) (kvs_ast cases) -> wfl k = true /\ wfl v = true.
Proof.
  induction cases as [|[[keys k0] v0] r IH]; intros H k v Hin; [destruct Hin|].
  cbn [forallb wf_case] in H. apply andb_true_iff in H as [Hc Hr].
  apply andb_true_iff in Hc as [Hc _]. apply andb_true_iff in Hc as [Hc Hv]. apply andb_true_iff in Hc as [Hks Hk0].
  unfold kvs_ast in Hin. cbn [flat_map case_kvs] in Hin. apply in_app_or in Hin as [Hin|Hin]; [|apply IH; assumption].
  apply in_map_iff in Hin as (k' & Heq & Hin'). inversion Heq; subst. split; [|exact Hv].
  apply in_app_or in Hin' as [Hin'|[<-|[]]]; [|exact Hk0].
  rewrite forallb_forall in Hks. apply Hks. exact Hin'.
Qed.

Lemma wfl_no_adj l : wfl l = true -> no_adj l = true.
Proof. unfold wfl. intros H. apply andb_true_iff in H. apply H. Qed.

Lemma reopt_body l : no_adj l = true -> reopt (compile_body l) = compile_body l.
Proof.
  intros H. unfold compile_body, mkseq. rewrite merge_compile by exact H.
  destruct l as [|x [|y r]].
  - reflexivity.
  - cbn [map]. destruct x as [s|nm [d0|]|nm args|c t e|a b t e|sc cs d0]; reflexivity.
  - cbn [map reopt]. change (compile x :: compile y :: map compile r) with (map compile (x :: y :: r)).
    unfold mkseq. rewrite merge_compile by exact H. reflexivity.
Qed.

Lemma equal_split_cbody v : no_adj v = true -> equal_split (compile_body v) = (None, compile_body v).
Proof. apply equal_split_body. Qed.

Lemma body_as_str l s : no_adj l = true -> node_as_str (compile_body l) = Some s -> l = [Text s].
Proof.
  intros H. unfold compile_body, mkseq. rewrite merge_compile by exact H.
  destruct l as [|x [|y r]]; cbn [map node_as_str]; try discriminate.
  destruct (is_text x) eqn:Ex.
  - destruct x; try discriminate. cbn [compile node_as_str]. intros E. inversion E. reflexivity.
  - destruct (compile_nonstr x Ex) as [Hx _]. rewrite Hx. discriminate.
Qed.

Lemma merge_app_eq a b : merge_strs (a ++ NEq :: b) = merge_strs a ++ NEq :: merge_strs b.
Proof.
  induction a as [|x a IH]; [reflexivity|]. cbn [app].
  destruct x; cbn [merge_strs]; rewrite IH; try reflexivity.
  destruct (merge_strs a) as [|[] r]; reflexivity.
Qed.

Lemma split_eq_app a b : Forall (fun n => is_eq n = false) a -> split_eq (a ++ NEq :: b) = Some (a, b).
Proof.
  induction 1 as [|x a Hx Ha IH]; [reflexivity|]. cbn [app split_eq]. rewrite Hx, IH. reflexivity.
Qed.

Lemma mkseq_ge2 x y r : merge_strs (x :: y :: r) = x :: y :: r -> mkseq (x :: y :: r) = NSeq (x :: y :: r).
Proof. intros H. unfold mkseq. rewrite H. reflexivity. Qed.

Lemma case_arg_split lastk v :
  no_adj lastk = true -> no_adj v = true -> is_nil lastk && is_nil v = false ->
  equal_split (mkseq (map compile lastk ++ NEq :: map compile v)) = (Some (NSeq (map compile lastk)), NSeq (map compile v)).
Proof.
  intros Hk Hv Hne.
  assert (Hm : merge_strs (map compile lastk ++ NEq :: map compile v) = map compile lastk ++ NEq :: map compile v)
    by (rewrite merge_app_eq, !merge_compile by assumption; reflexivity).
  assert (Hs : mkseq (map compile lastk ++ NEq :: map compile v) = NSeq (map compile lastk ++ NEq :: map compile v)).
  { destruct lastk as [|x k'].
    - destruct v as [|y v']; [discriminate|]. cbn [map app] in *. apply mkseq_ge2. exact Hm.
    - cbn [map app] in *. destruct (map compile k' ++ NEq :: map compile v) as [|z r] eqn:E.
      + destruct (map compile k'); discriminate.
      + apply mkseq_ge2. exact Hm. }
  rewrite Hs. unfold equal_split. rewrite split_eq_app by apply map_compile_noeq. reflexivity.
Qed.

Lemma sw_loop_keys keys : forall nks rest st,
  forallb wfl keys = true ->
  sw_loop (map compile_body keys ++ rest) nks st = sw_loop rest (nks ++ map compile_body keys) st.
Proof.
  induction keys as [|k keys IH]; intros nks rest st H.
  - cbn [map app]. rewrite app_nil_r. reflexivity.
  - cbn [forallb] in H. apply andb_true_iff in H as [Hk Hr]. apply wfl_no_adj in Hk.
    cbn [map app sw_loop]. rewrite equal_split_cbody, reopt_body by exact Hk.
    rewrite IH by exact Hr. rewrite <- app_assoc. reflexivity.
Qed.

Lemma fold_store_keys V ks : forall st,
  fold_left (fun s k => store_key k V s) ks st = store_all (map (fun k => (k, V)) ks) st.
Proof. induction ks as [|k ks IH]; intros st; [reflexivity|]. cbn [map]. unfold store_all. cbn [fold_left fst snd]. apply IH. Qed.

Lemma sw_loop_case c rest st :
  wf_case c = true -> sw_loop (case_args c ++ rest) [] st = sw_loop rest [] (store_all (KVn (case_kvs c)) st).
Proof.
  destruct c as [[keys k] v]. cbn [wf_case]. intros H.
  apply andb_true_iff in H as [H Hne]. apply andb_true_iff in H as [H Hv]. apply andb_true_iff in H as [Hks Hk].
  apply negb_true_iff in Hne. apply wfl_no_adj in Hk. apply wfl_no_adj in Hv.
  unfold case_args. rewrite <- app_assoc, sw_loop_keys by exact Hks.
  cbn [app sw_loop]. rewrite case_arg_split by assumption. cbn [reopt].
  rewrite fold_store_keys. f_equal.
  unfold KVn, case_kvs. rewrite !map_map, map_app, store_all_app. reflexivity.
Qed.

Lemma sw_loop_cases cases : forall rest st,
  forallb wf_case cases = true ->
  sw_loop (flat_map case_args cases ++ rest) [] st = sw_loop rest [] (store_all (KVn (kvs_ast cases)) st).
Proof.
  induction cases as [|c r IH]; intros rest st H; [reflexivity|].
  cbn [forallb] in H. apply andb_true_iff in H as [Hc Hr].
  cbn [flat_map]. rewrite <- app_assoc, sw_loop_case by exact Hc. rewrite IH by exact Hr.
  unfold kvs_ast. cbn [flat_map]. unfold KVn. rewrite map_app, store_all_app. reflexivity.
Qed.

Lemma sw_loop_dflt d st : wfd d = true -> sw_loop (dflt_args d) [] st = store_all (dflt_kv d) st.
Proof.
  destruct d as [[[|] v]|]; cbn [wfd dflt_args dflt_kv]; intros H; [| |reflexivity]; apply wfl_no_adj in H.
  - change (mkseq (NStr hash_default :: NEq :: map compile v)) with (carg (Some hash_default, v)).
    rewrite carg_named by exact H. reflexivity.
  - cbn [sw_loop]. rewrite equal_split_cbody, reopt_body by exact H. reflexivity.
Qed.

Lemma switch_init_compile cases d :
  forallb wf_case cases = true -> wfd d = true ->
  switch_init (flat_map case_args cases ++ dflt_args d) = store_all (KVn (kvs_ast cases) ++ dflt_kv d) ([], []).
Proof.
  intros Hc Hd. unfold switch_init. rewrite sw_loop_cases by exact Hc. rewrite sw_loop_dflt by exact Hd.
  rewrite store_all_app. reflexivity.
Qed.

Lemma dk_nomatch val : okstr val = true -> num_aware_eq (strip default_key) val = false.
Proof.
  intros H. change (strip default_key) with default_key. unfold num_aware_eq.
  change (parse_num default_key) with (@None num).
  destruct (str_eqb default_key val) eqn:E; [|reflexivity].
  apply str_eqb_spec in E. rewrite <- E in H. vm_compute in H. discriminate.
Qed.

Lemma unres_dflt d : unres_of (dflt_kv d) = [].
Proof. destruct d as [[b v]|]; reflexivity. Qed.

Lemma default_lookup_some dn fast p x :
  (forall a, In a dn -> fast_get (KS a) fast = if str_eqb a default_key then Some (p, x) else None) ->
  In default_key dn -> default_lookup dn fast = Some x.
Proof.
  induction dn as [|a r IH]; intros H Hin; [destruct Hin|]. cbn [default_lookup].
  rewrite (H a (or_introl eq_refl)). destruct (str_eqb a default_key) eqn:E; [reflexivity|].
  apply IH; [intros a' Ha'; apply H; right; exact Ha'|].
  destruct Hin as [->|Hin]; [rewrite str_eqb_refl in E; discriminate|exact Hin].
Qed.

Lemma default_lookup_none dn fast :
  (forall a, In a dn -> fast_get (KS a) fast = None) -> default_lookup dn fast = None.
Proof.
  induction dn as [|a r IH]; intros H; [reflexivity|]. cbn [default_lookup].
  rewrite (H a (or_introl eq_refl)). apply IH. intros a' Ha'. apply H. right. exact Ha'.
Qed.

(* the SwitchNode case of node_body, with the tables named *)
Lemma NB_switch tpl ism mp dn (fl flb : flat) V args e fast unres ps :
  switch_init args = (fast, unres) -> fl V e = Ok ps ->
  node_body tpl ism mp dn fl flb (NSwitch V args) e =
  let val := strip (pjoin ps) in
  let '(pos, ret0) := pick (match parse_num val with Some q => fast_get (KN q) fast | None => None end)
                           (fast_get (KS val) fast) (S (length unres)) in
  match sw_unres fl e val (parse_num val) (firstn pos unres) with
  | Err x => Err x
  | Ok found =>
      branch fl e (Some (match (match found with Some x => Some x | None => ret0 end) with
                         | Some x => x
                         | None => match default_lookup dn fast with Some x => x | None => NStr [] end
                         end))
  end.
Proof. intros H1 H2. cbn [node_body]. rewrite H1, H2. reflexivity. Qed.

(* ------------------------------------------------------------------ main correspondence *)

Section Main.
  Variable u : universe.
  Variable dn : list str.
  Hypothesis Hu : wfu u.
  Notation FL := (impl_flatten u dn).
  Notation flat_to := (flat_to u dn).
  Notation flats := (flats u dn).

  (* the ArgumentList `e` binds exactly what the reference environment E binds *)
  Definition env_rel (E : renv) (e : env) : Prop :=
    forall name, exists b0, forall b c, (b0 <= b)%nat -> get (FL b c) e name = Ok (rlookup E name).
  Definition env_ok (E : renv) : Prop := forall name v, rlookup E name = Some v -> okstr v = true.

  Lemma value_of_flat val e s (ds : bool) :
    flat_to val e s -> too_long (if ds then trim s else s) = false ->
    okstr s = true /\
    exists b0, forall b c, (b0 <= b)%nat -> value_of (FL b c) ds val e = Ok (if ds then trim s else s).
  Proof.
    intros H Hcap. destruct (node_as_str val) as [s0|] eqn:Hn.
    - destruct (flat_to_str_inv u dn _ _ _ _ Hn H) as [-> Hok]. split; [exact Hok|].
      exists 0%nat. intros b c _. unfold value_of. rewrite Hn. rewrite strip_trim by exact Hok. reflexivity.
    - destruct H as [b0 H]. split.
      + destruct (H b0 0%nat (le_n _)) as (ps & _ & H2 & H3). rewrite <- H2. apply okp_join. exact H3.
      + exists b0. intros b c Hb. destruct (H b c Hb) as (ps & H1 & H2 & H3). unfold value_of. rewrite Hn, H1.
        rewrite join_nl_ok by exact H3. rewrite H2.
        assert (Hok : okstr s = true) by (rewrite <- H2; apply okp_join; exact H3).
        rewrite strip_trim by exact Hok. rewrite Hcap. reflexivity.
  Qed.

  Lemma is_blank_ws s : is_blank s = true -> forallb is_ws s = true.
  Proof. unfold is_blank. intros H. apply strip_nil_all. unfold strip in H. destruct (strip_by is_ws s); [reflexivity|discriminate]. Qed.

  (* Parser._strip_ws on a tuple: dropping a blank first / last string does not change the stripped value *)
  Lemma drop_blank_seq l e ss :
    flats l e ss ->
    let l1 := match l with NStr s :: r => if is_blank s then r else l | _ => l end in
    let l2 := match rev l1 with NStr s :: r => if is_blank s then rev r else l1 | _ => l1 end in
    exists ss2, flats l2 e ss2 /\ strip (concat ss2) = strip (concat ss).
  Proof.
    intros H l1 l2.
    assert (H1 : exists ss1, flats l1 e ss1 /\ strip (concat ss1) = strip (concat ss)).
    { subst l1. destruct l as [|x r]; [exists ss; split; [exact H|reflexivity]|].
      destruct x; try (exists ss; split; [exact H|reflexivity]).
      destruct (is_blank s) eqn:Eb; [|exists ss; split; [exact H|reflexivity]].
      inversion H as [|? sx ? ss' Hx Hr]; subst.
      destruct (flat_to_str_inv u dn (NStr s) s e sx eq_refl Hx) as [-> _].
      exists ss'. split; [exact Hr|]. cbn [concat]. symmetry. apply strip_blank_prefix. apply is_blank_ws. exact Eb. }
    destruct H1 as (ss1 & H1 & E1). clearbody l1. subst l2.
    destruct (rev l1) as [|x r] eqn:Er; [exists ss1; split; assumption|].
    destruct x; try (exists ss1; split; assumption).
    destruct (is_blank s) eqn:Eb; [|exists ss1; split; assumption].
    assert (Hl : l1 = rev r ++ [NStr s]) by (rewrite <- (rev_involutive l1), Er; reflexivity).
    rewrite Hl in H1. apply Forall2_app_inv_l in H1 as (sa & sb & Ha & Hb & ->).
    inversion Hb as [|? sx ? sb' Hx Hn]; subst. inversion Hn; subst.
    destruct (flat_to_str_inv u dn (NStr s) s e sx eq_refl Hx) as [-> _].
    exists sa. split; [exact Ha|]. rewrite <- E1. rewrite concat_app. cbn [concat]. rewrite app_nil_r.
    symmetry. apply strip_blank_suffix. apply is_blank_ws. exact Eb.
  Qed.

  Lemma cond_flat xs e ss :
    merge_strs xs = xs -> Forall (fun x => match x with NSeq _ => False | _ => True end) xs ->
    flats xs e ss ->
    exists s', flat_to (strip_ws_node (mkseq xs)) e s' /\ strip s' = strip (concat ss).
  Proof.
    intros Hm Hns H. unfold mkseq. rewrite Hm.
    destruct xs as [|x [|y r]].
    - destruct (drop_blank_seq _ _ _ H) as (ss2 & H2 & E2). cbn in H2. exists (concat ss2). split; [|exact E2].
      cbn [strip_ws_node]. cbn. apply (flat_to_seq u dn). exact H2.
    - inversion H as [|? s ? ss' Hx Hn]; subst. inversion Hn; subst. cbn [concat]. rewrite app_nil_r.
      destruct x; try (exists s; split; [exact Hx|reflexivity]).
      + destruct (flat_to_str_inv u dn (NStr s0) s0 e s eq_refl Hx) as [-> Hok].
        exists (strip s0). split; [apply flat_to_str; apply strip_by_ok; exact Hok|]. apply strip_by_idem.
      + inversion Hns as [|? ? F _]; contradiction.
    - destruct (drop_blank_seq _ _ _ H) as (ss2 & H2 & E2). exists (concat ss2). split; [|exact E2].
      cbn [strip_ws_node]. apply (flat_to_seq u dn). exact H2.
  Qed.

  Lemma compile_not_seq x : match compile x with NSeq _ => False | _ => True end.
  Proof. destruct x as [s|nm [d|]|nm args|c t e|a b t e|sc cs d]; exact I. Qed.

  Lemma first_of_not_seq l : Forall (fun x => match x with NSeq _ => False | _ => True end) (first_of l).
  Proof.
    assert (Hm : forall r, Forall (fun x => match x with NSeq _ => False | _ => True end) (map compile r)).
    { induction r; cbn [map]; constructor; [apply compile_not_seq|assumption]. }
    destruct l as [|x r]; [repeat constructor|].
    destruct x; cbn [first_of]; constructor; try exact I; try apply Hm.
    all: change (Forall (fun x => match x with NSeq _ => False | _ => True end) (map compile (_ :: r))); apply Hm.
  Qed.

  Lemma first_of_flats l e ss : flats (map compile l) e ss -> exists ss', flats (first_of l) e ss' /\ concat ss' = concat ss.
  Proof.
    intros H. destruct l as [|x r].
    - inversion H; subst. exists [[]]. split; [|reflexivity]. constructor; [apply flat_to_str; reflexivity|constructor].
    - destruct (is_text x) eqn:Ex.
      + destruct x; try discriminate. exists ss. split; [exact H|reflexivity].
      + exists ([] :: ss). split; [|reflexivity].
        assert (Hf : first_of (x :: r) = NStr [] :: map compile (x :: r)) by (destruct x; try discriminate; reflexivity).
        rewrite Hf. constructor; [apply flat_to_str; reflexivity|exact H].
  Qed.

  Definition body_IH (n : nat) : Prop :=
    forall E e l s, env_rel E e -> env_ok E -> wfl l = true -> evals n u E l = Some s ->
    exists ss, flats (map compile l) e ss /\ concat ss = s.

  Lemma body_mk n (IH : body_IH n) E e l s :
    env_rel E e -> env_ok E -> wfl l = true -> evals n u E l = Some s ->
    flat_to (mkseq (map compile l)) e s /\ flat_to (NSeq (map compile l)) e s /\ okstr s = true.
  Proof.
    intros H1 H2 H3 H4. destruct (IH E e l s H1 H2 H3 H4) as (ss & Hs & <-).
    assert (Hn : no_adj l = true) by (unfold wfl in H3; apply andb_true_iff in H3; apply H3).
    assert (Hq : flat_to (NSeq (map compile l)) e (concat ss)) by (apply flat_to_seq; exact Hs).
    split; [apply flat_to_mkseq; [apply merge_compile; exact Hn|exact Hs]|]. split; [exact Hq|].
    destruct Hq as [b0 Hq]. destruct (Hq b0 0%nat (le_n _)) as (ps & _ & Hj & Hp). rewrite <- Hj. apply okp_join. exact Hp.
  Qed.

  Definition argwf (a : option str * list ast) : bool :=
    match a with (None, v) => wfl v | (Some k, v) => name_okb k && wfl v end.

  Lemma scan_ok n (IH : body_IH n) E e (HE : env_rel E e) (HEok : env_ok E) :
    forall args i E', forallb argwf args = true -> nodupb (eff_names args i) = true ->
      bind_args (evals n u E) args i = Some E' ->
      map fst E' = eff_names args i /\ env_ok E' /\
      forall name, exists b0, forall b c, (b0 <= b)%nat ->
        scan (FL b c) (map carg args) e i name = Ok (rlookup E' name).
  Proof.
    induction args as [|[[k|] v] r IHr]; intros i E' Hwf Hnd Hb.
    - cbn in Hb. inversion Hb; subst. split; [reflexivity|]. split; [intros name v H; discriminate|].
      intros name. exists 0%nat. intros; reflexivity.
    - (* named *)
      cbn [forallb argwf] in Hwf. apply andb_true_iff in Hwf as [Hw Hwr]. apply andb_true_iff in Hw as [Hk Hv].
      cbn [eff_names nodupb] in Hnd. apply andb_true_iff in Hnd as [Hnk Hndr]. apply negb_true_iff in Hnk.
      cbn [bind_args] in Hb. destruct (evals n u E v) as [s|] eqn:Ev; [|discriminate].
      destruct (bind_args (evals n u E) r i) as [Er|] eqn:Ebr; [|discriminate].
      destruct (too_long (trim s)) eqn:Hcap; [discriminate|]. inversion Hb; subst E'. clear Hb.
      destruct (IHr i Er Hwr Hndr Ebr) as (Hf & Hok & Hs).
      destruct (name_okb_spec k Hk) as (Hk1 & Hk2 & _).
      assert (Hkt : trim k = k) by (rewrite <- strip_trim by exact Hk1; exact Hk2).
      rewrite Hkt in *.
      destruct (body_mk n IH E e v s HE HEok Hv Ev) as (_ & Hq & Hsok).
      destruct (value_of_flat _ _ _ true Hq Hcap) as (_ & bv & Hval).
      assert (Hnv : no_adj v = true) by (unfold wfl in Hv; apply andb_true_iff in Hv; apply Hv).
      split; [cbn [map fst eff_names]; rewrite Hf; reflexivity|]. split.
      { intros name x. cbn [rlookup]. destruct (rlookup Er name) eqn:El.
        - intros Hx. inversion Hx; subst. eapply Hok. exact El.
        - destruct (str_eqb k name); [|discriminate]. intros Hx. inversion Hx; subst.
          rewrite <- strip_trim by exact Hsok. apply strip_by_ok. exact Hsok. }
      intros name. destruct (Hs name) as [br Hscan].
      exists (S (Nat.max bv br)). intros b c Hbb. destruct b as [|b]; [lia|].
      cbn [map scan]. rewrite carg_named by exact Hnv. unfold equal_split. cbn [split_eq is_eq].
      assert (Hname : FL (S b) c (NSeq [NStr k]) e = Ok [PS k]).
      { apply FL_step; [reflexivity|]. cbn [node_body flat_list]. rewrite (FL_str u dn b (S c) (NStr k) e k eq_refl). reflexivity. }
      rewrite Hname. rewrite join_nl_ok by (constructor; [exact Hk1|constructor]).
      cbn [pjoin map piece_str concat]. rewrite app_nil_r, Hk2.
      cbn [rlookup].
      destruct (str_eqb k name) eqn:Ekn.
      + apply str_eqb_spec in Ekn. subst name.
        rewrite (rlookup_none' Er k) by (rewrite Hf; exact Hnk).
        rewrite Hval by lia. reflexivity.
      + rewrite Hscan by lia. destruct (rlookup Er name); reflexivity.
    - (* positional *)
      cbn [forallb argwf] in Hwf. apply andb_true_iff in Hwf as [Hv Hwr].
      cbn [eff_names nodupb] in Hnd. apply andb_true_iff in Hnd as [Hnk Hndr]. apply negb_true_iff in Hnk.
      cbn [bind_args] in Hb. destruct (evals n u E v) as [s|] eqn:Ev; [|discriminate].
      destruct (bind_args (evals n u E) r (i + 1)%N) as [Er|] eqn:Ebr; [|discriminate].
      destruct (too_long s) eqn:Hcap; [discriminate|]. inversion Hb; subst E'. clear Hb.
      destruct (IHr (i + 1)%N Er Hwr Hndr Ebr) as (Hf & Hok & Hs).
      destruct (body_mk n IH E e v s HE HEok Hv Ev) as (Hm & _ & Hsok).
      destruct (value_of_flat _ _ _ false Hm Hcap) as (_ & bv & Hval).
      assert (Hnv : no_adj v = true) by (unfold wfl in Hv; apply andb_true_iff in Hv; apply Hv).
      split; [cbn [map fst eff_names]; rewrite Hf; reflexivity|]. split.
      { intros name x. cbn [rlookup]. destruct (rlookup Er name) eqn:El.
        - intros Hx. inversion Hx; subst. eapply Hok. exact El.
        - destruct (str_eqb (decimal i) name); [|discriminate]. intros Hx. inversion Hx; subst. exact Hsok. }
      intros name. destruct (Hs name) as [br Hscan].
      exists (Nat.max bv br). intros b c Hbb.
      cbn [map scan carg]. rewrite equal_split_body by exact Hnv.
      cbn [rlookup].
      destruct (str_eqb (decimal i) name) eqn:Ekn.
      + apply str_eqb_spec in Ekn. subst name.
        rewrite (rlookup_none' Er (decimal i)) by (rewrite Hf; exact Hnk).
        rewrite Hval by lia. reflexivity.
      + rewrite Hscan by lia. destruct (rlookup Er name); reflexivity.
  Qed.
  (* the computed keys before the earliest literal match are evaluated in order; the first match wins *)
  Lemma sw_unres_ok n (IH : body_IH n) E e (HE : env_rel E e) (HEok : env_ok E) val :
    forall kvs r,
      (forall k v, In (k, v) kvs -> wfl k = true) ->
      first_kv (evals n u E) val kvs = Some r ->
      exists b0, forall b c, (b0 <= b)%nat -> exists found,
        sw_unres (FL b c) e val (parse_num val) (firstn (fst (look val (KVn kvs))) (unres_of (KVn kvs))) = Ok found /\
        match found with Some x => Some x | None => snd (look val (KVn kvs)) end = option_map compile_body r.
  Proof.
    induction kvs as [|[k v] rest IHk]; intros r Hw Hf.
    - cbn [first_kv] in Hf. inversion Hf; subst r. exists 0%nat. intros b c _. exists None. split; reflexivity.
    - cbn [first_kv] in Hf. destruct (evals n u E k) as [ks|] eqn:Ek; [|discriminate].
      assert (Hwk : wfl k = true) by (apply (Hw k v); left; reflexivity).
      assert (Hwr : forall k' v', In (k', v') rest -> wfl k' = true) by (intros k' v' Hin; apply (Hw k' v'); right; exact Hin).
      destruct (body_mk n IH E e k ks HE HEok Hwk Ek) as (Hmk & _ & Hok).
      fold (compile_body k) in Hmk.
      cbn [KVn map fst snd look unres_of]. fold (KVn rest).
      destruct (node_as_str (compile_body k)) as [s0|] eqn:Hn.
      + (* literal key: in the fast table *)
        destruct (flat_to_str_inv u dn _ _ _ _ Hn Hmk) as [-> Hok0].
        rewrite strip_trim by exact Hok0.
        destruct (num_aware_eq (trim s0) val) eqn:Em.
        * inversion Hf; subst r. exists 0%nat. intros b c _. exists None. split; reflexivity.
        * apply IHk; assumption.
      + (* computed key *)
        destruct Hmk as [bk Hk].
        destruct (num_aware_eq (trim ks) val) eqn:Em.
        * inversion Hf; subst r. exists bk. intros b c Hb.
          destruct (look val (KVn rest)) as [p x]. cbn [fst snd firstn].
          rewrite sw_unres_cons. destruct (Hk b c Hb) as (ps & P1 & P2 & _).
          rewrite P1, P2, strip_trim, Em by exact Hok. exists (Some (compile_body v)). split; reflexivity.
        * destruct (IHk r Hwr Hf) as [br Hr]. exists (Nat.max bk br). intros b c Hb.
          destruct (Hr b c ltac:(lia)) as (found & F1 & F2).
          destruct (look val (KVn rest)) as [p x]. cbn [fst snd firstn] in *.
          rewrite sw_unres_cons. destruct (Hk b c ltac:(lia)) as (ps & P1 & P2 & _).
          rewrite P1, P2, strip_trim, Em by exact Hok. exists found. split; assumption.
  Qed.
End Main.

Section Main2.
  Variable u : universe.
  Variable dn : list str.
  Hypothesis Hu : wfu u.
  Hypothesis Hdn : dn_ok dn.
  Notation FL := (impl_flatten u dn).
  Notation flat_to := (flat_to u dn).
  Notation flats := (flats u dn).
  Notation NB := (node_body (tpl_of u) (fun _ => false) (fun _ _ => MDone []) dn).

  Lemma branch_some n e st :
    flat_to n e st ->
    exists b0, forall b c, (b0 <= b)%nat ->
      branch (FL b c) e (Some n) = Ok [PMaybeNL; PS (trim st); PMark] /\ okstr (trim st) = true.
  Proof.
    intros [b0 H]. exists b0. intros b c Hb. destruct (H b c Hb) as (qs & H1 & H2 & H3).
    assert (Hok : okstr st = true) by (rewrite <- H2; apply okp_join; exact H3).
    unfold branch. rewrite H1. rewrite join_nl_ok by exact H3. rewrite H2, strip_trim by exact Hok.
    split; [reflexivity|]. rewrite <- strip_trim by exact Hok. apply strip_by_ok. exact Hok.
  Qed.

  Lemma pjoin_single t : pjoin [PS t] = t.
  Proof. cbn. apply app_nil_r. Qed.

  Lemma pjoin_wrap qs : pjoin (PMark :: PMaybeNL :: qs ++ [PMark]) = pjoin qs.
  Proof. change (pjoin (PMark :: PMaybeNL :: qs ++ [PMark])) with (pjoin (qs ++ [PMark])). rewrite pjoin_app. apply app_nil_r. Qed.

  Lemma okp3 t : okstr t = true -> Forall okp [PMaybeNL; PS t; PMark].
  Proof. intros H. repeat constructor. exact H. Qed.

  Lemma pjoin3 t : pjoin [PMaybeNL; PS t; PMark] = t.
  Proof. cbn. apply app_nil_r. Qed.

  Lemma truthy_false b : wfl b = true -> truthy (compile_body b) = false -> b = [].
  Proof.
    intros Hw Ht. unfold wfl in Hw. apply andb_true_iff in Hw as [Hn Hf].
    unfold compile_body, mkseq in Ht. rewrite merge_compile in Ht by exact Hn.
    destruct b as [|x [|y r]]; [reflexivity| |cbn in Ht; discriminate].
    cbn [map] in Ht. cbn [forallb] in Hf. apply andb_true_iff in Hf as [Hx _].
    destruct x as [s|nm [d|]|nm args|c t e|a bb t e|sc cs d]; cbn in Ht; try discriminate.
    destruct s; [cbn in Hx; discriminate|discriminate].
  Qed.

  Lemma flats_of_evals n (IHn : forall E e p s, env_rel u dn E e -> env_ok E -> wf p = true -> eval n u E p = Some s -> flat_to (compile p) e s) :
    body_IH u dn n.
  Proof.
    intros E e l s H1 H2 H3 H4. unfold evals in H4. apply ocat_forall2 in H4 as (ss & H5 & H6).
    exists ss. split; [|exact H6]. clear H6. unfold wfl in H3. apply andb_true_iff in H3 as [_ H3].
    revert H3. induction H5 as [|x sx l ss Hx Hl IH]; intros H3; [constructor|].
    cbn [forallb] in H3. apply andb_true_iff in H3 as [Hwx Hwl]. cbn [map]. constructor.
    - apply (IHn E e x sx H1 H2 Hwx Hx).
    - apply IH. exact Hwl.
  Qed.

  Lemma wfo_spec (o : option (list ast)) :
    match o with Some l => no_adj l && forallb wf l | None => true end = wfo o.
  Proof. destruct o; reflexivity. Qed.

  (* #switch: nodes.pyx:75-167 against the first matching key of the reference semantics *)
  Lemma switch_ok n (IHb : body_IH u dn n) E e sc cs d s :
    env_rel u dn E e -> env_ok E -> wfl sc = true -> forallb wf_case cs = true -> wfd d = true ->
    match evals n u E sc with
    | None => None
    | Some s0 =>
        match first_case (evals n u E) (trim s0) cs with
        | None => None
        | Some (Some v) => otrim (evals n u E v)
        | Some None => match d with Some (_, v) => otrim (evals n u E v) | None => Some [] end
        end
    end = Some s ->
    flat_to (compile (Switch sc cs d)) e s.
  Proof.
    intros HE HEok Hwsc Hwcs Hwd Hev.
    destruct (evals n u E sc) as [s0|] eqn:Esc; [|discriminate].
    (* the scrutinee *)
    destruct (IHb E e sc s0 HE HEok Hwsc Esc) as (ssc & Hfc & Hcc).
    destruct (body_mk u dn n IHb E e sc s0 HE HEok Hwsc Esc) as (_ & _ & Hs0ok).
    pose proof (wfl_no_adj sc Hwsc) as Hnc.
    destruct (first_of_flats u dn sc e ssc Hfc) as (ss' & Hf' & Hc').
    destruct (cond_flat u dn (first_of sc) e ss' (merge_first_of sc Hnc) (first_of_not_seq sc) Hf') as (s' & [bc Hcond] & Hs').
    rewrite Hc', Hcc in Hs'.
    set (val := trim s0) in *.
    assert (Hvalok : okstr val = true) by (apply strip_by_ok; exact Hs0ok).
    assert (Hcondv : forall b c0, (bc <= b)%nat -> exists ps,
               FL b c0 (strip_ws_node (mkseq (first_of sc))) e = Ok ps /\ strip (pjoin ps) = val).
    { intros b c0 Hb. destruct (Hcond b c0 Hb) as (ps & P1 & P2 & P3). exists ps. split; [exact P1|].
      rewrite P2, Hs'. apply strip_trim. exact Hs0ok. }
    rewrite first_case_flat in Hev.
    destruct (first_kv (evals n u E) val (kvs_ast cs)) as [r|] eqn:Efk; [|discriminate].
    pose proof (kvs_ast_wf cs Hwcs) as Hkvwf.
    (* the tables *)
    set (KV0 := KVn (kvs_ast cs)). set (KV := KV0 ++ dflt_kv d).
    destruct (switch_tables KV) as (fast & Einit & HS & Hpick).
    assert (Hun : unres_of KV = unres_of KV0) by (unfold KV; rewrite unres_of_app, unres_dflt, app_nil_r; reflexivity).
    assert (Hinit : switch_init (flat_map case_args cs ++ dflt_args d) = (fast, unres_of KV0)).
    { rewrite switch_init_compile by assumption. fold KV0. fold KV. rewrite Einit, Hun. reflexivity. }
    assert (Hlook : look val KV = look val KV0).
    { unfold KV. destruct d as [[bb dv]|]; cbn [dflt_kv]; [|rewrite app_nil_r; reflexivity].
      apply look_app_nomatch with (s0 := default_key); [reflexivity|]. apply dk_nomatch. exact Hvalok. }
    specialize (Hpick val). rewrite Hlook, Hun in Hpick.
    (* the default entry *)
    destruct Hdn as [Hdk Hhash].
    assert (Hlit : forall a, In a dn -> find_ks a KV0 0 = None).
    { intros a Ha. apply find_ks_none. intros k v s1 Hin Hk Heq.
      unfold KV0, KVn in Hin. apply in_map_iff in Hin as ([k0 v0] & Hkv & Hin0). cbn [fst snd] in Hkv. inversion Hkv; subst k v.
      destruct (Hkvwf k0 v0 Hin0) as [Hwk _].
      pose proof (body_as_str k0 s1 (wfl_no_adj k0 Hwk) Hk) as ->.
      unfold wfl in Hwk. apply andb_true_iff in Hwk as [_ Hwk]. cbn [forallb wf] in Hwk.
      apply andb_true_iff in Hwk as [Hwk _]. apply andb_true_iff in Hwk as [Hwk _].
      pose proof (strip_by_ok is_ws s1 Hwk) as Hst. fold (strip s1) in Hst. rewrite Heq in Hst.
      rewrite (hash_not_ok a (Hhash a Ha)) in Hst. discriminate. }
    assert (Hdef : default_lookup dn fast = match d with Some (_, dv) => Some (compile_body dv) | None => None end).
    { destruct d as [[bb dv]|].
      - apply default_lookup_some with (p := (0 + length (unres_of KV0))%nat); [|exact Hdk].
        intros a Ha. rewrite HS. unfold KV. rewrite find_ks_app, (Hlit a Ha). reflexivity.
      - apply default_lookup_none. intros a Ha. rewrite HS. unfold KV. cbn [dflt_kv]. rewrite app_nil_r. apply Hlit. exact Ha. }
    (* the computed keys *)
    destruct (sw_unres_ok u dn n IHb E e HE HEok val (kvs_ast cs) r
                (fun k v Hin => proj1 (Hkvwf k v Hin)) Efk) as [bu Hunres].
    fold KV0 in Hunres.
    rewrite compile_switch. apply flat_to_step; [reflexivity|].
    (* the selected value *)
    assert (Hbranch : exists x sx, s = trim sx /\ flat_to x e sx /\
              forall found, match found with Some y => Some y | None => snd (look val KV0) end = option_map compile_body r ->
                match (match found with Some y => Some y | None => snd (look val KV0) end) with
                | Some y => y
                | None => match default_lookup dn fast with Some y => y | None => NStr [] end
                end = x).
    { destruct r as [v|].
      - destruct (first_kv_in _ _ _ _ Efk) as [k Hin]. destruct (Hkvwf k v Hin) as [_ Hwv].
        destruct (evals n u E v) as [sv|] eqn:Ev; [|discriminate]. cbn [otrim] in Hev. inversion Hev; subst s.
        destruct (body_mk u dn n IHb E e v sv HE HEok Hwv Ev) as (Hmv & _ & _).
        exists (compile_body v), sv. split; [reflexivity|]. split; [exact Hmv|].
        intros found Hfd. rewrite Hfd. reflexivity.
      - destruct d as [[bb dv]|].
        + cbn [wfd] in Hwd. destruct (evals n u E dv) as [sv|] eqn:Ev; [|discriminate]. cbn [otrim] in Hev. inversion Hev; subst s.
          destruct (body_mk u dn n IHb E e dv sv HE HEok Hwd Ev) as (Hmv & _ & _).
          exists (compile_body dv), sv. split; [reflexivity|]. split; [exact Hmv|].
          intros found Hfd. rewrite Hfd, Hdef. reflexivity.
        + inversion Hev; subst s. exists (NStr []), []. split; [reflexivity|]. split; [apply flat_to_str; reflexivity|].
          intros found Hfd. rewrite Hfd, Hdef. reflexivity. }
    destruct Hbranch as (x & sx & -> & Hx & Hsel).
    destruct (branch_some _ _ _ Hx) as [bb Hbr].
    exists (Nat.max (Nat.max bc bu) bb). intros b c0 Hb. exists [PMaybeNL; PS (trim sx); PMark].
    destruct (Hcondv b (S c0) ltac:(lia)) as (ps & P1 & P2).
    destruct (Hunres b (S c0) ltac:(lia)) as (found & F1 & F2).
    destruct (Hbr b (S c0) ltac:(lia)) as [B1 B2].
    rewrite (NB_switch _ _ _ _ _ _ _ _ _ _ _ _ Hinit P1). cbv zeta. rewrite P2, Hpick.
    destruct (look val KV0) as [pos ret0]. cbn [fst snd] in *.
    rewrite F1, (Hsel found F2), B1.
    split; [reflexivity|]. split; [apply pjoin3|apply okp3; exact B2].
  Qed.

  Lemma main n : forall E e p s,
    env_rel u dn E e -> env_ok E -> wf p = true -> eval n u E p = Some s -> flat_to (compile p) e s.
  Proof.
    induction n as [|n IHn]; intros E e p s HE HEok Hwf Hev; [discriminate|].
    pose proof (flats_of_evals n IHn) as IHb.
    rewrite eval_S in Hev.
    destruct p as [t|nm d|nm args|c t el|a b2 t el|sc cs d].
    - (* Text *)
      inversion Hev; subst. cbn [wf] in Hwf. apply andb_true_iff in Hwf as [Hok _]. apply flat_to_str. exact Hok.
    - (* Param *)
      cbn [wf] in Hwf. rewrite wfo_spec in Hwf. apply andb_true_iff in Hwf as [Hnm Hd].
      destruct (name_okb_spec nm Hnm) as (Hn1 & Hn2 & Hn3).
      destruct (HE nm) as [bE HgetE].
      assert (Hdef : forall dl, d = Some dl -> rlookup E nm = None -> flat_to (mkseq (map compile dl)) e s).
      { intros dl -> Hl. rewrite Hl in Hev. cbn [wfo] in Hd. apply (body_mk u dn n IHb E e dl s HE HEok Hd Hev). }
      assert (Hgoal : forall rest, (match d with Some dl => rest = [mkseq (map compile dl)] | None => rest = [] end) ->
                flat_to (NVar (NStr nm :: rest)) e s).
      { intros rest Hrest. apply flat_to_step; [reflexivity|].
        destruct (rlookup E nm) as [v|] eqn:Hl.
        - inversion Hev; subst v. exists bE. intros b c Hb. exists [PS s].
          cbn [node_body]. rewrite (FL_str u dn b (S c) (NStr nm) e nm eq_refl).
          rewrite pjoin_single, Hn2, Hn3, HgetE by lia.
          split; [reflexivity|]. split; [apply pjoin_single|]. constructor; [|constructor]. apply (HEok nm s Hl).
        - destruct d as [dl|].
          + subst rest. destruct (Hdef dl eq_refl eq_refl) as [bd Hd'].
            exists (Nat.max bE bd). intros b c Hb. destruct (Hd' b (S c) ltac:(lia)) as (ps & P1 & P2 & P3).
            exists ps. cbn [node_body]. rewrite (FL_str u dn b (S c) (NStr nm) e nm eq_refl).
            rewrite pjoin_single, Hn2, Hn3, HgetE by lia.
            split; [exact P1|]. split; assumption.
          + subst rest. inversion Hev; subst s. exists bE. intros b c Hb. exists [PS (open3 ++ nm ++ close3)].
            cbn [node_body]. rewrite (FL_str u dn b (S c) (NStr nm) e nm eq_refl).
            rewrite pjoin_single, Hn2, Hn3, HgetE by lia.
            split; [reflexivity|]. split; [apply pjoin_single|]. constructor; [|constructor].
            unfold okp. cbn [piece_str]. rewrite !okstr_app, Hn1. reflexivity. }
      destruct d as [dl|]; cbn [compile]; apply Hgoal; reflexivity.
    - (* Call *)
      cbn [wf] in Hwf. apply andb_true_iff in Hwf as [Hwf Hnd]. apply andb_true_iff in Hwf as [Hwf Hargs].
      apply andb_true_iff in Hwf as [Hnm Hne].
      destruct (name_okb_spec nm Hnm) as (Hn1 & Hn2 & Hn3).
      destruct (ulookup u nm) as [body|] eqn:Hul; [|discriminate].
      destruct (bind_args (evals n u E) args 1%N) as [E'|] eqn:Hb; [|discriminate].
      destruct (scan_ok u dn n IHb E e HE HEok args 1%N E' Hargs Hnd Hb) as (_ & HEok' & Hscan).
      set (e' := EArgs (map carg args) e).
      assert (HE' : env_rel u dn E' e') by (intros name; apply Hscan).
      pose proof (Hu nm body Hul) as Hwb.
      rewrite compile_call. apply flat_to_step; [reflexivity|].
      assert (Htpl : tpl_of u nm = Some (compile_body body)).
      { unfold tpl_of. destruct nm; [discriminate|]. rewrite Hul. reflexivity. }
      destruct (truthy (compile_body body)) eqn:Htr.
      + destruct (body_mk u dn n IHb E' e' body s HE' HEok' Hwb Hev) as ([bb Hbody] & _ & _).
        exists bb. intros b c Hbb. destruct (Hbody b (S c) Hbb) as (qs & Q1 & Q2 & Q3).
        exists (PMark :: PMaybeNL :: qs ++ [PMark]).
        cbn [node_body]. rewrite (FL_str u dn b (S c) (NStr nm) e nm eq_refl).
        rewrite pjoin_single, Hn2, Hn3, Htpl, Htr.
        fold e'. unfold compile_body in Q1. unfold compile_body. rewrite Q1.
        split; [reflexivity|]. split.
        * rewrite pjoin_wrap. exact Q2.
        * constructor; [apply okp_mark|]. constructor; [apply okp_mnl|]. apply Forall_app. split; [exact Q3|].
          constructor; [apply okp_mark|constructor].
      + pose proof (truthy_false body Hwb Htr) as ->. cbn in Hev. inversion Hev; subst s.
        exists 0%nat. intros b c _. exists [].
        cbn [node_body]. rewrite (FL_str u dn b (S c) (NStr nm) e nm eq_refl).
        rewrite pjoin_single, Hn2, Hn3, Htpl, Htr.
        split; [reflexivity|]. split; [reflexivity|constructor].
    - (* If *)
      cbn [wf] in Hwf. rewrite wfo_spec in Hwf. apply andb_true_iff in Hwf as [Hwf Hwe]. apply andb_true_iff in Hwf as [Hwc Hwt].
      destruct (evals n u E c) as [cs|] eqn:Ec; [|discriminate].
      destruct (IHb E e c cs HE HEok Hwc Ec) as (ssc & Hfc & Hcc).
      destruct (body_mk u dn n IHb E e c cs HE HEok Hwc Ec) as (_ & _ & Hcsok).
      assert (Hnc : no_adj c = true) by (unfold wfl in Hwc; apply andb_true_iff in Hwc; apply Hwc).
      destruct (first_of_flats u dn c e ssc Hfc) as (ss' & Hf' & Hc').
      destruct (cond_flat u dn (first_of c) e ss' (merge_first_of c Hnc) (first_of_not_seq c) Hf') as (s' & [bc Hcond] & Hs').
      rewrite Hc', Hcc in Hs'.
      rewrite compile_if. apply flat_to_step; [reflexivity|].
      assert (Hcondv : forall b c0, (bc <= b)%nat -> exists ps, FL b c0 (strip_ws_node (mkseq (first_of c))) e = Ok ps /\
                 strip_ebad (strip (pjoin ps)) = trim cs).
      { intros b c0 Hb. destruct (Hcond b c0 Hb) as (ps & P1 & P2 & P3). exists ps. split; [exact P1|].
        rewrite P2, Hs'. rewrite strip_ebad_id by (apply strip_by_ok; exact Hcsok). apply strip_trim. exact Hcsok. }
      destruct (trim cs) as [|ch tl] eqn:Etr.
      + (* false: else branch *)
        destruct el as [el|].
        * destruct (evals n u E el) as [se|] eqn:Ee; [|discriminate]. cbn [otrim] in Hev. inversion Hev; subst s.
          cbn [wfo] in Hwe.
          destruct (body_mk u dn n IHb E e el se HE HEok Hwe Ee) as (Hme & _ & _).
          destruct (branch_some _ _ _ Hme) as [bb Hbr].
          exists (Nat.max bc bb). intros b c0 Hb. exists [PMaybeNL; PS (trim se); PMark].
          destruct (Hcondv b (S c0) ltac:(lia)) as (ps & P1 & P2).
          destruct (Hbr b (S c0) ltac:(lia)) as [B1 B2].
          cbn [node_body]. rewrite P1, P2. cbn [nth_error]. rewrite B1.
          split; [reflexivity|]. split; [apply pjoin3|apply okp3; exact B2].
        * inversion Hev; subst s. exists bc. intros b c0 Hb. exists [PMaybeNL; PS []; PMark].
          destruct (Hcondv b (S c0) ltac:(lia)) as (ps & P1 & P2).
          cbn [node_body]. rewrite P1, P2. cbn [nth_error branch].
          split; [reflexivity|]. split; [reflexivity|apply okp3; reflexivity].
      + destruct (evals n u E t) as [st|] eqn:Et; [|discriminate]. cbn [otrim] in Hev. inversion Hev; subst s.
        destruct (body_mk u dn n IHb E e t st HE HEok Hwt Et) as (Hmt & _ & _).
        destruct (branch_some _ _ _ Hmt) as [bb Hbr].
        exists (Nat.max bc bb). intros b c0 Hb. exists [PMaybeNL; PS (trim st); PMark].
        destruct (Hcondv b (S c0) ltac:(lia)) as (ps & P1 & P2).
        destruct (Hbr b (S c0) ltac:(lia)) as [B1 B2].
        cbn [node_body]. rewrite P1, P2. cbn [nth_error]. rewrite B1.
        split; [reflexivity|]. split; [apply pjoin3|apply okp3; exact B2].
    - (* IfEq *)
      cbn [wf] in Hwf. rewrite wfo_spec in Hwf. apply andb_true_iff in Hwf as [Hwf Hwe]. apply andb_true_iff in Hwf as [Hwf Hwt].
      apply andb_true_iff in Hwf as [Hwa Hwb].
      destruct (evals n u E a) as [sa|] eqn:Ea; [|discriminate].
      destruct (evals n u E b2) as [sb|] eqn:Eb; [|discriminate].
      destruct (IHb E e a sa HE HEok Hwa Ea) as (ssa & Hfa & Hca).
      destruct (body_mk u dn n IHb E e a sa HE HEok Hwa Ea) as (_ & _ & Hsaok).
      destruct (body_mk u dn n IHb E e b2 sb HE HEok Hwb Eb) as ([bbv Hmb] & _ & Hsbok).
      assert (Hna : no_adj a = true) by (unfold wfl in Hwa; apply andb_true_iff in Hwa; apply Hwa).
      destruct (first_of_flats u dn a e ssa Hfa) as (ss' & Hf' & Hc').
      pose proof (flat_to_mkseq u dn (first_of a) e ss' (merge_first_of a Hna) Hf') as [ba Hma].
      rewrite Hc', Hca in Hma.
      rewrite compile_ifeq. apply flat_to_step; [reflexivity|].
      assert (Hhead : forall b c0, (Nat.max ba bbv <= b)%nat -> exists ps qs,
                 FL b c0 (mkseq (first_of a)) e = Ok ps /\ FL b c0 (mkseq (map compile b2)) e = Ok qs /\
                 maybe_numeric_compare (strip (pjoin ps)) (strip (pjoin qs)) = num_aware_eq (trim sa) (trim sb)).
      { intros b0 c0 Hb. destruct (Hma b0 c0 ltac:(lia)) as (ps & P1 & P2 & _).
        destruct (Hmb b0 c0 ltac:(lia)) as (qs & Q1 & Q2 & _). exists ps, qs. split; [exact P1|]. split; [exact Q1|].
        rewrite P2, Q2, num_aware_eq_impl, !strip_trim by assumption. reflexivity. }
      destruct (num_aware_eq (trim sa) (trim sb)) eqn:Ecmp.
      + destruct (evals n u E t) as [st|] eqn:Et; [|discriminate]. cbn [otrim] in Hev. inversion Hev; subst s.
        destruct (body_mk u dn n IHb E e t st HE HEok Hwt Et) as (Hmt & _ & _).
        destruct (branch_some _ _ _ Hmt) as [bb Hbr].
        exists (Nat.max (Nat.max ba bbv) bb). intros b0 c0 Hb. exists [PMaybeNL; PS (trim st); PMark].
        destruct (Hhead b0 (S c0) ltac:(lia)) as (ps & qs & P1 & Q1 & Hc).
        destruct (Hbr b0 (S c0) ltac:(lia)) as [B1 B2].
        cbn [node_body]. rewrite P1, Q1, Hc. cbn [nth_error]. rewrite B1.
        split; [reflexivity|]. split; [apply pjoin3|apply okp3; exact B2].
      + destruct el as [el|].
        * destruct (evals n u E el) as [se|] eqn:Ee; [|discriminate]. cbn [otrim] in Hev. inversion Hev; subst s.
          cbn [wfo] in Hwe.
          destruct (body_mk u dn n IHb E e el se HE HEok Hwe Ee) as (Hme & _ & _).
          destruct (branch_some _ _ _ Hme) as [bb Hbr].
          exists (Nat.max (Nat.max ba bbv) bb). intros b0 c0 Hb. exists [PMaybeNL; PS (trim se); PMark].
          destruct (Hhead b0 (S c0) ltac:(lia)) as (ps & qs & P1 & Q1 & Hc).
          destruct (Hbr b0 (S c0) ltac:(lia)) as [B1 B2].
          cbn [node_body]. rewrite P1, Q1, Hc. cbn [nth_error]. rewrite B1.
          split; [reflexivity|]. split; [apply pjoin3|apply okp3; exact B2].
        * inversion Hev; subst s. exists (Nat.max ba bbv). intros b0 c0 Hb. exists [PMaybeNL; PS []; PMark].
          destruct (Hhead b0 (S c0) ltac:(lia)) as (ps & qs & P1 & Q1 & Hc).
          cbn [node_body]. rewrite P1, Q1, Hc. cbn [nth_error branch].
          split; [reflexivity|]. split; [reflexivity|apply okp3; reflexivity].
    - (* Switch *)
      rewrite wf_switch in Hwf. apply andb_true_iff in Hwf as [Hwf Hwd]. apply andb_true_iff in Hwf as [Hwsc Hwcs].
      apply (switch_ok n IHb E e sc cs d s HE HEok Hwsc Hwcs Hwd Hev).
  Qed.
End Main2.

(* ------------------------------------------------------------------ top level *)

Lemma env_rel_top u dn : env_rel u dn [] ETop.
Proof. intros name. exists 0%nat. intros b c _. reflexivity. Qed.

Lemma env_ok_nil : env_ok [].
Proof. intros name v H. discriminate. Qed.

Lemma eval_correct u dn :
  wfu u -> dn_ok dn -> forall n page s, wfl page = true -> evals n u [] page = Some s ->
  exists L0, forall limit, (L0 <= limit)%nat -> impl_expand u dn limit page = Ok s.
Proof.
  intros Hu Hdn n page s Hw Hev.
  destruct (body_mk u dn n (flats_of_evals u dn n (main u dn Hu Hdn n)) [] ETop page s
              (env_rel_top u dn) env_ok_nil Hw Hev) as ([b0 H] & _ & _).
  exists b0. intros limit Hl. unfold impl_expand, expand.
  destruct (H (S limit) 0%nat ltac:(lia)) as (ps & H1 & H2 & H3).
  unfold impl_flatten, compile_body in H1. unfold compile_body. rewrite H1.
  rewrite inl_ok by (constructor; [reflexivity|exact H3]). cbn [tl]. rewrite H2. reflexivity.
Qed.

(* text without template syntax is returned unchanged: for EVERY string, by the evaluator model and by the reference *)
Lemma plain_text_identity u dn limit s : impl_expand u dn limit [Text s] = Ok s.
Proof.
  unfold impl_expand, expand, compile_body. cbn [map compile mkseq].
  rewrite (flatten_str _ _ _ _ (S limit) 0 (NStr s) ETop s eq_refl).
  cbn [inl piece_str tl]. cbn [pjoin map piece_str concat]. rewrite app_nil_r. reflexivity.
Qed.

Lemma plain_text_reference n u E s : eval (S n) u E (Text s) = Some s.
Proof. reflexivity. Qed.

Lemma plain_text_both (u : universe) (dn : list str) (limit : nat) (s : str) :
  impl_expand u dn limit [Text s] = Ok s /\ forall n E, eval (S n) u E (Text s) = Some s.
Proof. split; [apply plain_text_identity|intros; apply plain_text_reference]. Qed.

(* non-vacuity: t1 = "{{{1}}}-{{{x}}}{{{y}}}", page = "{{t1| a |x= b }}{{#if: |y| n }}{{#ifeq:1.0|1| e }}" *)
Definition ex_u : universe :=
  [([116;49]%N, [Param [49%N] None; Text [45%N]; Param [120%N] None; Param [121%N] None])].
Definition ex_page : list ast :=
  [Call [116;49]%N [(None, [Text [32;97;32]%N]); (Some [120%N], [Text [32;98;32]%N])];
   If [Text [32%N]] [Text [121%N]] (Some [Text [32;110;32]%N]);
   IfEq [Text [49;46;48]%N] [Text [49%N]] [Text [32;101;32]%N] None].
Definition ex_out : str := [32;97;32;45;98;123;123;123;121;125;125;125;110;101]%N.   (* " a -b{{{y}}}ne" *)

Lemma example_program :
  wfl ex_page = true /\ wfl (snd (hd ([], []) ex_u)) = true /\
  evals 10 ex_u [] ex_page = Some ex_out /\
  impl_expand ex_u [default_key] 100 ex_page = Ok ex_out.
Proof. vm_compute. repeat split. Qed.

(* non-vacuity with #switch: t2 = "{{#switch:{{{1}}}|a|b=AB|1=one|{{{k}}}=c|#default=D}}" (fall-through group, numeric
   key, computed key, #default), page = "{{t2|a}}{{t2|1.0}}{{t2|zz}}{{t2|q|k=q}}{{#switch:x|y=n| d }}" (bare last value
   as default): fall-through "AB", numeric 1.0 = 1 "one", #default "D", computed key "c", bare default "d" *)
Definition ex2_u : universe :=
  [([116;50]%N,
    [Switch [Param [49%N] None]
            [([[Text [97%N]]], [Text [98%N]], [Text [65;66]%N]);
             ([], [Text [49%N]], [Text [111;110;101]%N]);
             ([], [Param [107%N] None], [Text [99%N]])]
            (Some (true, [Text [68%N]]))])].
Definition ex2_page : list ast :=
  [Call [116;50]%N [(None, [Text [97%N]])];
   Call [116;50]%N [(None, [Text [49;46;48]%N])];
   Call [116;50]%N [(None, [Text [122;122]%N])];
   Call [116;50]%N [(None, [Text [113%N]]); (Some [107%N], [Text [113%N]])];
   Switch [Text [120%N]] [([], [Text [121%N]], [Text [110%N]])] (Some (false, [Text [32;100;32]%N]))].
Definition ex2_out : str := [65;66;111;110;101;68;99;100]%N.   (* "ABoneDcd" *)

Lemma dn_ok_default : dn_ok [default_key].
Proof. split; [left; reflexivity|]. intros a [<-|[]]. left. reflexivity. Qed.

Lemma example_switch_program :
  wfl ex2_page = true /\ wfl (snd (hd ([], []) ex2_u)) = true /\ dn_ok [default_key] /\
  evals 10 ex2_u [] ex2_page = Some ex2_out /\
  impl_expand ex2_u [default_key] 100 ex2_page = Ok ex2_out.
Proof. split; [|split; [|split; [exact dn_ok_default|]]]; vm_compute; repeat split. Qed.

(* the one #switch shape rejected by `wf`: a case "|=|" with empty last key AND empty value.  Its parse is the bare
   eqmark (a str), which evaluate.equal_split returns as a VALUE without key, so SwitchNode._init files it as a
   fall-through key "=" of the next case instead of the case ""="" .  "{{#switch:=|=|x=Y}}": MediaWiki "" (no key
   equals "="), mwlib "Y" (observed on the real code as well).  The statement of eval_correct is false there. *)
Definition ex3_page : list ast :=
  [Switch [Text [61%N]] [([], [], []); ([], [Text [120%N]], [Text [89%N]])] None].

Lemma switch_empty_case_refuted :
  wfl ex3_page = false /\
  evals 10 [] [] ex3_page = Some [] /\
  forall limit, impl_expand [] [default_key] (S limit) ex3_page = Ok [89%N].
Proof. split; [reflexivity|]. split; [reflexivity|]. intros limit. reflexivity. Qed.
