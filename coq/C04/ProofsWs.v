(* C04, interior white space of compared values (round 5).
   Parser._strip_ws (templ/parser.py:105-117; Model.v strip_ws_node) produces the comparison value of #switch and the condition
   of #if from the parsed tuple.  It may drop a white-space-only string at the FRONT and at the BACK of the tuple - nothing else:
   every element strictly between the first and the last one is kept, in order, whatever it is (in particular the blank or the
   newline between two parameters / calls, `{{{1}}} {{{2}}}`). *)
From Coq Require Import List NArith ZArith Bool Lia Arith.
From MW Require Import Common.Str C03.Model C03.Proofs C04.Model C04.ProofsSwitch C04.Proofs.
Import ListNotations.

Definition drop_front (l : list node) : list node :=
  match l with NStr s :: r => if is_blank s then r else l | _ => l end.
Definition drop_back (l1 : list node) : list node :=
  match rev l1 with NStr s :: r => if is_blank s then rev r else l1 | _ => l1 end.

Lemma strip_ws_node_seq l : strip_ws_node (NSeq l) = NSeq (drop_back (drop_front l)).
Proof. reflexivity. Qed.

Lemma drop_front_cons a r : exists pre, drop_front (a :: r) = pre ++ r /\ (pre = [a] \/ pre = []).
Proof.
  destruct a as [s| |l0|l0|nm l0|l0|l0|v l0].
  2-8: (eexists [_]; split; [reflexivity|left; reflexivity]).
  cbn [drop_front]. destruct (is_blank s).
  - exists []. split; [reflexivity|right; reflexivity].
  - exists [NStr s]. split; [reflexivity|left; reflexivity].
Qed.

Lemma drop_back_snoc r z : exists post, drop_back (r ++ [z]) = r ++ post /\ (post = [z] \/ post = []).
Proof.
  unfold drop_back. rewrite rev_app_distr. cbn [rev app].
  destruct z as [s| |l0|l0|nm l0|l0|l0|v l0].
  2-8: (eexists [_]; split; [reflexivity|left; reflexivity]).
  destruct (is_blank s).
  - exists []. split; [rewrite rev_involutive, app_nil_r; reflexivity|right; reflexivity].
  - exists [NStr s]. split; [reflexivity|left; reflexivity].
Qed.

Lemma strip_ws_front_back a m z :
  exists pre post,
    strip_ws_node (NSeq (a :: m ++ [z])) = NSeq (pre ++ m ++ post) /\
    (pre = [a] \/ pre = []) /\ (post = [z] \/ post = []).
Proof.
  rewrite strip_ws_node_seq.
  destruct (drop_front_cons a (m ++ [z])) as (pre & -> & Hpre).
  rewrite app_assoc.
  destruct (drop_back_snoc (pre ++ m) z) as (post & -> & Hpost).
  exists pre, post. rewrite <- app_assoc. split; [reflexivity|split; assumption].
Qed.

(* when neither end is a blank string the tuple is returned unchanged *)
Lemma strip_ws_identity l :
  (match l with NStr s :: _ => is_blank s = false | _ => True end) ->
  (match rev l with NStr s :: _ => is_blank s = false | _ => True end) ->
  strip_ws_node (NSeq l) = NSeq l.
Proof.
  intros Hf Hb. cbn [strip_ws_node].
  assert (E1 : (match l with NStr s :: r => if is_blank s then r else l | _ => l end) = l).
  { destruct l as [|x r]; [reflexivity|]. destruct x; try reflexivity. rewrite Hf. reflexivity. }
  rewrite E1. destruct (rev l) as [|x r]; [reflexivity|]. destruct x; try reflexivity. rewrite Hb. reflexivity.
Qed.

(* non-vacuity / the seed's class on both sides: t2 = "{{#switch: {{{1}}} {{{2}}} |a b=spaced|ab=joined|#default=other}}",
   t3 = "x", t4 = "y", t5 = "{{#switch:{{t3}}<newline>{{t4}}|xy=glued|x<newline>y=apart}}",
   t6 = "{{#ifeq:{{{1}}} {{{2}}}|a b|same|different}}"; the page
   "{{t2|a|b}}/{{t2|ab|}}/{{t2|x|y}}/{{t5}}/{{t6|a|b}}/{{t6|ab|}}" gives "spaced/joined/other/apart/same/different" by the
   reference semantics and by the model of the implementation. *)
Definition sp : str := [32%N].
Definition exw_u : universe :=
  [([116;50]%N,
    [Switch [Text sp; Param [49%N] None; Text sp; Param [50%N] None; Text sp]
            [([], [Text [97;32;98]%N], [Text [115;112;97;99;101;100]%N]);
             ([], [Text [97;98]%N], [Text [106;111;105;110;101;100]%N])]
            (Some (true, [Text [111;116;104;101;114]%N]))]);
   ([116;51]%N, [Text [120%N]]);
   ([116;52]%N, [Text [121%N]]);
   ([116;53]%N,
    [Switch [Call [116;51]%N []; Text [10%N]; Call [116;52]%N []]
            [([], [Text [120;121]%N], [Text [103;108;117;101;100]%N]);
             ([], [Text [120;10;121]%N], [Text [97;112;97;114;116]%N])]
            None]);
   ([116;54]%N,
    [IfEq [Param [49%N] None; Text sp; Param [50%N] None] [Text [97;32;98]%N] [Text [115;97;109;101]%N]
          (Some [Text [100;105;102;102;101;114;101;110;116]%N])])].
Definition exw_page : list ast :=
  [Call [116;50]%N [(None, [Text [97%N]]); (None, [Text [98%N]])]; Text [47%N];
   Call [116;50]%N [(None, [Text [97;98]%N]); (None, [])]; Text [47%N];
   Call [116;50]%N [(None, [Text [120%N]]); (None, [Text [121%N]])]; Text [47%N];
   Call [116;53]%N []; Text [47%N];
   Call [116;54]%N [(None, [Text [97%N]]); (None, [Text [98%N]])]; Text [47%N];
   Call [116;54]%N [(None, [Text [97;98]%N]); (None, [])]].
Definition exw_out : str :=
  [115;112;97;99;101;100;47;106;111;105;110;101;100;47;111;116;104;101;114;47;97;112;97;114;116;47;115;97;109;101;47;
   100;105;102;102;101;114;101;110;116]%N.

Lemma example_interior_ws_program :
  wfl exw_page = true /\ forallb (fun t => wfl (snd t)) exw_u = true /\ dn_ok [default_key] /\
  evals 10 exw_u [] exw_page = Some exw_out /\
  impl_expand exw_u [default_key] 100 exw_page = Ok exw_out.
Proof. split; [|split; [|split; [exact dn_ok_default|]]]; vm_compute; repeat split. Qed.

(* A simplified helper (the regression class of round 5): delete EVERY white-space-only string of the tuple, not only the first
   and the last.  Harmless for #if (only emptiness matters), wrong for #switch: the model of the implementation with this helper
   returns the case xy of t5 = {{#switch:{{t3}}<newline>{{t4}}|xy=glued|x<newline>y=apart}}, the reference semantics (and the
   model with the real helper) the case x<newline>y. *)
Definition strip_ws_all_node (n : node) : node :=
  match n with
  | NStr s => NStr (strip s)
  | NSeq l => NSeq (filter (fun x => match x with NStr s => negb (is_blank s) | _ => true end) l)
  | _ => n
  end.

(* t5's body parsed with the real helper and with the simplified one *)
Definition exw_switch : ast :=
  Switch [Call [116;51]%N []; Text [10%N]; Call [116;52]%N []]
         [([], [Text [120;121]%N], [Text [103;108;117;101;100]%N]);
          ([], [Text [120;10;121]%N], [Text [97;112;97;114;116]%N])] None.
Definition swap_value (f : node -> node) (n : node) : node :=
  match n with NSwitch _ args => NSwitch (f (NSeq [NTpl (NStr [116;51]%N) []; NStr [10%N]; NTpl (NStr [116;52]%N) []])) args | _ => n end.

Lemma strip_all_blank_strings_refuted :
  swap_value strip_ws_node (compile exw_switch) = compile exw_switch /\
  evals 10 exw_u [] [exw_switch] = Some [97;112;97;114;116]%N /\
  expand (tpl_of exw_u) (fun _ => false) (fun _ _ => MDone []) [default_key] 100 (compile exw_switch) = Ok [97;112;97;114;116]%N /\
  expand (tpl_of exw_u) (fun _ => false) (fun _ _ => MDone []) [default_key] 100 (swap_value strip_ws_all_node (compile exw_switch))
    = Ok [103;108;117;101;100]%N.
Proof. vm_compute. repeat split. Qed.
