(* C04 / M2 (#expr) — property theorems only.  Each is closed by `exact <lemma>` and followed by
   Print Assumptions; the check re-compiles this file on every run.  The statements about the table
   that expr.py registers today are in ExprGenProperties.v. *)
From Coq Require Import List ZArith Bool.
From MW Require Import Common.Str C04.ExprModel C04.ExprProofs.
Import ListNotations.

(* The shunting-yard parser of expr.py (model: ExprModel.parse_expr = tokens -> value, with the unary
   detection through last_operator, the e-swap, the no-pop rule for prefix operators and `prec <= top`),
   run on the serialisation of ANY expression tree t (unbounded depth; leaves = numbers and the constants
   e, pi; all 15 prefix and 17 binary operators) computes the value of the tree — for every value type V
   and every meaning of literals and operators, for every operator table with
       numargs(prefix) = 1, numargs(binary) = 2, precedence["("] < precedence[binary] <= precedence[prefix],
   and for the three serialisers: minimal parentheses (left association: right child parenthesised at
   equal precedence), parentheses around every non-leaf, and doubled parentheses. *)
Theorem C04_shunting_yard_correct :
  forall (V : Type) (num : lit -> V) (cst : const -> V) (fun1 : opname -> V -> V) (fun2 : opname -> V -> V -> V)
         (tbl : table),
    table_ok tbl = true ->
    forall t : expr,
      parse_expr V num cst fun1 fun2 tbl (ser_min tbl t) = PVal (eval V num cst fun1 fun2 t) /\
      parse_expr V num cst fun1 fun2 tbl (ser_full t) = PVal (eval V num cst fun1 fun2 t) /\
      parse_expr V num cst fun1 fun2 tbl (ser_double tbl t) = PVal (eval V num cst fun1 fun2 t).
Proof. exact shunting_yard_correct. Qed.
Print Assumptions C04_shunting_yard_correct.

(* ... and for any amount of redundant parentheses: rho c extra pairs around each sub-tree c *)
Theorem C04_shunting_yard_correct_any_redundancy :
  forall (V : Type) (num : lit -> V) (cst : const -> V) (fun1 : opname -> V -> V) (fun2 : opname -> V -> V -> V)
         (tbl : table),
    table_ok tbl = true ->
    forall (rho : expr -> nat) (t : expr),
      parse_expr V num cst fun1 fun2 tbl (ser_top tbl rho t) = PVal (eval V num cst fun1 fun2 t).
Proof. exact shunting_yard_correct_any_redundancy. Qed.
Print Assumptions C04_shunting_yard_correct_any_redundancy.

(* with the free term algebra as values: the parser returns exactly the tree that was serialised *)
Theorem C04_parse_returns_tree :
  forall tbl, table_ok tbl = true -> forall rho t, parse_tree tbl (ser_top tbl rho t) = PVal t.
Proof. exact parse_returns_tree. Qed.
Print Assumptions C04_parse_returns_tree.

Theorem C04_documented_table_ok : table_ok documented_table = true.
Proof. exact documented_table_ok. Qed.
Print Assumptions C04_documented_table_ok.

(* sanity: with "^" registered at 10 (expr.py before fixes/C04-expr-pow-precedence.diff) the hypothesis
   table_ok fails and `floor x ^ y`, `not x ^ y`, ... are parsed as floor (x ^ y), not (x ^ y) *)
Example C04_current_table_deviates :
  table_ok table_2024 = false /\
  forall u x y, In u [UNot; UAbs; UCeil; UFloor; UTrunc] ->
    ser_min documented_table (Bin BPow (Un u (Num x)) (Num y)) = [TOp (OU u); TNum x; TOp (OB BPow); TNum y] /\
    parse_tree table_2024 [TOp (OU u); TNum x; TOp (OB BPow); TNum y] = PVal (Un u (Bin BPow (Num x) (Num y))) /\
    parse_tree documented_table [TOp (OU u); TNum x; TOp (OB BPow); TNum y] = PVal (Bin BPow (Un u (Num x)) (Num y)).
Proof. exact current_table_deviates. Qed.
Print Assumptions C04_current_table_deviates.

(* non-vacuity: ((1 - (2 - 3)) * -4 ^ 2 < abs (5 + 6)) or not 0, depth 4 *)
Example C04_expr_example :
  ser_min documented_table ex_tree
  = [TLParen; TNum [49%N]; TOp (OB BSub); TLParen; TNum [50%N]; TOp (OB BSub); TNum [51%N]; TRParen; TRParen;
     TOp (OB BMul); TOp (OB BSub); TNum [52%N]; TOp (OB BPow); TNum [50%N];
     TOp (OB BLt); TOp (OU UAbs); TLParen; TNum [53%N]; TOp (OB BAdd); TNum [54%N]; TRParen;
     TOp (OB BOr); TOp (OU UNot); TNum [48%N]]
  /\ parse_tree documented_table (ser_min documented_table ex_tree) = PVal ex_tree
  /\ parse_tree documented_table (ser_full ex_tree) = PVal ex_tree
  /\ parse_tree documented_table (ser_double documented_table ex_tree) = PVal ex_tree
  /\ length (ser_full ex_tree) = 38%nat.
Proof. exact example_parse. Qed.
Print Assumptions C04_expr_example.
