"""Regenerates MANIFEST.json from the table below (kept valid at all times)."""
import json
import os

VERIF = os.path.dirname(os.path.dirname(os.path.abspath(__file__)))
BASE = "cd /repo && /venv/bin/python -m pytest -ra -q -p no:cacheprovider --timeout=900 --continue-on-collection-errors"

CLAIMED = {
    "C15": dict(
        category="proof",
        text=("Machine-checked (Coq) proof over a Gallina model of posixpath.normpath/join/dirname/abspath and "
              "extract_member/extractall: for every destination other than the root and every list of member names over "
              "arbitrary characters, each path created or written is the destination or lexically inside it (no '..', '.', "
              "empty components), written files strictly inside; an escaping member ends the run as Rejected with exactly the "
              "effects of the members before it.  The model is tied to the code on every run by a differential run of the "
              "extracted model against nuwiki.extractall on generated zips in a sandbox, plus a filesystem-diff oracle."),
        design_ref="DESIGN.md §6 C15",
        note=("Trusted: Coq kernel; extraction with ExtrOcamlBasic; the hand-written model (tied only by the differential run); "
              "zipfile; premise that the destination exists and holds no symlinks; POSIX separators only."),
        technique="Coq proof (induction over component lists) + extracted-model differential correspondence + fs-diff search",
    ),
}

CLAIMED["C10"] = dict(
    category="proof",
    text=("Machine-checked (Coq) proof that for every text (any list of code points, unbounded) the scanner model terminates "
          "normally and its token spans tile the text before the first NUL: spans are non-empty, ordered, start at 0 and end at "
          "the end, every gap between them consists of U+EBAD only, and nothing else is dropped (theorem C10_tiling and "
          "consequences). The model is the rule table regenerated from _uscan.re on every run by a fail-closed translator, re2c "
          "longest-match/first-rule semantics over a verified derivative matcher, and a hand transcription of every action "
          "(found/merge/last_ebad, tablemode, rowchar, section retagging, the cursor rewinds, newline/break split). It is tied to "
          "the running code by an exhaustive differential run of the extracted scanner against the rebuilt _uscan.cc through "
          "utoken.scan (1.4M texts quick, 30M thorough, exact token lists), plus the tiling oracle on the real output."),
    design_ref="DESIGN.md §6 C10",
    note=("Trusted: Coq kernel and vm_compute; the re2c-subset translator vt/gen/c10_rules.py; the hand transcription of the C++ "
          "actions (pinned textually against _uscan.cc and tied by the differential run); ExtrOcamlBasic extraction and "
          "ocaml/c10/driver.ml; re2c code generation and the C++/CPython glue (covered only by the differential run). Not "
          "modelled: int overflow of tablemode and offsets. A U+EBAD inside a URL, html tag or comment is covered by that token, "
          "which the property allows."),
    technique=("Coq proof (derivative matcher correctness, rule-table obligations by vm_compute, loop invariant over the consumed "
               "prefix) + source-to-Coq rule translator + extracted-model exhaustive differential correspondence + tiling-oracle search"),
)

_cj = os.path.join(VERIF, 'vt', 'claims.json')
if os.path.exists(_cj):
    CLAIMED.update(json.load(open(_cj)))

NOT_YET = {
}

NOT_APPLICABLE = {
    "C08": ("statement is about ReportLab's layout engine, pypdf text extraction, odfpy and odflint output; no executable Gallina "
            "model of those libraries can be written and tied to them here, so a Coq theorem has nothing to correspond to (DESIGN.md §7)"),
}


def main():
    props = [json.loads(l)["id"] for l in open(os.path.join(VERIF, "properties.jsonl"))]
    checks = []
    na = []
    for p in props:
        if p in CLAIMED:
            c = CLAIMED[p]
            checks.append({
                "property_id": p,
                "quick_cmd": "./check %s --tier quick" % p,
                "thorough_cmd": "./check %s --tier thorough" % p,
                "evidence_file": "/verif/evidence/%s.json" % p,
                "replay_cmd_template": "./check %s --replay {path}" % p,
                "engine": "coq+correspondence",
                "level_claimed": {"category": c["category"], "text": c["text"], "design_ref": c["design_ref"]},
                "level_note": c["note"],
                "technique": c["technique"],
            })
        elif p in NOT_APPLICABLE:
            na.append({"property_id": p, "reason": NOT_APPLICABLE[p]})
        else:
            na.append({"property_id": p, "reason": NOT_YET.get(p, "check not built yet in this round (planned, see DESIGN.md §6); not claimed until its check exists")})
    m = {
        "version": 1,
        "setup_cmd": "./check --setup",
        "hooks": {
            "guard": "MWLIB_VERIF",
            "enable": "none needed: all observation is external (monkey-patching from the harness process, strace); no guarded code in /repo",
            "baseline_off_cmd": BASE,
            "source_commits": [],
            "add_only": True,
        },
        "engines": [{"name": "coq+correspondence", "path": "/verif/check",
                     "serves_properties": sorted(CLAIMED),
                     "kind_free_text": "Coq 8.16.1 theorems over Gallina models (coq/), tied to /repo by translators (vt/gen) and by differential runs of extracted OCaml models (ocaml/) against a snapshot of the working tree; property-oracle search on the real code"}],
        "checks": checks,
        "not_applicable": na,
        "notes": "See DESIGN.md. known_findings.json lists recorded findings and fixed defects.",
    }
    with open(os.path.join(VERIF, "MANIFEST.json"), "w") as f:
        json.dump(m, f, indent=1)
        f.write("\n")


if __name__ == "__main__":
    main()
