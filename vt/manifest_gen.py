"""Regenerates MANIFEST.json from the table below (kept valid at all times)."""
import json
import os

VERIF = os.path.dirname(os.path.dirname(os.path.abspath(__file__)))
BASE = "cd /repo && /venv/bin/python -m pytest -ra -q -p no:cacheprovider --timeout=900 --continue-on-collection-errors"

CLAIMED = {}

_cj = os.path.join(VERIF, 'vt', 'claims.json')
if os.path.exists(_cj):
    CLAIMED.update(json.load(open(_cj)))

NOT_YET = {
}

NOT_APPLICABLE = {
    "C08": ("statement is about ReportLab's layout engine, pypdf text extraction, odfpy and odflint output; no executable Gallina "
            "model of those libraries can be written and tied to them here, so a Coq theorem has nothing to correspond to (DESIGN.md §7)"),
}


def main():
    props = [json.loads(l)["id"] for l in open(os.path.join(VERIF, "properties.jsonl"))]
    checks = []
    na = []
    for p in props:
        if p in CLAIMED:
            c = CLAIMED[p]
            checks.append({
                "property_id": p,
                "quick_cmd": "./check %s --tier quick" % p,
                "thorough_cmd": "./check %s --tier thorough" % p,
                "evidence_file": "/verif/evidence/%s.json" % p,
                "replay_cmd_template": "./check %s --replay {path}" % p,
                "engine": "coq+correspondence",
                "level_claimed": {"category": c["category"], "text": c["text"], "design_ref": c["design_ref"]},
                "level_note": c["note"],
                "technique": c["technique"],
            })
        elif p in NOT_APPLICABLE:
            na.append({"property_id": p, "reason": NOT_APPLICABLE[p]})
        else:
            na.append({"property_id": p, "reason": NOT_YET.get(p, "check not built yet in this round (planned, see DESIGN.md §6); not claimed until its check exists")})
    m = {
        "version": 1,
        "setup_cmd": "./check --setup",
        "hooks": {
            "guard": "MWLIB_VERIF",
            "enable": "none needed: all observation is external (monkey-patching from the harness process, strace); no guarded code in /repo",
            "baseline_off_cmd": BASE,
            "source_commits": [],
            "add_only": True,
        },
        "engines": [{"name": "coq+correspondence", "path": "/verif/check",
                     "serves_properties": sorted(CLAIMED),
                     "kind_free_text": "Coq 8.16.1 theorems over Gallina models (coq/), tied to /repo by translators (vt/gen) and by differential runs of extracted OCaml models (ocaml/) against a snapshot of the working tree; property-oracle search on the real code"}],
        "checks": checks,
        "not_applicable": na,
        "notes": ("See DESIGN.md (reading order: §2, §12.1, §12.2, §13). known_findings.json lists the 59 defects repaired by fix: commits and one "
                  "recorded known finding (C11). seeded/ holds 151 independently written breaking changes with what catches each. Quick checks take "
                  "10-90 s each on an idle 16-core machine (sum about 12 min); thorough checks 3-25 min each when run alone (C16-C18 and C20 "
                  "are the longest: exhaustive replay of model states on the real queue / strace enumeration), several times longer when "
                  "run concurrently. Two checks of the SAME property must not run at the same time with different VERIF_REPO values "
                  "(they share coq/CXX/Gen_*.v)."),
    }
    with open(os.path.join(VERIF, "MANIFEST.json"), "w") as f:
        json.dump(m, f, indent=1)
        f.write("\n")


if __name__ == "__main__":
    main()
