"""Re-evaluates every seeded change: demo on clean copy / with patch, ./check on the patched copy (quick tier).
Writes the outcome into seeded/<id>/meta.json under "integrator_result" and prints a table.
usage: python3 vt/seedall.py [ids...]   (default: all)"""
import glob, json, os, re, subprocess, sys
V = "/verif"
ids = sys.argv[1:] or sorted(os.path.basename(d) for d in glob.glob(V + "/seeded/*") if os.path.isdir(d))
rows = []
for sid in ids:
    d = os.path.join(V, "seeded", sid)
    prop = sid.split("-")[0]
    p = subprocess.run([V + "/vt/seedtest.sh", d, prop, "quick", "--skip-tests"], capture_output=True, text=True)
    out = p.stdout + p.stderr
    clean = re.search(r"demo on clean: exit (\d+)", out)
    patched = re.search(r"demo with patch: exit (\d+)", out)
    viol = re.findall(r"^VIOLATION.*$", out, re.M)
    concrete = [v for v in viol if "no-failing-input-found" not in v]
    res = {
        "patch_applies": "PATCH DOES NOT APPLY" not in out,
        "demo_clean_exit": int(clean.group(1)) if clean else None,
        "demo_patched_exit": int(patched.group(1)) if patched else None,
        "check_violation_lines": len(viol),
        "check_concrete_replays": len(concrete),
        "summary_line": (re.findall(r"^C\d\d quick:.*$", out, re.M) or [""])[-1],
        "command": "vt/seedtest.sh seeded/%s %s quick --skip-tests" % (sid, prop),
    }
    mp = os.path.join(d, "meta.json")
    m = json.load(open(mp))
    m["integrator_result"] = res
    if not m.get("caught_by"):
        m["caught_by"] = ("%s quick tier: monitor hit with concrete replay (+%d VIOLATION lines)" % (prop, len(viol)) if concrete else
                          ("%s quick tier: broken obligation/correspondence only (no-failing-input-found)" % prop if viol else "NOT CAUGHT by the quick tier"))
    json.dump(m, open(mp, "w"), indent=1)
    rows.append((sid, res))
    print(sid, res["patch_applies"], res["demo_clean_exit"], res["demo_patched_exit"], len(viol), len(concrete), flush=True)
bad = [s for s, r in rows if not (r["patch_applies"] and r["demo_clean_exit"] == 0 and r["demo_patched_exit"] == 1 and r["check_concrete_replays"] > 0)]
print("NOT fully caught / stale:", bad)
