#!/bin/bash
# usage: applyfix.sh <diff under /verif/fixes> <commit message>   — applies to /repo, rebuilds extensions if .pyx/.cc changed,
# runs baseline (one retry for the load-sensitive timing test), commits
cd /repo
f="$1"; msg="$2"
if ! patch -p1 --quiet < /verif/fixes/$f; then echo "PATCH FAIL $f"; git checkout -- src; find src -name "*.rej" -o -name "*.orig" | xargs rm -f; exit 1; fi
find src -name "*.orig" | xargs rm -f
if git status --short | grep -qE "\.pyx|\.cc|\.re"; then /venv/bin/python /verif/vt/rebuild_repo_ext.py 2>&1 | tail -1; fi
r=$(/verif/vt/baseline.sh); case "$r" in *"702 passed"*) ;; *) r=$(/verif/vt/baseline.sh);; esac
echo "$f: $r"
case "$r" in *"702 passed"*) git add -A src && git commit -qm "$msg" && echo committed;; *) echo "TESTS CHANGED - reverting"; git checkout -- src; /venv/bin/python /verif/vt/rebuild_repo_ext.py | tail -1; exit 1;; esac
