"""Rebuild the C/Cython extensions from /repo's current sources (through the snapshot cache) and copy the
.so files into /repo/src, so that the repository's own test suite exercises the current .pyx/.cc."""
import os, shutil, sys
sys.path.insert(0, "/verif")
from vt import core
src = core.snapshot(need_ext=True)
n = 0
for root, _d, files in os.walk(src):
    for fn in files:
        if fn.endswith(".so"):
            rel = os.path.relpath(os.path.join(root, fn), src)
            shutil.copy2(os.path.join(root, fn), os.path.join(core.REPO, "src", rel))
            n += 1
print("copied", n, ".so files into", core.REPO)
