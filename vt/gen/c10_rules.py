"""C10 translator: src/mwlib/parser/token/_uscan.re  ->  coq/C10/Gen_rules.v   (FAIL-CLOSED).

Emits, in source order: the token-type enum, every named re2c definition, and the two rule
blocks (begin-of-line block, main block) as `Regex.re` terms paired with an action tag of
coq/C10/Tags.v.  Anything outside the understood subset of re2c syntax, any unknown action
body, and any change of the hand-transcribed C++ around the rules (found/bol/eol/newline, the
glue between the blocks) raises TranslateError: the model must then be re-audited by hand.

re2c subset understood: "strings" and 'case-insensitive strings' with escapes \\n \\t \\\\ \\" \\'
\\ooo \\xHH \\XHHHH \\uHHHH \\UHHHHHHHH; classes [..] / [^..] with ranges and the same escapes plus \\[ \\] \\-;
`[^]`; `.` (any code point but \\n); names; ( ) | juxtaposition; postfix * + ? {n} {n,}.
An inverted range such as a-Z is swapped (re2c's default, -Wswapped-range only warns); the
differential run against the compiled _uscan.cc validates that reading."""
import os
import re

from vt import core

REL = "mwlib/parser/token/_uscan.re"


class TranslateError(Exception):
    pass


def norm(s):
    return re.sub(r"\s+", "", s)


# ---------------------------------------------------------------- expected hand-written C++ (whitespace-free)
# These are the parts of _uscan.re that coq/C10/Model.v transcribes by hand.  If any of them
# changes, generation fails and Model.v has to be re-read against the new source.

EXPECT_PRELUDE = norm(r'''
#define RET(x) {found(x); return x;}
''')

EXPECT_SCANNER = norm(r'''
class Scanner {
public:

    Scanner(Py_UCS4 *_start, Py_UCS4 *_end) {
        source = start = _start;
        end = _end;
        cursor = start;
        line_startswith_section = -1;
        tablemode = 0;
        last_ebad = false;
    }

    int found(mwtok val) {
        if (val == t_ebad) {
            last_ebad = true;
            return tokens.size() - 1;
        }

        if (val == t_text && tokens.size() && !last_ebad) {
            Token &previous_token(tokens[tokens.size() - 1]);
            if (previous_token.type == val) {
                previous_token.len += cursor - start;
                return tokens.size() - 1;
            }
        }

        last_ebad = false;

        Token t;
        t.type = val;
        t.start = (start - source);
        t.len = cursor - start;
        tokens.push_back(t);
        return tokens.size() - 1;
    }

    bool bol() {
        if ((start == source) || (start[-1] == '\n')) {
            memset(&lineflags, 0, sizeof(lineflags));
            return true;
        } else {
            return false;
        }
    }

    bool eol() const {
        return *cursor == '\n' || *cursor == 0;
    }

    void newline() {
        if (line_startswith_section >= 0) {
            tokens[line_startswith_section].type = t_text;
        }
        line_startswith_section = -1;
    }

    inline int scan();

    Py_UCS4 *source;

    Py_UCS4 *start;
    Py_UCS4 *cursor;
    Py_UCS4 *end;
    vector <Token> tokens;

    bool last_ebad;
    int line_startswith_section;
    int tablemode;
    struct {
        Py_UCS4 rowchar;
    } lineflags;
};


int Scanner::scan() {
    start = cursor;

    Py_UCS4 *marker = cursor;

    Py_UCS4 *save_cursor = cursor;


#define YYCTYPE         Py_UCS4
#define YYCURSOR        cursor
#define YYMARKER    marker
#define YYLIMIT   (end)
// #define YYFILL(n) return 0;
''')

EXPECT_CONFIG = norm("re2c:yyfill:enable = 0 ;")
EXPECT_BETWEEN_DEFS_AND_BOL = norm("if (!bol()) { goto not_bol; }")
EXPECT_BETWEEN_BOL_AND_MAIN = norm("not_bol: cursor = save_cursor; marker = cursor;")
EXPECT_AFTER_MAIN = norm("}")       # end of Scanner::scan
EXPECT_DRIVER_LOOP = norm("Scanner scanner(start, end); Py_BEGIN_ALLOW_THREADS while (scanner.scan()) { } Py_END_ALLOW_THREADS")
EXPECT_BUILD = norm('PyList_SET_ITEM(result, i, Py_BuildValue("iii", t.type, t.start, t.len));')

# action body (whitespace removed)  ->  Coq tag
ACTIONS = {
    norm("{++tablemode; RET(t_begin_table);}"): "A_begin_table",
    norm("{if (--tablemode<0) tablemode=0; RET(t_end_table);}"): "A_end_table",
    norm("""{ if (tablemode) RET(t_row); if (*start==' ') { cursor = start+1; RET(t_pre); } RET(t_text); }"""): "A_bol_row",
    norm("""{ if (tablemode) { lineflags.rowchar=cursor[-1]; RET(t_column); }
              if (*start==' ') { cursor = start+1; RET(t_pre); } RET(t_text); }"""): "A_bol_column",
    norm("""{ if (tablemode) RET(t_tablecaption); if (*start==' ') { cursor = start+1; RET(t_pre); } RET(t_text); }"""): "A_bol_caption",
    norm("{ line_startswith_section = found(t_section); return t_section; }"): "A_section",
    norm("{goto not_bol;}"): "A_goto_notbol",
    norm("""{ if (eol()) { if (line_startswith_section>=0) { line_startswith_section=-1; RET(t_section_end); }
              else { RET(t_text); } } else { RET(t_text); } }"""): "A_eq",
    norm("""{ newline(); Py_UCS4 *tmp = cursor; cursor = start+1; found(t_newline); start += 1; cursor = tmp;
              RET(t_break); }"""): "A_break",
    norm("{newline(); RET(t_newline);}"): "A_newline",
    norm("""{ if (tablemode) { if (cursor[-2]!='!' || cursor[-2]==lineflags.rowchar) { RET(t_column); } }
              cursor = start+1; RET(t_special); }"""): "A_colsep",
    norm("{ if (tablemode) RET(t_tablecaption); cursor = start+1; RET(t_special); }"): "A_capsep",
    norm("{newline(); return t_end;}"): "A_end",
}
RET_RE = re.compile(r"^\{RET\((t_[a-z0-9_]+)\);\}$")

# token types the hand-written model refers to by name
NEEDED_TYPES = ["t_end", "t_text", "t_begin_table", "t_end_table", "t_pre", "t_section", "t_section_end", "t_newline",
                "t_break", "t_column", "t_row", "t_tablecaption", "t_special", "t_ebad"]


# ---------------------------------------------------------------- regex AST (python side)
#   ("chr", neg, [(lo,hi)..]) | ("str", [cps]) | ("cat", [..]) | ("alt", [..]) | ("star", r) | ("plus", r)
#   | ("opt", r) | ("rep", n, r, open_ended) | ("ref", name)

class P:
    """Recursive-descent parser over one re2c block."""

    def __init__(self, text, defs):
        self.t = text
        self.i = 0
        self.defs = defs

    def err(self, msg):
        ctx = self.t[max(0, self.i - 30):self.i + 30].replace("\n", "\\n")
        raise TranslateError("%s at offset %d near %r" % (msg, self.i, ctx))

    def ws(self):
        while self.i < len(self.t) and self.t[self.i] in " \t\r\n":
            self.i += 1

    def peek(self):
        return self.t[self.i] if self.i < len(self.t) else ""

    def eof(self):
        self.ws()
        return self.i >= len(self.t)

    # -- escapes
    def escape(self, in_class):
        # self.t[self.i] == "\\"
        self.i += 1
        c = self.peek()
        if c == "":
            self.err("dangling backslash")
        simple = {"n": 10, "t": 9, "\\": 92, '"': 34, "'": 39}
        if in_class:
            simple.update({"[": 91, "]": 93, "-": 45})
        if c in simple:
            self.i += 1
            return simple[c]
        for lead, n in (("X", 4), ("x", 2), ("u", 4), ("U", 8)):
            if c == lead:
                h = self.t[self.i + 1:self.i + 1 + n]
                if len(h) != n or not re.fullmatch(r"[0-9a-fA-F]+", h):
                    self.err("bad \\%s escape" % lead)
                self.i += 1 + n
                return int(h, 16)
        if c in "01234567":
            o = self.t[self.i:self.i + 3]
            if not re.fullmatch(r"[0-7]{3}", o):
                self.err("octal escape must have 3 digits")
            self.i += 3
            return int(o, 8)
        self.err("unknown escape \\%s" % c)

    def string(self, q):
        self.i += 1
        cps = []
        while True:
            c = self.peek()
            if c == "" or c == "\n":
                self.err("unterminated string")
            if c == q:
                self.i += 1
                break
            if c == "\\":
                cps.append(self.escape(False))
            else:
                cps.append(ord(c))
                self.i += 1
        if not cps:
            self.err("empty string literal")
        if q == "'":
            parts = []
            for cp in cps:
                ch = chr(cp)
                if ch.isascii() and ch.isalpha():
                    lo, up = ord(ch.lower()), ord(ch.upper())
                    parts.append(("chr", False, sorted([(up, up), (lo, lo)])))
                else:
                    parts.append(("chr", False, [(cp, cp)]))
            return parts[0] if len(parts) == 1 else ("cat", parts)
        return ("str", cps)

    def klass(self):
        self.i += 1
        neg = False
        if self.peek() == "^":
            neg = True
            self.i += 1
        items = []
        while True:
            c = self.peek()
            if c == "" or c == "\n":
                self.err("unterminated class")
            if c == "]":
                self.i += 1
                break
            lo = self.escape(True) if c == "\\" else self._plain_class_char()
            if self.peek() == "-" and self.t[self.i + 1:self.i + 2] not in ("]", ""):
                self.i += 1
                c2 = self.peek()
                hi = self.escape(True) if c2 == "\\" else self._plain_class_char()
                if hi < lo:          # re2c default: swap (only -Wswapped-range warns)
                    lo, hi = hi, lo
                items.append((lo, hi))
            else:
                items.append((lo, lo))
        if not items and not neg:
            self.err("empty class")
        return ("chr", neg, items)

    def _plain_class_char(self):
        c = self.peek()
        if c in "\n\r" or c == "":
            self.err("bad class character")
        self.i += 1
        return ord(c)

    # -- grammar
    def atom(self):
        self.ws()
        c = self.peek()
        if c == '"' or c == "'":
            return self.string(c)
        if c == "[":
            return self.klass()
        if c == ".":
            self.i += 1
            return ("chr", True, [(10, 10)])
        if c == "(":
            self.i += 1
            r = self.alt()
            self.ws()
            if self.peek() != ")":
                self.err("expected )")
            self.i += 1
            return r
        m = re.match(r"[A-Za-z_][A-Za-z0-9_]*", self.t[self.i:])
        if m:
            name = m.group(0)
            if name not in self.defs:
                self.err("undefined name %s" % name)
            self.i += len(name)
            return ("ref", name)
        self.err("unexpected character %r in regular expression" % c)

    def postfix(self):
        r = self.atom()
        while True:
            c = self.peek()          # re2c: postfix operators follow without... allow no whitespace only
            if c == "*":
                self.i += 1
                r = ("star", r)
            elif c == "+":
                self.i += 1
                r = ("plus", r)
            elif c == "?":
                self.i += 1
                r = ("opt", r)
            elif c == "{" and re.match(r"\{[0-9]", self.t[self.i:]):
                m = re.match(r"\{([0-9]+)(,)?\}", self.t[self.i:])
                if not m:
                    self.err("unsupported repetition")
                n = int(m.group(1))
                if n > 64:
                    self.err("repetition too large")
                self.i += len(m.group(0))
                r = ("rep", n, r, bool(m.group(2)))
            else:
                return r

    def at_regex_end(self):
        self.ws()
        c = self.peek()
        if c in ("", "|", ")", ";"):
            return True
        if c == "{" and not re.match(r"\{[0-9]", self.t[self.i:]):
            return True
        return False

    def cat(self):
        parts = [self.postfix()]
        while not self.at_regex_end():
            parts.append(self.postfix())
        return parts[0] if len(parts) == 1 else ("cat", parts)

    def alt(self):
        parts = [self.cat()]
        self.ws()
        while self.peek() == "|":
            self.i += 1
            parts.append(self.cat())
            self.ws()
        return parts[0] if len(parts) == 1 else ("alt", parts)

    def code(self):
        """brace-balanced C++ action; the actions of this file contain no strings/comments with braces
        (character literals like ' ' and '!' are allowed)."""
        assert self.peek() == "{"
        depth = 0
        j = self.i
        while j < len(self.t):
            ch = self.t[j]
            if ch in "\"":
                self.err("string literal inside an action is not supported")
            if ch == "/" and self.t[j + 1:j + 2] in ("/", "*"):
                self.err("comment inside an action is not supported")
            if ch == "'":
                m = re.match(r"'(\\.|[^\\'])'", self.t[j:])
                if not m:
                    self.err("bad character literal in action")
                if m.group(1) in ("{", "}"):
                    self.err("brace character literal in action")
                j += len(m.group(0))
                continue
            if ch == "{":
                depth += 1
            elif ch == "}":
                depth -= 1
                if depth == 0:
                    body = self.t[self.i:j + 1]
                    self.i = j + 1
                    return body
            j += 1
        self.err("unbalanced action")


def parse_defs(text):
    defs = {}
    order = []
    p = P(text, defs)
    while not p.eof():
        m = re.match(r"([A-Za-z_][A-Za-z0-9_]*)\s*=", p.t[p.i:])
        if not m:
            p.err("expected a named definition")
        name = m.group(1)
        if name in defs:
            p.err("duplicate definition %s" % name)
        p.i += len(m.group(0))
        r = p.alt()
        p.ws()
        if p.peek() != ";":
            p.err("expected ; after definition of %s" % name)
        p.i += 1
        defs[name] = r
        order.append(name)
    return defs, order


def parse_rules(text, defs, types):
    p = P(text, defs)
    rules = []
    while not p.eof():
        if re.match(r"[A-Za-z_][A-Za-z0-9_]*\s*=[^=]", p.t[p.i:]) or p.t[p.i:].startswith("re2c:"):
            p.err("definition or configuration inside a rule block")
        start = p.i
        r = p.alt()
        p.ws()
        if p.peek() != "{":
            p.err("expected action")
        src = " ".join(p.t[start:p.i].split())
        body = norm(p.code())
        m = RET_RE.match(body)
        if m:
            if m.group(1) not in types:
                raise TranslateError("RET of unknown token type %s" % m.group(1))
            tag = "(A_ret %s)" % m.group(1)
        elif body in ACTIONS:
            tag = ACTIONS[body]
        else:
            raise TranslateError("unknown action body (re-audit coq/C10/Model.v): %s" % body)
        rules.append((r, tag, src))
    if not rules:
        raise TranslateError("empty rule block")
    return rules


def parse_enum(text):
    m = re.search(r"typedef\s+enum\s*\{(.*?)\}\s*mwtok\s*;", text, re.S)
    if not m:
        raise TranslateError("token enum mwtok not found")
    body = re.sub(r"//[^\n]*", "", m.group(1))
    names = [x.strip() for x in body.split(",")]
    if names and names[-1] == "":
        names.pop()
    types = {}
    for i, n in enumerate(names):
        if not re.fullmatch(r"t_[a-z0-9_]+", n):
            raise TranslateError("unsupported enum entry %r" % n)
        if n in types:
            raise TranslateError("duplicate enum entry " + n)
        types[n] = i
    for n in NEEDED_TYPES:
        if n not in types:
            raise TranslateError("token type %s missing from enum" % n)
    return types


# ---------------------------------------------------------------- Coq output

def coq_ranges(rs):
    return "[" + "; ".join("(%d, %d)" % (lo, hi) for lo, hi in rs) + "]"


def coq_re(r):
    k = r[0]
    if k == "chr":
        if not r[1] and len(r[2]) == 1 and r[2][0][0] == r[2][0][1]:
            return "(chr %d)" % r[2][0][0]
        return "(Chr (Cls %s %s))" % ("true" if r[1] else "false", coq_ranges(r[2]))
    if k == "str":
        return "(str [%s])" % "; ".join(str(c) for c in r[1])
    if k == "ref":
        return "d_" + r[1]
    if k == "cat":
        parts = [coq_re(x) for x in r[1]]
        out = parts[-1]
        for x in reversed(parts[:-1]):
            out = "(Cat %s %s)" % (x, out)
        return out
    if k == "alt":
        parts = [coq_re(x) for x in r[1]]
        out = parts[0]
        for x in parts[1:]:
            out = "(Alt %s %s)" % (out, x)
        return out
    if k == "star":
        return "(Star %s)" % coq_re(r[1])
    if k == "plus":
        return "(plus %s)" % coq_re(r[1])
    if k == "opt":
        return "(opt %s)" % coq_re(r[1])
    if k == "rep":
        inner = coq_re(r[2])
        return "(rep %d %s %s)" % (r[1], inner, ("(Star %s)" % inner) if r[3] else "Eps")
    raise TranslateError("internal: unknown node %r" % (k,))


def coq_comment(s):
    return s.replace("(*", "( *").replace("*)", "* )")


def translate(text):
    """_uscan.re text -> (Gen_rules.v text, info dict)."""
    if "\t" in EXPECT_SCANNER:
        raise TranslateError("internal")
    blocks = list(re.finditer(r"/\*!re2c(.*?)\*/", text, re.S))
    if len(blocks) != 4:
        raise TranslateError("expected 4 re2c blocks (config, definitions, bol rules, main rules), found %d" % len(blocks))
    cfg, dfs, bol, main = blocks
    if norm(cfg.group(1)) != EXPECT_CONFIG:
        raise TranslateError("unexpected re2c configuration block: %r" % cfg.group(1))
    # the hand-transcribed C++ must be unchanged
    head = text[:cfg.start()]
    if EXPECT_PRELUDE not in norm(head):
        raise TranslateError("RET macro changed")
    i = head.find("class Scanner")
    if i < 0 or norm(head[i:]) != EXPECT_SCANNER:
        raise TranslateError("class Scanner / head of Scanner::scan changed: re-audit coq/C10/Model.v (found/bol/eol/newline)")
    between = re.sub(r"/\*.*?\*/", "", text[cfg.end():dfs.start()], flags=re.S)
    if norm(between) != "":
        raise TranslateError("unexpected code between configuration and definitions: %r" % between)
    if norm(text[dfs.end():bol.start()]) != EXPECT_BETWEEN_DEFS_AND_BOL:
        raise TranslateError("code between definitions and begin-of-line block changed")
    if norm(text[bol.end():main.start()]) != EXPECT_BETWEEN_BOL_AND_MAIN:
        raise TranslateError("code between begin-of-line block and main block changed")
    tail = text[main.end():]
    j = tail.find("PyObject *py_scan")
    if j < 0 or norm(tail[:j]) != EXPECT_AFTER_MAIN:
        raise TranslateError("code after the main rule block changed")
    if EXPECT_DRIVER_LOOP not in norm(tail) or EXPECT_BUILD not in norm(tail):
        raise TranslateError("py_scan driver loop / result construction changed")
    types = parse_enum(head)
    defs, order = parse_defs(dfs.group(1))
    bol_rules = parse_rules(bol.group(1), defs, types)
    main_rules = parse_rules(main.group(1), defs, types)

    out = []
    out.append("(* GENERATED by vt/gen/c10_rules.py from src/%s -- do not edit. *)" % REL)
    out.append("From Coq Require Import List NArith.")
    out.append("From MW Require Import C10.Regex C10.Tags.")
    out.append("Import ListNotations.")
    out.append("Local Open Scope N_scope.")
    out.append("")
    out.append("(* token types: enum mwtok *)")
    for n, v in types.items():
        out.append("Definition %s : N := %d." % (n, v))
    out.append("Definition token_type_count : N := %d." % len(types))
    out.append("")
    out.append("(* named definitions *)")
    for n in order:
        out.append("Definition d_%s : re := %s." % (n, coq_re(defs[n])))
    for title, name, rules in (("begin-of-line block", "bol_rules", bol_rules), ("main block", "main_rules", main_rules)):
        out.append("")
        out.append("(* %s, in source order *)" % title)
        out.append("Definition %s : list (re * act) := [" % name)
        for k, (r, tag, src) in enumerate(rules):
            out.append("  (* %s *)" % coq_comment(src))
            out.append("  (%s, %s)%s" % (coq_re(r), tag, ";" if k + 1 < len(rules) else ""))
        out.append("].")
    out.append("")
    bounds = set()

    def walk(r):
        if r[0] == "chr":
            for lo, hi in r[2]:
                bounds.update(x for x in (lo - 1, lo, hi, hi + 1) if 0 <= x <= 0x10FFFF)
        elif r[0] == "str":
            bounds.update(r[1])
        elif r[0] in ("cat", "alt"):
            for x in r[1]:
                walk(x)
        elif r[0] in ("star", "plus", "opt"):
            walk(r[1])
        elif r[0] == "rep":
            walk(r[2])
        elif r[0] == "ref":
            walk(defs[r[1]])
    for r, _t, _s in bol_rules + main_rules:
        walk(r)
    info = {"types": types, "definitions": order, "bol_rules": len(bol_rules), "main_rules": len(main_rules),
            "class_bounds": sorted(bounds),
            "tags": sorted(set(t for _r, t, _s in bol_rules + main_rules))}
    return "\n".join(out), info


SCAN_PY_RE = re.compile(r'\ndef scan\(text\):\n    text \+= "\\0" \* ([0-9]+)\n    return _mwscan\.scan\(text\)\n')


def sentinel_count(utoken_text):
    """utoken.scan must be exactly: append N NULs, call _uscan.scan (utoken.py:216-218)"""
    m = SCAN_PY_RE.findall(utoken_text)
    if len(m) != 1:
        raise TranslateError("utoken.scan changed (expected: text += \"\\0\" * N; return _mwscan.scan(text))")
    if "from mwlib.parser.token import _uscan as _mwscan" not in utoken_text:
        raise TranslateError("utoken no longer imports _uscan as _mwscan")
    n = int(m[0])
    if n > 2000:
        raise TranslateError("sentinel count too large for a nat literal")
    return n


def generate(src):
    path = os.path.join(src, REL)
    text = open(path, encoding="utf8").read()
    gen, info = translate(text)
    n = sentinel_count(open(os.path.join(src, "mwlib/parser/token/utoken.py"), encoding="utf8").read())
    gen += "\n(* utoken.scan (utoken.py): number of NUL sentinels appended before _uscan.scan *)\nDefinition sentinel_count : nat := %d.\n" % n
    info["sentinels"] = n
    core.write_if_changed(os.path.join(core.COQ, "C10", "Gen_rules.v"), gen)
    return info


if __name__ == "__main__":
    import sys
    g, info = translate(open(sys.argv[1], encoding="utf8").read())
    print(g)
    print(info, file=sys.stderr)
