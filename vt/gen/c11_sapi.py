"""Translator sapi.py -> coq/C11/Gen_continue.v (fail-closed).

Pins the code that coq/C11/ModelContinue.v models: module-level `merge_data`, `MwApi._merge_data`,
`MwApi._handle_query_continue`, `MwApi._do_request` must have exactly the reference shape below (AST equality;
comments and docstrings do not count) - with ONE hole: the test of the `if` in _handle_query_continue that
decides whether a query is given up.  That expression is TRANSLATED into

    Definition gen_stop (same : bool) (qccount : N) : bool := ...

(`same` = `query_continue_data == last_qc`, `qccount` = `self.qccount` after the `+= 1` of that call; integer
class attributes of MwApi and integer literals may be compared with it; and / or / not), and
coq/C11/ProofsContinue.v proves `forall same n, gen_stop same n = same` - the hypothesis under which continuation
is per query (C11_continue_*).  An expression outside this subset, any other statement changed, or another write
to `qccount` anywhere in sapi.py raises."""
import ast
import os
import textwrap

from vt import core

HOLE = "__STOP_CONDITION__"

REFERENCE = '''
def merge_data(dst, src):
    todo = [(dst, src)]
    while todo:
        dst, src = todo.pop()
        if not isinstance(dst, type(src)):
            raise ValueError(f"cannot merge {type(dst)!r} with {type(src)!r}")

        if isinstance(dst, list):
            dst.extend(src)
        elif isinstance(dst, dict):
            for k, val in src.items():
                if k in dst:
                    todo.append((dst[k], val))
                else:
                    dst[k] = val


def _merge_data(self, retval, action, data):
    merge_data(retval, data[action])


def _handle_query_continue(self, query_continue_data, last_qc, kwargs):
    self.qccount += 1
    self.report()
    new_kw = kwargs.copy()
    for query_dict in query_continue_data:
        for k, value in query_dict.items():
            new_kw[str(k)] = value

    if __STOP_CONDITION__:
        print("warning: cannot continue this query:", self._build_url(**new_kw))
        return None, True

    return new_kw, False


def _do_request(self, query_continue=True, merge_data=None, **kwargs):
    last_qc = None
    action = kwargs["action"]
    retval = {}
    todo = kwargs

    while todo is not None:
        kwargs = todo
        todo = None

        data = self._handle_request(**kwargs)

        if merge_data:
            merge_data(retval, data[action])
        else:
            self._merge_data(retval, action, data)

        qc_values = list(data.get("query-continue", {}).values())
        if qc_values and query_continue:
            todo, stop_query = self._handle_query_continue(qc_values, last_qc, kwargs)
            if stop_query:
                return retval
            last_qc = qc_values

    return retval
'''


def _strip_doc(fn):
    body = fn.body
    if body and isinstance(body[0], ast.Expr) and isinstance(getattr(body[0], "value", None), ast.Constant) \
            and isinstance(body[0].value.value, str):
        fn.body = body[1:] or [ast.Pass()]
    return fn


def _dump(node):
    return ast.dump(node, annotate_fields=True, include_attributes=False)


class _Holed(ast.NodeTransformer):
    """replaces the test of the give-up `if` of _handle_query_continue by the hole; remembers the expression"""

    def __init__(self):
        self.found = []

    def visit_If(self, node):
        self.generic_visit(node)
        body = node.body
        if (len(body) == 2 and isinstance(body[1], ast.Return) and isinstance(body[1].value, ast.Tuple)
                and len(body[1].value.elts) == 2 and isinstance(body[1].value.elts[1], ast.Constant)
                and body[1].value.elts[1].value is True):
            self.found.append(node.test)
            node.test = ast.Name(id=HOLE, ctx=ast.Load())
        return node


def _translate(e, consts):
    """Python expression -> Coq bool over `same`, `qccount`"""
    def num(x):
        if isinstance(x, ast.Constant) and isinstance(x.value, int) and not isinstance(x.value, bool) and 0 <= x.value < 10 ** 12:
            return "%d" % x.value
        if isinstance(x, ast.Attribute) and isinstance(x.value, ast.Name) and x.value.id == "self":
            if x.attr == "qccount":
                return "qccount"
            if x.attr in consts:
                return "%d" % consts[x.attr]
        raise ValueError("stop condition: cannot translate the number %s" % ast.unparse(x))

    if isinstance(e, ast.BoolOp):
        op = " || " if isinstance(e.op, ast.Or) else " && "
        return "(" + op.join(_translate(v, consts) for v in e.values) + ")"
    if isinstance(e, ast.UnaryOp) and isinstance(e.op, ast.Not):
        return "(negb %s)" % _translate(e.operand, consts)
    if isinstance(e, ast.Constant) and isinstance(e.value, bool):
        return "true" if e.value else "false"
    if isinstance(e, ast.Compare) and len(e.ops) == 1:
        a, op, b = e.left, e.ops[0], e.comparators[0]
        names = sorted(x.id for x in (a, b) if isinstance(x, ast.Name))
        if names == ["last_qc", "query_continue_data"]:
            if isinstance(op, ast.Eq):
                return "same"
            if isinstance(op, ast.NotEq):
                return "(negb same)"
            raise ValueError("stop condition: unsupported comparison of the continuation values: %s" % ast.unparse(e))
        x, y = num(a), num(b)
        table = {ast.Gt: "(%s <? %s)" % (y, x), ast.GtE: "(%s <=? %s)" % (y, x), ast.Lt: "(%s <? %s)" % (x, y),
                 ast.LtE: "(%s <=? %s)" % (x, y), ast.Eq: "(%s =? %s)" % (x, y), ast.NotEq: "(negb (%s =? %s))" % (x, y)}
        if type(op) in table:
            return table[type(op)]
    raise ValueError("stop condition outside the translated subset: %s" % ast.unparse(e))


def generate(src):
    path = os.path.join(src, "mwlib", "network", "sapi.py")
    tree = ast.parse(open(path).read())
    ref = {f.name: _dump(_strip_doc(f)) for f in ast.parse(textwrap.dedent(REFERENCE)).body}
    mwapi = [n for n in tree.body if isinstance(n, ast.ClassDef) and n.name == "MwApi"]
    if len(mwapi) != 1:
        raise ValueError("sapi.py: expected exactly one class MwApi, found %d" % len(mwapi))
    got = {}
    for n in tree.body:
        if isinstance(n, ast.FunctionDef) and n.name == "merge_data":
            got.setdefault("merge_data", []).append(n)
    consts = {}
    for n in mwapi[0].body:
        if isinstance(n, ast.FunctionDef) and n.name in ("_merge_data", "_handle_query_continue", "_do_request"):
            got.setdefault(n.name, []).append(n)
        if isinstance(n, ast.Assign) and len(n.targets) == 1 and isinstance(n.targets[0], ast.Name) \
                and isinstance(n.value, ast.Constant) and isinstance(n.value.value, int) and not isinstance(n.value.value, bool):
            consts[n.targets[0].id] = n.value.value
    stop = None
    for name in ("merge_data", "_merge_data", "_handle_query_continue", "_do_request"):
        fns = got.get(name, [])
        if len(fns) != 1:
            raise ValueError("sapi.py: expected exactly one definition of %s, found %d" % (name, len(fns)))
        fn = _strip_doc(fns[0])
        if fn.decorator_list:
            raise ValueError("sapi.py: %s is decorated" % name)
        if name == "_handle_query_continue":
            h = _Holed()
            fn = h.visit(fn)
            if len(h.found) != 1:
                raise ValueError("sapi.py: _handle_query_continue: expected exactly one give-up `if`, found %d" % len(h.found))
            stop = h.found[0]
        if _dump(fn) != ref[name]:
            raise ValueError("sapi.py: %s no longer has the modelled shape (line %d): update coq/C11/ModelContinue.v and "
                             "the reference in vt/gen/c11_sapi.py" % (name, fns[0].lineno))
    # qccount: initialised to 0 in __init__, incremented in _handle_query_continue, written nowhere else;
    # a constant used by the stop condition must not be assigned elsewhere either
    writes = []
    for n in ast.walk(tree):
        targets = []
        if isinstance(n, ast.Assign):
            targets = n.targets
        elif isinstance(n, (ast.AugAssign, ast.AnnAssign)):
            targets = [n.target]
        elif isinstance(n, ast.Delete):
            targets = n.targets
        for t in targets:
            for x in ast.walk(t):
                if isinstance(x, ast.Attribute) and x.attr == "qccount":
                    writes.append((n.lineno, ast.unparse(n)))
                if isinstance(x, ast.Attribute) and x.attr in consts and any(
                        isinstance(y, ast.Attribute) and y.attr == x.attr for y in ast.walk(stop)):
                    raise ValueError("sapi.py:%d: %s is assigned outside the class body" % (n.lineno, x.attr))
        if isinstance(n, ast.Call) and isinstance(n.func, ast.Name) and n.func.id in ("setattr", "delattr"):
            raise ValueError("sapi.py:%d: setattr/delattr: cannot see which attribute is written" % n.lineno)
    if sorted(w[1] for w in writes) != ["self.qccount += 1", "self.qccount = 0"]:
        raise ValueError("sapi.py: writes to qccount are not exactly `self.qccount = 0` (__init__) and `self.qccount += 1` "
                         "(_handle_query_continue): %r" % (writes,))
    coq = _translate(stop, consts)
    text = ("(* GENERATED by vt/gen/c11_sapi.py from src/mwlib/network/sapi.py - do not edit.\n"
            "   the test of the give-up `if` of MwApi._handle_query_continue:  %s *)\n"
            "From Coq Require Import NArith Bool.\nLocal Open Scope N_scope.\n"
            "Definition gen_stop (same : bool) (qccount : N) : bool := %s.\n" % (ast.unparse(stop).replace("*)", "* )"), coq))
    core.write_if_changed(os.path.join(core.COQ, "C11", "Gen_continue.v"), text)
    return {"stop_condition": ast.unparse(stop), "gen_stop": coq, "class_constants": consts}
