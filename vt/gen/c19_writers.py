"""Translator nserve.py -> coq/C19/Gen_writers.v (fail-closed).

Reads the literal `name2writer = {...}` table of src/mwlib/core/nserve.py with `ast` and the
string constants of do_render_status / get_content_disposition that the model restates, and
emits them as Gallina data.  Anything outside the expected shape raises."""
import ast
import os

from vt import core


class Shape(Exception):
    pass


def _const_str(node, what):
    if not (isinstance(node, ast.Constant) and isinstance(node.value, str)):
        raise Shape("%s: expected a string literal, got %s" % (what, ast.dump(node)[:80]))
    return node.value


def parse_writers(text):
    tree = ast.parse(text)
    table = None
    for node in tree.body:
        if isinstance(node, ast.Assign) and len(node.targets) == 1 and isinstance(node.targets[0], ast.Name) \
                and node.targets[0].id == "name2writer":
            if table is not None:
                raise Shape("name2writer assigned twice at module level")
            table = node.value
    if table is None or not isinstance(table, ast.Dict):
        raise Shape("module-level `name2writer = {...}` dict literal not found")
    res = []
    for k, v in zip(table.keys, table.values):
        name = _const_str(k, "name2writer key")
        if not (isinstance(v, ast.Call) and isinstance(v.func, ast.Name) and v.func.id == "Bunch" and not v.args):
            raise Shape("name2writer[%r]: expected Bunch(keyword=...)" % name)
        kw = {}
        for a in v.keywords:
            if a.arg is None or a.arg in kw:
                raise Shape("name2writer[%r]: bad keyword" % name)
            kw[a.arg] = _const_str(a.value, "name2writer[%r].%s" % (name, a.arg))
        if sorted(kw) != ["content_type", "file_extension", "name"]:
            raise Shape("name2writer[%r]: fields %r" % (name, sorted(kw)))
        if kw["name"] != name:
            raise Shape("name2writer[%r]: name field %r differs from its key" % (name, kw["name"]))
        res.append((name, kw["file_extension"], kw["content_type"]))
    if len({r[0] for r in res}) != len(res) or not res:
        raise Shape("duplicate or no writers")
    # name2writer may only be extended by get_writers() (entry points) and cleared by main()
    for node in ast.walk(tree):
        if isinstance(node, (ast.Assign, ast.AugAssign, ast.Delete)):
            tgts = node.targets if isinstance(node, (ast.Assign, ast.Delete)) else [node.target]
            for t in tgts:
                if isinstance(t, ast.Subscript) and isinstance(t.value, ast.Name) and t.value.id == "name2writer":
                    fn = _enclosing_function(tree, node)
                    if fn != "get_writers":
                        raise Shape("name2writer modified in %r" % fn)
    return res


def _enclosing_function(tree, target):
    for fn in ast.walk(tree):
        if isinstance(fn, (ast.FunctionDef, ast.AsyncFunctionDef)):
            for n in ast.walk(fn):
                if n is target:
                    return fn.name
    return "<module>"


def parse_constants(text):
    """String constants the hand-written model restates; checked (not generated into the model's
    control flow): job-id formats, the regex, the fixed progress text, the default filename."""
    tree = ast.parse(text)
    fns = {}
    for node in ast.walk(tree):
        if isinstance(node, ast.FunctionDef):
            fns[node.name] = node
    need = ["do_render_status", "_process_and_return_finished_state", "get_content_disposition",
            "get_content_disposition_values", "do_render"]
    for n in need:
        if n not in fns:
            raise Shape("function %s not found in nserve.py" % n)

    def fstrings(fn):
        out = []
        for n in ast.walk(fn):
            if isinstance(n, ast.JoinedStr):
                parts = []
                for v in n.values:
                    if isinstance(v, ast.Constant):
                        parts.append(v.value)
                    elif isinstance(v, ast.FormattedValue) and isinstance(v.value, ast.Name) and v.conversion == -1 \
                            and v.format_spec is None:
                        parts.append("{%s}" % v.value.id)
                    elif isinstance(v, ast.FormattedValue):
                        parts.append("{?}")
                out.append("".join(parts))
        return out

    def consts(fn):
        return [n.value for n in ast.walk(fn) if isinstance(n, ast.Constant) and isinstance(n.value, str)]

    st = fstrings(fns["do_render_status"])
    for want in ("{collection_id}:render-{writer}", "{collection_id}:makezip"):
        if want not in st:
            raise Shape("do_render_status: job id format %r not found (have %r)" % (want, st))
    rd = fstrings(fns["do_render"])
    for want in ("{collection_id}:render-{writer}", "{collection_id}:makezip"):
        if want not in rd:
            raise Shape("do_render: job id format %r not found" % want)
    cs = consts(fns["do_render_status"])
    for want in ("info", "done", "error", "failed", "progress", "data fetched. waiting for render process..", "status", "writer"):
        if want not in cs:
            raise Shape("do_render_status: constant %r not found" % want)
    cf = consts(fns["_process_and_return_finished_state"])
    for want in ("result", "url", "size", "suggested_filename", "content_length", "content_type", "content_disposition", "finished"):
        if want not in cf:
            raise Shape("_process_and_return_finished_state: constant %r not found" % want)
    cv = consts(fns["get_content_disposition_values"])
    for want in ("collection", "NFKD", "ASCII", "ignore", " ", "-"):
        if want not in cv:
            raise Shape("get_content_disposition_values: constant %r not found (have %r)" % (want, cv))
    rex = [x for x in cv if x.startswith("[") and x.endswith("]+")]
    if len(rex) != 1:
        raise Shape("get_content_disposition_values: expected exactly one character-class regex, have %r" % (rex,))
    cd = fstrings(fns["get_content_disposition"])
    for want in ("inline; filename={ascii_fn}.{ext}", ";filename*=UTF-8''{?}.{ext}"):
        if want not in cd:
            raise Shape("get_content_disposition: format %r not found (have %r)" % (want, cd))
    return {"progress_text": "data fetched. waiting for render process..", "sep_regex": rex[0]}


def shutdown_shape(text):
    """QPlugin.shutdown of qs/qserve.py as coq/C19/ModelConn.v models it (cstep CDisconnect with dec_repo): a loop over
    the handler's own running_jobs values, skipping a job when ITS OWN done flag is set (`if j.done: continue`), and
    workq.pushjob(j) of the others; nothing else with an effect (logging calls allowed).  Returns a description of the
    body in a canonical form; the check compares it with the expected one."""
    tree = ast.parse(text)
    fn = None
    for node in ast.walk(tree):
        if isinstance(node, ast.ClassDef) and node.name == "QPlugin":
            for m in node.body:
                if isinstance(m, ast.FunctionDef) and m.name == "shutdown":
                    fn = m
    if fn is None:
        raise Shape("QPlugin.shutdown not found in qserve.py")
    body = [b for b in fn.body if not (isinstance(b, ast.Expr) and isinstance(b.value, ast.Constant))]
    if len(body) != 1 or not isinstance(body[0], ast.For) or body[0].orelse or not isinstance(body[0].target, ast.Name):
        return "not a single for loop: " + "; ".join(ast.unparse(b)[:80] for b in body)
    loop = body[0]
    v = loop.target.id
    out = ["for %s in %s" % (v, ast.unparse(loop.iter))]
    for st in loop.body:
        if isinstance(st, ast.Expr) and isinstance(st.value, ast.Call) and ast.unparse(st.value.func).startswith("logger."):
            continue
        out.append(" ".join(ast.unparse(st).split()))
    return " | ".join(out)


SHUTDOWN_EXPECTED = "for j in list(self.running_jobs.values()) | if j.done: continue | self.workq.pushjob(j)"


def qinfo_sites(text):
    """The queue reads of do_render_status as the source has them: the list of job-id expressions passed to
    self.qserve.qinfo(jobid=...) in source order, each resolved to the f-string it denotes (a Name is resolved to the
    most recent assignment of that name before the call).  The models (Model.status: two snapshots; ModelReq.status_req:
    render job, then at most the fetch job) are models of a command with exactly these two read sites."""
    tree = ast.parse(text)
    fn = None
    for node in ast.walk(tree):
        if isinstance(node, ast.FunctionDef) and node.name == "do_render_status":
            fn = node
    if fn is None:
        raise Shape("function do_render_status not found in nserve.py")

    def fstr(n):
        if isinstance(n, ast.JoinedStr):
            parts = []
            for v in n.values:
                if isinstance(v, ast.Constant):
                    parts.append(v.value)
                elif isinstance(v, ast.FormattedValue) and isinstance(v.value, ast.Name):
                    parts.append("{%s}" % v.value.id)
                else:
                    parts.append("{?}")
            return "".join(parts)
        return None
    assigns = []      # (lineno, name, f-string)
    for n in ast.walk(fn):
        if isinstance(n, ast.Assign) and len(n.targets) == 1 and isinstance(n.targets[0], ast.Name) and fstr(n.value) is not None:
            assigns.append((n.lineno, n.targets[0].id, fstr(n.value)))
    sites = []
    for n in ast.walk(fn):
        if isinstance(n, ast.Call) and isinstance(n.func, ast.Attribute) and n.func.attr == "qinfo":
            args = [k.value for k in n.keywords if k.arg == "jobid"] + list(n.args)
            if len(args) != 1:
                raise Shape("do_render_status: qinfo call with unexpected arguments at line %d" % n.lineno)
            a = args[0]
            if isinstance(a, ast.Name):
                prev = [x for x in assigns if x[1] == a.id and x[0] <= n.lineno]
                val = max(prev)[2] if prev else "<%s>" % a.id
            else:
                val = fstr(a) or "<expr>"
            sites.append((n.lineno, val))
    return [v for _, v in sorted(sites)]


def render(writers, consts):
    def lit(s):
        return core.coq_str(s)
    lines = ["(* GENERATED by vt/gen/c19_writers.py from src/mwlib/core/nserve.py -- do not edit *)",
             "From Coq Require Import List NArith.", "From MW Require Import Common.Str.", "Import ListNotations.", "",
             "(* name2writer: writer name -> (file_extension, content_type) *)",
             "Definition writers : list (str * (str * str)) :=", "  ["]
    rows = []
    for name, ext, ct in writers:
        rows.append("   (* %s *) (%s, (%s, %s))" % (name, lit(name), lit(ext), lit(ct)))
    lines.append(";\n".join(rows))
    lines.append("  ].")
    lines.append("")
    lines.append("(* do_render_status: fixed text shown once the fetch job is done *)")
    lines.append("Definition gen_progress_text : str := %s." % lit(consts["progress_text"]))
    lines.append("(* members of the character class of the separator regex in get_content_disposition_values *)")
    cls = consts["sep_regex"]
    if not (cls.startswith("[") and cls.endswith("]+")) or "\\" in cls or "^" in cls or "-" in cls:
        raise Shape("separator regex %r is not a plain character class with +" % cls)
    lines.append("Definition gen_sep_chars : list N := %s." % lit(cls[1:-2]))
    return "\n".join(lines) + "\n"


def generate(src):
    path = os.path.join(src, "mwlib", "core", "nserve.py")
    text = open(path, encoding="utf8").read()
    writers = parse_writers(text)
    consts = parse_constants(text)
    out = render(writers, consts)
    core.write_if_changed(os.path.join(core.COQ, "C19", "Gen_writers.v"), out)
    return writers
