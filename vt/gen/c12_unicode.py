"""Translator: the running CPython's Unicode behaviour -> coq/C12/Gen_unicode.v  (fail-closed).

What NsHandler.splitname uses of Unicode (src/mwlib/core/nshandling.py):
  * `\\s` of `re` (in _edge_rex) and str.strip() without argument (in _find_namespace): the white-space set.
    The translator checks, for EVERY code point, that re `\\s`, str.isspace and str.strip agree; if they ever
    differ generation fails (the model uses one set for both).
  * str.upper() of a one-character string (maybe_capitalize): full upper-case mapping, 1..3 code points.
  * str.lower() of a string (_find_namespace): per-character full lower-case mapping, except U+03A3 which is
    mapped to U+03C2 in the Final_Sigma context and to U+03C3 otherwise.  The context is decided by the
    properties Cased / Case_Ignorable which CPython does not export; they are recovered *behaviourally* from
    str.lower() itself and then the whole rule is re-validated on random strings.
All tables are data only; lookups and proofs live in coq/C12/Inst.v / ProofsInst.v.
"""
import random
import re
import sys
import unicodedata

MAXCP = 0x110000
SIGMA, FINAL_SIGMA, SMALL_SIGMA = 0x3A3, 0x3C2, 0x3C3


def tables():
    ws_re = re.compile(r"\s")
    ws = []
    for c in range(MAXCP):
        ch = chr(c)
        a = ws_re.fullmatch(ch) is not None
        b = ch.isspace()
        s1 = ("x" + ch).strip() == "x"
        s2 = (ch + "x").strip() == "x"
        if not (a == b == s1 == s2):
            raise RuntimeError("white-space notions disagree at U+%04X: re=%s isspace=%s strip=%s/%s" % (c, a, b, s1, s2))
        if a:
            ws.append(c)
    upper, lower = [], []
    for c in range(MAXCP):
        ch = chr(c)
        u = ch.upper()
        lo = ch.lower()
        if u != ch:
            upper.append((c, [ord(x) for x in u]))
        if lo != ch:
            lower.append((c, [ord(x) for x in lo]))
        if not u or not lo or len(u) > 3 or len(lo) > 3:
            raise RuntimeError("unexpected case mapping length at U+%04X" % c)
    if dict(lower).get(SIGMA) != [SMALL_SIGMA]:
        raise RuntimeError("lower(U+03A3) is not U+03C3 in isolation")
    if any(c == 0 for c, _ in upper + lower):
        raise RuntimeError("U+0000 has a case mapping")
    # upper() must be context free: check on pairs around every mapped character
    for c, u in upper:
        ch = chr(c)
        if ("a" + ch + "a").upper() != "A" + "".join(map(chr, u)) + "A" or (ch + ch).upper() != "".join(map(chr, u)) * 2:
            raise RuntimeError("str.upper is context dependent at U+%04X" % c)
    # Cased / Case_Ignorable recovered from the Final_Sigma rule:
    #   t1 = ("A" SIGMA c).lower()[1], t2 = ("A" SIGMA c "A").lower()[1]
    #   ignorable -> (final, non-final); cased, not ignorable -> (non-final, non-final); neither -> (final, final)
    cls = bytearray(MAXCP)
    for c in range(MAXCP):
        ch = chr(c)
        t1 = ("AΣ" + ch).lower()[1]
        t2 = ("AΣ" + ch + "A").lower()[1]
        k = (ord(t1), ord(t2))
        if k == (FINAL_SIGMA, SMALL_SIGMA):
            cls[c] = 1
        elif k == (SMALL_SIGMA, SMALL_SIGMA):
            cls[c] = 2
        elif k == (FINAL_SIGMA, FINAL_SIGMA):
            cls[c] = 0
        else:
            raise RuntimeError("unexpected Final_Sigma behaviour at U+%04X: %r" % (c, k))
    ranges = []
    for c in range(MAXCP):
        if cls[c] == 0:
            continue
        if ranges and ranges[-1][1] == c - 1 and ranges[-1][2] == cls[c]:
            ranges[-1][1] = c
        else:
            ranges.append([c, c, cls[c]])
    return ws, upper, lower, ranges, cls


def model_lower(s, lower_d, cls):
    """The rule of coq/C12/Model.v `lower_go` in Python (used to validate the recovered tables)."""
    def ctx_cased(seq):
        for c in seq:
            if cls[c] == 1:
                continue
            return cls[c] == 2
        return False
    cps = [ord(x) for x in s]
    out = []
    for i, c in enumerate(cps):
        if c == SIGMA:
            fin = ctx_cased(reversed(cps[:i])) and not ctx_cased(cps[i + 1:])
            out.append(FINAL_SIGMA if fin else SMALL_SIGMA)
        else:
            out.extend(lower_d.get(c, [c]))
    return "".join(map(chr, out))


def validate_lower(lower, cls, n=60000):
    rng = random.Random(12)
    lower_d = dict(lower)
    ign = [c for c in range(MAXCP) if cls[c] == 1 and not 0xD800 <= c < 0xE000]
    cas = [c for c in range(MAXCP) if cls[c] == 2]
    pool = [SIGMA, SIGMA, SIGMA, 0x41, 0x61, 0x20, 0x3A, 0x27, 0x2E, 0xAD, 0x130, 0x345, 0x2B0, 0x1C5]
    for _ in range(n):
        k = rng.randrange(1, 8)
        s = "".join(chr(rng.choice([rng.choice(pool), rng.choice(ign), rng.choice(cas), rng.randrange(0x20, 0x2000)])) for _ in range(k))
        if model_lower(s, lower_d, cls) != s.lower():
            raise RuntimeError("recovered lower-casing rule disagrees with str.lower on %r" % s)


def nlist(xs):
    return "[" + "; ".join(str(x) for x in xs) + "]"


def generate(path, write_if_changed):
    ws, upper, lower, ranges, cls = tables()
    validate_lower(lower, cls)
    out = []
    out.append("(* GENERATED by vt/gen/c12_unicode.py from CPython %s (Unicode %s) -- do not edit. *)" %
               (sys.version.split()[0], unicodedata.unidata_version))
    out.append("From Coq Require Import List NArith PArith.\nImport ListNotations.\nOpen Scope N_scope.\n")
    out.append("(* code points c with re `\\s` = str.isspace = stripped by str.strip(); checked equal on all 0x110000 code points *)")
    out.append("Definition gen_ws : list N := %s.\n" % nlist(ws))
    for name, tab in (("gen_upper", upper), ("gen_lower", lower)):
        out.append("(* non-identity entries of str.%s() on one character: (code point, image) *)" % name[4:])
        out.append("Definition %s : list (positive * list N) := [" % name)
        out.append(";\n".join("(%d%%positive, %s)" % (c, nlist(u)) for c, u in tab))
        out.append("].\n")
    out.append("(* (lo, hi, class): class 1 = Case_Ignorable, class 2 = Cased and not Case_Ignorable; everything else is neither *)")
    out.append("Definition gen_sigma_ranges : list (N * N * N) := [")
    out.append(";\n".join("(%d, %d, %d)" % (a, b, k) for a, b, k in ranges))
    out.append("].")
    write_if_changed(path, "\n".join(out) + "\n")
    return {"ws": len(ws), "upper": len(upper), "lower": len(lower), "sigma_ranges": len(ranges)}
