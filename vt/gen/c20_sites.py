"""C20 translator: the tempfile.mkstemp sites of /repo that publish an output file -> coq/C20/Gen_Sites.v.

For each site (function, name of the variable holding the output path) two facts are read off the AST:

  dirkind   the `dir` argument of the ONE tempfile.mkstemp call that is reached when an output path is given
              os.path.dirname(<out>)             -> DirDirname        (dirname of a bare name is "": current directory)
              os.path.dirname(<out>) or None     -> DirDirnameOrNone  ("" becomes None = $TMPDIR)
              None / no dir argument             -> DirDefault        ($TMPDIR)
  pubkind   the ONE call that puts the temp file under the output name
              os.rename(t, <out>) / os.replace(t, <out>) -> PubRename
              shutil.move(t, <out>)                      -> PubMove

coq/C20/ProofsSites.v proves `Forall site_safe sites` from `forallb site_ok sites = true` (by computation on the
generated list): a source change that makes a site unsafe changes Gen_Sites.v and breaks that proof.  Anything else
(another call shape, a second mkstemp, a copy onto the output, a helper the translator cannot follow) raises:
fail closed.  The mkstemp call may sit in a helper of the same module that is called with the output variable as an
argument (one level); a `dir` given through a local name assigned once is followed.
"""
import ast
import os

from vt import core

SITES = [
    # (coq name, file below src/, qualified function name, output variable)
    ("site_create_zip", "mwlib/apps/buildzip.py", "ZipCreator.create_zip", "output_path"),
    ("site_make_zip", "mwlib/apps/buildzip.py", "make_zip", "output_path"),
    ("site_render_main", "mwlib/apps/render.py", "main", "output"),
]


class Unexpected(Exception):
    pass


def _functions(tree):
    res = {}
    for node in tree.body:
        if isinstance(node, (ast.FunctionDef, ast.AsyncFunctionDef)):
            res[node.name] = node
        elif isinstance(node, ast.ClassDef):
            for sub in node.body:
                if isinstance(sub, (ast.FunctionDef, ast.AsyncFunctionDef)):
                    res["%s.%s" % (node.name, sub.name)] = sub
    return res


def _is_attr_call(node, mod, names):
    return (isinstance(node, ast.Call) and isinstance(node.func, ast.Attribute) and node.func.attr in names and
            isinstance(node.func.value, ast.Name) and node.func.value.id == mod)


def _is_name(node, var):
    return isinstance(node, ast.Name) and node.id == var


def _is_none(node):
    return isinstance(node, ast.Constant) and node.value is None


def _is_dirname(node, var):
    return (isinstance(node, ast.Call) and isinstance(node.func, ast.Attribute) and node.func.attr == "dirname" and
            isinstance(node.func.value, ast.Attribute) and node.func.value.attr == "path" and
            isinstance(node.func.value.value, ast.Name) and node.func.value.value.id == "os" and
            len(node.args) == 1 and not node.keywords and _is_name(node.args[0], var))


def _walk_given(nodes, var):
    """all nodes reached when `var` (the output path) is truthy: of `if var:` only the body is followed, of
    `X if var else Y` only X; nested function definitions are not entered"""
    for node in nodes:
        if isinstance(node, (ast.FunctionDef, ast.AsyncFunctionDef, ast.Lambda, ast.ClassDef)):
            continue
        if isinstance(node, ast.If) and _is_name(node.test, var):
            yield from _walk_given(node.body, var)
            continue
        if isinstance(node, ast.IfExp) and _is_name(node.test, var):
            yield from _walk_given([node.body], var)
            continue
        yield node
        yield from _walk_given(list(ast.iter_child_nodes(node)), var)


def _single_assignment(fn, name, var):
    vals = []
    for node in _walk_given(fn.body, var):
        if isinstance(node, ast.Assign) and len(node.targets) == 1 and _is_name(node.targets[0], name):
            vals.append(node.value)
        elif isinstance(node, (ast.AugAssign, ast.AnnAssign)) and _is_name(getattr(node, "target", None), name):
            raise Unexpected("%s is assigned in an unsupported way" % name)
    if len(vals) != 1:
        raise Unexpected("%s is assigned %d times" % (name, len(vals)))
    return vals[0]


def _dir_kind(expr, fn, var, depth=0):
    if expr is None or _is_none(expr):
        return "DirDefault"
    if isinstance(expr, ast.IfExp) and _is_name(expr.test, var):
        return _dir_kind(expr.body, fn, var, depth)
    if _is_dirname(expr, var):
        return "DirDirname"
    if (isinstance(expr, ast.BoolOp) and isinstance(expr.op, ast.Or) and len(expr.values) == 2 and
            _is_dirname(expr.values[0], var) and _is_none(expr.values[1])):
        return "DirDirnameOrNone"
    if isinstance(expr, ast.Name) and depth < 2:
        return _dir_kind(_single_assignment(fn, expr.id, var), fn, var, depth + 1)
    raise Unexpected("dir argument of mkstemp not understood: %s" % ast.dump(expr)[:200])


def _mkstemp_dir(fn, var, funcs, follow=True):
    """-> dirkind of the single mkstemp call reached in fn when `var` is given (None: no such call in fn)"""
    calls = [n for n in _walk_given(fn.body, var) if _is_attr_call(n, "tempfile", ("mkstemp",))]
    others = [n for n in _walk_given(fn.body, var)
              if _is_attr_call(n, "tempfile", ("NamedTemporaryFile", "TemporaryFile", "mktemp", "SpooledTemporaryFile"))]
    if others:
        raise Unexpected("temp file made with tempfile.%s" % others[0].func.attr)
    if len(calls) > 1:
        raise Unexpected("%d mkstemp calls in %s" % (len(calls), fn.name))
    if calls:
        c = calls[0]
        kw = {k.arg: k.value for k in c.keywords}
        if None in kw:
            raise Unexpected("mkstemp(**kwargs)")
        d = kw.get("dir", c.args[2] if len(c.args) > 2 else None)
        return _dir_kind(d, fn, var)
    if not follow:
        return None
    # one level of helpers of the same module called with the output variable
    found = []
    for n in _walk_given(fn.body, var):
        if not isinstance(n, ast.Call):
            continue
        f = n.func
        cand = [f.id] if isinstance(f, ast.Name) else (
            [q for q in funcs if q.split(".")[-1] == f.attr] if isinstance(f, ast.Attribute) else [])
        for q in cand:
            h = funcs.get(q)
            if h is None:
                continue
            params = [a.arg for a in h.args.posonlyargs + h.args.args]
            if params and params[0] in ("self", "cls"):
                params = params[1:]
            bound = None
            for i, a in enumerate(n.args):
                if _is_name(a, var) and i < len(params):
                    bound = params[i]
            for k in n.keywords:
                if _is_name(k.value, var) and k.arg in params:
                    bound = k.arg
            if bound is None:
                continue
            r = _mkstemp_dir(h, bound, funcs, follow=False)
            if r is not None:
                found.append(r)
    if len(found) != 1:
        raise Unexpected("no single mkstemp call found for %s (helpers with one: %d)" % (fn.name, len(found)))
    return found[0]


def _pub_kind(fn, var):
    pubs = []
    for n in _walk_given(fn.body, var):
        if not isinstance(n, ast.Call):
            continue
        if _is_attr_call(n, "os", ("rename", "replace")) and len(n.args) == 2 and _is_name(n.args[1], var):
            pubs.append("PubRename")
        elif _is_attr_call(n, "shutil", ("move",)) and len(n.args) == 2 and _is_name(n.args[1], var):
            pubs.append("PubMove")
        elif (_is_attr_call(n, "shutil", ("copy", "copy2", "copyfile", "copyfileobj")) or
              _is_attr_call(n, "os", ("link", "symlink", "sendfile"))) and any(_is_name(a, var) for a in n.args):
            raise Unexpected("output written by %s" % ast.dump(n.func)[:80])
        elif isinstance(n.func, ast.Name) and n.func.id == "open" and n.args and _is_name(n.args[0], var):
            raise Unexpected("output opened directly")
    if len(pubs) != 1:
        raise Unexpected("%d publishing calls for %s in %s" % (len(pubs), var, fn.name))
    return pubs[0]


def analyse(src):
    res = []
    trees = {}
    for coqname, rel, qual, var in SITES:
        p = os.path.join(src, rel)
        if rel not in trees:
            with open(p, encoding="utf8") as f:
                trees[rel] = _functions(ast.parse(f.read(), filename=p))
        funcs = trees[rel]
        if qual not in funcs:
            raise Unexpected("%s: function %s not found" % (rel, qual))
        fn = funcs[qual]
        try:
            res.append((coqname, rel, qual, _mkstemp_dir(fn, var, funcs), _pub_kind(fn, var)))
        except Unexpected as e:
            raise Unexpected("%s %s: %s" % (rel, qual, e))
    return res


def generate(src):
    sites = analyse(src)
    lines = ["(* GENERATED by vt/gen/c20_sites.py from the snapshot of /repo/src - do not edit *)",
             "From Coq Require Import List.", "From MW Require Import C20.ModelMove.", "Import ListNotations.", ""]
    for coqname, rel, qual, d, p in sites:
        lines.append("(* %s %s *)" % (rel, qual))
        lines.append("Definition %s : site := mksite %s %s." % (coqname, d, p))
    lines.append("Definition sites : list site := [%s]." % "; ".join(s[0] for s in sites))
    core.write_if_changed(os.path.join(core.COQ, "C20", "Gen_Sites.v"), "\n".join(lines) + "\n")
    return sites
