"""C04 translator: the operator table of src/mwlib/parser/expr.py -> coq/C04/Gen_ops.v.

Fail-closed: everything between `a = addop` and `del a` must be a call `a(<operator>, <int>, <fun>[, <int>])` whose
operator is a known spelling, whose function is one of the known texts; `precedence`, `functions`, `unary_ops`,
`Expr.constants`, the tokenizer PATTERN (+ flags) and the definition of addop/_myround must be the ones the
hand-written model (coq/C04/ExprModel.v) was written against.  Anything else raises."""
import ast
import hashlib
import os

from vt import core

# spelling -> Gallina opname (ExprModel.v).  "E" is the upper-case alias of "e": tokenize lower-cases every
# operator (expr.py:57), so the key "E" is unreachable; it must be registered exactly like "e" and is not emitted.
SYMBOLS = {
    "UMinus": "OU UMinus", "UPlus": "OU UPlus",
    "^": "OB BPow",
    "not": "OU UNot", "abs": "OU UAbs", "sin": "OU USin", "cos": "OU UCos", "asin": "OU UAsin", "acos": "OU UAcos",
    "tan": "OU UTan", "atan": "OU UAtan", "exp": "OU UExp", "ln": "OU ULn", "ceil": "OU UCeil", "floor": "OU UFloor",
    "trunc": "OU UTrunc",
    "e": "OSci",
    "*": "OB BMul", "/": "OB BDiv", "div": "OB BDivW", "mod": "OB BMod",
    "+": "OB BAdd", "-": "OB BSub",
    "round": "OB BRound",
    "<": "OB BLt", ">": "OB BGt", "<=": "OB BLe", ">=": "OB BGe", "!=": "OB BNe", "<>": "OB BNe2", "=": "OB BEq",
    "and": "OB BAnd", "or": "OB BOr",
}
ORDER = list(SYMBOLS)            # canonical order of the emitted list (the order of documented_table)

# text of the registered function (ast.unparse) -> constructor of ExprModel.sem
SEMS = {
    "lambda x: -x": "SNeg",
    "lambda x: x": "SPos",
    "math.pow": "SMathPow",
    "lambda x: int(not bool(x))": "SNot",
    "abs": "SAbs",
    "math.sin": "SMath1 USin", "math.cos": "SMath1 UCos", "math.asin": "SMath1 UAsin", "math.acos": "SMath1 UAcos",
    "math.tan": "SMath1 UTan", "math.atan": "SMath1 UAtan", "math.exp": "SMath1 UExp", "math.log": "SMath1 ULn",
    "lambda x: int(math.ceil(x))": "SCeil",
    "lambda x: int(math.floor(x))": "SFloor",
    "int": "SInt",
    "lambda x, y: x * math.pow(10, y)": "SSci",
    "lambda x, y: x * y": "SMul",
    "lambda x, y: x / y": "STrueDiv",
    "lambda x, y: int(x) % int(y)": "SIntMod",
    "lambda x, y: x + y": "SAdd",
    "lambda x, y: x - y": "SSub",
    "_myround": "SMyRound",
    "lambda x, y: int(x < y)": "SCmpLt", "lambda x, y: int(x > y)": "SCmpGt", "lambda x, y: int(x <= y)": "SCmpLe",
    "lambda x, y: int(x >= y)": "SCmpGe", "lambda x, y: int(x != y)": "SCmpNe", "lambda x, y: int(x == y)": "SCmpEq",
    "lambda x, y: int(bool(x) and bool(y))": "SAnd",
    "lambda x, y: int(bool(x) or bool(y))": "SOr",
}

# sha256 of ast.dump (position independent) of the pieces the model depends on but does not regenerate
PATTERN_SHA = "441385f29895f569953b7841e6cf633e514f48cd38fd53973689cf33690b223d"
EXPECT = {
    "rx_pattern": "rx_pattern = re.compile(PATTERN, re.VERBOSE | re.DOTALL | re.IGNORECASE)",
    "precedence": "precedence = {'(': -1, ')': -1}",
    "functions": "functions = {}",
    "unary_ops": "unary_ops = set()",
    "constants": "constants = {'e': math.e, 'pi': math.pi}",
}
DEF_SHA = {
    "addop": "68f8ac4c2e0af38bcaf9bb103f923486ef9c1948a47c59193b76a8ccc12390fd",
    # `round` is outside C04's grammar (only its arity 2 is used): the current definition and the one of
    # fixes/C03-expr-round-negative-digits.diff are both accepted
    "_myround": ("b4a189197f1beec1cc4af0837b523ac722c94dcdfcf2431ed5380a1156df3048",
                 "bcc5866f3a1e881d93b2738f11e173e7354574fd334557d730d7cfcb625d32b9"),
    "tokenize": "617891b757bb2cca2bae697867957a2a52c3531192bb6f5b8a68af5519272750",
}


class Unexpected(Exception):
    pass


def _sha(node):
    return hashlib.sha256(ast.dump(node, annotate_fields=True, include_attributes=False).encode()).hexdigest()


def _params(args, what):
    if args.vararg or args.kwarg or args.kwonlyargs or args.defaults or args.kw_defaults:
        raise Unexpected("%s: only plain positional parameters are understood" % what)
    return len(args.posonlyargs) + len(args.args)      # inspect.getfullargspec(fun)[0]


def analyse(path):
    text = open(path, encoding="utf8").read()
    mod = ast.parse(text)
    top = mod.body
    defs = {n.name: n for n in top if isinstance(n, (ast.FunctionDef, ast.ClassDef))}
    assigns = {}
    for n in top:
        if isinstance(n, ast.Assign) and len(n.targets) == 1 and isinstance(n.targets[0], ast.Name):
            name = n.targets[0].id
            if name in assigns and name != "a":
                raise Unexpected("module-level name %r assigned twice" % name)
            assigns[name] = n
    # --- fixed pieces
    for name in ("rx_pattern", "precedence", "functions", "unary_ops"):
        if name not in assigns or ast.unparse(assigns[name]) != EXPECT[name]:
            raise Unexpected("%s is not `%s`" % (name, EXPECT[name]))
    if "PATTERN" not in assigns:
        raise Unexpected("PATTERN missing")
    pv = assigns["PATTERN"].value
    if not (isinstance(pv, ast.Call) and isinstance(pv.func, ast.Attribute) and isinstance(pv.func.value, ast.Constant)
            and pv.func.value.value == "\n" and pv.func.attr == "join" and len(pv.args) == 1 and not pv.keywords):
        raise Unexpected("PATTERN is not '\\n'.join([...])")
    pattern = "\n".join(ast.literal_eval(pv.args[0]))
    psha = hashlib.sha256(pattern.encode()).hexdigest()
    if psha != PATTERN_SHA:
        raise Unexpected("tokenizer PATTERN changed (sha256 %s): the token abstraction of ExprModel.v must be reviewed" % psha)
    for name, want in DEF_SHA.items():
        if name not in defs or not isinstance(defs[name], ast.FunctionDef):
            raise Unexpected("def %s missing" % name)
        got = _sha(defs[name])
        if got not in ((want,) if isinstance(want, str) else want):
            raise Unexpected("def %s changed (sha256 of its AST %s): review ExprModel.v / this translator" % (name, got))
    for cname in ("UMinus", "UPlus", "Expr", "ExprError"):
        if not isinstance(defs.get(cname), ast.ClassDef):
            raise Unexpected("class %s missing" % cname)
    consts = [n for n in defs["Expr"].body if isinstance(n, ast.Assign)]
    if len(consts) != 1 or ast.unparse(consts[0]) != EXPECT["constants"]:
        raise Unexpected("Expr.constants is not `%s`" % EXPECT["constants"])
    paren = ast.literal_eval(assigns["precedence"].value)
    if paren["("] != paren[")"]:
        raise Unexpected("precedence of ( and ) differ")
    # --- the registration block
    idx = [i for i, n in enumerate(top) if isinstance(n, ast.Assign) and ast.unparse(n) == "a = addop"]
    if len(idx) != 1:
        raise Unexpected("expected exactly one `a = addop`")
    i = idx[0] + 1
    entries = {}
    while True:
        if i >= len(top):
            raise Unexpected("`del a` not found")
        n = top[i]
        i += 1
        if isinstance(n, ast.Delete):
            if ast.unparse(n) != "del a":
                raise Unexpected("unexpected statement %r" % ast.unparse(n))
            break
        if not (isinstance(n, ast.Expr) and isinstance(n.value, ast.Call) and isinstance(n.value.func, ast.Name)
                and n.value.func.id == "a" and not n.value.keywords and len(n.value.args) in (3, 4)):
            raise Unexpected("line %d: unexpected statement in the operator table: %s" % (n.lineno, ast.unparse(n)))
        args = n.value.args
        op = args[0]
        if isinstance(op, ast.Constant) and isinstance(op.value, str):
            sym = op.value
        elif isinstance(op, ast.Name) and op.id in ("UMinus", "UPlus"):
            sym = op.id
        else:
            raise Unexpected("line %d: operator is not a string literal / UMinus / UPlus" % n.lineno)
        if isinstance(op, ast.Constant) and sym in ("UMinus", "UPlus"):
            raise Unexpected("line %d: string operator %r" % (n.lineno, sym))
        if sym != "E" and sym not in SYMBOLS:
            raise Unexpected("line %d: unknown operator %r (extend ExprModel.opname and SYMBOLS)" % (n.lineno, sym))
        pr = args[1]
        if not (isinstance(pr, ast.Constant) and type(pr.value) is int and 0 <= pr.value <= 1000):
            raise Unexpected("line %d: precedence of %r is not a small non-negative integer literal" % (n.lineno, sym))
        fun = args[2]
        ftxt = ast.unparse(fun)
        if ftxt not in SEMS:
            raise Unexpected("line %d: function of %r is not a known one: %s" % (n.lineno, sym, ftxt))
        if len(args) == 4:
            na = args[3]
            if not (isinstance(na, ast.Constant) and type(na.value) is int):
                raise Unexpected("line %d: numargs of %r is not an integer literal" % (n.lineno, sym))
            arity = na.value
        elif isinstance(fun, ast.Lambda):
            arity = _params(fun.args, "lambda of %r" % sym)
        elif isinstance(fun, ast.Name) and isinstance(defs.get(fun.id), ast.FunctionDef):
            arity = _params(defs[fun.id].args, "def %s" % fun.id)
        else:
            raise Unexpected("line %d: cannot derive numargs of %r from %s" % (n.lineno, sym, ftxt))
        if arity not in (1, 2):
            raise Unexpected("line %d: numargs %r of %r (the model handles 1 and 2)" % (n.lineno, arity, sym))
        if sym in entries:
            raise Unexpected("line %d: operator %r registered twice" % (n.lineno, sym))
        entries[sym] = (pr.value, arity, SEMS[ftxt], n.lineno)
    # any other use of addop, or any write to precedence / functions / unary_ops outside addop, would escape the table
    tables = ("precedence", "functions", "unary_ops")

    def base_name(x):
        while isinstance(x, (ast.Subscript, ast.Attribute)):
            x = x.value
        return x.id if isinstance(x, ast.Name) else None

    for n in ast.walk(mod):
        if isinstance(n, ast.Call) and isinstance(n.func, ast.Name) and n.func.id == "addop":
            raise Unexpected("line %d: direct call of addop outside the table" % n.lineno)
        if isinstance(n, ast.Name) and n.id == "addop" and not isinstance(n.ctx, ast.Load):
            raise Unexpected("line %d: addop rebound" % n.lineno)
    for top_node in top:
        if top_node is defs["addop"]:
            continue
        for n in ast.walk(top_node):
            if isinstance(n, ast.Attribute) and isinstance(n.value, ast.Name) and n.value.id in tables:
                raise Unexpected("line %d: method/attribute of %s used outside addop" % (n.lineno, n.value.id))
            if isinstance(n, (ast.Subscript, ast.Name)) and not isinstance(n.ctx, ast.Load) and base_name(n) in tables:
                if isinstance(n, ast.Name) and top_node is assigns.get(n.id):
                    continue
                raise Unexpected("line %d: %s modified outside addop" % (n.lineno, base_name(n)))
            if isinstance(n, (ast.Global, ast.Nonlocal)) and set(n.names) & set(tables):
                raise Unexpected("line %d: global %s" % (n.lineno, n.names))
    if sum(1 for n in ast.walk(mod) if isinstance(n, ast.Name) and n.id == "addop" and isinstance(n.ctx, ast.Load)) != 1:
        raise Unexpected("addop referenced other than by `a = addop`")
    if "E" not in entries or "e" not in entries or entries["E"][:3] != entries["e"][:3]:
        raise Unexpected("the alias 'E' must be registered exactly like 'e'")
    del entries["E"]
    missing = [s for s in SYMBOLS if s not in entries]
    if missing:
        raise Unexpected("operators no longer registered: %r" % missing)
    return {"entries": entries, "paren": paren["("], "sha": hashlib.sha256(text.encode()).hexdigest()}


def render(info):
    def z(v):
        return "(%d)" % v if v < 0 else "%d" % v
    ops = ["(%s, (%s, %d%%nat))" % (SYMBOLS[s], z(info["entries"][s][0]), info["entries"][s][1]) for s in ORDER]
    sems = ["(%s, %s)" % (SYMBOLS[s], info["entries"][s][2]) for s in ORDER]
    lines = ["(* GENERATED by vt/gen/c04_ops.py from src/mwlib/parser/expr.py — do not edit.",
             "   One entry per `a(op, prec, fun[, numargs])` call of expr.py (line in the comment); numargs derived as",
             "   addop does (explicit, else number of positional parameters of the lambda / def). *)",
             "From Coq Require Import List ZArith.",
             "From MW Require Import Common.Str C04.ExprModel.",
             "Import ListNotations.",
             "Local Open Scope Z_scope.",
             "",
             "Definition gen_table : table :=",
             "  mktable",
             "    [ " + ";\n      ".join("%s (* expr.py:%d %s *)" % (o, info["entries"][s][3], "" if s in "*()" or "*" in s or "(" in s else s)
                                       for o, s in zip(ops, ORDER)),
             "    ]",
             "    %s." % z(info["paren"]),
             "",
             "Definition gen_constants : list const := [CE; CPi].",
             "",
             "Definition gen_sem : list (opname * sem) :=",
             "  [ " + ";\n    ".join(sems),
             "  ].",
             ""]
    return "\n".join(lines)


def generate(src):
    info = analyse(os.path.join(src, "mwlib", "parser", "expr.py"))
    core.write_if_changed(os.path.join(core.COQ, "C04", "Gen_ops.v"), render(info))
    return info


if __name__ == "__main__":
    import sys
    inf = analyse(sys.argv[1])
    print(render(inf))
