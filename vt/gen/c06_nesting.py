"""C06/C07 translator (fail-closed): mwlib/parser/treecleaner.py  ->  coq/C06/Gen_nesting.v

Extracts from TreeCleaner.__init__ the literal tables the fix_nesting model (coq/C06/ModelNesting.v) depends on:
    self.inline_style_nodes = [Name, ...]
    self.forbidden_parents = {Name: [Name, ...] | self.inline_style_nodes, ...}
    self.forbidden_parents[Source].append(PreFormatted)          (any number of such literal appends)
    self.outside_parents_invisible = [Name, ...]
and writes them with the class codes of vt/harness/c05_snap.py as
    gen_forbidden_parents : list (N * list N)      gen_invisible : list N
coq/C06/ProofsNestingGen.v proves (vm_compute) that they ARE the tables of ModelNesting.v.

Also checks the shape of the code the model restates (raise = broken obligation):
  * no other statement anywhere in the package touches forbidden_parents / outside_parents_invisible /
    inline_style_nodes (only the known reads in _find_forbidden_parent_... and _nesting_broken);
  * the default nesting_strictness is "loose" and nothing but __init__ assigns it;
  * _mark_nodes tests membership in `divide` and equality with `problem_node` by IDENTITY
    (`any(child is x for x in divide)`, `child is problem_node`): no `in divide`, no ==/!= on them;
  * _fix_nesting filters the three copies with ["bottom","problem"], ["top","bottom"], ["top","problem"] in
    this order, takes middle_tree.children[0], and replaces bad_parent in its parent by [top, middle, bottom];
  * _filter_tree / _is_exception / fix_nesting have the modelled shape (cheap structural checks).
"""
import ast
import os

from vt import core
from vt.harness.c05_snap import CLS

REL = "mwlib/parser/treecleaner.py"
TABLE_ATTRS = ("forbidden_parents", "outside_parents_invisible", "inline_style_nodes")


class Shape(ValueError):
    pass


def _is_self_attr(n, name=None):
    return (isinstance(n, ast.Attribute) and isinstance(n.value, ast.Name) and n.value.id == "self"
            and (name is None or n.attr == name))


def _names(lst, what):
    if not isinstance(lst, ast.List):
        raise Shape("%s is not a list literal (line %d)" % (what, lst.lineno))
    out = []
    for e in lst.elts:
        if not isinstance(e, ast.Name):
            raise Shape("%s has a non-Name element (line %d)" % (what, e.lineno))
        out.append(e.id)
    return out


def _code(name):
    if name not in CLS:
        raise Shape("class %s has no code in vt/harness/c05_snap.py" % name)
    return CLS[name]


def _method(tc, name):
    ms = [st for st in tc.body if isinstance(st, ast.FunctionDef) and st.name == name]
    if len(ms) != 1:
        raise Shape("TreeCleaner.%s not found exactly once" % name)
    return ms[0]


def _parents(tree):
    par = {}
    for n in ast.walk(tree):
        for c in ast.iter_child_nodes(n):
            par[c] = n
    return par


def analyse(src):
    path = os.path.join(src, REL)
    with open(path, encoding="utf8") as f:
        tree = ast.parse(f.read(), filename=REL)
    # nothing else in the package may mention the tables
    root = os.path.join(src, "mwlib")
    for dp, _dn, fns in os.walk(root):
        for fn in fns:
            if fn.endswith(".py") and os.path.join(dp, fn) != path:
                with open(os.path.join(dp, fn), encoding="utf8", errors="replace") as f:
                    txt = f.read()
                for a in TABLE_ATTRS + ("nesting_strictness",):
                    if a in txt:
                        raise Shape("%s is mentioned outside treecleaner.py: %s" % (a, os.path.relpath(os.path.join(dp, fn), src)))
    tcs = [c for c in tree.body if isinstance(c, ast.ClassDef) and c.name == "TreeCleaner"]
    if len(tcs) != 1:
        raise Shape("class TreeCleaner not found exactly once")
    tc = tcs[0]
    par = _parents(tree)
    init = _method(tc, "__init__")

    def enclosing_func(n):
        while n in par:
            n = par[n]
            if isinstance(n, ast.FunctionDef):
                return n.name
        return None

    # ---- default strictness
    argnames = [a.arg for a in init.args.args]
    if "nesting_strictness" not in argnames:
        raise Shape("__init__ has no nesting_strictness parameter")
    defaults = dict(zip(argnames[len(argnames) - len(init.args.defaults):], init.args.defaults))
    d = defaults.get("nesting_strictness")
    if not (isinstance(d, ast.Constant) and d.value == "loose"):
        raise Shape("default nesting_strictness is not 'loose'")
    for n in ast.walk(tree):
        if isinstance(n, ast.Attribute) and n.attr == "nesting_strictness" and isinstance(n.ctx, ast.Store):
            if enclosing_func(n) != "__init__":
                raise Shape("nesting_strictness assigned outside __init__ (line %d)" % n.lineno)

    # ---- the tables
    tables = {}
    appends = []
    seen = {a: [] for a in TABLE_ATTRS}
    for st in ast.walk(init):
        if isinstance(st, ast.Assign) and len(st.targets) == 1 and _is_self_attr(st.targets[0]) and st.targets[0].attr in TABLE_ATTRS:
            a = st.targets[0].attr
            if a in tables:
                raise Shape("%s assigned twice" % a)
            if par.get(st) is not init:
                raise Shape("%s assigned conditionally (line %d)" % (a, st.lineno))
            tables[a] = st
    for a in TABLE_ATTRS:
        if a not in tables:
            raise Shape("self.%s = ... not found in __init__" % a)
    inline = _names(tables["inline_style_nodes"].value, "inline_style_nodes")
    invisible = _names(tables["outside_parents_invisible"].value, "outside_parents_invisible")
    dv = tables["forbidden_parents"].value
    if not isinstance(dv, ast.Dict):
        raise Shape("forbidden_parents is not a dict literal")
    fp = []
    aliases = 0
    for k, v in zip(dv.keys, dv.values):
        if not isinstance(k, ast.Name):
            raise Shape("forbidden_parents has a non-Name key (line %d)" % getattr(k, "lineno", 0))
        if any(k.id == kk for kk, _ in fp):
            raise Shape("forbidden_parents: duplicate key %s" % k.id)
        if _is_self_attr(v, "inline_style_nodes"):
            aliases += 1
            fp.append((k.id, list(inline)))
        else:
            fp.append((k.id, _names(v, "forbidden_parents[%s]" % k.id)))
    if not (tables["inline_style_nodes"].lineno < tables["forbidden_parents"].lineno):
        raise Shape("inline_style_nodes is assigned after forbidden_parents")

    # ---- every other occurrence of the attributes
    allowed_reads = {"forbidden_parents": "_find_forbidden_parent_based_on_nesting_strictness",
                     "outside_parents_invisible": "_nesting_broken"}
    for n in ast.walk(tree):
        if not (isinstance(n, ast.Attribute) and n.attr in TABLE_ATTRS):
            continue
        a = n.attr
        if not _is_self_attr(n):
            raise Shape("%s on a receiver other than self (line %d)" % (a, n.lineno))
        p = par.get(n)
        if isinstance(n.ctx, ast.Store):
            if p is not tables[a]:
                raise Shape("unexpected store to %s (line %d)" % (a, n.lineno))
            continue
        if isinstance(n.ctx, ast.Del):
            raise Shape("del %s (line %d)" % (a, n.lineno))
        fn = enclosing_func(n)
        if fn == "__init__":
            if a == "inline_style_nodes" and p is dv:
                continue
            # self.forbidden_parents[Key].append(Name)
            if a == "forbidden_parents" and isinstance(p, ast.Subscript) and isinstance(p.ctx, ast.Load):
                at = par.get(p)
                call = par.get(at)
                stmt = par.get(call)
                key = p.slice
                if (isinstance(at, ast.Attribute) and at.attr == "append" and isinstance(call, ast.Call) and call.func is at
                        and len(call.args) == 1 and not call.keywords and isinstance(call.args[0], ast.Name)
                        and isinstance(stmt, ast.Expr) and par.get(stmt) is init and isinstance(key, ast.Name)
                        and stmt.lineno > tables["forbidden_parents"].lineno):
                    appends.append((stmt.lineno, key.id, call.args[0].id))
                    continue
            raise Shape("unexpected use of %s in __init__ (line %d)" % (a, n.lineno))
        if allowed_reads.get(a) == fn:
            seen[a].append(n.lineno)
            continue
        raise Shape("unexpected use of %s in %s (line %d)" % (a, fn, n.lineno))
    if aliases > 1:
        raise Shape("inline_style_nodes aliased by more than one key")
    for _ln, key, val in sorted(appends):
        hit = [vals for k, vals in fp if k == key]
        if not hit:
            raise Shape("append to a missing key %s" % key)
        hit[0].append(val)
    if len(seen["forbidden_parents"]) != 1 or len(seen["outside_parents_invisible"]) != 1:
        raise Shape("the tables are not read exactly once each by the nesting check")

    # ---- the read sites
    ff = _method(tc, "_find_forbidden_parent_based_on_nesting_strictness")
    want = "parent.__class__ in self.forbidden_parents.get(node.__class__, [])"
    if want not in [ast.unparse(n) for n in ast.walk(ff) if isinstance(n, ast.Compare)]:
        raise Shape("loose check is not `%s`" % want)
    nb = _method(tc, "_nesting_broken")
    want = "parent.__class__ not in self.outside_parents_invisible"
    if want not in [ast.unparse(n) for n in ast.walk(nb) if isinstance(n, ast.Compare)]:
        raise Shape("_nesting_broken does not test `%s`" % want)
    calls = [ast.unparse(n) for n in ast.walk(nb) if isinstance(n, ast.Call)]
    for w in ("node.get_parents()", "parents.reverse()", "clean_parents.append(parent)"):
        if w not in calls:
            raise Shape("_nesting_broken: missing `%s`" % w)
    if not any(isinstance(n, ast.Break) for n in ast.walk(nb)):
        raise Shape("_nesting_broken does not stop at the first invisible parent")

    # ---- _mark_nodes: identity
    mn = _method(tc, "_mark_nodes")
    for n in ast.walk(mn):
        if isinstance(n, ast.Compare):
            names = {x.id for x in ast.walk(n) if isinstance(x, ast.Name)}
            if names & {"divide", "problem_node"}:
                for op in n.ops:
                    if not isinstance(op, ast.Is):
                        raise Shape("_mark_nodes compares divide/problem_node with %s (line %d): the model uses identity"
                                    % (type(op).__name__, n.lineno))
    tests = [ast.unparse(n.test) for n in sorted((n for n in ast.walk(mn) if isinstance(n, ast.If)), key=lambda n: n.lineno)]
    want_tests = ["getattr(node, 'nesting_pos', None)", "any((child is path_node for path_node in divide))",
                  "child is problem_node", "not got_divide"]
    if tests != want_tests:
        raise Shape("_mark_nodes has unexpected tests: %r" % (tests,))
    marks = [n.value.value for n in sorted((n for n in ast.walk(mn) if isinstance(n, ast.Assign)), key=lambda n: n.lineno)
             if isinstance(n.value, ast.Constant) and isinstance(n.value.value, str)]
    if marks != ["problem", "top", "bottom"]:
        raise Shape("_mark_nodes assigns marks %r" % (marks,))

    # ---- _filter_tree
    ft = _method(tc, "_filter_tree")
    tests = [ast.unparse(n.test) for n in ast.walk(ft) if isinstance(n, ast.If)]
    if tests != ["getattr(node, 'nesting_pos', None) in nesting_filter"]:
        raise Shape("_filter_tree has unexpected tests: %r" % (tests,))
    if "node.parent.remove_child(node)" not in [ast.unparse(n) for n in ast.walk(ft) if isinstance(n, ast.Call)]:
        raise Shape("_filter_tree does not remove the marked node")
    loops = [ast.unparse(n.iter) for n in ast.walk(ft) if isinstance(n, ast.For)]
    if loops != ["node.children[:]"]:       # C06/ModelNestingHeap.v hfilter: recursion over a SNAPSHOT of the children
        raise Shape("_filter_tree iterates over %r, not over a snapshot of node.children" % (loops,))

    # ---- _fix_nesting
    fx = _method(tc, "_fix_nesting")
    filters = []
    for n in ast.walk(fx):
        if isinstance(n, ast.Call) and ast.unparse(n.func) == "self._filter_tree":
            kw = [k for k in n.keywords if k.arg == "nesting_filter"]
            if len(n.args) != 1 or len(kw) != 1 or not isinstance(kw[0].value, ast.List):
                raise Shape("_fix_nesting: unexpected _filter_tree call (line %d)" % n.lineno)
            filters.append((n.lineno, ast.unparse(n.args[0]),
                            [e.value for e in kw[0].value.elts if isinstance(e, ast.Constant)]))
    filters.sort()
    want_f = [("top_tree", ["bottom", "problem"]), ("middle_tree", ["top", "bottom"]), ("bottom_tree", ["top", "problem"])]
    if [(a, f) for _l, a, f in filters] != want_f:
        raise Shape("_fix_nesting filters are %r" % (filters,))
    stmts = [ast.unparse(st) for st in fx.body if not (isinstance(st, ast.Expr) and isinstance(st.value, ast.Constant))]
    must = ["bad_parent = self._nesting_broken(node)", "divide = node.get_parents()", "divide.append(node)",
            "self._mark_nodes(bad_parent, divide, problem_node=node)", "top_tree = bad_parent.copy()",
            "middle_tree = bad_parent.copy()", "middle_tree = middle_tree.children[0]", "bottom_tree = bad_parent.copy()",
            "new_tree = [part for part in [top_tree, middle_tree, bottom_tree] if part is not None]",
            "parent = bad_parent.parent", "parent.replace_child(bad_parent, new_tree)", "self._clean_up_marks(parent)",
            "return True"]
    pos = -1
    for m in must:
        if m not in stmts[pos + 1:]:
            raise Shape("_fix_nesting: statement `%s` missing or out of order" % m)
        pos = stmts.index(m, pos + 1)
    if not stmts[0].startswith("if self._is_exception(node):\n    return"):
        raise Shape("_fix_nesting does not start with the _is_exception test")
    if "if not bad_parent:\n    return any((self._fix_nesting(c) for c in node.children))" not in stmts:
        raise Shape("_fix_nesting: the descent is not `any(self._fix_nesting(c) for c in node.children)`")
    lp = _method(tc, "fix_nesting")
    if [ast.unparse(st) for st in lp.body] != ["while self._fix_nesting(node):\n    pass"]:
        raise Shape("fix_nesting is not `while self._fix_nesting(node): pass`")
    ie = _method(tc, "_is_exception")
    if "node.vlist['style']['direction']" not in [ast.unparse(n) for n in ast.walk(ie) if isinstance(n, ast.Subscript)]:
        raise Shape("_is_exception does not read node.vlist['style']['direction']")

    return {"forbidden_parents": fp, "invisible": invisible, "inline_style_nodes": inline,
            "appends": [(k, v) for _l, k, v in sorted(appends)]}


def coq_nlist(xs):
    return "[" + "; ".join(str(x) for x in xs) + "]"


def generate(src):
    a = analyse(src)
    fp = [(_code(k), [_code(v) for v in vs]) for k, vs in a["forbidden_parents"]]
    inv = [_code(k) for k in a["invisible"]]
    names = "\n".join("     %s <- %s" % (k, ", ".join(vs)) for k, vs in a["forbidden_parents"])
    text = """(* GENERATED by vt/gen/c06_nesting.py from mwlib/parser/treecleaner.py (TreeCleaner.__init__) - do not edit.
   class codes: vt/harness/c05_snap.py CLS.  forbidden_parents (key <- forbidden ancestors), after the literal
   `self.forbidden_parents[K].append(V)` statements:
%s
   outside_parents_invisible: %s *)
From Coq Require Import List NArith.
Import ListNotations.
Open Scope N_scope.

Definition gen_forbidden_parents : list (N * list N) :=
  [ %s ].

Definition gen_invisible : list N := %s.
""" % (names, ", ".join(a["invisible"]),
       ";\n    ".join("(%d, %s)" % (k, coq_nlist(vs)) for k, vs in fp), coq_nlist(inv))
    core.write_if_changed(os.path.join(core.COQ, "C06", "Gen_nesting.v"), text)
    return {"forbidden_keys": len(fp), "forbidden_pairs": sum(len(vs) for _k, vs in fp), "invisible": a["invisible"],
            "appends": a["appends"], "mark_nodes": "identity"}
