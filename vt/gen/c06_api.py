"""C06 translator (fail-closed): treecleaner.py / treecleanerhelper.py  ->  coq/C06/Gen_api.v

used      = every attribute name the cleaner reads or calls on ANY receiver that is not an imported module
            (x.attr with Load context), per file:line of first use;
defined   = names defined by the node classes and their mixins/helpers: class-level names (methods, properties,
            class attributes, annotated names) and `self.<name> = ...` assignments in every class of nodes.py, advtree.py,
            token/utoken.py, plus the methods and `self.<name>` attributes of TreeCleaner itself, plus attribute names the
            cleaner itself stores on nodes (x.attr = ...), plus keyword attributes the refine parser stores (node.<name> = ...
            in refine/*.py);
builtin   = a FIXED allow-list of attributes of builtin types used as receivers (str, list, dict, frame objects);
module receivers (sys, parser, styleutils, ...) are checked against the module's own top-level names / a fixed list.
Also: cleaner_methods (the documented pass order) and the method names of class TreeCleaner.
Anything outside the expected source shape raises (broken obligation)."""
import ast
import os

from vt import core

BUILTIN = ["append", "extend", "insert", "pop", "reverse", "count", "index", "sort",           # list
           "get", "items", "keys", "values", "update", "setdefault",                          # dict
           "strip", "split", "lower", "upper", "startswith", "endswith", "replace", "join", "encode", "format",  # str
           "f_code", "co_name",                                                                 # frame / code objects
           "__class__", "__name__", "__bases__", "__dict__"]
STDLIB = {"sys": ["stdout", "_getframe"], "unicodedata": ["bidirectional"], "math": ["ceil"], "contextlib": ["suppress"],
          "traceback": ["print_exc"]}
NODE_SOURCES = ["mwlib/parser/nodes.py", "mwlib/parser/advtree.py", "mwlib/parser/token/utoken.py"]
PARSER_SETTERS = ["mwlib/parser/refine/core.py", "mwlib/parser/refine/compat.py", "mwlib/parser/refine/parse_table.py",
                  "mwlib/parser/refine/tagparser.py", "mwlib/parser/refine/util.py", "mwlib/parser/styleanalyzer.py",
                  "mwlib/parser/refine/parse_links.py"]
CLEANER = ["mwlib/parser/treecleaner.py", "mwlib/parser/treecleanerhelper.py"]
MODULE_FILES = {"parser": "mwlib/parser/__init__.py", "styleutils": "mwlib/rendering/styleutils.py",
                "miscutils": "mwlib/rendering/miscutils.py"}


def _parse(src, rel):
    p = os.path.join(src, rel)
    with open(p, encoding="utf8") as f:
        return ast.parse(f.read(), filename=rel)


def class_names(tree):
    """names defined at class level + self.<x> stores inside methods, for every class of the module"""
    names = set()
    for cls in [n for n in ast.walk(tree) if isinstance(n, ast.ClassDef)]:
        for st in cls.body:
            if isinstance(st, (ast.FunctionDef, ast.AsyncFunctionDef)):
                names.add(st.name)
                for n in ast.walk(st):
                    if isinstance(n, ast.Attribute) and isinstance(n.ctx, ast.Store) and isinstance(n.value, ast.Name) and n.value.id in ("self", "s"):
                        names.add(n.attr)
            elif isinstance(st, ast.Assign):
                for t in st.targets:
                    if isinstance(t, ast.Name):
                        names.add(t.id)
                    elif isinstance(t, ast.Tuple):
                        names.update(e.id for e in t.elts if isinstance(e, ast.Name))
            elif isinstance(st, ast.AnnAssign) and isinstance(st.target, ast.Name):
                names.add(st.target.id)
    return names


def stored_attrs(tree):
    return {n.attr for n in ast.walk(tree) if isinstance(n, ast.Attribute) and isinstance(n.ctx, ast.Store)}


def toplevel_names(tree):
    names = set()
    for st in tree.body:
        if isinstance(st, (ast.FunctionDef, ast.ClassDef)):
            names.add(st.name)
        elif isinstance(st, ast.Assign):
            names.update(t.id for t in st.targets if isinstance(t, ast.Name))
        elif isinstance(st, (ast.Import, ast.ImportFrom)):
            names.update((a.asname or a.name).split(".")[0] for a in st.names)
    return names


def imported_modules(tree):
    """local names bound to modules by `import x` / `from pkg import mod` (only the ones we know)"""
    mods = set()
    for st in ast.walk(tree):
        if isinstance(st, ast.Import):
            for a in st.names:
                mods.add((a.asname or a.name).split(".")[0])
        elif isinstance(st, ast.ImportFrom):
            for a in st.names:
                nm = a.asname or a.name
                if nm in MODULE_FILES:
                    mods.add(nm)
    return mods


def analyse(src):
    used = {}          # attr -> "file:line"
    module_uses = []   # (module, attr, where)
    stored = set()
    for rel in CLEANER:
        tree = _parse(src, rel)
        mods = imported_modules(tree)
        for m in mods:
            if m not in STDLIB and m not in MODULE_FILES:
                raise ValueError("%s imports a module the translator does not know: %s" % (rel, m))
        stored |= stored_attrs(tree)
        for n in ast.walk(tree):
            if isinstance(n, ast.Attribute) and isinstance(n.ctx, (ast.Load, ast.Del)):
                where = "%s:%d" % (os.path.basename(rel), n.lineno)
                if isinstance(n.value, ast.Name) and n.value.id in mods:
                    module_uses.append((n.value.id, n.attr, where))
                else:
                    used.setdefault(n.attr, where)
            # getattr(x, "name") / hasattr with a literal default are guarded reads: not obligations
    # the cleaner class
    tc_tree = _parse(src, CLEANER[0])
    tcs = [c for c in tc_tree.body if isinstance(c, ast.ClassDef) and c.name == "TreeCleaner"]
    if len(tcs) != 1:
        raise ValueError("class TreeCleaner not found exactly once")
    tc = tcs[0]
    tc_methods = sorted(st.name for st in tc.body if isinstance(st, ast.FunctionDef))
    cm = None
    for st in tc.body:
        if isinstance(st, ast.Assign) and any(isinstance(t, ast.Name) and t.id == "cleaner_methods" for t in st.targets):
            if not isinstance(st.value, ast.List) or not all(isinstance(e, ast.Constant) and isinstance(e.value, str) for e in st.value.elts):
                raise ValueError("cleaner_methods is not a literal list of strings")
            cm = [e.value for e in st.value.elts]
    if not cm:
        raise ValueError("cleaner_methods not found")
    defined = set()
    for rel in NODE_SOURCES:
        defined |= class_names(_parse(src, rel))
    defined |= class_names(tc_tree)
    parser_set = set()
    for rel in PARSER_SETTERS:
        if os.path.exists(os.path.join(src, rel)):
            parser_set |= stored_attrs(_parse(src, rel))
    # module receivers
    bad_mod = []
    for m, a, where in module_uses:
        if m in STDLIB:
            ok = a in STDLIB[m]
        else:
            ok = a in toplevel_names(_parse(src, MODULE_FILES[m]))
        if not ok:
            bad_mod.append("%s.%s (%s)" % (m, a, where))
    return {"used": used, "defined": sorted(defined), "stored_by_cleaner": sorted(stored), "stored_by_parser": sorted(parser_set),
            "tc_methods": tc_methods, "cleaner_methods": cm, "bad_module_attrs": bad_mod}


def coq_s(s):
    if '"' in s or "\\" in s or not s.isascii():
        raise ValueError("unexpected identifier %r" % s)
    return '"%s"' % s


def coq_list(xs, per=8):
    xs = list(xs)
    if not xs:
        return "[]"
    rows = ["; ".join(coq_s(x) for x in xs[i:i + per]) for i in range(0, len(xs), per)]
    return "[" + ";\n   ".join(rows) + "]"


def generate(src):
    a = analyse(src)
    if a["bad_module_attrs"]:
        raise ValueError("attribute of an imported module does not exist: " + ", ".join(a["bad_module_attrs"]))
    used = sorted(a["used"])
    text = """(* GENERATED by vt/gen/c06_api.py from treecleaner.py / treecleanerhelper.py / advtree.py / nodes.py / utoken.py - do not edit.
   first uses: %s *)
From Coq Require Import List String.
Import ListNotations.
Open Scope string_scope.

(* attribute names read or called on a non-module receiver in the cleaner *)
Definition used : list string :=
  %s.

(* names defined by the node classes / mixins / Token / TreeCleaner (class level and self.<x> = ...) *)
Definition defined_by_classes : list string :=
  %s.

(* attribute names the cleaner itself stores on nodes (x.attr = ...) *)
Definition stored_by_cleaner : list string :=
  %s.

(* attribute names the refine parser stores on nodes *)
Definition stored_by_parser : list string :=
  %s.

Definition defined : list string := defined_by_classes ++ stored_by_cleaner ++ stored_by_parser.

(* fixed allow-list: attributes of builtin types (list, dict, str, frame) *)
Definition builtin : list string :=
  %s.

Definition cleaner_methods : list string :=
  %s.

Definition tc_methods : list string :=
  %s.
""" % (", ".join("%s@%s" % (k, a["used"][k]) for k in used[:400]).replace("*)", "* )"),
       coq_list(used), coq_list(a["defined"]), coq_list(a["stored_by_cleaner"]), coq_list(a["stored_by_parser"]),
       coq_list(BUILTIN), coq_list(a["cleaner_methods"]), coq_list(a["tc_methods"]))
    core.write_if_changed(os.path.join(core.COQ, "C06", "Gen_api.v"), text)
    return a


def missing(a):
    ok = set(a["defined"]) | set(a["stored_by_cleaner"]) | set(a["stored_by_parser"]) | set(BUILTIN)
    return sorted((k, w) for k, w in a["used"].items() if k not in ok)
