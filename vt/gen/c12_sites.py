"""Translator: src/mwlib/network/known_sites/siteinfo-*.json -> coq/C12/Gen_sites.v  (fail-closed).

The data is emitted exactly as NsHandler sees it:
  * siteinfo["namespaces"]: dict key -> {"id", "*", optional "canonical", ...} in FILE ORDER (json.load keeps it;
    _find_namespace iterates .values() in that order).  Required: key == str(id), ids are ints.
  * siteinfo.get("namespacealiases", []): list of {"id", "*"} in file order.
  * capitalize flag: siteinfo['general'].get('case') == 'first-letter' (True when 'general' is missing).
NsHandler.__init__ calls fix_wikipedia_siteinfo for *.wikipedia.org: the translator checks on the AST that this
function only reads/writes the key 'interwikimap' (so namespaces/aliases/general are what the file says).
"""
import ast
import glob
import json
import os
import re


def check_source(src):
    p = os.path.join(src, "mwlib", "core", "nshandling.py")
    txt = open(p, encoding="utf8").read()
    tree = ast.parse(txt)
    fn = [n for n in ast.walk(tree) if isinstance(n, ast.FunctionDef) and n.name == "fix_wikipedia_siteinfo"]
    if len(fn) != 1:
        raise RuntimeError("fix_wikipedia_siteinfo not found exactly once")
    keys = set()
    for n in ast.walk(fn[0]):
        if isinstance(n, ast.Subscript) and isinstance(n.value, ast.Name) and n.value.id == "siteinfo":
            if not (isinstance(n.slice, ast.Constant) and isinstance(n.slice.value, str)):
                raise RuntimeError("fix_wikipedia_siteinfo: non-constant subscript of siteinfo")
            keys.add(n.slice.value)
        if isinstance(n, ast.Call) and isinstance(n.func, ast.Attribute) and isinstance(n.func.value, ast.Name) \
                and n.func.value.id == "siteinfo":
            if n.func.attr == "get":
                if not (n.args and isinstance(n.args[0], ast.Constant)):
                    raise RuntimeError("fix_wikipedia_siteinfo: siteinfo.get with non-constant key")
                keys.add(n.args[0].value)
            elif n.func.attr != "get_siteinfo":
                raise RuntimeError("fix_wikipedia_siteinfo: unexpected call siteinfo.%s" % n.func.attr)
        if isinstance(n, (ast.Delete, ast.Global, ast.Nonlocal)):
            raise RuntimeError("fix_wikipedia_siteinfo: unexpected statement")
    if keys - {"interwikimap"}:
        raise RuntimeError("fix_wikipedia_siteinfo touches keys %r" % sorted(keys))
    # the capitalisation flag and the data accesses of _find_namespace, textually
    need = [
        r"self\.capitalize = self\.siteinfo\['general'\]\.get\('case'\) == 'first-letter'",
        r"except KeyError:\s+self\.capitalize = True",
        r'namespaces = list\(self\.siteinfo\["namespaces"\]\.values\(\)\)',
        r'namespace\.get\("canonical", ""\)',
        r'aliases = self\.siteinfo\.get\("namespacealiases", \[\]\)',
        r'self\.siteinfo\["namespaces"\]\[str\(nsid\)\]\["\*"\]',
        r'self\.siteinfo\["namespaces"\]\[str\(defaultns\)\]\["\*"\]',
        r'_edge_rex = re\.compile\("\^\[\\\\s\\u200e\\u200f\]\+\|\[\\\\s\\u200e\\u200f\]\+\$"\)',
    ]
    for pat in need:
        if not re.search(pat, txt):
            raise RuntimeError("nshandling.py no longer contains the expected shape: " + pat)
    sp = os.path.join(src, "mwlib", "network", "siteinfo.py")
    stxt = open(sp, encoding="utf8").read()
    if 'f"siteinfo-{lang}.json"' not in stxt or "json.load(site_info_file)" not in stxt:
        raise RuntimeError("siteinfo.py: unexpected loader")


def load_sites(src):
    files = sorted(glob.glob(os.path.join(src, "mwlib", "network", "known_sites", "siteinfo-*.json")))
    if not files:
        raise RuntimeError("no bundled siteinfo files")
    sites = []
    for f in files:
        lang = os.path.basename(f)[len("siteinfo-"):-len(".json")]
        if not re.fullmatch(r"[a-z\-]+", lang):
            raise RuntimeError("unexpected site file name " + f)
        with open(f, encoding="utf-8") as fh:
            d = json.load(fh)
        if not isinstance(d, dict) or not isinstance(d.get("namespaces"), dict):
            raise RuntimeError(lang + ": no namespaces dict")
        nss = []
        for k, v in d["namespaces"].items():
            if not isinstance(v, dict) or type(v.get("id")) is not int or str(v["id"]) != k or not isinstance(v.get("*"), str):
                raise RuntimeError("%s: namespace entry %r has an unexpected shape" % (lang, k))
            canon = v.get("canonical")
            if canon is not None and not isinstance(canon, str):
                raise RuntimeError("%s: canonical of %r is not a string" % (lang, k))
            nss.append((v["id"], v["*"], canon))
        als = []
        aliases = d.get("namespacealiases", [])
        if not isinstance(aliases, list):
            raise RuntimeError(lang + ": namespacealiases is not a list")
        for a in aliases:
            if not isinstance(a, dict) or type(a.get("id")) is not int or not isinstance(a.get("*"), str):
                raise RuntimeError("%s: alias %r has an unexpected shape" % (lang, a))
            als.append((a["id"], a["*"]))
        if "general" in d:
            if not isinstance(d["general"], dict):
                raise RuntimeError(lang + ": general is not a dict")
            cap = d["general"].get("case") == "first-letter"
        else:
            cap = True
        sites.append((lang, nss, als, cap))
    return sites


def cstr(s):
    return "[" + "; ".join(str(ord(c)) for c in s) + "]"


def generate(src, path, write_if_changed):
    check_source(src)
    sites = load_sites(src)
    out = ["(* GENERATED by vt/gen/c12_sites.py from src/mwlib/network/known_sites/siteinfo-*.json -- do not edit. *)",
           "From Coq Require Import List NArith ZArith.", "Import ListNotations.", "Open Scope N_scope.", ""]
    for lang, nss, als, cap in sites:
        nm = "gen_site_" + lang.replace("-", "_")
        out.append("(* %s: %d namespaces, %d aliases *)" % (lang, len(nss), len(als)))
        out.append("Definition %s_namespaces : list (Z * list N * option (list N)) := [" % nm)
        out.append(";\n".join("  ((%d)%%Z, %s, %s)" % (i, cstr(star), "None" if canon is None else "Some " + cstr(canon))
                              for i, star, canon in nss))
        out.append("].")
        out.append("Definition %s_aliases : list (Z * list N) := [" % nm)
        out.append(";\n".join("  ((%d)%%Z, %s)" % (i, cstr(a)) for i, a in als))
        out.append("].")
        out.append("Definition %s_capitalize : bool := %s.\n" % (nm, "true" if cap else "false"))
    out.append("(* (language, namespaces, aliases, capitalize) *)")
    out.append("Definition gen_sites : list (list N * list (Z * list N * option (list N)) * list (Z * list N) * bool) := [")
    out.append(";\n".join("  (%s, gen_site_%s_namespaces, gen_site_%s_aliases, gen_site_%s_capitalize)" %
                          (cstr(lang), lang.replace("-", "_"), lang.replace("-", "_"), lang.replace("-", "_"))
                          for lang, _n, _a, _c in sites))
    out.append("].")
    write_if_changed(path, "\n".join(out) + "\n")
    return [s[0] for s in sites]
