"""C03 translator: the magic-word dispatch table of /repo -> coq/C03/Gen_magics.v.

`analyse(src)` reads (with `ast`, never by importing mwlib)
  * mwlib/parser/templ/magics.py : the decorators single_arg / no_arg / _wrap_pagename / _quoted, the bodies of
    the mixin classes of MagicResolver, the '#'-rename loop of ParserFunctions, `magic_words`, `_populate_dummy`
    and the call `method_to_invoke(args)` in MagicResolver.__call__;
  * mwlib/parser/templ/magic_nodes.py (+ nodes.pyx, node.pyx): `registry` and the `flatten` signature each
    registered class defines or inherits.
`generate(src)` writes the Gallina table.  Fail-closed: any source shape that is not understood raises.

Signature convention: (min, max, var) = positional parameters without default, all positional parameters,
has *args — of the *function object* (so `self` is counted)."""
import ast
import os

from vt import core

MAGICS = "mwlib/parser/templ/magics.py"
MAGIC_NODES = "mwlib/parser/templ/magic_nodes.py"
NODES = "mwlib/parser/templ/nodes.pyx"
NODE = "mwlib/parser/templ/node.pyx"

RENAME_LOOP = '''
for foo_name in dir(ParserFunctions):
    if foo_name.startswith("_"):
        continue
    setattr(ParserFunctions, "#" + foo_name, getattr(ParserFunctions, foo_name))
    delattr(ParserFunctions, foo_name)
'''

DUMMY_LOOP = '''
for word in magic_words:
    if not magic_resolver.has_magic(word):
        missing.add(word)
        setattr(DummyResolver, word.upper(), get_dummy(word))
'''


class Unsupported(Exception):
    pass


def _fail(node, msg, fn=MAGICS):
    raise Unsupported("%s:%s: %s" % (fn, getattr(node, "lineno", "?"), msg))


def _dump(node):
    return ast.dump(node, annotate_fields=True, include_attributes=False)


def _sig(fdef, fn=MAGICS):
    a = fdef.args
    for kw, d in zip(a.kwonlyargs, a.kw_defaults):
        if d is None:
            _fail(fdef, "required keyword-only parameter %s in %s" % (kw.arg, fdef.name), fn)
    npos = len(a.posonlyargs) + len(a.args)
    return (npos - len(a.defaults), npos, a.vararg is not None)


def _is_docstring(st):
    return isinstance(st, ast.Expr) and isinstance(st.value, ast.Constant) and isinstance(st.value.value, str)


def _parse_decorator(fdef):
    """def deco(fun): @wraps(fun) def w(...): ... fun(<args>) ...; return w
    -> {"sig": sig of w, "inner": ("fixed", k) | ("forward",)}"""
    if _sig(fdef) != (1, 1, False) or fdef.args.kwonlyargs or fdef.args.kwarg:
        _fail(fdef, "decorator %s must take exactly one parameter" % fdef.name)
    param = fdef.args.args[0].arg
    body = [s for s in fdef.body if not _is_docstring(s)]
    if len(body) != 2 or not isinstance(body[0], ast.FunctionDef) or not isinstance(body[1], ast.Return):
        _fail(fdef, "decorator %s: expected 'def wrapper' + 'return wrapper'" % fdef.name)
    w = body[0]
    if not (isinstance(body[1].value, ast.Name) and body[1].value.id == w.name):
        _fail(fdef, "decorator %s does not return its wrapper" % fdef.name)
    if len(w.decorator_list) != 1 or _dump(w.decorator_list[0]) != _dump(ast.parse("wraps(%s)" % param).body[0].value):
        _fail(w, "wrapper of %s is not decorated with @wraps(%s) only" % (fdef.name, param))
    wbody = [n for st in w.body for n in ast.walk(st)]
    calls = [c for c in wbody if isinstance(c, ast.Call) and isinstance(c.func, ast.Name) and c.func.id == param]
    if not calls:
        _fail(w, "wrapper of %s never calls the wrapped function" % fdef.name)
    # the wrapped function must not escape in any other way
    uses = [n for n in wbody if isinstance(n, ast.Name) and n.id == param]
    if len(uses) != len(calls):
        _fail(w, "wrapped function of %s is used other than by calling it" % fdef.name)
    shapes = set()
    for c in calls:
        if any(isinstance(x, ast.Starred) for x in c.args) or c.keywords:
            ok = (len(c.args) == 1 and isinstance(c.args[0], ast.Starred) and isinstance(c.args[0].value, ast.Name)
                  and w.args.vararg is not None and c.args[0].value.id == w.args.vararg.arg
                  and not w.args.args and not w.args.posonlyargs
                  and all(k.arg is None and isinstance(k.value, ast.Name) and w.args.kwarg is not None
                          and k.value.id == w.args.kwarg.arg for k in c.keywords) and len(c.keywords) <= 1)
            if not ok:
                _fail(c, "unsupported star-call of the wrapped function in %s" % fdef.name)
            shapes.add(("forward",))
        else:
            shapes.add(("fixed", len(c.args)))
    if len(shapes) != 1:
        _fail(w, "wrapper of %s calls the wrapped function with different shapes" % fdef.name)
    return {"sig": _sig(w), "inner": shapes.pop(), "line": fdef.lineno}


def _class_members(cdef, decos):
    """ordered dict name -> entry for one mixin class body.
    entry = {"layers": [decorator names, outermost first], "sig": sig of the undecorated def, "origin", "line"}
          | {"const": value}"""
    members = {}
    for st in cdef.body:
        if _is_docstring(st) or isinstance(st, ast.Pass):
            continue
        if isinstance(st, ast.FunctionDef):
            if st.name in decos:
                continue  # decorator helper defined inside the class (parsed separately)
            layers = []
            for d in st.decorator_list:
                if not (isinstance(d, ast.Name) and d.id in decos):
                    _fail(st, "unknown decorator on %s.%s: %s" % (cdef.name, st.name, ast.unparse(d)))
                layers.append(d.id)
            if st.args.kwarg is not None and st.name == st.name.upper() and not st.name.startswith("_"):
                _fail(st, "**kwargs on magic %s" % st.name)
            members[st.name] = {"layers": layers, "sig": _sig(st), "origin": "def", "line": st.lineno, "cls": cdef.name,
                                "defname": st.name}
            continue
        if isinstance(st, ast.Assign) and len(st.targets) == 1 and isinstance(st.targets[0], ast.Name):
            tgt = st.targets[0].id
            v = st.value
            if isinstance(v, ast.Name) and v.id in members and "layers" in members[v.id]:
                e = dict(members[v.id])
                e.update(origin="alias of " + v.id, line=st.lineno)
                members[tgt] = e
                continue
            if (isinstance(v, ast.Call) and isinstance(v.func, ast.Name) and v.func.id in decos and len(v.args) == 1
                    and not v.keywords and isinstance(v.args[0], ast.Name) and v.args[0].id in members
                    and "layers" in members[v.args[0].id]):
                e = dict(members[v.args[0].id])
                e.update(layers=[v.func.id] + list(e["layers"]), origin="%s(%s)" % (v.func.id, v.args[0].id), line=st.lineno)
                members[tgt] = e
                continue
            if isinstance(v, ast.Constant):
                members[tgt] = {"const": v.value, "line": st.lineno, "cls": cdef.name}
                continue
            if tgt != tgt.upper():
                # a lower/mixed-case attribute can never be reached: __call__ looks up name.upper()
                members[tgt] = {"const": "<unreachable %s>" % type(v).__name__, "line": st.lineno, "cls": cdef.name}
                continue
            _fail(st, "cannot resolve class attribute %s.%s = %s" % (cdef.name, tgt, ast.unparse(v)))
        _fail(st, "unsupported statement in class %s: %s" % (cdef.name, type(st).__name__))
    return members


def analyse_magics(src):
    path = os.path.join(src, MAGICS)
    tree = ast.parse(open(path, encoding="utf8").read(), path)
    classes = {n.name: n for n in tree.body if isinstance(n, ast.ClassDef)}
    if "MagicResolver" not in classes:
        _fail(tree, "class MagicResolver not found")
    mr = classes["MagicResolver"]
    bases = []
    for b in mr.bases:
        if not isinstance(b, ast.Name) or b.id not in classes:
            _fail(mr, "base of MagicResolver is not a class of this module: " + ast.unparse(b))
        if classes[b.id].bases or classes[b.id].keywords or classes[b.id].decorator_list:
            _fail(classes[b.id], "mixin %s has bases/decorators (MRO not modelled)" % b.id)
        bases.append(b.id)
    if mr.keywords or mr.decorator_list:
        _fail(mr, "metaclass/decorator on MagicResolver")

    # --- decorators: module level and helper defs inside the mixins that take the function as only parameter
    decos = {}
    cand = [n for n in tree.body if isinstance(n, ast.FunctionDef)]
    for b in bases:
        cand += [n for n in classes[b].body if isinstance(n, ast.FunctionDef)]
    used = set()
    for c in [mr] + [classes[b] for b in bases]:
        for n in ast.walk(c):
            if isinstance(n, ast.FunctionDef):
                for d in n.decorator_list:
                    if isinstance(d, ast.Name):
                        used.add(d.id)
        # NAME = deco(OTHER) in the CLASS BODY wraps a method; the same statement shape inside a method body is an ordinary
        # call of a helper (width = as_int(args[1])) and does not make the helper a decorator
        for n in c.body:
            if isinstance(n, ast.Assign) and isinstance(n.value, ast.Call) and isinstance(n.value.func, ast.Name):
                used.add(n.value.func.id)
    used.discard("wraps")
    for f in cand:
        if f.name in used:
            if f.name in decos:
                _fail(f, "decorator %s defined twice" % f.name)
            decos[f.name] = _parse_decorator(f)

    # --- MagicResolver itself: only non-upper attributes + the dispatch call
    own = _class_members(mr, decos)
    for n in own:
        if n == n.upper() and not n.startswith("_"):
            _fail(mr, "MagicResolver defines the upper-case attribute %s itself" % n)
    call = [f for f in mr.body if isinstance(f, ast.FunctionDef) and f.name == "__call__"]
    if len(call) != 1 or _sig(call[0]) != (3, 3, False):
        _fail(mr, "MagicResolver.__call__(self, name, args) not found")
    inv = [c for c in ast.walk(call[0]) if isinstance(c, ast.Call) and isinstance(c.func, ast.Name) and c.func.id == "method_to_invoke"]
    if len(inv) != 1 or inv[0].keywords or any(isinstance(a, ast.Starred) for a in inv[0].args):
        _fail(call[0], "expected exactly one plain call method_to_invoke(...)")
    call_nargs = len(inv[0].args)
    src_call = ast.unparse(call[0])
    for needle in ("upper = name.upper()", "method_to_invoke = getattr(self, upper, None)",
                   "if isinstance(method_to_invoke, str):"):
        if needle not in src_call:
            _fail(call[0], "dispatch in __call__ changed: missing %r" % needle)

    # --- mixins in MRO order (first definition wins)
    per_class = {b: _class_members(classes[b], decos) for b in bases}

    # --- rename loop of ParserFunctions
    loops = [n for n in tree.body if isinstance(n, ast.For)]
    if len(loops) != 1 or _dump(loops[0]) != _dump(ast.parse(RENAME_LOOP).body[0]):
        _fail(loops[0] if loops else tree, "the '#' rename loop over ParserFunctions changed")
    if "ParserFunctions" not in per_class:
        _fail(mr, "ParserFunctions is not a base of MagicResolver")
    renamed = {}
    for n, e in per_class["ParserFunctions"].items():
        if n.startswith("_"):
            renamed[n] = e
        else:
            e = dict(e)
            e["origin"] = e.get("origin", "const") + ", renamed"
            renamed["#" + n] = e
    per_class["ParserFunctions"] = renamed

    table = {}
    unreachable = []
    for b in bases:
        for n, e in per_class[b].items():
            if n.startswith("_"):
                continue
            if n != n.upper():
                unreachable.append(n)
                continue
            if n in table:
                continue
            if "const" in e:
                if e["const"] is None:
                    continue
                if isinstance(e["const"], str) and not e["const"].startswith("<unreachable"):
                    table[n] = {"name": n, "cls": b, "layers": [], "sig": (0, 0, True), "origin": "strconst", "line": e["line"], "bound": False, "strconst": True}
                    continue
                _fail(classes[b], "upper-case attribute %s.%s is neither callable nor a string" % (b, n))
            table[n] = {"name": n, "cls": b, "layers": list(e["layers"]), "sig": tuple(e["sig"]), "origin": e["origin"],
                        "line": e["line"], "bound": True, "strconst": False, "defname": e.get("defname")}

    # --- magic_words and the dummy resolvers
    mw = None
    for n in tree.body:
        if isinstance(n, ast.Assign) and len(n.targets) == 1 and isinstance(n.targets[0], ast.Name) and n.targets[0].id == "magic_words":
            if not isinstance(n.value, ast.List) or not all(isinstance(x, ast.Constant) and isinstance(x.value, str) for x in n.value.elts):
                _fail(n, "magic_words is not a list of string literals")
            mw = [x.value for x in n.value.elts]
    if mw is None:
        _fail(tree, "magic_words not found")
    pd = [n for n in tree.body if isinstance(n, ast.FunctionDef) and n.name == "_populate_dummy"]
    if len(pd) != 1 or _sig(pd[0]) != (0, 0, False):
        _fail(tree, "_populate_dummy() not found")
    called = [n for n in tree.body if isinstance(n, ast.Expr) and _dump(n.value) == _dump(ast.parse("_populate_dummy()").body[0].value)]
    if len(called) != 1:
        _fail(pd[0], "_populate_dummy() is not called exactly once at module level")
    gd = [n for n in pd[0].body if isinstance(n, ast.FunctionDef) and n.name == "get_dummy"]
    if len(gd) != 1:
        _fail(pd[0], "get_dummy not found")
    rs = [n for n in gd[0].body if isinstance(n, ast.FunctionDef)]
    rets = [n for n in gd[0].body if isinstance(n, ast.Return)]
    if len(rs) != 1 or len(rets) != 1 or not isinstance(rets[0].value, ast.Name) or rets[0].value.id != rs[0].name or rs[0].decorator_list:
        _fail(gd[0], "get_dummy does not return its single inner function")
    dummy_sig = _sig(rs[0])
    dloops = [n for n in pd[0].body if isinstance(n, ast.For)]
    if len(dloops) != 1 or _dump(dloops[0]) != _dump(ast.parse(DUMMY_LOOP).body[0]):
        _fail(pd[0], "the loop installing dummy resolvers changed")
    if [s for s in classes["DummyResolver"].body if not isinstance(s, ast.Pass) and not _is_docstring(s)]:
        _fail(classes["DummyResolver"], "DummyResolver has a body")
    if "DummyResolver" not in bases:
        _fail(mr, "DummyResolver is not a base of MagicResolver")
    dummies = []
    for w in mw:
        u = w.upper()
        if u not in table:          # has_magic(word) is False -> setattr(DummyResolver, WORD, resolve)
            dummies.append(u)
            table[u] = {"name": u, "cls": "DummyResolver", "layers": [], "sig": dummy_sig, "origin": "dummy", "line": rs[0].lineno,
                        "bound": True, "strconst": False}
    return {"decorators": decos, "magics": [table[k] for k in sorted(table)], "unreachable": sorted(set(unreachable)),
            "dummies": sorted(set(dummies)), "magic_words": mw, "call_nargs": call_nargs, "bases": bases,
            "own_public": sorted(n for n in own if not n.startswith("_"))}


def _flatten_of(cname, mods, seen=()):
    """(sig, owner) of the flatten method class `cname` (qualified 'mod.Class') defines or inherits."""
    if cname in seen:
        raise Unsupported("cyclic bases at " + cname)
    mod, cls = cname.split(".")
    cdef = mods[mod]["classes"].get(cls)
    if cdef is None:
        raise Unsupported("class %s not found" % cname)
    for st in cdef.body:
        if isinstance(st, ast.FunctionDef) and st.name == "flatten":
            if st.decorator_list:
                raise Unsupported("decorated flatten in " + cname)
            return _sig(st, mod), cname
    for b in cdef.bases:
        q = _qualify(b, mod, mods)
        if q == "builtins.tuple":
            continue
        return _flatten_of(q, mods, seen + (cname,))
    raise Unsupported("no flatten found for " + cname)


def _qualify(expr, mod, mods):
    if isinstance(expr, ast.Name):
        if expr.id == "tuple":
            return "builtins.tuple"
        if expr.id in mods[mod]["classes"]:
            return mod + "." + expr.id
        imp = mods[mod]["imports"].get(expr.id)
        if imp:
            return imp
    if isinstance(expr, ast.Attribute) and isinstance(expr.value, ast.Name) and expr.value.id in ("nodes",):
        # `nodes.X`: X defined in nodes.pyx or imported there from node.pyx
        if expr.attr in mods["nodes"]["classes"]:
            return "nodes." + expr.attr
        imp = mods["nodes"]["imports"].get(expr.attr)
        if imp:
            return imp
    raise Unsupported("%s: cannot resolve %s" % (mod, ast.unparse(expr)))


def analyse_registry(src):
    mods = {}
    for key, rel in (("magic_nodes", MAGIC_NODES), ("nodes", NODES), ("node", NODE)):
        p = os.path.join(src, rel)
        try:
            tree = ast.parse(open(p, encoding="utf8").read(), p)
        except SyntaxError as e:
            raise Unsupported("%s is not plain Python syntax any more: %s" % (rel, e))
        imports = {}
        for n in tree.body:
            if isinstance(n, ast.ImportFrom) and n.module == "mwlib.parser.templ.node":
                for a in n.names:
                    imports[a.asname or a.name] = "node." + a.name
        mods[key] = {"tree": tree, "classes": {n.name: n for n in tree.body if isinstance(n, ast.ClassDef)},
                     "funcs": {n.name: n for n in tree.body if isinstance(n, ast.FunctionDef)}, "imports": imports}
    mn = mods["magic_nodes"]
    reg = [n for n in mn["tree"].body if isinstance(n, ast.Assign) and len(n.targets) == 1
           and isinstance(n.targets[0], ast.Name) and n.targets[0].id == "registry"]
    if len(reg) != 1 or not isinstance(reg[0].value, ast.Dict):
        raise Unsupported("magic_nodes.registry is not a single dict literal")
    for n in ast.walk(mn["tree"]):
        if isinstance(n, ast.Subscript) and isinstance(n.value, ast.Name) and n.value.id == "registry" and isinstance(n.ctx, ast.Store):
            raise Unsupported("registry is modified after its definition")
    out = []
    for k, v in zip(reg[0].value.keys, reg[0].value.values):
        if not (isinstance(k, ast.Constant) and isinstance(k.value, str)):
            raise Unsupported("registry key is not a string literal")
        if isinstance(v, ast.Name) and v.id in mn["funcs"]:
            f = mn["funcs"][v.id]
            # factory function: must accept the children tuple and return a node class instance
            rets = [r for r in ast.walk(f) if isinstance(r, ast.Return)]
            if len(rets) != 1 or not isinstance(rets[0].value, ast.Call):
                raise Unsupported("factory %s: expected a single 'return Class(...)'" % v.id)
            q = _qualify(rets[0].value.func, "magic_nodes", mods)
            fsig, owner = _flatten_of(q, mods)
            out.append({"name": k.value, "target": v.id, "factory": True, "ctor_sig": _sig(f, MAGIC_NODES), "cls": q,
                        "flatten_sig": fsig, "flatten_owner": owner})
        else:
            q = _qualify(v, "magic_nodes", mods)
            fsig, owner = _flatten_of(q, mods)
            # Node subclasses are tuples: Class(children) always binds (no __init__/__new__ may be defined)
            mod, cls = q.split(".")
            chain = [q]
            cur = mods[mod]["classes"][cls]
            curmod = mod
            while True:
                for st in cur.body:
                    if isinstance(st, ast.FunctionDef) and st.name in ("__init__", "__new__"):
                        raise Unsupported("%s defines %s (constructor not modelled)" % (cur.name, st.name))
                nxt = [b for b in cur.bases]
                if not nxt:
                    raise Unsupported("%s does not derive from tuple" % cur.name)
                qq = _qualify(nxt[0], curmod, mods)
                if qq == "builtins.tuple":
                    break
                curmod, c2 = qq.split(".")
                cur = mods[curmod]["classes"][c2]
                chain.append(qq)
            out.append({"name": k.value, "target": q, "factory": False, "ctor_sig": (1, 1, False), "cls": q,
                        "flatten_sig": fsig, "flatten_owner": owner})
    return out


PAD_TEMPLATES = {
    "PADLEFT": '''
def PADLEFT(self, args):
    v0 = args[0]
    try:
        v1 = min(int(args[1]), 0)
    except ValueError:
        return v0
    v2 = args[2] or "0"
    return "".join([v2[v3 % len(v2)] for v3 in range(v1 - len(v0))]) + v0
''',
    "PADRIGHT": '''
def PADRIGHT(self, args):
    v0 = args[0]
    try:
        v1 = min(int(args[1]), 0)
    except ValueError:
        return v0
    v2 = args[2] or "0"
    return v0 + "".join([v2[v3 % len(v2)] for v3 in range(v1 - len(v0))])
''',
}


class _Canon(ast.NodeTransformer):
    """alpha-renames the local variables of one function in order of first binding (parameters keep their names)"""

    def __init__(self, params):
        self.params = set(params)
        self.names = {}

    def visit_Name(self, node):
        if node.id in self.params or (isinstance(node.ctx, ast.Load) and node.id not in self.names):
            return node
        if node.id not in self.names:
            self.names[node.id] = "v%d" % len(self.names)
        return ast.copy_location(ast.Name(id=self.names[node.id], ctx=node.ctx), node)


def _canon_fn(fdef):
    f = ast.parse(ast.unparse(fdef)).body[0]          # private copy, comments and layout gone
    f.decorator_list = []
    f.returns = None
    if f.body and _is_docstring(f.body[0]):
        f.body = f.body[1:]
    for a in f.args.args:
        a.annotation = None
    c = _Canon([a.arg for a in f.args.args])
    # bind in source order: statements are visited top-down, targets before uses matter only for naming
    for st in f.body:
        for n in ast.walk(st):
            if isinstance(n, ast.Name) and isinstance(n.ctx, ast.Store):
                c.visit_Name(n)
    return c.visit(f)


def analyse_pads(src):
    """PADLEFT / PADRIGHT: the ONLY path from the width written in the wikitext to the number of fill characters is
           width = min(int(args[1]), CAP)   under   except ValueError: return args[0]
    (what coq/C03/Magics.v `pad_count`/`padleft`/`padright` model: w = None is the ValueError branch).  The whole function
    body must be the known one up to local variable names and the value of CAP; any other shape (a helper, a second
    conversion such as float(), another exception list, an uncapped branch) raises.  -> {"PADLEFT": cap, "PADRIGHT": cap}"""
    path = os.path.join(src, MAGICS)
    tree = ast.parse(open(path, encoding="utf8").read(), path)
    classes = {n.name: n for n in tree.body if isinstance(n, ast.ClassDef)}
    caps = {}
    for fname, templ in PAD_TEMPLATES.items():
        defs = [(c, f) for c in classes.values() for f in c.body if isinstance(f, ast.FunctionDef) and f.name == fname]
        if len(defs) != 1:
            _fail(tree, "%s: expected exactly one definition, found %d" % (fname, len(defs)))
        cdef, fdef = defs[0]
        if fdef.decorator_list:
            _fail(fdef, "%s is decorated" % fname)
        got = _canon_fn(fdef)
        want = _canon_fn(ast.parse(templ).body[0])
        mins = [n for n in ast.walk(got) if isinstance(n, ast.Call) and isinstance(n.func, ast.Name) and n.func.id == "min"]
        if len(mins) != 1 or len(mins[0].args) != 2 or not (isinstance(mins[0].args[1], ast.Constant)
                                                                and type(mins[0].args[1].value) is int):
            _fail(fdef, "%s: width parsing changed: expected exactly one min(int(args[1]), <int cap>), found %s"
                  % (fname, [ast.unparse(m) for m in mins]))
        cap = mins[0].args[1].value
        mins[0].args[1] = ast.Constant(value=0)
        if _dump(got) != _dump(want):
            calls = sorted({ast.unparse(n.func) for n in ast.walk(got) if isinstance(n, ast.Call)})
            _fail(fdef, "%s: body is not the modelled one (width = min(int(args[1]), CAP) under `except ValueError: return args[0]`, "
                        "fill = cycle of args[2] or '0' over range(width - len(args[0]))); calls now made: %s" % (fname, calls))
        caps[fname] = cap
    return caps


BROAD = {"Exception", "BaseException"}


def _broad_handler(h):
    if h.type is None:
        return True
    ts = h.type.elts if isinstance(h.type, ast.Tuple) else [h.type]
    return any((isinstance(t, ast.Name) and t.id in BROAD) or (isinstance(t, ast.Attribute) and t.attr in BROAD) for t in ts)


def analyse_exception_discipline(src):
    """TemplateRecursion / MemoryLimitError raised while a lazily expanded argument is flattened (ArgumentList.__getitem__/get,
    evaluate.pyx:82-104) must pass through the magic call unchanged (coq/C03/Model.v run_magic: `Err x => Err x`): that is what
    makes the work of a cyclic universe linear in the recursion limit.  Statically:
      * MagicResolver.__call__ does not wrap `method_to_invoke(args)` in a try statement;
      * no method of the mixin classes fetches from its argument-list parameter inside a try statement with a handler for
        Exception / BaseException / everything.
    -> list of problems (empty = discipline holds)"""
    path = os.path.join(src, MAGICS)
    tree = ast.parse(open(path, encoding="utf8").read(), path)
    classes = {n.name: n for n in tree.body if isinstance(n, ast.ClassDef)}
    problems = []
    mr = classes.get("MagicResolver")
    if mr is None:
        return ["class MagicResolver not found"]
    for f in mr.body:
        if isinstance(f, ast.FunctionDef) and f.name == "__call__":
            for t in [n for n in ast.walk(f) if isinstance(n, ast.Try)]:
                inside = [c for st in t.body for c in ast.walk(st)
                          if isinstance(c, ast.Call) and isinstance(c.func, ast.Name) and c.func.id == "method_to_invoke"]
                if inside:
                    problems.append("%s:%d: MagicResolver.__call__ wraps method_to_invoke(args) in try/except %s: exceptions raised while "
                                    "an argument is expanded (TemplateRecursion) no longer pass through the call"
                                    % (MAGICS, t.lineno, [ast.unparse(h.type) if h.type else "<bare>" for h in t.handlers]))
    for b in [x.id for x in mr.bases if isinstance(x, ast.Name) and x.id in classes]:
        for f in classes[b].body:
            if not isinstance(f, ast.FunctionDef) or len(f.args.args) < 2:
                continue
            param = f.args.args[1].arg
            for t in [n for n in ast.walk(f) if isinstance(n, ast.Try)]:
                if not any(_broad_handler(h) for h in t.handlers):
                    continue
                fetch = [n for st in t.body for n in ast.walk(st)
                         if (isinstance(n, ast.Subscript) and isinstance(n.value, ast.Name) and n.value.id == param)
                         or (isinstance(n, ast.Call) and isinstance(n.func, ast.Attribute) and isinstance(n.func.value, ast.Name)
                             and n.func.value.id == param)]
                if fetch:
                    problems.append("%s:%d: %s.%s fetches %s inside try/except Exception: TemplateRecursion raised while that argument "
                                    "is expanded is swallowed" % (MAGICS, t.lineno, b, f.name, ast.unparse(fetch[0])))
    return problems


EXPR = "mwlib/parser/expr.py"
# operator of #expr/#ifexpr -> the callable registered for it by addop (text of the expression, ast.unparse).  This is the
# cost-relevant pin: every one of these works in time/space proportional to the size of its operands and, applied to machine
# floats, returns a machine float or raises (math.pow: OverflowError "math range error" at once) - in particular `^` never
# builds an exact integer power, whose size would be MULTIPLIED by the exponent at every link of a chain 9^64^64^64^64.
# A different callable (a helper, another lambda body, functools.partial, ...) is not "wrong" by itself, but its cost has
# not been reviewed: the translator fails closed and names the operator.
EXPR_IMPL_PINNED = {
    "UMinus": "lambda x: -x", "UPlus": "lambda x: x",
    "^": "math.pow",
    "not": "lambda x: int(not bool(x))", "abs": "abs",
    "sin": "math.sin", "cos": "math.cos", "asin": "math.asin", "acos": "math.acos", "tan": "math.tan", "atan": "math.atan",
    "exp": "math.exp", "ln": "math.log",
    "ceil": "lambda x: int(math.ceil(x))", "floor": "lambda x: int(math.floor(x))", "trunc": "int",
    "e": "lambda x, y: x * math.pow(10, y)", "E": "lambda x, y: x * math.pow(10, y)",
    "*": "lambda x, y: x * y", "/": "lambda x, y: x / y", "div": "lambda x, y: x / y", "mod": "lambda x, y: int(x) % int(y)",
    "+": "lambda x, y: x + y", "-": "lambda x, y: x - y",
    "round": "_myround",
    "<": "lambda x, y: int(x < y)", ">": "lambda x, y: int(x > y)", "<=": "lambda x, y: int(x <= y)",
    ">=": "lambda x, y: int(x >= y)", "!=": "lambda x, y: int(x != y)", "<>": "lambda x, y: int(x != y)",
    "=": "lambda x, y: int(x == y)",
    "and": "lambda x, y: int(bool(x) and bool(y))", "or": "lambda x, y: int(bool(x) or bool(y))",
}
# pinned callable -> size class of coq/C03/ExprSizeModel.v (`ecls`): what Python arithmetic guarantees about the SIZE of the result
EXPR_SIZE_CLASS = {
    "lambda x: -x": "CNeg", "lambda x: x": "CPos", "abs": "CAbs",
    "lambda x: int(not bool(x))": "CBool1",
    "math.sin": "CFloat1", "math.cos": "CFloat1", "math.asin": "CFloat1", "math.acos": "CFloat1", "math.tan": "CFloat1",
    "math.atan": "CFloat1", "math.exp": "CFloat1", "math.log": "CFloat1",
    "lambda x: int(math.ceil(x))": "CToInt", "lambda x: int(math.floor(x))": "CToInt", "int": "CToInt",
    "math.pow": "CFloat2", "lambda x, y: x * math.pow(10, y)": "CFloat2", "lambda x, y: x / y": "CFloat2",
    "lambda x, y: x * y": "CMul", "lambda x, y: x + y": "CAdd", "lambda x, y: x - y": "CSub",
    "lambda x, y: int(x) % int(y)": "CIntMod",
    "_myround": "CRound",
    "lambda x, y: int(x < y)": "CBool2", "lambda x, y: int(x > y)": "CBool2", "lambda x, y: int(x <= y)": "CBool2",
    "lambda x, y: int(x >= y)": "CBool2", "lambda x, y: int(x != y)": "CBool2", "lambda x, y: int(x == y)": "CBool2",
    "lambda x, y: int(bool(x) and bool(y))": "CBool2", "lambda x, y: int(bool(x) or bool(y))": "CBool2",
}
# sha256 of the AST of the only registered callable that is defined in expr.py itself
EXPR_MYROUND_SHA = ("b4a189197f1beec1cc4af0837b523ac722c94dcdfcf2431ed5380a1156df3048",
                    "bcc5866f3a1e881d93b2738f11e173e7354574fd334557d730d7cfcb625d32b9")


def analyse_expr_impl(src):
    """expr.py: the callable behind every operator of #expr is the pinned one.  Reads the registration block between
    `a = addop` and `del a` (every statement must be a call a(<operator>, <prec>, <callable>[, <numargs>])), requires `math` to be
    the stdlib module imported at top level and never rebound, `addop` to store the callable it is given (its AST is pinned by
    hash), and no other write to `functions`.  -> (table {operator: text}, [problems]) ; empty problems = pinned"""
    import hashlib
    path = os.path.join(src, EXPR)
    tree = ast.parse(open(path, encoding="utf8").read(), path)
    top = tree.body
    problems = []
    table = {}
    idx = [i for i, n in enumerate(top) if isinstance(n, ast.Assign) and ast.unparse(n) == "a = addop"]
    if len(idx) != 1:
        return table, ["%s: expected exactly one `a = addop`" % EXPR]
    i = idx[0] + 1
    closed = False
    while i < len(top):
        n = top[i]
        i += 1
        if isinstance(n, ast.Delete) and ast.unparse(n) == "del a":
            closed = True
            break
        if not (isinstance(n, ast.Expr) and isinstance(n.value, ast.Call) and isinstance(n.value.func, ast.Name)
                and n.value.func.id == "a" and not n.value.keywords and len(n.value.args) in (3, 4)):
            problems.append("%s:%d: unexpected statement in the operator table: %s" % (EXPR, n.lineno, ast.unparse(n)[:80]))
            continue
        op = n.value.args[0]
        if isinstance(op, ast.Constant) and isinstance(op.value, str):
            sym = op.value
        elif isinstance(op, ast.Name) and op.id in ("UMinus", "UPlus"):
            sym = op.id
        else:
            problems.append("%s:%d: operator is not a string literal / UMinus / UPlus" % (EXPR, n.lineno))
            continue
        ftxt = ast.unparse(n.value.args[2])
        if sym in table:
            problems.append("%s:%d: operator %r registered twice" % (EXPR, n.lineno, sym))
        table[sym] = ftxt
        want = EXPR_IMPL_PINNED.get(sym)
        if want is None:
            problems.append("%s:%d: new operator %r implemented by %s: cost not reviewed" % (EXPR, n.lineno, sym, ftxt))
        elif ftxt != want:
            problems.append("%s:%d: operator %r is implemented by `%s`, pinned implementation is `%s` (cost of the new callable "
                            "not reviewed: e.g. an exact integer power makes 9^64^64^64^64 astronomically large)"
                            % (EXPR, n.lineno, sym, ftxt, want))
    if not closed:
        problems.append("%s: `del a` not found after the operator table" % EXPR)
    for sym in EXPR_IMPL_PINNED:
        if sym not in table:
            problems.append("%s: operator %r is no longer registered" % (EXPR, sym))
    # `math` is the stdlib module, bound once by `import math`
    imports = [n for n in ast.walk(tree) if isinstance(n, ast.Import) and any(al.name == "math" for al in n.names)]
    if len(imports) != 1 or imports[0] not in top or any(al.asname for al in imports[0].names if al.name == "math"):
        problems.append("%s: `import math` at module level (exactly once, no alias) expected" % EXPR)
    for n in ast.walk(tree):
        if isinstance(n, ast.Name) and n.id in ("math", "abs", "int", "round", "bool", "addop") and not isinstance(n.ctx, ast.Load):
            problems.append("%s:%d: name %r rebound" % (EXPR, n.lineno, n.id))
        if isinstance(n, ast.ImportFrom) and any((al.asname or al.name) in ("math", "abs", "int", "round", "bool") for al in n.names):
            problems.append("%s:%d: from-import rebinds a pinned name" % (EXPR, n.lineno))
        if isinstance(n, (ast.FunctionDef, ast.ClassDef)) and n.name in ("math", "abs", "int", "round", "bool"):
            problems.append("%s:%d: def/class %s shadows a pinned name" % (EXPR, n.lineno, n.name))
        if isinstance(n, ast.arg) and n.arg in ("math",):
            problems.append("%s:%d: parameter named math" % (EXPR, n.lineno))
    defs = {n.name: n for n in top if isinstance(n, ast.FunctionDef)}
    for name, want in (("_myround", EXPR_MYROUND_SHA),
                       ("addop", ("68f8ac4c2e0af38bcaf9bb103f923486ef9c1948a47c59193b76a8ccc12390fd",))):
        if name not in defs:
            problems.append("%s: def %s missing" % (EXPR, name))
            continue
        got = hashlib.sha256(_dump(defs[name]).encode()).hexdigest()
        if got not in want:
            problems.append("%s:%d: def %s changed (sha256 of its AST %s): review its cost" % (EXPR, defs[name].lineno, name, got))
    # no write to the dispatch dict outside addop
    for tn in top:
        if tn is defs.get("addop"):
            continue
        for n in ast.walk(tn):
            if isinstance(n, ast.Subscript) and not isinstance(n.ctx, ast.Load) and isinstance(n.value, ast.Name) and n.value.id == "functions":
                problems.append("%s:%d: `functions` written outside addop" % (EXPR, n.lineno))
            if (isinstance(n, ast.Attribute) and isinstance(n.value, ast.Name) and n.value.id == "functions"
                    and n.attr in ("update", "setdefault", "pop", "clear", "__setitem__")):
                problems.append("%s:%d: functions.%s outside addop" % (EXPR, n.lineno, n.attr))
    return table, problems


def analyse(src):
    res = analyse_magics(src)
    res["discipline"] = analyse_exception_discipline(src)
    try:
        res["expr_impl"], res["expr_impl_problems"] = analyse_expr_impl(src)
    except (OSError, SyntaxError) as e:
        res["expr_impl"], res["expr_impl_problems"] = {}, ["%s: %s" % (EXPR, e)]
    res["registry"] = analyse_registry(src)
    from vt.gen import c03_static
    res["pp"] = c03_static.analyse_pp(src)
    res["regexes"] = c03_static.analyse_regexes(src)
    try:
        res["arg_reads"] = c03_static.analyse_arg_reads(src, res["magics"])
    except (c03_static.Unsupported, OSError, SyntaxError) as e:
        res["arg_reads"] = {"reads": {}, "problems": ["%s: %s" % (MAGICS, e)]}
    try:
        res["pads"] = analyse_pads(src)
    except Unsupported as e:      # reported by generate() (fail-closed); the search must still be able to enumerate the names
        res["pads"] = {"error": str(e)}
    return res


# ----------------------------------------------------------------------------- Gallina

def _ident(s):
    return "".join(ch if ch.isalnum() else "_" for ch in s)


def _coq_sig(s):
    return "(mkSig %d %d %s)" % (s[0], s[1], "true" if s[2] else "false")


def render(info):
    L = []
    L.append("(* GENERATED by vt/gen/c03_magics.py from /repo/src/%s and %s on every run - do not edit. *)" % (MAGICS, MAGIC_NODES))
    L.append("From Coq Require Import List NArith ZArith Bool.")
    L.append("From MW Require Import Common.Str C03.Magics C03.ExprSizeModel.")
    L.append("Import ListNotations.")
    L.append("")
    L.append("(* MagicResolver.__call__: method_to_invoke(args) - number of explicit positional arguments *)")
    L.append("Definition resolver_call_args : nat := %d." % info["call_nargs"])
    L.append("Definition accepts_args_call (m : magic) : bool := accepts_call resolver_call_args m.")
    L.append("")
    for name in sorted(info["decorators"]):
        d = info["decorators"][name]
        inner = "Forward" if d["inner"][0] == "forward" else "(Fixed %d)" % d["inner"][1]
        L.append("(* magics.py:%d  def %s *)" % (d["line"], name))
        L.append("Definition deco_%s : deco := mkDeco %s %s." % (_ident(name), _coq_sig(d["sig"]), inner))
    L.append("")
    L.append("Definition all_magics : list magic := [")
    rows = []
    for m in info["magics"]:
        layers = "[" + "; ".join("deco_" + _ident(x) for x in m["layers"]) + "]"
        rows.append("  (* %s  %s.%s  %s  (magics.py:%d) *)\n  mkMagic %s %s %s %s %s" % (
            m["name"], m["cls"], m["name"], m["origin"], m["line"], core.coq_str(m["name"]), layers, _coq_sig(m["sig"]),
            "true" if m["bound"] else "false", "true" if m["strconst"] else "false"))
    L.append(";\n".join(rows))
    L.append("].")
    L.append("")
    L.append("(* PADLEFT / PADRIGHT (StringMagic): the only path from the width written in the wikitext to the fill count is")
    L.append("   width = min(int(args[1]), CAP) under `except ValueError: return args[0]` (whole body pinned by the translator) *)")
    L.append("Definition gen_pad_cap_left : Z := %d%%Z." % info["pads"]["PADLEFT"])
    L.append("Definition gen_pad_cap_right : Z := %d%%Z." % info["pads"]["PADRIGHT"])
    L.append("")
    L.append("(* exception-propagation discipline (vt/gen/c03_magics.py analyse_exception_discipline): method_to_invoke(args) is not")
    L.append("   inside a try statement and no magic fetches an argument inside `try .. except Exception`: number of violations *)")
    L.append("Definition gen_discipline_violations : nat := %d." % len(info["discipline"]))
    L.append("")
    L.append("(* #expr operator table (vt/gen/c03_magics.py analyse_expr_impl): operator -> registered callable, each equal to the pinned")
    L.append("   one (`^` -> math.pow, ...); number of operators whose callable is not the pinned one *)")
    for sym in sorted(info["expr_impl"]):
        L.append("(*   %-7s %s *)" % (sym.replace("*", "(times)"), info["expr_impl"][sym].replace("*", "(times)")))
    L.append("Definition gen_expr_operators : nat := %d." % len(info["expr_impl"]))
    L.append("(* the size class (ExprSizeModel.ecls) of each registered callable; an unknown callable has no class and fails the translator *)")
    L.append("Definition gen_expr_classes : list (str * ecls) := [")
    L.append(";\n".join("  (%s, %s)" % (core.coq_str(sym if sym not in ("UMinus", "UPlus") else "u" + sym[1:]), EXPR_SIZE_CLASS[info["expr_impl"][sym]])
                        for sym in sorted(info["expr_impl"]) if info["expr_impl"][sym] in EXPR_SIZE_CLASS))
    L.append("].")
    L.append("Definition gen_expr_impl_violations : nat := %d." % len(info["expr_impl_problems"]))
    L.append("")
    L.append("(* pp.py (vt/gen/c03_static.py analyse_pp): the regular expressions run over every page and template text by pp.preprocess,")
    L.append("   evaluated statically from the source; each is one of the reviewed patterns and contains no unbounded repetition nested in an")
    L.append("   unbounded repetition over overlapping character classes (catastrophic backtracking) *)")
    for pat in info["pp"]["patterns"]:
        L.append("(*   %s *)" % pat.replace("*", "(star)"))
    L.append("Definition gen_pp_patterns : nat := %d." % len(info["pp"]["patterns"]))
    L.append("Definition gen_pp_regex_violations : nat := %d." % len(info["pp"]["problems"]))
    L.append("")
    L.append("(* every other regular expression of the expansion path (vt/gen/c03_static.py analyse_regexes): magics.py (#iferror), magic_time.py,")
    L.append("   magic_nodes.py, expr.py (tokenizer), templ/parser.py (#if/#switch name matchers), templ/scanner.py; each pinned by file + sha256 +")
    L.append("   flags, run-time built patterns only from a pinned statement joining re.escape()d literals, none with nested overlapping quantifiers *)")
    for rel, pat, fv in info["regexes"]["patterns"]:
        L.append("(*   %s  flags=%d  %s *)" % (rel.split("/")[-1], fv, " ".join(pat.replace("*", "(star)").replace('"', "(dq)").split())[:160]))
    L.append("Definition gen_regex_patterns : nat := %d." % len(info["regexes"]["patterns"]))
    L.append("Definition gen_regex_violations : nat := %d." % len(info["regexes"]["problems"]))
    L.append("")
    L.append("(* reads of lazily expanded arguments (vt/gen/c03_static.py analyse_arg_reads): ArgumentList.get(int) re-expands the node on every")
    L.append("   read; maximal number of reads of args[i] along one control path of each magic (decorator wrappers included);")
    L.append("   violations = (magic, i) read more often than once (or through a run-time index) beyond the reviewed allow-list *)")
    for name in sorted(info["arg_reads"]["reads"]):
        r = info["arg_reads"]["reads"][name]
        if r:
            L.append("(*   %-18s %s *)" % (name, " ".join("args[%s]x%s" % (k, v) for k, v in r.items())))
    L.append("Definition gen_arg_read_magics : nat := %d." % len(info["arg_reads"]["reads"]))
    L.append("Definition gen_arg_reread_violations : nat := %d." % len(info["arg_reads"]["problems"]))
    L.append("")
    L.append("Definition dummy_names : list str := [%s]." % "; ".join(core.coq_str(n) for n in info["dummies"]))
    L.append("")
    L.append("Definition magic_registry : list regentry := [")
    rows = []
    for r in info["registry"]:
        rows.append("  (* %s -> %s ; flatten from %s *)\n  mkReg %s %s %s" % (
            r["name"], r["target"], r["flatten_owner"], core.coq_str(r["name"]), _coq_sig(r["ctor_sig"]), _coq_sig(r["flatten_sig"])))
    L.append(";\n".join(rows))
    L.append("].")
    L.append("")
    return "\n".join(L)


def generate(src):
    info = analyse(src)
    if "error" in info["pads"]:
        raise Unsupported(info["pads"]["error"])
    if info["expr_impl_problems"]:
        raise Unsupported("#expr operator implementations not pinned: " + " || ".join(info["expr_impl_problems"][:4]))
    if info["discipline"]:
        raise Unsupported("exception-propagation discipline of magic calls broken: " + " || ".join(info["discipline"][:4]))
    if info["pp"]["problems"]:
        raise Unsupported("preprocessor regular expressions not pinned / not backtracking-safe: " + " || ".join(info["pp"]["problems"][:3]))
    if info["regexes"]["problems"]:
        raise Unsupported("regular expressions of the expansion path not pinned / not backtracking-safe: " + " || ".join(info["regexes"]["problems"][:3]))
    if info["arg_reads"]["problems"]:
        raise Unsupported("a magic reads a lazily expanded argument more than once: " + " || ".join(info["arg_reads"]["problems"][:4]))
    core.write_if_changed(os.path.join(core.COQ, "C03", "Gen_magics.v"), render(info))
    return info
